"""Checks C01 C02 C03 C13 C14 (DESIGN.md section 6): exhaustive TLC run of the bounded Processor model,
TLC-generated and seeded adversarial histories replayed on the real handlers, recorded traces validated
line by line against Processor.tla."""
import json
import os
import re
import time
from collections import Counter

import fam_gossip as fg
import fam_p2ploop as fl
import fam_processor as fp
import vlib

PROPS = ["C01", "C02", "C03", "C13", "C14"]

PROC_NOTE = ("Histories are replayed twice: by calling the handlers directly (each call under a stall watchdog) and through the real Processor.Run select loop; they include "
             "guardian-set rotations, process restarts on the same store, store faults and a full outbound request queue. "
             "Trusted: TLC, the Go toolchain, ECDSA/Keccak. The exhaustive run is at scaled constants (3-4 keys, 2 digests); "
             "the bridge to real sizes (sets of 1..19, real keys, real Badger store) is trace validation of replayed TLC "
             "behaviours and seeded adversarial histories. Time is simulated by shifting recorded instants in-package.")

MANIFEST = {
    "C01": dict(text="Processor.tla is model-checked exhaustively (StoredValid, BroadcastValid, NoPeerOverwrite) and every handler call "
                     "of replayed/generated histories on the real processor is validated by TLC against the same actions, with the "
                     "stored and broadcast VAAs decoded and their signers recovered independently of the code under test.",
                ref="6/C01", note=PROC_NOTE, technique="TLA+ model checking (TLC) + trace validation of the real handlers against Processor.tla"),
    "C02": dict(text="Same specification; PublishAsSoonAs, NoPublishWithoutObservation, AtMostOncePerLifetime checked exhaustively; "
                     "conformance of the real handlers on TLC behaviours, random histories and all orders of fixed event multisets.",
                ref="6/C02", note=PROC_NOTE, technique="TLA+ model checking (TLC) + trace validation incl. permutation (confluence) histories"),
    "C03": dict(text="InvalidObservationNoEffect is model-checked; the real observation handler is driven with every single-mutation class of "
                     "valid observations before/after set changes and TLC validates that the projected state is unchanged. Gossip.tla "
                     "(heartbeat / request verifiers, the table cap also under concurrent calls) and P2PLoop.tla (the receive and send loops "
                     "of p2p.Run: routing by kind, own publications ignored, only verified requests reach the router, the node's own requests "
                     "and heartbeats signed under their domain) are model-checked, and the real verifiers and the real p2p.Run - libp2p host, "
                     "DHT, GossipSub, under a real supervisor, with harness peers on a simulated transport - are validated line by line.",
                ref="6/C03", note=PROC_NOTE + " The transport below libp2p is simulated (quic multiaddrs carried over loopback TCP with libp2p-TLS and yamux through "
                "libp2p's own upgrader), because quic-go does not compile with the installed toolchain; everything above it is the unmodified code. A rejection of the "
                "real-time p2p.Run leg counts only if the same history, replayed alone, is rejected again with the same signature.",
                technique="TLA+ model checking (TLC) + trace validation of the gossip verifiers and of the real p2p.Run loop (simulated transport)"),
    "C13": dict(text="The specification is total over the adversarial input alphabet; histories over that alphabet (TLC behaviours and seeded "
                     "generators) run on the real handlers under recover(); a panic is a trace line no specification action matches.",
                ref="6/C13", note=PROC_NOTE, technique="TLA+ specification as generator/oracle (TLC) + trace validation; panic = rejected line"),
    "C14": dict(text="Cleanup decision table model-checked with scaled thresholds (NoEarlyDiscard, RetryCadence, RetryOnlyWhenDue, BoundedLife); the real "
                     "handleCleanup is validated on histories of ticks and elapsed durations from 1 s to 120 h, with a full outbound "
                     "request queue and with an unbuffered broadcast queue whose reader is busy; the fairness assumption of CleanupTick "
                     "is checked in real time on the real Run loop and its real tick source under steady gossip (one tick period).",
                ref="6/C14", note=PROC_NOTE, technique="TLA+ model checking (TLC) + trace validation of handleCleanup with simulated time + "
                                                        "real-time check of the tick source (fairness assumption of the specification)"),
}


PLAN = {
    # prop: tier: (mc configs, (tlc scenarios n, depth, overrides), [(generator profile, n)])
    "C01": {"quick": (["MC_Processor_quick.cfg"], (150, 14, {}), [("aggregation", 200), ("setchange", 150)]),
            "thorough": (["MC_Processor_thorough.cfg"], (3000, 18, {}), [("aggregation", 6000), ("setchange", 4000)])},
    "C02": {"quick": (["MC_Processor_quick.cfg"], (150, 14, {"MaxBad": 1, "MaxInbound": 1}), [("aggregation", 150), ("setchange", 150), ("governance", 60), ("permutations", 40)]),
            "thorough": (["MC_Processor_thorough.cfg"], (3000, 18, {"MaxBad": 1, "MaxInbound": 1}), [("aggregation", 4000), ("setchange", 4000), ("governance", 1500), ("permutations", 400)])},
    "C03": {"quick": (["MC_Processor_quick.cfg"], (100, 12, {"MaxBad": 4, "MaxInbound": 0}), [("byzantine", 250), ("setchange", 100)]),
            "thorough": (["MC_Processor_thorough.cfg"], (2000, 16, {"MaxBad": 6, "MaxInbound": 0}), [("byzantine", 5000), ("setchange", 2000)])},
    "C13": {"quick": (["MC_Processor_quick.cfg"], (150, 14, {"TimeSteps": "{31, 301, 3601}"}), [("adversarial", 300), ("cleanup", 100), ("setchange", 60)]),
            "thorough": (["MC_Processor_quick.cfg"], (3000, 20, {"TimeSteps": "{31, 301, 3601}"}), [("adversarial", 8000), ("cleanup", 2000), ("setchange", 2000)])},
    "C14": {"quick": (["MC_Processor_cleanup_quick.cfg"], (150, 18, {"TimeSteps": "{30, 270, 300, 3600}", "MaxBad": 0, "MaxUpd": 1, "SetIdxs": "{0}"}),
                      [("cleanup", 250)]),
            "thorough": (["MC_Processor_cleanup_thorough.cfg"], (2000, 24, {"TimeSteps": "{30, 270, 300, 3600}", "MaxBad": 0, "MaxUpd": 1, "SetIdxs": "{0}"}),
                         [("cleanup", 6000)])},
}

ASSUME = [
    "ECDSA/Keccak are trusted; the harness recovers signers and digests with its own calls, not with the code under test",
    "guardian sets have pairwise distinct keys (the admin path rejects duplicates)",
    "elapsed time is simulated by shifting the recorded instants of aggregation entries inside the package; a scenario "
    "runs in < 1 s of real time so every wall-clock comparison is `elapsed >= T` (scenarios that took longer are discarded)",
    "exhaustive TLC run uses scaled constants (3-4 keys, 2 digests, bounded byzantine/inbound/set-update budgets)",
    "the Discord notifier is a stand-in built by reflection (no channels, a group id for every guardian name): the miss-notification branch of "
    "handleCleanup and the goroutine it starts run in every history, but nothing is sent and the Discord API client is never reached",
]


def pre_class(prev, line):
    s = prev or {}
    ev = line["ev"]
    a = line.get("a", {})
    gs = s.get("gs") or []
    nkeys = len(gs[0]["keys"]) if gs else -1
    d = None
    for k in ("m", "v", "o", "w"):
        if k in a:
            d = a[k].get("d")
    if ev == "Loopback":
        d = a.get("d")
    e = (s.get("agg") or {}).get(d)
    ec = None
    if e:
        snap = e["snap"][0]["keys"] if e["snap"] else (gs[0]["keys"] if gs else [])
        ins = len([x for x in e["sigs"] if x in snap])
        qq = (2 * len(snap)) // 3 + 1
        ec = (bool(e["our"]), e["submitted"], (ins > qq - 1) - (ins < qq - 1), min(e["retry"], 3))
    extra = None
    if ev == "Observation":
        o = a["o"]
        extra = (o["signer"] == o["claimed"], o["over"] == o["d"], o["signer"] in ("ERR", "JUNK"), o.get("shape"))
    if ev == "InboundVAA":
        w = a["w"]
        extra = (w["ok"], len(w["sigs"]) - ((2 * max(nkeys, 0)) // 3 + 1) if nkeys >= 0 else None, w.get("shape"))
        extra = (extra[0], None if extra[1] is None else max(-2, min(2, extra[1])), extra[2])
    outk = tuple(sorted(o["kind"] for o in line["s"].get("out", [])))
    return (ev, min(nkeys, 5) if nkeys < 19 else 19, ec, extra, outk, len(s.get("db") or {}) > 0)


def run_gossip(work, tier, seed, verdict):
    """C03, heartbeat / observation-request verifiers of pkg/p2p against Gossip.tla."""
    r = vlib.tlc_must_pass(work, "MC_Gossip", "MC_Gossip.cfg", workers=vlib.NCPU, timeout=1200)
    print("TLC MC_Gossip.cfg: %d distinct states, %d transitions, %.0fs" % (r["distinct"], r["generated"], r["wall_s"]))
    n_tlc, n_gen = (60, 150) if tier == "quick" else (1500, 4000)
    scs = fg.tlc_scenarios(work, n_tlc, 12, seed) + fg.gen_scenarios(seed, n_gen)
    lines, wall, skipped = fg.replay(work, scs)
    rejs, tr = fg.validate(work, lines)
    print("gossip verifiers: %d histories, %d verifier calls replayed in %.1fs; trace validation %d states, %d rejected line(s)"
          % (len(scs), len(lines), wall, tr["distinct"], len(rejs)))
    byn = {(ln["t"], ln["n"]): ln for ln in lines}
    for rj in rejs:
        ln = byn.get((rj["t"], rj["n"]), {"ev": rj.get("ev"), "a": {}, "s": {}})
        sc = scs[rj["t"] - 1] if 0 < rj["t"] <= len(scs) else None
        verdict.add(fg.signature(rj, ln), {"line": ln, "why": rj.get("why"), "spec_state": rj.get("spec"), "tlc": rj.get("tlc"), "gossip_scenario": sc})
    classes = set()
    verdicts = Counter()
    for ln in lines:
        e = ln.get("a", {}).get("e")
        if e:
            classes.add((e["kind"], e["signer"] == e["claimed"], e["dom"], e["same"], e["parses"],
                         (e["plen"] + (10 if e["kind"] == "hb" else 27) >= 34), e.get("shape"), ln["s"].get("verdict")))
            verdicts["%s:%s" % (ln["ev"], ln["s"].get("verdict"))] += 1
    maxpeers = max([len(v) for ln in lines for v in (ln.get("s", {}).get("hb") or {}).values()] or [0])
    return {"states": r["distinct"], "transitions": r["generated"], "traces": len(scs), "verifier_calls": len(lines) - len(scs),
            "distinct_classes": len(classes), "verdicts": dict(verdicts), "max_peers_seen_for_one_guardian": maxpeers,
            "abstract_envelopes_without_concrete_counterpart": skipped, "rejected_lines": len(rejs)}


def run_p2ploop(work, tier, seed, verdict):
    """C03, routing part: the real p2p.Run (libp2p host, GossipSub, receive and send loops) over the simulated
    transport, validated against P2PLoop.tla."""
    r = vlib.tlc_must_pass(work, "MC_P2PLoop", "MC_P2PLoop.cfg", workers=vlib.NCPU, timeout=1200)
    print("TLC MC_P2PLoop.cfg: %d distinct states, %d transitions, %.0fs" % (r["distinct"], r["generated"], r["wall_s"]))
    n, hb, n_tlc = (16, 0, 8) if tier == "quick" else (160, 4, 80)
    scs = fl.gen_scenarios(seed, n, own_hb=hb) + fl.tlc_scenarios(work, n_tlc, 12, seed)
    lines, wall, info = fl.replay(work, scs)
    if lines is None:
        verdict.add("loop/crash/" + re.sub(r"[^A-Za-z0-9]+", "-", info["crash"])[:80], {"why": "the process running p2p.Run crashed", "stack": info["stack"]})
        return {"states": r["distinct"], "transitions": r["generated"], "traces": 0, "lines": 0, "distinct_classes": 0, "crash": info["crash"]}
    rejs, tr = fl.validate(work, lines)
    byn = {(ln["t"], ln["n"]): ln for ln in lines}
    # pubsub is best effort and the harness real-time: a rejection counts only if the same history, replayed alone,
    # is rejected again with the same signature
    first = {}
    for rj in rejs:
        ln = byn.get((rj["t"], rj["n"]), {"ev": rj.get("ev"), "a": {}, "s": {}})
        first.setdefault(rj["t"], (fl.signature(rj, ln), rj, ln))
    confirmed = 0
    if first:
        ids = sorted(t for t in first if 0 < t <= len(scs))
        again = [scs[t - 1] for t in ids]
        lines2, wall2, info2 = fl.replay(work, again)
        if lines2 is None:
            verdict.add("loop/crash/" + re.sub(r"[^A-Za-z0-9]+", "-", info2["crash"])[:80], {"why": "the process running p2p.Run crashed", "stack": info2["stack"]})
        else:
            rejs2, _ = fl.validate(work, lines2)
            byn2 = {(ln["t"], ln["n"]): ln for ln in lines2}
            sigs2 = {}
            for rj in rejs2:
                ln = byn2.get((rj["t"], rj["n"]), {"ev": rj.get("ev"), "a": {}, "s": {}})
                sigs2.setdefault(rj["t"], (fl.signature(rj, ln), rj, ln))
            for k, t in enumerate(ids):
                if (k + 1) in sigs2 and sigs2[k + 1][0] == first[t][0]:
                    sig, rj, ln = sigs2[k + 1]
                    if sig in ("loop/broken",):
                        raise vlib.Broken("p2p loop harness could not drive the node: %s" % json.dumps(ln.get("s"))[:500])
                    confirmed += 1
                    verdict.add(sig, {"line": ln, "why": rj.get("why"), "spec_state": rj.get("spec"), "tlc": rj.get("tlc"), "loop_scenario": again[k], "reproduced": True})
                else:
                    print("p2p loop: rejection of history %d (%s) did not reproduce when replayed alone; not counted" % (t, first[t][0]))
    if info.get("broken", 0) > len(scs) // 4:
        raise vlib.Broken("p2p loop harness: %d of %d histories could not be driven: %s" % (info["broken"], len(scs), info.get("errors", [])[:3]))
    classes = set()
    evs = Counter()
    for ln in lines:
        evs[ln["ev"]] += 1
        m = ln.get("a", {}).get("m")
        if m:
            e = m.get("e", {})
            classes.add((m["kind"], m["from"] == "self", m["decodes"], e.get("signer") == e.get("claimed"), e.get("dom"), e.get("same"),
                         e.get("parses"), e.get("short"), bool(ln["s"].get("fwd")), bool(ln["s"].get("obs")), bool(ln["s"].get("vaa")), len(ln["s"].get("gs", [])) > 0))
    print("p2p.Run loop: %d histories, %d lines (%s) in %.1fs; trace validation %d states, %d rejected line(s), %d reproduced"
          % (len(scs), len(lines), ", ".join("%s %d" % kv for kv in sorted(evs.items())), wall, tr["distinct"], len(rejs), confirmed))
    need = {"NetRecv", "LocalSend", "LocalReq", "GSetUpdate", "End"}
    if not verdict.items and not need <= set(evs):
        raise vlib.Broken("p2p loop harness exercised only %s" % sorted(evs))
    return {"states": r["distinct"], "transitions": r["generated"], "traces": len(scs), "lines": len(lines) - len(scs),
            "distinct_classes": len(classes), "events": dict(evs), "rejected_lines": len(rejs), "reproduced": confirmed,
            "checked": ["RouterInputVerified", "KindRouting", "RecvNeverPublishes", "CapHolds", "own publications ignored", "LocalSend publishes the bytes unchanged",
                        "LocalReq: one loop-back + a request signed under the request domain", "own heartbeat signed under the heartbeat domain (thorough)"]}


def quorum_use_sites(work, tier, seed, verdict):
    """C07 (called by chk_format): the threshold at its use sites in the node - handleInboundSignedVAAWithQuorum and the
    publication decision of handleObservation - for every set size 1..19, decided by Trace_Processor like every other
    handler call.  Returns coverage for the evidence file."""
    sizes = list(range(1, 20)) * (1 if tier == "quick" else 6)
    scs = fp.quorum_site_scenarios(seed, sizes)
    try:
        lines, wall = fp.replay(work, scs, "C07S")
    except fp.Crash as c:
        verdict.add("usesite/" + c.sig, {"why": "the processor died on a quorum use-site history", "tail": c.tail[-3000:]})
        return {"histories": len(scs), "crashed": True}
    rejs, r = fp.validate(work, lines, "C07S")
    print("quorum use sites: %d histories (set sizes 1..19, %d handler calls) on the real processor in %.1fs; trace validation %d states, %d rejected line(s)"
          % (len(scs), len(lines), wall, r["distinct"], len(rejs)))
    byn = {(ln["t"], ln["n"]): ln for ln in lines}
    for rj in rejs:
        ln = byn.get((rj["t"], rj["n"]), {"ev": rj.get("ev"), "a": {}, "s": {}})
        props, comps = fp.attribute(rj, ln)
        sc = scs[rj["t"] - 1] if 0 < rj["t"] <= len(scs) else None
        nkeys = len(sc["steps"][0]["a"]["set"]["keys"]) if sc else -1
        verdict.add("usesite/n=%d/%s" % (nkeys, fp.signature(rj, ln, comps)),
                    {"line": ln, "why": rj.get("why"), "spec_state": rj.get("spec"), "components": sorted(comps), "scenario": sc})
    # the same histories through the real Run loop (a set update is installed by Run itself)
    try:
        llines, lwall = fp.replay(work, scs, "C07SL", runloop=True)
    except fp.Crash as c:
        verdict.add("usesite/runloop/" + c.sig, {"why": "the processor died on a quorum use-site history", "tail": c.tail[-3000:]})
        return {"histories": len(scs), "crashed": True}
    lslow = {ln["t"] for ln in llines if ln["ev"] == "Slow"}
    llines = [ln for ln in llines if ln["t"] not in lslow]
    lrejs, lr = fp.validate(work, llines, "C07SL")
    print("quorum use sites, run-loop mode: %d lines through Processor.Run in %.1fs; %d rejected line(s)" % (len(llines), lwall, len(lrejs)))
    lbyn = {(ln["t"], ln["n"]): ln for ln in llines}
    for rj in lrejs:
        ln = lbyn.get((rj["t"], rj["n"]), {"ev": rj.get("ev"), "a": {}, "s": {}})
        props, comps = fp.attribute(rj, ln)
        sc = scs[rj["t"] - 1] if 0 < rj["t"] <= len(scs) else None
        nkeys = len(sc["steps"][0]["a"]["set"]["keys"]) if sc else -1
        verdict.add("usesite/runloop/n=%d/%s" % (nkeys, fp.signature(rj, ln, comps)),
                    {"line": ln, "why": rj.get("why"), "spec_state": rj.get("spec"), "components": sorted(comps), "scenario": sc, "mode": "run-loop"})
    inbound = Counter()
    for ln in lines:
        if ln["ev"] == "InboundVAA":
            inbound["stored" if ln["s"].get("db") and ln["a"]["w"]["id"] in ln["s"]["db"] else "refused"] += 1
    return {"histories": len(scs), "handler_calls": len(lines), "trace_spec_states": r["distinct"], "rejected": len(rejs),
            "run_loop_lines": len(llines), "run_loop_rejected": len(lrejs), "histories_with_set_change": sum(1 for sc in scs if sc["src"].endswith("setchange")),
            "inbound_vaas": dict(inbound), "published": sum(1 for ln in lines for o in ln["s"].get("out", []) if o["kind"] == "vaa")}


def verify_use_sites(work, tier, seed, verdict):
    """C06 (called by chk_format): the two places of observation.go that verify signatures - the single signature of a
    gossiped observation and VerifySignatures on an inbound signed VAA - driven with the corruption classes of the
    property (forged, other digest, wrong address, outsider, swapped / duplicated / re-indexed / junk entries).  Only
    lines whose INPUT is such a corruption are counted: what the node does with valid traffic belongs to C01/C02."""
    n_agg, n_byz = (120, 150) if tier == "quick" else (2500, 3000)
    scs = fp.gen_scenarios(seed + 606, n_agg, "aggregation") + fp.gen_scenarios(seed + 606, n_byz, "byzantine")
    try:
        lines, wall = fp.replay(work, scs, "C06S")
    except fp.Crash as c:
        verdict.add("usesite/" + c.sig, {"why": "the processor died on a signature-verification use-site history", "tail": c.tail[-3000:]})
        return {"histories": len(scs), "crashed": True}
    slow = {ln["t"] for ln in lines if ln["ev"] == "Slow"}
    lines = [ln for ln in lines if ln["t"] not in slow]
    rejs, r = fp.validate(work, lines, "C06S")
    byn = {(ln["t"], ln["n"]): ln for ln in lines}
    counted = other = 0
    for rj in rejs:
        ln = byn.get((rj["t"], rj["n"]), {"ev": rj.get("ev"), "a": {}, "s": {}})
        props, comps = fp.attribute(rj, ln)
        mine = False
        if ln.get("ev") == "Observation":
            o = ln["a"]["o"]
            mine = (o["signer"] in ("ERR", "JUNK") or o["signer"] != o["claimed"] or o["over"] != o["d"]
                    or str(o.get("shape", "")).startswith("prehash"))
        elif ln.get("ev") == "InboundVAA":
            sg = ln["a"]["w"].get("sigs", [])
            idx = [x["idx"] for x in sg]
            mine = (any(x["signer"] in ("ERR", "JUNK") or not str(x["signer"]).startswith(("g", "h")) for x in sg)
                    or idx != sorted(set(idx)) or "panic" in comps)
        if "panic" in comps and ln.get("ev") in ("Observation", "InboundVAA"):
            mine = True
        if mine:
            counted += 1
            sc = scs[rj["t"] - 1] if 0 < rj["t"] <= len(scs) else None
            verdict.add("usesite/" + fp.signature(rj, ln, comps),
                        {"line": ln, "why": rj.get("why"), "spec_state": rj.get("spec"), "components": sorted(comps), "scenario": sc})
        else:
            other += 1
    nin = sum(1 for ln in lines if ln["ev"] == "InboundVAA")
    nobs = sum(1 for ln in lines if ln["ev"] == "Observation")
    print("signature-verification use sites of the node: %d histories (%d observations, %d inbound VAAs) in %.1fs; trace validation %d states, "
          "%d rejected line(s) with a corrupted input, %d other" % (len(scs), nobs, nin, wall, r["distinct"], counted, other))
    return {"histories": len(scs), "observations": nobs, "inbound_vaas": nin, "trace_spec_states": r["distinct"],
            "rejected_with_corrupted_input": counted, "rejected_other_properties": other}


def crashed(prop, tier, c, t0, mc_states, mc_trans, n):
    """The whole test process died from a panic in the package under test (typically in a goroutine the code itself
    spawned, which no recover() of the harness can reach).  For C13 that is the violation itself; the other
    properties cannot be decided on a process that dies, and say so."""
    if prop != "C13":
        raise vlib.Broken("the processor process crashed (%s); ./check C13 reports this as a violation\n%s" % (c.sig, c.tail[-1500:]))
    verdict = vlib.Verdict(prop)
    verdict.add(c.sig, {"why": "unrecovered panic killed the process while replaying histories", "output_tail": c.tail})
    rc = verdict.finish()
    vlib.write_evidence(prop, tier, "model_checking",
                        {"states": max(mc_states, 1), "transitions": max(mc_trans, 1), "traces_validated_against_impl": 0,
                         "samples": [{"crash": c.sig}], "evaluations": 1, "distinct_nontrivial": 2,
                         "rule": "the replay process died; no trace could be validated", "histories_planned": n},
                        ASSUME, time.time() - t0, getattr(verdict, "n_unknown", 0))
    return rc


def run(prop, tier, replay=None):
    t0 = time.time()
    work = vlib.scratch(prop)
    mcs, (ntlc, depth, ov), gens = PLAN[prop][tier]
    seed = vlib.seed()

    scenarios = []
    mc_states = mc_trans = 0
    ticker = {}
    tick_thread = None
    if prop == "C14" and not replay:
        # fairness of CleanupTick on the real Run loop and its real tick source, in real time (about one tick period),
        # while TLC works
        import threading

        def tick():
            try:
                w2 = os.path.join(work, "ticker")
                os.makedirs(w2, exist_ok=True)
                rc_, out_, wall_ = vlib.go_test(w2, "node", fp.PKG, "TestVerifProcessorTicker", fp.INJECT,
                                                env={"VERIF_TICKER": "1", "VERIF_SEED": seed}, timeout=420)
                import re
                m = re.search(r"VERIF-TICKER cleanup_ran=(true|false) after=([0-9.]+)s limit=([0-9.]+)s restarted_ran=(true|false) after2=([0-9.]+)s", out_)
                ticker.update({"ran": m.group(1) == "true", "after_s": float(m.group(2)), "limit_s": float(m.group(3)),
                               "ran_after_run_restart": m.group(4) == "true", "after2_s": float(m.group(5))} if m else {"error": out_[-3000:]})
            except Exception as e:  # noqa: BLE001
                ticker["error"] = "%s: %s" % (type(e).__name__, e)
        tick_thread = threading.Thread(target=tick)
        tick_thread.start()
    if replay:
        rp = json.load(open(replay))
        scenarios = [v["detail"]["scenario"] for v in rp.get("violations", []) if v.get("detail", {}).get("scenario")]
        if not scenarios:
            raise vlib.Broken("replay file has no scenario")
    else:
        # 1. the design: exhaustive TLC on the bounded model
        for cfg in ([] if os.environ.get("VERIF_SKIP_MC") else mcs):  # developer switch (tools/seedtest.py --fast): the exhaustive run does not depend on /repo
            r = vlib.tlc_must_pass(work, "MC_Processor", cfg, workers=vlib.NCPU, timeout=3000, heap="16g")
            mc_states += r["distinct"]
            mc_trans += r["generated"]
            print("TLC %s: %d distinct states, %d transitions, depth %d, %.0fs" % (cfg, r["distinct"], r["generated"], r["depth"], r["wall_s"]))
        # 2. histories: TLC behaviours + seeded generators
        scenarios += fp.tlc_scenarios(work, ntlc, depth, seed, ov)
        for prof, n in gens:
            scenarios += fp.gen_scenarios(seed, n, prof)
    # 3. the real handlers
    try:
        lines, wall = fp.replay(work, scenarios, prop)
    except fp.Crash as c:
        return crashed(prop, tier, c, t0, mc_states, mc_trans, len(scenarios))
    slow = {ln["t"] for ln in lines if ln["ev"] == "Slow"}
    if slow:
        lines = [ln for ln in lines if ln["t"] not in slow]
    print("replayed %d histories (%d handler calls) on the real processor in %.1fs; %d discarded as slow" % (len(scenarios), len(lines), wall, len(slow)))
    # 4. TLC decides conformance of every recorded step
    rejs, r = fp.validate(work, lines, prop)
    print("trace validation: %d states, %.1fs, %d rejected line(s)" % (r["distinct"], r["wall_s"], len(rejs)))
    # 5. the same histories through the real Processor.Run select loop (inputs sent on its channels, own
    #    signatures looped back by the code itself); every third history in the quick tier
    loop_scs = scenarios if (replay or tier == "thorough") else scenarios[::3]
    try:
        llines, lwall = fp.replay(work, loop_scs, prop + "L", runloop=True)
    except fp.Crash as c:
        return crashed(prop, tier, c, t0, mc_states, mc_trans, len(scenarios))
    lslow = {ln["t"] for ln in llines if ln["ev"] == "Slow"}
    llines = [ln for ln in llines if ln["t"] not in lslow]
    if loop_scs and not llines:
        raise vlib.Broken("run-loop mode recorded no usable line for %d histories (all discarded as slow?)" % len(loop_scs))
    lrejs, lr = fp.validate(work, llines, prop + "L")
    print("run-loop mode: %d histories (%d lines) through Processor.Run in %.1fs; trace validation %d states, %d rejected line(s)"
          % (len(loop_scs), len(llines), lwall, lr["distinct"], len(lrejs)))

    byn = {(ln["t"], ln["n"]): ln for ln in lines}
    verdict = vlib.Verdict(prop)
    others = Counter()
    for rj in rejs:
        ln = byn.get((rj["t"], rj["n"]), {"ev": rj.get("ev"), "a": {}, "s": {}})
        props, comps = fp.attribute(rj, ln)
        sig = fp.signature(rj, ln, comps)
        if prop in props:
            sc = scenarios[rj["t"] - 1] if 0 < rj["t"] <= len(scenarios) else None
            verdict.add(sig, {"line": ln, "why": rj.get("why"), "spec_state": rj.get("spec"), "components": sorted(comps),
                              "tlc": rj.get("tlc"), "scenario": sc})
        else:
            others["%s:%s" % ("+".join(sorted(props)), sig)] += 1
    network_cov = {}
    if prop in ("C01", "C02") and tier == "thorough" and not replay:
        # design-level composition: N guardians on a re-delivering gossip medium with a byzantine member
        nr = vlib.tlc_must_pass(work, "Network", "MC_Network.cfg", workers=vlib.NCPU, timeout=1800)
        network_cov = {"cfg": "MC_Network.cfg", "states": nr["distinct"], "transitions": nr["generated"],
                       "checked": ["NoForgedQuorum", "OnlyTheChainBodyIsPublished", "PublishedMeansQuorum", "QuorumsIntersectInHonest", "EventualVAA (fair)"]}
        print("TLC Network (composition of nodes, TLC only): %d distinct states, %d transitions" % (nr["distinct"], nr["generated"]))
    if prop == "C03" and tier == "thorough" and not replay:
        # design-level composition: gossip verifier -> re-observation router -> watcher queue
        gr = vlib.tlc_must_pass(work, "MC_Guardian", "MC_Guardian.cfg", workers=vlib.NCPU, timeout=1800)
        network_cov = {"cfg": "MC_Guardian.cfg", "states": gr["distinct"], "transitions": gr["generated"],
                       "checked": ["OnlyVerifiedRequestsReachWatchers", "OnlyNamedChain", "AtMostOncePerWindow"]}
        print("TLC Guardian (gossip -> router -> watcher composition, TLC only): %d distinct states" % gr["distinct"])
    gossip_cov = {}
    if prop == "C03" and not replay:
        gossip_cov = run_gossip(work, tier, seed, verdict)
    loop_cov = {}
    if prop == "C03" and not replay:
        loop_cov = run_p2ploop(work, tier, seed, verdict)
    if prop == "C13":
        # A panic is a violation whatever the specification thinks of the lines before it: a trace that TLC stopped
        # following after an earlier (non-panic) rejection may still contain one.
        seen = {(rj["t"], rj["n"]) for rj in rejs}
        lseen = {(rj["t"], rj["n"]) for rj in lrejs}
        for mode, src, done, scs in (("", lines, seen, scenarios), ("runloop/", llines, lseen, loop_scs)):
            for ln in src:
                if "panic" in ln.get("s", {}) and (ln["t"], ln["n"]) not in done:
                    sc = scs[ln["t"] - 1] if 0 < ln["t"] <= len(scs) else None
                    verdict.add(mode + fp.signature({}, ln, {"panic"}), {"line": ln, "why": "panic after a line the specification had already rejected",
                                                                       "scenario": sc, "mode": mode or "direct"})
    lbyn = {(ln["t"], ln["n"]): ln for ln in llines}
    for rj in lrejs:
        ln = lbyn.get((rj["t"], rj["n"]), {"ev": rj.get("ev"), "a": {}, "s": {}})
        props, comps = fp.attribute(rj, ln)
        sig = "runloop/" + fp.signature(rj, ln, comps)
        if prop in props:
            sc = loop_scs[rj["t"] - 1] if 0 < rj["t"] <= len(loop_scs) else None
            verdict.add(sig, {"line": ln, "why": rj.get("why"), "spec_state": rj.get("spec"), "components": sorted(comps),
                              "tlc": rj.get("tlc"), "scenario": sc, "mode": "run-loop"})
        else:
            others["%s:%s" % ("+".join(sorted(props)), sig)] += 1
    if tick_thread is not None:
        tick_thread.join()
        if "error" in ticker:
            raise vlib.Broken("ticker fairness test did not complete:\n%s" % ticker["error"])
        print("tick source under steady traffic: cleanup pass %s after %.1fs (limit %.0fs)" % ("ran" if ticker["ran"] else "DID NOT RUN", ticker["after_s"], ticker["limit_s"]))
        if ticker["ran"] and not ticker["ran_after_run_restart"]:
            verdict.add("ticker/no-cleanup-pass-after-run-was-restarted",
                        {"why": "after Run ended and was entered again on the same Processor (what the supervisor does) no cleanup pass was made within %.0fs" % ticker["limit_s"],
                         "measured": ticker})
        else:
            print("tick source after Run was re-entered on the same Processor: cleanup pass ran after %.1fs" % ticker["after2_s"])
        if not ticker["ran"]:
            verdict.add("ticker/no-cleanup-pass-under-steady-traffic",
                        {"why": "with gossip arriving every 200 ms the Run loop made no cleanup pass within %.0fs (tick period 30 s): retries and expiry never happen" % ticker["limit_s"],
                         "measured": ticker})
    rc = verdict.finish()
    for k, v in others.items():
        print("note: %d rejected line(s) speak to another property (%s); see that property's check" % (v, k))

    # evidence
    classes = set()
    acts = Counter()
    prev = {}
    for ln in lines:
        if ln["ev"] == "Reset":
            prev = {}
            continue
        acts[ln["ev"]] += 1
        if ln["ev"] != "Advance":
            classes.add(pre_class(prev, ln))
        prev = ln["s"]
    effects = Counter()
    prev = {}
    for ln in lines:
        if ln["ev"] == "Reset":
            prev = {}
            continue
        s = ln["s"]
        for o in s.get("out", []):
            effects["out:" + o["kind"] + (":resend" if o.get("resend") else "")] += 1
        pa, ca = prev.get("agg", {}) or {}, s.get("agg", {}) or {}
        for d in pa:
            if d not in ca:
                effects["entry-deleted"] += 1
            elif ca[d]["retry"] > pa[d]["retry"]:
                effects["retry"] += 1
        if len(s.get("db") or {}) > len(prev.get("db") or {}):
            effects["stored"] += 1
        if "panic" in s:
            effects["panic"] += 1
        prev = s
    setsizes = Counter()
    for sc in scenarios:
        for st in sc["steps"]:
            if st["ev"] == "SetUpdate":
                setsizes[len(st["a"]["set"]["keys"])] += 1
    sample = [{"source": sc.get("src"), "steps": [dict(ev=st["ev"], a=st["a"]) for st in sc["steps"][:8]]} for sc in scenarios[:1] + scenarios[-1:]]
    cov = {
        "states": mc_states if (mc_states and not replay) else max(r["distinct"], 1),
        "transitions": mc_trans if (mc_trans and not replay) else max(r["generated"], 1),
        "traces_validated_against_impl": len(scenarios) - len(slow) + len(loop_scs) - len(lslow),
        "samples": sample,
        "evaluations": len(lines),
        "distinct_nontrivial": len(classes),
        "rule": "one evaluation = one real handler call whose post-state TLC compared with the specification's; distinct = distinct "
                "(handler, guardian-set size class, aggregation-entry class [observed?, submitted?, signatures vs quorum, retries], "
                "input validity class, outputs) tuples; Advance steps are not counted",
        "mc_configs": mcs, "trace_spec_states": r["distinct"],
        "run_loop_mode": {"histories": len(loop_scs), "lines": len(llines), "rejected": len(lrejs), "discarded_slow": len(lslow)},
        "handler_calls": dict(acts), "effects_observed": dict(effects), "guardian_set_sizes": {str(k): v for k, v in sorted(setsizes.items())},
        "scenario_sources": dict(Counter(sc.get("src") for sc in scenarios)),
        "rejected_lines_this_property": len(verdict.items), "rejected_lines_other_properties": dict(others),
        "tick_source_fairness_realtime": ticker,
        "known_findings_matched": getattr(verdict, "n_known", 0),
        "exhaustive": False,
    }
    if network_cov:
        cov["network_composition_model"] = network_cov
    if loop_cov:
        cov["p2p_run_loop"] = loop_cov
        cov["states"] += loop_cov["states"]
        cov["transitions"] += loop_cov["transitions"]
        cov["traces_validated_against_impl"] += loop_cov["traces"]
        cov["evaluations"] += loop_cov["lines"]
        cov["distinct_nontrivial"] += loop_cov["distinct_classes"]
    if gossip_cov:
        cov["gossip_verifiers"] = gossip_cov
        cov["states"] += gossip_cov["states"]
        cov["transitions"] += gossip_cov["transitions"]
        cov["traces_validated_against_impl"] += gossip_cov["traces"]
        cov["evaluations"] += gossip_cov["verifier_calls"]
        cov["distinct_nontrivial"] += gossip_cov["distinct_classes"]
    vlib.write_evidence(prop, tier, "model_checking", cov, ASSUME, time.time() - t0, getattr(verdict, "n_unknown", 0))
    return rc
