#!/usr/bin/env python3
"""Source extraction for the "programs" quantifier of C15 (DESIGN.md 3.5): read the governance parsers of
alephium/contracts/governance.ral and alephium/contracts/token_bridge/token_bridge_governance.ral and return,
per (module, action), the offsets the contract slices out of the payload and the total size it asserts.

There is no Ralph compiler offline, so this is a small, deliberately strict parser of the forms the sources use:
    const CoreModule = 0x436f7265
    enum ActionId { Name = #01 ... }
    parseAndVerifyGovernanceVAA(vaa, ActionId.Name)
    byteVecSlice!(payload, a, b)           a, b integer literals or names
    let n = u256FromKByte!(byteVecSlice!(payload, a, b))
    let payloadSize = BASE + n * PER       (or BASE + n)
    assert!(size!(payload) == X, ...)      X literal or payloadSize
    tokenBridgeFactory.parseContractUpgrade(payload)
Anything it does not understand raises ExtractError (the check then exits 2: cannot decide), never a verdict.

CLI:  extract_ralph_gov.py [repo]   prints the extracted table as JSON."""
import json
import os
import re
import sys


class ExtractError(Exception):
    pass


FILES = ["alephium/contracts/governance.ral", "alephium/contracts/token_bridge/token_bridge_governance.ral"]


def _strip_comments(src):
    return re.sub(r"//[^\n]*", "", src)


def _functions(src):
    """{name: body} by brace matching."""
    res = {}
    for m in re.finditer(r"\bfn\s+(\w+)\s*\(", src):
        i = src.find("{", m.end())
        if i < 0:
            raise ExtractError("no body for fn %s" % m.group(1))
        # skip the `-> (..)` part: the first '{' after the parameter list
        depth, j = 0, i
        while j < len(src):
            if src[j] == "{":
                depth += 1
            elif src[j] == "}":
                depth -= 1
                if depth == 0:
                    break
            j += 1
        if depth != 0:
            raise ExtractError("unbalanced braces in fn %s" % m.group(1))
        res[m.group(1)] = src[i + 1:j]
    return res


def _int(tok):
    tok = tok.strip()
    return int(tok) if re.fullmatch(r"\d+", tok) else None


def extract_file(path):
    try:
        src = _strip_comments(open(path).read())
    except OSError as e:
        raise ExtractError("cannot read %s: %s" % (path, e))
    consts = {m.group(1): m.group(2).lower() for m in re.finditer(r"\bconst\s+(\w+)\s*=\s*0x([0-9a-fA-F]+)", src)}
    em = re.search(r"\benum\s+ActionId\s*\{([^}]*)\}", src)
    if not em:
        raise ExtractError("no ActionId enum in %s" % path)
    actions = {m.group(1): m.group(2).lower() for m in re.finditer(r"(\w+)\s*=\s*#([0-9a-fA-F]{2})", em.group(1))}
    if not actions:
        raise ExtractError("empty ActionId enum in %s" % path)
    fns = _functions(src)
    # which module constant this file's wrapper passes to the generic verifier
    wm = re.search(r"parseAndVerifyGovernanceVAAGeneric\(\s*vaa\s*,\s*\w+\s*,\s*(\w+)\s*,\s*action\s*\)", src)
    if not wm or wm.group(1) not in consts:
        raise ExtractError("cannot find the module constant passed to parseAndVerifyGovernanceVAAGeneric in %s" % path)
    module_hex = consts[wm.group(1)]
    out = {"module_const": wm.group(1), "module_hex": module_hex, "actions": actions, "parsers": {}, "generic": None}
    if "parseAndVerifyGovernanceVAAGeneric" in fns:
        body = fns["parseAndVerifyGovernanceVAAGeneric"]
        mm = re.search(r"u256From32Byte!\(byteVecSlice!\(payload,\s*(\d+),\s*(\d+)\)\)\s*==\s*coreModule", body)
        am = re.search(r"byteVecSlice!\(payload,\s*(\d+),\s*(\d+)\)\s*==\s*action", body)
        if not mm or not am:
            raise ExtractError("cannot find the module/action checks in parseAndVerifyGovernanceVAAGeneric")
        out["generic"] = {"module": [int(mm.group(1)), int(mm.group(2))], "action": [int(am.group(1)), int(am.group(2))]}
    used = set()
    for name, body in fns.items():
        m = re.search(r"parseAndVerifyGovernanceVAA\(\s*vaa\s*,\s*ActionId\.(\w+)\s*\)", body)
        if not m:
            continue
        act = m.group(1)
        if act not in actions:
            raise ExtractError("fn %s uses unknown ActionId.%s" % (name, act))
        if act in used:
            raise ExtractError("ActionId.%s parsed by two functions" % act)
        used.add(act)
        lets = {lm.group(1): lm.group(2).strip() for lm in re.finditer(r"\blet\s+(?:mut\s+)?(\w+)\s*=\s*([^\n]+)", body)}
        slices = []
        for sm in re.finditer(r"byteVecSlice!\(\s*payload\s*,\s*([^,()]+),\s*([^,()]+)\)", body):
            slices.append((sm.group(1).strip(), sm.group(2).strip()))
        fixed, var = [], []
        for a, b in slices:
            ia, ib = _int(a), _int(b)
            if ia is not None and ib is not None:
                fixed.append([ia, ib])
            elif ia is not None:
                var.append([ia, b])
            else:
                raise ExtractError("fn %s: slice with a non-literal start: (%s, %s)" % (name, a, b))
        sz = re.search(r"assert!\(\s*size!\(payload\)\s*==\s*(\w+)\s*,", body)
        whole = bool(re.search(r"parseContractUpgrade\(\s*payload\s*\)", body))
        rec = {"fn": name, "action": actions[act], "fixed": sorted(fixed), "var": var, "count": None, "base": None, "per": 0,
               "tail": "blob" if whole else "none"}
        if sz:
            x = sz.group(1)
            if _int(x) is not None:
                rec["base"] = _int(x)
            else:
                if x not in lets:
                    raise ExtractError("fn %s: size is compared with %s which is not defined by a let" % (name, x))
                fm = re.fullmatch(r"(\d+)\s*\+\s*(\w+)(?:\s*\*\s*(\d+))?", lets[x])
                if not fm:
                    raise ExtractError("fn %s: cannot parse size formula `%s`" % (name, lets[x]))
                rec["base"], cntvar, rec["per"] = int(fm.group(1)), fm.group(2), int(fm.group(3) or 1)
                if cntvar not in lets:
                    raise ExtractError("fn %s: count variable %s not defined" % (name, cntvar))
                cm = re.fullmatch(r"u256From(\d)Byte!\(byteVecSlice!\(\s*payload\s*,\s*(\d+)\s*,\s*(\d+)\s*\)\)", lets[cntvar])
                if not cm:
                    raise ExtractError("fn %s: cannot parse count definition `%s`" % (name, lets[cntvar]))
                if int(cm.group(3)) - int(cm.group(2)) != int(cm.group(1)):
                    raise ExtractError("fn %s: count slice width disagrees with u256From%sByte" % (name, cm.group(1)))
                rec["count"] = [int(cm.group(2)), int(cm.group(3))]
                rec["tail"] = "counted"
                rec["size_var"] = x
        elif not whole:
            raise ExtractError("fn %s: neither a size assertion nor parseContractUpgrade(payload)" % name)
        out["parsers"][actions[act]] = rec
    if set(out["parsers"]) != set(actions.values()):
        raise ExtractError("%s: actions %s have no parser function" % (path, sorted(set(actions.values()) - set(out["parsers"]))))
    return out


def extract(repo):
    res = {}
    for rel in FILES:
        res[rel] = extract_file(os.path.join(repo, rel))
    if not res[FILES[0]]["generic"]:
        raise ExtractError("parseAndVerifyGovernanceVAAGeneric not found in governance.ral")
    # best effort: where the upgrade blob starts, from the factory's parser (not an anchor file; optional)
    fac = os.path.join(repo, "alephium/contracts/token_bridge/token_bridge_factory.ral")
    res["upgrade_blob_from"] = None
    if os.path.exists(fac):
        m = re.search(r"fn\s+parseContractUpgrade[\s\S]*?byteVecSlice!\(payload,\s*(\d+)\s*,", _strip_comments(open(fac).read()))
        if m:
            res["upgrade_blob_from"] = int(m.group(1))
    return res


def compare(extracted, layout, consts):
    """Differences between the contract sources and the specification's layout table (list of dicts)."""
    diffs = []
    gen = extracted[FILES[0]]["generic"]
    if gen["module"] != [0, consts["module_width"]]:
        diffs.append({"where": "generic", "what": "module-slice", "contract": gen["module"], "spec": [0, consts["module_width"]]})
    if gen["action"] != [consts["action_offset"], consts["action_offset"] + 1]:
        diffs.append({"where": "generic", "what": "action-slice", "contract": gen["action"], "spec": [consts["action_offset"], consts["action_offset"] + 1]})
    bymod = {extracted[f]["module_hex"]: extracted[f] for f in FILES}
    seen = set()
    for kind, lay in sorted(layout.items()):
        mhex = lay["module_hex"] or consts["modules"]["TokenBridge"]     # request-supplied module: the token bridge's
        if mhex not in bymod:
            diffs.append({"where": kind, "what": "module-constant", "contract": sorted(bymod), "spec": mhex})
            continue
        p = bymod[mhex]["parsers"].get(lay["action"])
        if p is None:
            diffs.append({"where": kind, "what": "action-id", "contract": sorted(bymod[mhex]["parsers"]), "spec": lay["action"]})
            continue
        seen.add((mhex, lay["action"]))
        spec_fixed = sorted([f["from"], f["to"]] for f in lay["fixed"])
        spec_count = [lay["count"][0]["from"], lay["count"][0]["to"]] if lay["count"] else None
        want = sorted(spec_fixed + ([spec_count] if spec_count else []))
        if p["fixed"] != want:
            diffs.append({"where": kind, "what": "field-offsets", "contract": p["fixed"], "spec": want, "fn": p["fn"]})
        if lay["tail"] in ("blob",):
            if p["tail"] != "blob" or p["base"] is not None:
                diffs.append({"where": kind, "what": "tail", "contract": p["tail"], "spec": "blob", "fn": p["fn"]})
            if extracted.get("upgrade_blob_from") is not None and extracted["upgrade_blob_from"] != lay["base"]:
                diffs.append({"where": kind, "what": "blob-start", "contract": extracted["upgrade_blob_from"], "spec": lay["base"]})
        elif lay["tail"] == "none":
            if p["tail"] != "none" or p["base"] != lay["base"]:
                diffs.append({"where": kind, "what": "size", "contract": [p["tail"], p["base"]], "spec": ["none", lay["base"]], "fn": p["fn"]})
        else:
            if p["tail"] != "counted" or p["base"] != lay["base"] or p["per"] != lay["per"] or p["count"] != spec_count:
                diffs.append({"where": kind, "what": "size-formula", "contract": [p["tail"], p["base"], p["per"], p["count"]],
                              "spec": ["counted", lay["base"], lay["per"], spec_count], "fn": p["fn"]})
            for a, b in p["var"]:
                if b != p.get("size_var") or a not in (lay["base"], spec_count[0]):
                    diffs.append({"where": kind, "what": "tail-slice", "contract": [a, b], "spec": [lay["base"], "size"], "fn": p["fn"]})
    for f in FILES:
        for act in extracted[f]["parsers"]:
            if (extracted[f]["module_hex"], act) not in seen:
                diffs.append({"where": f, "what": "contract-parses-action-unknown-to-spec", "contract": act, "spec": None})
    return diffs


if __name__ == "__main__":
    try:
        print(json.dumps(extract(sys.argv[1] if len(sys.argv) > 1 else "/repo"), indent=1))
    except ExtractError as e:
        print("EXTRACT-ERROR: %s" % e)
        sys.exit(2)
