"""Spy family (C20): Spy.tla + harness/spy."""
import json
import os
import random
import re
import shutil

import vlib

PKG = "./cmd/spy"
INJECT = {"cmd/spy": [(os.path.join(vlib.HARNESS, "common", "vh.go"), "spy"),
                      (os.path.join(vlib.HARNESS, "spy", "spy_harness.go"), "spy")]}

SYNC_EM = {"c": 9999, "a": "sync"}


# ------------------------------------------------------------------ scenario sources

def _cfg_with(work, base, name, overrides):
    cfg = open(os.path.join(vlib.SPEC, base)).read()
    for k, v in overrides.items():
        cfg = re.sub(r"(?m)^  %s = .*$" % k, "  %s = %s" % (k, v), cfg)
    sdir = os.path.join(work, "spec")
    if not os.path.isdir(sdir):
        shutil.copytree(vlib.SPEC, sdir)
    with open(os.path.join(sdir, name), "w") as fh:
        fh.write(cfg)
    return name


def tlc_scenarios(work, n, seed_):
    """Behaviours of Gen_Spy under tlc -simulate: the environment's commands of each behaviour.  Fault budgets 0..4
    are mixed so that fault-free histories are present as well."""
    res = []
    rnd = random.Random("spy-tlc-%d" % seed_)
    per = max(1, n // 5)
    for mf in range(5):
        name = _cfg_with(work, "Gen_Spy.cfg", "Gen_Spy_%d_%d.cfg" % (seed_, mf),
                         {"MaxFaults": mf, "GenDepth": 6 + mf, "AllowInvalid": "TRUE"})
        r = vlib.tlc(work, "Gen_Spy", name, workers=1,
                     args=["-simulate", "num=%d" % per, "-depth", "80", "-seed", str(seed_ * 10 + mf)], timeout=300)
        hs = vlib.tlc_prints(r["out"], "SCN")
        if not hs:
            raise vlib.Broken("TLC simulation of Gen_Spy produced no scenarios:\n" + r["out"][-2000:])
        seen = set()
        uniq = []
        for h in hs:
            k = json.dumps(h, sort_keys=True)
            if k not in seen:
                seen.add(k)
                uniq.append(h)
        rnd.shuffle(uniq)
        for h in uniq[:per]:
            steps = []
            for st in h:
                if st["ev"] == "Subscribe" and st["a"].get("valid") is False:
                    # the model's invalid request = a request with a filter entry of an unknown kind
                    st = {"ev": "Subscribe", "a": {"s": st["a"]["s"], "f": st["a"]["f"], "unknown": rnd.choice([1, 1, 2]),
                                                   "at": rnd.choice(["start", "end"])}}
                steps.append(st)
                if rnd.random() < 0.15:
                    steps.append({"ev": "Sync", "a": {}})
            res.append({"steps": steps, "src": "tlc"})
    return res


# undecodable bytes are published in scenarios with filtered subscriptions too (the partial-delivery defect this used to
# expose is repaired in /repo: see known_findings.txt, fixed: property=C20 c3f60c4)
MIXED_UNDECODABLE = True
BAD_KINDS = ["empty-payload", "empty-payload", "truncated", "short", "version"]


def decorate(sc, r):
    """Input classes added to every kind of scenario (own random stream, the scenario's commands stay as they are):
    * client connections: streams opened over one connection share the peer address of their context;
    * an extra subscription whose request carries filter entries of an unknown kind (all of them, or mixed with
      emitter filters);
    * published bytes that do not decode as a VAA, with and without filtered subscriptions present."""
    steps = sc["steps"]
    subs = [st for st in steps if st["ev"] == "Subscribe"]
    if subs and r.random() < 0.5:
        pool = ["c%d" % (i + 1) for i in range(max(1, (len(subs) + 1) // 2))]
        for st in subs:
            st["a"]["conn"] = r.choice(pool)
    if r.random() < 0.15:
        grid = [{"c": c, "a": a} for c in CHAINS for a in ADDRS]
        for j in range(r.choice([1, 1, 2])):
            f = r.sample(grid, r.choice([0, 0, 1, 2]))
            a = {"s": "z%d" % (j + 1), "f": f, "unknown": r.choice([1, 1, 2]), "at": r.choice(["start", "end"])}
            if subs and r.random() < 0.5:
                a["conn"] = r.choice(subs)["a"].get("conn", "")
            steps.insert(r.randrange(0, len(steps) + 1), {"ev": "Subscribe", "a": a})
    filtered = any(st["a"].get("f") and not st["a"].get("unknown") for st in steps if st["ev"] == "Subscribe")
    if (MIXED_UNDECODABLE or not filtered) and r.random() < 0.6:
        for j in range(r.choice([1, 2, 3])):
            steps.insert(r.randrange(0, len(steps) + 1),
                         {"ev": "Publish", "a": {"v": {"id": "b%d" % (j + 1), "em": {"c": 0, "a": "none"}, "bad": r.choice(BAD_KINDS)}}})
    return sc


def gen_inputs(r):
    """Focused scenarios for the three input classes of decorate()."""
    grid = [{"c": c, "a": a} for c in CHAINS for a in ADDRS]
    kind = r.choice(["shared-conn", "shared-conn", "unknown-filters", "undecodable", "undecodable"])
    steps = []
    if kind == "shared-conn":
        n = r.choice([2, 3, 4, 5])
        conns = ["c1"] if r.random() < 0.5 else ["c1", "c2"]
        used = r.sample(grid, 2)
        for i in range(n):
            f = r.choice([[], [], [used[0]], [used[1]], used])
            steps.append({"ev": "Subscribe", "a": {"s": "s%d" % (i + 1), "f": f, "conn": r.choice(conns)}})
        vid = 0
        for phase in range(3):
            for _ in range(r.choice([1, 2, 3])):
                vid += 1
                steps.append({"ev": "Publish", "a": {"v": {"id": "v%d" % vid, "em": r.choice(used)}}})
            if phase < 2:
                s = "s%d" % r.randrange(1, n + 1)
                steps.append({"ev": r.choice(["Cancel", "Cancel", "Fail", "Sync"]), "a": {"s": s}})
                if r.random() < 0.5:
                    steps.append({"ev": "Sync", "a": {}})
                if r.random() < 0.4:
                    n += 1
                    steps.append({"ev": "Subscribe", "a": {"s": "s%d" % n, "f": r.choice([[], [used[0]]]), "conn": r.choice(conns)}})
    elif kind == "unknown-filters":
        used = r.sample(grid, 3)
        steps.append({"ev": "Subscribe", "a": {"s": "s1", "f": r.choice([[], [used[0]]])}})
        for i, shape in enumerate(r.sample(["all-unknown", "all-unknown-2", "unknown-first", "unknown-last"], r.choice([1, 2, 3]))):
            f = [] if shape.startswith("all") else [r.choice(used[:2])]
            steps.append({"ev": "Subscribe", "a": {"s": "z%d" % (i + 1), "f": f, "unknown": 2 if shape.endswith("2") else 1,
                                                   "at": "end" if shape == "unknown-last" else "start"}})
        for i in range(r.choice([2, 3, 5])):
            steps.append({"ev": "Publish", "a": {"v": {"id": "v%d" % (i + 1), "em": r.choice(used)}}})
    else:
        n = r.choice([1, 2, 3, 4])
        for i in range(n):
            steps.append({"ev": "Subscribe", "a": {"s": "s%d" % (i + 1), "f": []}})
        if MIXED_UNDECODABLE:
            for j in range(r.choice([1, 2])):
                steps.insert(r.randrange(0, len(steps) + 1), {"ev": "Subscribe", "a": {"s": "t%d" % (j + 1), "f": [r.choice(grid)]}})
        if n > 1 and r.random() < 0.4:
            steps.append({"ev": r.choice(["Stall", "Fail", "Cancel"]), "a": {"s": "s%d" % r.randrange(1, n + 1)}})
        for i in range(r.choice([2, 3, 4, 6])):
            v = {"id": "v%d" % (i + 1), "em": r.choice(grid)}
            if r.random() < 0.55:
                v = {"id": "b%d" % (i + 1), "em": {"c": 0, "a": "none"}, "bad": r.choice(BAD_KINDS)}
            steps.append({"ev": "Publish", "a": {"v": v}})
            if r.random() < 0.2:
                steps.append({"ev": "Sync", "a": {}})
    return {"steps": steps, "src": "inputs-" + kind}


def input_scenarios(seed_, n):
    rnd = random.Random("spy-inputs-%d" % seed_)
    return [gen_inputs(rnd) for _ in range(n)]


CHAINS = [2, 4, 255]
ADDRS = ["a1", "a2", "a3"]


def gen_scenario(r):
    """Seeded generator with a wider domain than the TLC constants: up to 8 subscribers, filters over a 3x3 grid of
    (chain, address) so that pairs share exactly one component, up to 14 VAAs, faults anywhere, optional settle points,
    occasionally a filter list with a repeated entry."""
    nsub = r.choice([1, 2, 3, 3, 4, 5, 8])
    nvaa = r.choice([1, 2, 3, 4, 6, 9, 14])
    grid = [{"c": c, "a": a} for c in CHAINS for a in ADDRS]
    used = r.sample(grid, r.choice([2, 3, 4, 6]))
    if r.random() < 0.35:
        # the zero values: chain 0 (unset) and the all-zero address, alone and together, as emitters and as filter entries
        zeros = [{"c": 0, "a": "zero"}, {"c": 0, "a": r.choice(ADDRS)}, {"c": r.choice(CHAINS), "a": "zero"}]
        grid = grid + zeros
        used = used + [zeros[0]] + r.sample(zeros, 1)

    def uniq(fs_):
        out = []
        for x in fs_:
            if x not in out:
                out.append(x)
        return out
    profile = r.choice(["clean", "clean", "faulty", "faulty", "stall", "churn"])
    cmds = []
    for i in range(nsub):
        k = r.choice([0, 0, 1, 1, 2, 3])
        f = r.sample(grid, k)
        if k and r.random() < 0.7:
            f[0] = r.choice(used)
        f = uniq(f)
        a = {"s": "s%d" % (i + 1), "f": f}
        if k and r.random() < 0.08:
            a["dup"] = True
        cmds.append({"ev": "Subscribe", "a": a})
    for i in range(nvaa):
        em = r.choice(used) if r.random() < 0.85 else r.choice(grid)
        cmds.append({"ev": "Publish", "a": {"v": {"id": "v%d" % (i + 1), "em": em}}})
    # subscriptions mostly first, publishes in id order, interleaved
    subs = [c for c in cmds if c["ev"] == "Subscribe"]
    pubs = [c for c in cmds if c["ev"] == "Publish"]
    steps = []
    early = r.randrange(1, len(subs) + 1)
    steps += subs[:early]
    rest = subs[early:]
    while pubs or rest:
        if rest and (not pubs or r.random() < 0.25):
            steps.append(rest.pop(0))
        else:
            steps.append(pubs.pop(0))
    if profile != "clean":
        names = [c["a"]["s"] for c in subs]
        nf = {"faulty": r.choice([1, 2, 3]), "stall": r.choice([1, 2]), "churn": r.choice([2, 3, 5])}[profile]
        for _ in range(nf):
            s = r.choice(names)
            kind = {"faulty": r.choice(["Stall", "Fail", "Cancel", "Stall"]), "stall": "Stall",
                    "churn": r.choice(["Cancel", "Fail", "Cancel"])}[profile]
            pos = r.randrange(0, len(steps) + 1)
            steps.insert(pos, {"ev": kind, "a": {"s": s}})
            if kind == "Stall" and r.random() < 0.6:
                steps.insert(r.randrange(pos + 1, len(steps) + 1), {"ev": "Resume", "a": {"s": s}})
    out = []
    for st in steps:
        out.append(st)
        if r.random() < 0.12:
            out.append({"ev": "Sync", "a": {}})
    return {"steps": out, "src": "gen-" + profile}


def flood_scenarios(seed_, variants=("resume", "fail")):
    """Floods that cross the implementation's own queue capacity (the harness reads cap(sub.ch) and publishes cap+extra
    VAAs): a subscriber stops reading, cap+extra VAAs that match it are published (a few of them also match the
    subscribers that keep reading), then: everything the readers are owed arrives, a new subscription and a removal
    complete, and the overflowing subscriber either reads again (and sees what its policy kept for it, in order) or
    its connection breaks."""
    r = random.Random("spy-flood-%d" % seed_)
    res = []
    for variant in variants:
        a, b, c = r.sample([{"c": ch, "a": x} for ch in CHAINS for x in ADDRS], 3)
        if variant in ("lonely-fail", "lonely-resume", "pair-fail"):
            # as many overflowing subscribers as readers that stay: book-keeping that counts a dropped subscriber twice
            # (once when it is dropped, once when its stream ends) reaches zero while a reader is still registered
            stalled = ["s1"] if variant != "pair-fail" else ["s1", "s3"]
            readers = ["s2"] if variant != "pair-fail" else ["s2", "s4"]
            steps = []
            for k, s in enumerate(stalled + readers if r.random() < 0.5 else readers + stalled):
                steps.append({"ev": "Subscribe", "a": {"s": s, "f": ([a, c] if s in stalled else [b, c]) if (k % 2 == 0 or s in stalled) else []}})
            steps += [{"ev": "Publish", "a": {"v": {"id": "v1", "em": c}}}, {"ev": "Sync", "a": {}}]
            steps += [{"ev": "Stall", "a": {"s": s}} for s in stalled]
            steps += [{"ev": "Flood", "a": {"em": a, "other": b, "both": c, "extra": r.choice([3, 4, 6]), "every": r.choice([89, 97, 131])}},
                      {"ev": "Sync", "a": {}}]
            steps += [{"ev": "Resume" if variant == "lonely-resume" else "Fail", "a": {"s": s}} for s in stalled]
            steps += [{"ev": "Sync", "a": {}},
                      {"ev": "Publish", "a": {"v": {"id": "v3", "em": b}}},
                      {"ev": "Publish", "a": {"v": {"id": "v4", "em": c}}},
                      {"ev": "Sync", "a": {}},
                      {"ev": "Subscribe", "a": {"s": "s9", "f": []}},
                      {"ev": "Publish", "a": {"v": {"id": "v5", "em": a}}}]
            res.append({"steps": steps, "src": "flood-" + variant})
            continue
        # a: the stalled subscriber only; b: the readers only; c: both (used around the overflow point)
        f1 = [] if variant == "resume" else [a, c]
        extra = r.choice([{"c": 2, "a": "a9"}, {"c": 77, "a": "a1"}])
        # registration order matters to an implementation that keeps subscriptions in a list: readers before the stalled
        # subscriber, immediately after it, and last
        steps = [{"ev": "Subscribe", "a": {"s": "s2", "f": [b, c]}},
                 {"ev": "Subscribe", "a": {"s": "s1", "f": f1}},
                 {"ev": "Subscribe", "a": {"s": "s3", "f": [c, b, extra]}},
                 {"ev": "Subscribe", "a": {"s": "s5", "f": [b, c]}},
                 {"ev": "Publish", "a": {"v": {"id": "v1", "em": a}}}, {"ev": "Sync", "a": {}},
                 {"ev": "Stall", "a": {"s": "s1"}},
                 {"ev": "Flood", "a": {"em": a, "other": b, "both": c, "extra": r.choice([3, 4, 6]), "every": r.choice([89, 97, 131])}},
                 {"ev": "Sync", "a": {}},
                 {"ev": "Subscribe", "a": {"s": "s4", "f": []}},
                 {"ev": "Publish", "a": {"v": {"id": "v2", "em": a}}},
                 {"ev": "Cancel", "a": {"s": "s2"}},
                 {"ev": "Sync", "a": {}},
                 {"ev": "Resume" if variant == "resume" else "Fail", "a": {"s": "s1"}},
                 {"ev": "Publish", "a": {"v": {"id": "v3", "em": b}}},
                 {"ev": "Publish", "a": {"v": {"id": "v4", "em": c}}}]
        res.append({"steps": steps, "src": "flood-" + variant})
    return res


def gen_scenarios(seed_, n):
    rnd = random.Random("spy-gen-%d" % seed_)
    return [gen_scenario(rnd) for _ in range(n)]


def decorate_all(scenarios, seed_):
    rnd = random.Random("spy-decorate-%d" % seed_)
    return [decorate(sc, rnd) if not str(sc.get("src", "")).startswith(("flood", "inputs")) else sc for sc in scenarios]


# ------------------------------------------------------------------ replay + validation

def replay(work, scenarios, tag="spy", probes=4, deadline_ms=None):
    scp = os.path.join(work, "scenarios_%s.ndjson" % tag)
    trp = os.path.join(work, "trace_%s.ndjson" % tag)
    left = probes
    with open(scp, "w") as fh:
        for i, s in enumerate(scenarios):
            opt = {}
            if left > 0 and any(st["ev"] == "Stall" for st in s["steps"]):
                opt["probe"] = True
                left -= 1
            fh.write(json.dumps({"id": i + 1, "bodies": {"opt": opt}, "steps": s["steps"]}) + "\n")
    env = {"VERIF_SCENARIOS": scp, "VERIF_TRACE": trp, "VERIF_SEED": vlib.seed()}
    if deadline_ms:
        env["VERIF_SPY_DEADLINE_MS"] = deadline_ms
    rc, out, wall = vlib.go_test(work, "node", PKG, "TestVerifSpyReplay", INJECT, env=env, timeout=900)
    if "VERIF-REPLAYED" not in out:
        # every call into the spy is made under recover(); a process that dies all the same was killed either by a crash
        # in a goroutine of the code under test (an observation about the code) or by the harness (Broken)
        import fam_explorer
        crash = fam_explorer.parse_crash(out, marker="wormhole-fork/node/")
        if crash is None:
            raise vlib.Broken("spy harness did not complete (rc=%d):\n%s" % (rc, out[-4000:]))
        CRASHES.append(crash)
    lines = fam_explorer_read(trp) if "VERIF-REPLAYED" not in out else vlib.read_ndjson(trp)
    lines.sort(key=lambda ln: (ln["t"], ln["n"]))
    return lines, wall


CRASHES = []    # (signature, output) of harness processes killed by a crash in the code under test


def fam_explorer_read(path):
    import fam_explorer
    return fam_explorer._read_trace(path)


def validate(work, lines, tag="spy", flood_ids=()):
    """Trace_Spy over the recorded lines: first with the canonical schedule of silent steps, then the traces that were
    not explained again with all interleavings.  Flood traces (thousands of messages in one queue) are validated in a
    run of their own without the ExactDelivery invariant, whose evaluation is quadratic in the queue length; a trace
    specification only takes specification actions, so acceptance itself establishes what the invariant states.
    Returns ({trace id: first unexplained line or None}, tlc result)."""
    flood_ids = set(flood_ids)
    res, r = _validate(work, [ln for ln in lines if ln["t"] not in flood_ids], "Trace_Spy.cfg")
    if flood_ids:
        res3, r3 = _validate(work, [ln for ln in lines if ln["t"] in flood_ids], "Trace_Spy_flood.cfg")
        res.update(res3)
        for k in ("distinct", "generated", "wall_s"):
            r[k] += r3[k]
        r["flood_validation_s"] = round(r3["wall_s"], 1)
    redo = [t for t, bad in res.items() if bad is not None and bad["ev"] not in ("Timeout", "Panic") and t not in flood_ids]
    if redo:
        sub = [ln for ln in lines if ln["t"] in set(redo)]
        res2, r2 = _validate(work, sub, "Trace_Spy_full.cfg")
        res.update(res2)
        r["distinct"] += r2["distinct"]
        r["generated"] += r2["generated"]
        r["wall_s"] += r2["wall_s"]
        r["second_pass_traces"] = len(redo)
    return res, r


SEND_EVS = ("Received", "SendBlocked", "SendFailed")


def annotate(lines):
    """Derived hints on every PublishCalled line (see Resolve in Trace_Spy.tla): which subscribers show a later Send
    event for this VAA, and which subscribers' handlers return later in the trace."""
    by_t = {}
    for ln in lines:
        by_t.setdefault(ln["t"], []).append(ln)
    for tl in by_t.values():
        sent, removed = {}, set()
        for ln in reversed(tl):
            a = ln.get("a", {})
            if ln["ev"] in SEND_EVS:
                sent.setdefault(a["v"], set()).add(a["s"])
            elif ln["ev"] == "Removed":
                removed.add(a["s"])
            elif ln["ev"] == "PublishCalled":
                a["h_sent"] = sorted(sent.get(a["v"]["id"], ()))
                a["h_kick"] = sorted(removed)


def _validate(work, lines, cfg):
    annotate(lines)
    sdir = os.path.join(work, "spec")
    if not os.path.isdir(sdir):
        shutil.copytree(vlib.SPEC, sdir)
    with open(os.path.join(sdir, "trace.ndjson"), "w") as fh:
        for ln in lines:
            slim = dict(ln)
            if ln["ev"] in ("Timeout", "Panic"):
                slim = {"t": ln["t"], "n": ln["n"], "ev": ln["ev"], "a": {"op": ln["a"].get("op", ln["a"].get("call"))}, "s": {}}
            fh.write(json.dumps(slim) + "\n")
    r = vlib.tlc(work, "Trace_Spy", cfg, workers=1, timeout=1800, heap="12g")
    fin = vlib.tlc_prints(r["out"], "FINISHED")
    if r["violated"]:
        raise vlib.Broken("a specification invariant failed during trace validation (the trace specification only takes "
                          "specification actions, so this is a spec problem):\n" + r["out"][-3000:])
    if not fin:
        raise vlib.Broken("trace validation did not finish:\n" + r["out"][-3000:])
    hw = {}
    for m in re.finditer(r'<<"HW", (\d+), (\d+), (\d+)>>', r["out"]):
        hw[int(m.group(1))] = (int(m.group(2)), int(m.group(3)))
    starts = [i for i, ln in enumerate(lines) if ln["ev"] == "Reset"]
    res = {}
    for k, i in enumerate(starts):
        t = lines[i]["t"]
        end = (starts[k + 1] if k + 1 < len(starts) else len(lines)) + 1   # 1-based index of the line after the trace
        if t not in hw:
            raise vlib.Broken("trace %d missing from TLC's report" % t)
        reached = hw[t][1]
        res[t] = None if reached >= end else lines[reached - 1]
    return res, r


def _norm(s):
    return re.sub(r"[^A-Za-z0-9.*()]+", "-", s).strip("-")


def panic_signature(ln):
    val = re.sub(r"0x[0-9a-f]+", "0x", ln["a"].get("value", ""))
    return "panic/%s/%s" % (ln["a"].get("call"), re.sub(r"[^A-Za-z0-9]+", "-", val)[:60].strip("-"))


def stall_signature(ln):
    w = ln["a"].get("where", {})
    return "stall/%s/%s@%s" % (ln["a"].get("op"), _norm(w.get("state", "?")), _norm(w.get("fn", "?")))


def classify_reject(trace_lines, bad):
    """Why a line cannot be explained, as far as a plain reading of the log can tell (for the signature only:
    the verdict is TLC's)."""
    ev = bad["ev"]
    if ev == "Timeout":
        return stall_signature(bad)
    if ev == "Panic":
        return panic_signature(bad)
    pubs, filt, got, dupf, okv, valid, order = {}, {}, {}, {}, {}, {}, []
    for ln in trace_lines:
        if ln is bad:
            break
        a = ln.get("a", {})
        if ln["ev"] == "PublishCalled":
            pubs[a["v"]["id"]] = a["v"]["em"]
            okv[a["v"]["id"]] = a["v"].get("ok", True)
            order.append((ln["n"], a["v"]["id"]))
        elif ln["ev"] == "SubscribeCalled":
            filt[a["s"]] = a["f"]
            dupf[a["s"]] = a.get("dup", False)
            valid[a["s"]] = a.get("valid", True)
        elif ln["ev"] in SEND_EVS:
            got.setdefault(a["s"], []).append(a["v"])
    a = bad.get("a", {})
    if ev in ("Received", "SendBlocked", "SendFailed"):
        # a message reached (the stream of) a subscriber that the specification would not have sent there
        s, v = a.get("s"), a.get("v")
        if v not in pubs:
            return "reject/delivery/never-published"
        f = filt.get(s, [])
        if not valid.get(s, True):
            return "reject/delivery/to-a-subscription-whose-request-had-an-unknown-filter-kind"
        if f and (pubs[v] not in f or not okv.get(v, True)):
            return "reject/delivery/filter-mismatch"
        if v in got.get(s, []):
            return "reject/delivery/duplicate%s" % ("-with-repeated-filter-entry" if dupf.get(s) else "")
        sub_n = next((ln["n"] for ln in trace_lines if ln["ev"] == "Subscribed" and ln["a"]["s"] == s), 0)
        missing = [w for n, w in order if n > sub_n and w != v and w not in got.get(s, []) and (not f or (okv.get(w, True) and pubs[w] in f))]
        if missing and not okv.get(missing[0], True):
            return "reject/delivery/undecodable-bytes-not-delivered-to-a-subscriber-without-filters"
        return "reject/delivery/order-or-missing-predecessor%s" % ("-with-repeated-filter-entry" if dupf.get(s) else "")
    if ev == "End":
        live = set()
        for ln in trace_lines:
            if ln["ev"] == "Subscribed":
                live.add(ln["a"]["s"])
            elif ln["ev"] == "Removed":
                live.discard(ln["a"]["s"])
        n = a.get("nsubs", -1)
        if n > len(live):
            return "reject/End/subscription-map-keeps-ended-streams"
        return "reject/End/owed-message-not-delivered-or-subscription-lost"
    if ev == "Removed":
        return "reject/Removed/stream-ended-without-cause"
    if ev == "Subscribed" and not valid.get(a.get("s"), True):
        return "reject/Subscribed/request-with-unknown-filter-kind-was-accepted"
    if ev == "PublishReturned" and a.get("err"):
        return "reject/PublishReturned/error-for-a-decodable-vaa"
    return "reject/%s/not-allowed-here" % ev
