"""Store family (C12 C16): Store.tla + harness/store.

C12: histories (TLC behaviours of Gen_Store + seeded random histories over a wider identifier domain) are replayed
     on a real Badger directory through db.Database, publicrpc.PublicrpcServer and
     nodePrivilegedService.FindMissingMessages (harness injected into cmd/guardiand); TLC validates every call.
C16: SIGKILL cycles of a child process that stores through db.StoreSignedVAA (harness injected into pkg/db);
     TLC validates the Store/Ack/Kill/Reopen/Get history."""
import json
import os
import random
import re
import shutil

import vlib

H = os.path.join(vlib.HARNESS, "store")
VH = os.path.join(vlib.HARNESS, "common", "vh.go")
INJECT_C12 = {"cmd/guardiand": [(VH, "guardiand"), (os.path.join(H, "store_common.go"), "guardiand"),
                                (os.path.join(H, "store_c12.go"), "guardiand")]}
INJECT_C16 = {"pkg/db": [(VH, "db"), (os.path.join(H, "store_common.go"), "db"), (os.path.join(H, "store_c16.go"), "db")]}

GOV = (1, "g")                      # Trace_Store.cfg / Gen_Store.cfg: GovChain = 1, GovEm = "g"
BIG_BASE, BIG_N = 1000, 8           # harness/store/store_common.go: abstract sequences >= 1000 map to 64-bit boundary values
HUGE_TARGETS = (7, 9)               # streams that may hold such sequences; Gap is never asked for them (result would be 2^64 long)


def ID(ec, em, tc, seq):
    return {"ec": ec, "em": em, "tc": tc, "seq": seq}


def ST(ec, em, tc):
    return {"ec": ec, "em": em, "tc": tc}


def key(i):
    return (i["ec"], i["em"], i["tc"], i.get("seq"))


def run_keys(a):
    """identifiers written by a StoreRun step / line"""
    st = a["st"]
    return [(st["ec"], st["em"], st["tc"], q) for lo, hi in a["ranges"] for q in range(lo, hi + 1)]


# ------------------------------------------------------------------ scenario sources

def sweep(steps, rnd, limit=16):
    """Queries appended to a history: every stream / identifier that could be confused with a stored one."""
    stored = []
    for s in steps:
        if s["ev"] == "Store" and s["a"]["v"]["id"] not in stored:
            stored.append(s["a"]["v"]["id"])
    if not stored:
        return []
    out = []
    tcs = sorted({i["tc"] for i in stored})
    ems = sorted({(i["ec"], i["em"]) for i in stored})
    streams = []
    for (ec, em) in ems:
        for tc in tcs:
            if tc not in HUGE_TARGETS:
                streams.append(ST(ec, em, tc))
    rnd.shuffle(streams)
    for st in streams[:limit // 2]:
        out.append({"ev": "Gap", "a": {"st": st}})
    seqs = sorted({i["seq"] for i in stored})[:20]
    out.append({"ev": "GovBatch", "a": {"seqs": seqs}})
    for st in streams[:3]:
        out.append({"ev": "NonGovBatch", "a": {"st": st, "seqs": seqs}})
    near = []
    for i in stored:
        for tc in tcs:
            near.append(ID(i["ec"], i["em"], tc, i["seq"]))
    rnd.shuffle(near)
    for i in (stored + near)[:limit // 2]:
        out.append({"ev": "Get", "a": {"id": i}})
    return out


def tlc_scenarios(work, n, depth, seed_):
    """Behaviours of Gen_Store under tlc -simulate (siblings that share all but the last step are merged)."""
    cfg = open(os.path.join(vlib.SPEC, "Gen_Store.cfg")).read()
    cfg = re.sub(r"GenDepth = \d+", "GenDepth = %d" % depth, cfg)
    sdir = os.path.join(work, "spec")
    if not os.path.isdir(sdir):
        shutil.copytree(vlib.SPEC, sdir)
    name = "Gen_Store_%d_%d.cfg" % (seed_, depth)
    with open(os.path.join(sdir, name), "w") as fh:
        fh.write(cfg)
    r = vlib.tlc(work, "Gen_Store", name, workers=1,
                 args=["-simulate", "num=%d" % n, "-depth", str(depth), "-seed", str(seed_)], timeout=900)
    hs = vlib.tlc_prints(r["out"], "SCN")
    if not hs:
        raise vlib.Broken("TLC simulation produced no scenarios:\n" + r["out"][-2000:])
    groups = {}
    for h in hs:
        groups.setdefault(json.dumps(h[:-1], sort_keys=True), []).append(h)
    rnd = random.Random("sweep-%d" % seed_)
    res = []
    for g in groups.values():
        steps = list(g[0][:-1])
        lasts = [h[-1] for h in g]
        steps += [x for x in lasts if x["ev"] != "Store"] + [x for x in lasts if x["ev"] == "Store"][:1]
        for s in steps:                       # TLC prints sets as arrays; the harness wants lists of numbers
            if "seqs" in s["a"]:
                s["a"]["seqs"] = sorted(s["a"]["seqs"])
        steps += sweep(steps, rnd)
        if len(res) % 2 == 0:
            add_backfills(steps, rnd, 1)
        res.append({"steps": steps, "src": "tlc"})
    return res


FAMILIES = [[2, 25, 255, 2555, 25555, 20, 200], [1, 10, 11, 12, 13, 14, 15, 16, 17, 100, 1000, 10001],
            [4, 42, 420, 4242, 40], [6, 65, 655, 6553, 65535], [0, 3, 30, 300], [7, 9]]
EMITTERS = [(1, "g"), (10, "g"), (1, "gx"), (1, "g0"), (1, "h"), (2, "h"), (25, "h"), (255, "k"), (65535, "k"), (0, "g"),
            (10001, "g"), (100, "h")]
SMALL_SEQS = [0, 1, 2, 3, 4, 5, 9, 10, 11, 12, 19, 20, 21, 99, 100, 101, 110, 111, 199, 200, 255, 256, 299, 300]
TAGS = ["v1", "v2", "v3", "v4", "v5L", "v1S", "v2S", "v5LS"]   # "...S": same body as the tag without S, other signatures / set index


def random_history(rnd, maxops=40):
    """A history of <= maxops operations over chain ids whose decimal renderings are prefixes of each other,
    several emitters (the governance emitter among them), overlapping sequence ranges and overwrites."""
    fam = rnd.choice(FAMILIES[:5])
    fam2 = rnd.choice(FAMILIES)
    ems = [GOV] + rnd.sample(EMITTERS[1:], rnd.randint(1, 3)) if rnd.random() < 0.7 else rnd.sample(EMITTERS, rnd.randint(1, 3))
    tcs = rnd.sample(fam, min(len(fam), rnd.randint(2, 4))) + rnd.sample(fam2, 1)
    if rnd.random() < 0.3:
        tcs.append(rnd.choice(HUGE_TARGETS))
    seqpool = rnd.sample(SMALL_SEQS, rnd.randint(3, 8))
    if rnd.random() < 0.5:
        seqpool = sorted(set(seqpool + [0, 1, 10]))
    stored = []
    steps = []

    def some_seq(tc):
        if tc in HUGE_TARGETS and rnd.random() < 0.6:
            return BIG_BASE + rnd.randrange(BIG_N)
        return rnd.choice(seqpool)

    def some_stream(gap=False):
        for _ in range(20):
            ec, em = rnd.choice(ems)
            tc = rnd.choice(tcs)
            if not (gap and tc in HUGE_TARGETS):
                return ST(ec, em, tc)
        ec, em = rnd.choice(ems)
        return ST(ec, em, fam[0])

    def some_id():
        r = rnd.random()
        if stored and r < 0.45:
            return dict(rnd.choice(stored))
        if stored and r < 0.8:      # a neighbour: one coordinate changed
            i = dict(rnd.choice(stored))
            c = rnd.randrange(3)
            if c == 0:
                i["tc"] = rnd.choice(tcs)
            elif c == 1:
                i["ec"], i["em"] = rnd.choice(ems)
            else:
                i["seq"] = some_seq(i["tc"])
            return i
        st = some_stream()
        return ID(st["ec"], st["em"], st["tc"], some_seq(st["tc"]))

    def some_seqs():
        pool = sorted({i["seq"] for i in stored} | set(rnd.sample(SMALL_SEQS, 3)) | ({BIG_BASE + rnd.randrange(BIG_N)} if rnd.random() < 0.2 else set()))
        k = rnd.randint(1, min(20, len(pool)))
        req = sorted(rnd.sample(pool, k))
        if rnd.random() < 0.5:                  # the order of a request list carries no meaning
            rnd.shuffle(req)
        return req

    nops = rnd.randint(12, maxops)
    while len(steps) < nops:
        r = rnd.random()
        if r < 0.45 or len(stored) < 2:
            tag = rnd.choice(TAGS)
            if stored and rnd.random() < 0.25:
                i = dict(rnd.choice(stored))            # overwrite
                prev = [x["a"]["v"]["tag"] for x in steps if x["ev"] == "Store" and x["a"]["v"]["id"] == i]
                if prev and rnd.random() < 0.5:         # ... with the same message under another signature set
                    tag = prev[-1][:-1] if prev[-1].endswith("S") else prev[-1] + "S"
            else:
                st = some_stream()
                i = ID(st["ec"], st["em"], st["tc"], some_seq(st["tc"]))
            steps.append({"ev": "Store", "a": {"v": {"id": i, "tag": tag}}})
            if i not in stored:
                stored.append(i)
        elif r < 0.62:
            steps.append({"ev": "Get", "a": {"id": some_id()}})
        elif r < 0.82:
            steps.append({"ev": "Gap", "a": {"st": some_stream(gap=True)}})
        elif r < 0.91:
            steps.append({"ev": "GovBatch", "a": {"seqs": some_seqs()}})
        else:
            steps.append({"ev": "NonGovBatch", "a": {"st": some_stream(), "seqs": some_seqs()}})
    return {"steps": steps[:maxops], "src": "random"}


FAULTS = ["500", "reset", "garbage", "badb64"]


def add_backfills(steps, rnd, count):
    """Insert `count` GapBackfill steps (FindMissingMessages with rpc_backfill against a scripted backfill node) at random
    positions.  The plan says per missing sequence what the node does: deliver the VAA, 404, or misbehave."""
    for _ in range(count):
        pos = rnd.randint(1, len(steps)) if steps else 0
        cur = set()
        for st_ in steps[:pos]:
            if st_["ev"] == "Store":
                cur.add(key(st_["a"]["v"]["id"]))
            elif st_["ev"] == "GapBackfill":      # intended effect: gaps are visited in ascending order, "500" ends the call
                s0 = st_["a"]["st"]
                for q in sorted(int(k) for k in st_["a"]["plan"]):
                    b = st_["a"]["plan"][str(q)]
                    if b == "500":
                        break
                    if b == "ok":
                        cur.add((s0["ec"], s0["em"], s0["tc"], q))
        streams = sorted({k[:3] for k in cur if k[2] not in HUGE_TARGETS and k[3] < BIG_BASE})
        if not streams:
            continue
        ec, em, tc = rnd.choice(streams)
        own = {k[3] for k in cur if k[:3] == (ec, em, tc)}
        missing = gap_of(own)[0] or [0]
        plan = {}
        mode = rnd.random()
        pok = (0.5 if mode < 0.8 else 1.0) * min(1.0, 24.0 / len(missing))   # at most a few dozen fills per call
        for q in missing:
            plan[str(q)] = "ok" if rnd.random() < pok else "404"
        if mode < 0.55 and missing:                # one misbehaviour at a chosen position k (first, last, anywhere)
            k = rnd.choice([missing[0], missing[-1], rnd.choice(missing)])
            plan[str(k)] = rnd.choice(FAULTS)
        elif mode < 0.65:                          # several
            for q in rnd.sample(missing, min(len(missing), 3)):
                plan[str(q)] = rnd.choice(FAULTS[1:])
        steps.insert(pos, {"ev": "GapBackfill", "a": {"st": ST(ec, em, tc), "plan": plan}})
        # look at the result through the other layers right afterwards
        steps.insert(pos + 1, {"ev": "Gap", "a": {"st": ST(ec, em, tc)}})
        steps.insert(pos + 2, {"ev": "NonGovBatch", "a": {"st": ST(ec, em, tc), "seqs": missing[:20]}})
    return steps


def ranges_of(seqs):
    out, seqs = [], sorted(seqs)
    for q in seqs:
        if out and out[-1][1] == q - 1:
            out[-1][1] = q
        else:
            out.append([q, q])
    return out


def large_history(rnd):
    """A LARGE store: one stream of 100..1000 entries with gaps, and equally large neighbouring streams that sort after
    and before it in the key space (the same emitter to a higher / lower / prefix-related target chain, the neighbouring
    emitter address, the same address on another chain, the governance stream); every stream's gaps asked through db and
    the admin service, with lookups and batches in between.  The gap report of a stream is a function of that stream only."""
    ec, em = rnd.choice([(1, "g"), (1, "h"), (10, "g"), (2, "h")])
    tc = rnd.choice([2, 4, 10, 25])
    def seqset(lo_n, hi_n, gappy):
        top = rnd.randint(lo_n, hi_n)
        s = set(range(0, top))
        if gappy:
            for _ in range(rnd.randint(2, 8)):
                a = rnd.randrange(top)
                s -= set(range(a, min(top, a + rnd.randint(1, 12))))
            s.add(top)                      # the highest sequence is present
        return s
    streams = [((ec, em, tc), seqset(100, 999, True))]
    neigh = [(ec, em, tc + 1), (ec, em, tc * 10 + 5), (ec, em, max(0, tc - 1)), (ec, "gx" if em == "g" else "k", tc),
             (ec * 10 if ec < 1000 else 7, em, tc), GOV + (tc,), GOV + (0,)]
    rnd.shuffle(neigh)
    for st in neigh[:rnd.randint(3, 5)]:
        if st not in [x[0] for x in streams]:
            streams.append((st, seqset(100, 600, rnd.random() < 0.5)))
    order = list(streams)
    rnd.shuffle(order)
    steps = []
    for (st, seqs) in order:
        steps.append({"ev": "StoreRun", "a": {"st": ST(*st), "tag": rnd.choice(["v1", "v2", "v3"]), "ranges": ranges_of(seqs)}})
        if rnd.random() < 0.4:
            steps.append({"ev": "Gap", "a": {"st": ST(*streams[0][0])}})
    for (st, seqs) in streams:
        steps.append({"ev": "Gap", "a": {"st": ST(*st)}})
    allseq = sorted(streams[0][1])
    for _ in range(4):
        st, seqs = rnd.choice(streams)
        q = rnd.choice(sorted(seqs))
        steps.append({"ev": "Get", "a": {"id": ID(st[0], st[1], st[2], q)}})
        steps.append({"ev": "Get", "a": {"id": ID(st[0], st[1], st[2] + 1, q)}})
    req = rnd.sample(range(0, 1000), 20)
    steps.append({"ev": "NonGovBatch", "a": {"st": ST(*streams[0][0]), "seqs": req}})
    steps.append({"ev": "GovBatch", "a": {"seqs": req}})
    # a few single stores into the gaps, then the gaps again
    st0, s0 = streams[0]
    holes = [q for q in range(max(s0)) if q not in s0]
    for q in rnd.sample(holes, min(len(holes), 3)):
        steps.append({"ev": "Store", "a": {"v": {"id": ID(st0[0], st0[1], st0[2], q), "tag": "v4"}}})
    steps.append({"ev": "Gap", "a": {"st": ST(*st0)}})
    return {"steps": steps, "src": "large"}


def gen_large(seed_, n):
    rnd = random.Random("store-large-%d" % seed_)
    return [large_history(rnd) for _ in range(n)]


def gen_scenarios(seed_, n):
    rnd = random.Random("store-%d" % seed_)
    res = [random_history(rnd) for _ in range(n)]
    for i, sc in enumerate(res):
        if i % 2 == 0:
            add_backfills(sc["steps"], rnd, rnd.randint(1, 2))
    return res


# ------------------------------------------------------------------ real code

def _env_tmp(work):
    tmp = os.path.join(work, "tmp")
    os.makedirs(tmp, exist_ok=True)
    return tmp


def replay_c12(work, scenarios, workers=4):
    scp = os.path.join(work, "scenarios_c12.ndjson")
    trp = os.path.join(work, "trace_c12.ndjson")
    with open(scp, "w") as fh:
        for i, s in enumerate(scenarios):
            fh.write(json.dumps({"id": i + 1, "bodies": {}, "steps": s["steps"]}) + "\n")
    rc, out, wall = vlib.go_test(work, "node", "./cmd/guardiand", "^TestVerifStoreReplay$", INJECT_C12,
                                 env={"VERIF_SCENARIOS": scp, "VERIF_TRACE": trp, "VERIF_SEED": vlib.seed(),
                                      "VERIF_WORKERS": workers, "TMPDIR": _env_tmp(work)}, timeout=1800)
    if "VERIF-REPLAYED" not in out or rc != 0:
        raise vlib.Broken("store harness (C12) did not complete (rc=%d):\n%s" % (rc, out[-4000:]))
    return vlib.read_ndjson(trp), wall


def crash_c16(work, dirs, cycles, max_stores, max_run_ms):
    """Build the pkg/db test binary once, then one parent process per directory (in parallel)."""
    import concurrent.futures
    binary = os.path.join(work, "db_c16.test")
    rc, out, wall0 = vlib.go_test(work, "node", "./pkg/db", "", INJECT_C16, binary_only=binary, timeout=1200)
    if rc != 0 or not os.path.exists(binary):
        raise vlib.Broken("store harness (C16) does not build (rc=%d):\n%s" % (rc, out[-4000:]))
    tmp = _env_tmp(work)
    t0 = __import__("time").time()

    def one(i):
        trp = os.path.join(work, "trace_c16_%d.ndjson" % i)
        rc, out = vlib.run_test_binary(binary, "^TestVerifStoreCrash$", work, timeout=3000, extra_args=["-test.v"], env={
            "VERIF_TRACE": trp, "VERIF_SEED": vlib.seed(), "VERIF_C16_DIRIDX": i, "VERIF_C16_CYCLES": cycles,
            "VERIF_C16_MAXSTORES": max_stores, "VERIF_C16_MAXRUN_MS": max_run_ms, "TMPDIR": tmp})
        m = re.search(r"^VERIF-C16 (\{.*\})$", out, re.M)
        if "VERIF-BROKEN" in out or not m or rc != 0:
            b = re.findall(r"^VERIF-BROKEN.*$", out, re.M)
            raise vlib.Broken("store harness (C16) could not decide (rc=%d): %s\n%s" % (rc, "; ".join(b), out[-3000:] if not b else ""))
        return vlib.read_ndjson(trp), json.loads(m.group(1))

    with concurrent.futures.ThreadPoolExecutor(dirs) as ex:
        res = list(ex.map(one, range(dirs)))
    lines, stats = [], {}
    for ls, st in res:
        lines += ls
        for k, v in st.items():
            stats[k] = max(stats.get(k, 0), v) if k.startswith("max_") else stats.get(k, 0) + v
    # deterministic kill points inside Open: one trace per torn-file state (harness: TestVerifStoreProbeTornFiles)
    ptr = os.path.join(work, "trace_c16_probe.ndjson")
    rc, out = vlib.run_test_binary(binary, "^TestVerifStoreProbeTornFiles$", work, timeout=600, extra_args=["-test.v"],
                                   env={"VERIF_C16_PROBE": "1", "VERIF_TRACE": ptr, "TMPDIR": tmp})
    m = re.search(r"^VERIF-PROBE (\{.*\})$", out, re.M)
    if rc != 0 or not m:
        raise vlib.Broken("torn-file probe did not complete (rc=%d):\n%s" % (rc, out[-2000:]))
    stats["probe_torn_files"] = json.loads(m.group(1))
    plines = vlib.read_ndjson(ptr)
    nmax = max([ln["n"] for ln in lines] or [0])
    for ln in plines:                     # keep (t, n) unique across the processes' traces
        ln["n"] += nmax
    lines += plines
    return lines, stats, __import__("time").time() - t0


# ------------------------------------------------------------------ validation

def validate(work, lines, tag):
    """Run Trace_Store over the recorded lines. Returns (rejections, tlc result)."""
    w = os.path.join(work, "val_" + tag)
    os.makedirs(w, exist_ok=True)
    sdir = os.path.join(w, "spec")
    shutil.rmtree(sdir, ignore_errors=True)
    shutil.copytree(vlib.SPEC, sdir)
    with open(os.path.join(sdir, "trace.ndjson"), "w") as fh:
        for ln in lines:
            fh.write(json.dumps(ln) + "\n")
    r = vlib.tlc(w, "Trace_Store", "Trace_Store.cfg", workers=1, timeout=3000, heap="12g")
    fin = vlib.tlc_prints(r["out"], "FINISHED")
    if r["violated"] or not fin:
        # the invariants of Store.tla hold on every behaviour built from its own actions, so this is a problem of the
        # specification or of the trace format - never a verdict about the code
        raise vlib.Broken("trace validation did not finish (%s):\n%s" % (tag, "\n".join(r["out"].splitlines()[-60:])))
    return vlib.tlc_prints(r["out"], "REJECT"), r


def validate_parallel(work, lines, tag, parts):
    """Split by trace id into `parts` TLC runs (traces are independent)."""
    import concurrent.futures
    ts = sorted({ln["t"] for ln in lines})
    if parts <= 1 or len(ts) <= 1:
        rejs, r = validate(work, lines, tag)
        return rejs, {"distinct": r["distinct"], "generated": r["generated"], "wall_s": r["wall_s"]}
    buckets = [[] for _ in range(min(parts, len(ts)))]
    where = {t: i % len(buckets) for i, t in enumerate(ts)}
    for ln in lines:
        buckets[where[ln["t"]]].append(ln)
    rejs, tot = [], {"distinct": 0, "generated": 0, "wall_s": 0.0}
    with concurrent.futures.ThreadPoolExecutor(len(buckets)) as ex:
        futs = [ex.submit(validate, work, b, "%s_%d" % (tag, i)) for i, b in enumerate(buckets)]
        for f in futs:
            rj, r = f.result()
            rejs += rj
            tot["distinct"] += r["distinct"]
            tot["generated"] += r["generated"]
            tot["wall_s"] = max(tot["wall_s"], r["wall_s"])
    return rejs, tot


def selftest(work, lines):
    """Negative self-test of the trace specification: the first recorded trace, with the bytes one lookup returned
    replaced by bytes that were never stored, must be rejected by TLC.  Returns the number of rejections."""
    import copy
    if not lines:
        raise vlib.Broken("no trace lines")
    t = lines[0]["t"]
    tr = copy.deepcopy([ln for ln in lines if ln["t"] == t])
    hit = None
    for i, ln in enumerate(tr):
        if ln["ev"] == "Get" and ln["s"].get("res"):
            hit = i
            break
    if hit is None:
        # no successful lookup in the first trace: corrupt a not-found into a found instead
        for i, ln in enumerate(tr):
            if ln["ev"] == "Get":
                ln["s"]["res"] = [{"id": ln["a"]["id"], "tag": "zz"}]
                ln["s"]["code"] = "OK"
                hit = i
                break
    else:
        tr[hit]["s"]["res"][0]["tag"] = "zz"
    if hit is None:
        return -1
    tr = tr[:hit + 60]          # the corrupted line and what follows it (C16: the rest of the lookups after the reopen)
    while tr and tr[-1]["ev"] == "StoreAcked":
        tr.pop()
    bad_n = tr[hit]["n"] if hit < len(tr) else -1
    rejs, _ = validate(work, tr, "selftest")
    rejs = [r for r in rejs if r["n"] == bad_n or r["ev"] == "Kill"]     # the corrupted lookup itself, or the kill it follows (C16)
    if not rejs:
        raise vlib.Broken("negative self-test failed: Trace_Store accepted a trace with a corrupted lookup result")
    return len(rejs)


# ------------------------------------------------------------------ attribution of rejections

def gap_of(seqs):
    if not seqs:
        return [], 0, 0
    m = max(seqs)
    return [x for x in range(m + 1) if x not in seqs], 0, m


def stored_before(lines_of_trace, n):
    """identifier -> tag, from the Store lines of the trace before line n."""
    cur = {}
    for ln in lines_of_trace:
        if ln["n"] >= n:
            break
        if ln["ev"] == "Store":
            v = ln["a"]["v"]
            cur[key(v["id"])] = v["tag"]
        elif ln["ev"] == "StoreRun":
            for k in run_keys(ln["a"]):
                cur[k] = ln["a"]["tag"]
        elif ln["ev"] == "GapBackfill":
            for v in ln["a"].get("fills", []):
                cur[key(v["id"])] = v["tag"]
    return cur


def classify_c12(rej, line, trace_lines):
    """A stable, specific signature for a rejected C12 line: <call>/<layer>/<class>."""
    ev, via = line["ev"], line.get("a", {}).get("via", "db")
    s = line.get("s", {})
    detail = {}
    if s.get("err"):
        cls = "panic" if s["err"].startswith("panic") else "error"
        return "%s/%s/%s" % (ev, via, cls), {"err": s["err"]}
    if ev == "Store":
        return "Store/db/error", {}

    def idtag(x):
        return (key(x["id"]), x["tag"])
    if "held" in s:
        now = s.get("res") if ev == "Get" else s.get("entries", [])
        if [idtag(x) for x in s["held"]] != [idtag(x) for x in now]:
            # the slice(s) the call returned hold other bytes after later calls than right after the call
            return "%s/%s/returned-bytes-changed-while-held" % (ev, via), {"at_return": now, "later": s["held"]}
    cur = stored_before(trace_lines, line["n"])
    if ev == "GapBackfill":
        st = line["a"]["st"]
        own = {k[3] for k in cur if k[:3] == (st["ec"], st["em"], st["tc"])}
        filled = {v["id"]["seq"] for v in line["a"].get("fills", [])}
        plan = line["a"].get("plan", {})
        if "does not allow" in rej.get("why", ""):
            served = {(key(v["id"]), v["tag"]) for v in line["a"].get("served", [])}
            if any((key(v["id"]), v["tag"]) not in served for v in line["a"].get("fills", [])):
                return "GapBackfill/admin/stored-bytes-no-backfill-node-delivered", {}
            return "GapBackfill/admin/overwrote-a-stored-sequence", {"stream": st}
        if s.get("badid"):
            return "GapBackfill/admin/reports-identifier-of-another-stream", {}
        want = set(gap_of(own)[0]) - filled if own else None
        got = set(s.get("missing", []))
        if want is not None:
            lost = sorted(want - got)
            if lost:
                return "GapBackfill/admin/gap-neither-filled-nor-reported", {
                    "stream": st, "gaps": lost, "backfill_node_did": {str(q): plan.get(str(q), "404") for q in lost}}
            if got - want:
                return "GapBackfill/admin/reports-a-filled-or-present-sequence", {"stream": st, "sequences": sorted(got - want)}
            return "GapBackfill/admin/wrong-range", {"stream": st}
        return "GapBackfill/admin/wrong-result-for-empty-stream", {"stream": st, "filled": sorted(filled)}
    if ev == "Gap":
        st = line["a"]["st"]
        own = {k[3] for k in cur if k[:3] == (st["ec"], st["em"], st["tc"])}
        ext = {k for k in cur if k[0] == st["ec"] and k[1] == st["em"] and k[2] != st["tc"] and str(k[2]).startswith(str(st["tc"]))}
        got = (sorted(s.get("missing", [])), s.get("first"), s.get("last"))
        if s.get("badid"):
            return "Gap/%s/reports-identifier-of-another-stream" % via, {}
        if ext:
            m, f, l = gap_of(own | {k[3] for k in ext})
            if got == (m, f, l):
                detail = {"stream": st, "colliding_targets": sorted({k[2] for k in ext}),
                          "explanation": "result equals the gaps of the union of this stream and the streams whose target "
                                         "chain's decimal rendering extends this one's (scan prefix without terminator)"}
                return "Gap/%s/target-prefix-collision" % via, detail
        m, f, l = gap_of(own)
        if got[0] == m and (got[1], got[2]) != (f, l):
            return "Gap/%s/wrong-range" % via, {"stream": st}
        return "Gap/%s/wrong-result" % via, {"stream": st}
    if ev == "Get":
        i = line["a"]["id"]
        want = cur.get(key(i))
        res = s.get("res") or []
        if not res:
            if want is None:
                return "Get/%s/wrong-status-%s" % (via, s.get("code")), {}
            return "Get/%s/stored-but-not-found" % via, {"id": i}
        got = res[0]
        if key(got["id"]) != key(i):
            return "Get/%s/bytes-of-another-identifier" % via, {"id": i, "got": got["id"]}
        if want is None:
            return "Get/%s/found-but-never-stored" % via, {"id": i}
        if got["tag"] != want:
            return "Get/%s/%s" % (via, "unknown-bytes" if got["tag"].startswith("?") else "not-the-last-stored-version"), {"id": i}
        return "Get/%s/wrong-status-%s" % (via, s.get("code")), {}
    # batches
    want = rej.get("spec", {}).get("res", [])
    got = s.get("entries", [])

    def norm(e):
        i = e["id"] if "id" in e else e["val"]["id"]
        t = e["tag"] if "tag" in e else e["val"]["tag"]
        return (e.get("tc"), e["seq"], key(i), t)
    W, G = {norm(e) for e in want}, [norm(e) for e in got]
    if len(G) != len(set(G)):
        cls = "duplicate-entry"
    elif set(G) - W and not (W - set(G)):
        cls = "entry-of-another-stream-or-sequence"
    elif W - set(G) and not (set(G) - W):
        cls = "missing-entry"
    else:
        cls = "wrong-entries"
    return "%s/%s/%s" % (ev, via, cls), {}


def classify_c16(rej, line):
    ev = line["ev"]
    if ev == "Reopen" and line.get("a", {}).get("mode") == "emulated-torn-file":
        a = line["a"]
        ext = os.path.splitext(a["file"])[1]
        what = {".mem": "memtable-wal", ".vlog": "value-log"}.get(ext, "file-created-by-Open:" + a["file"])
        return "Reopen/probe/failed:%s-%s" % (a["variant"], what), {
            "err": line.get("s", {}).get("err"),
            "how": "on a copy of a cleanly closed store that holds acknowledged VAAs, make %s %s (the state a SIGKILL between the "
                   "creation and the first write of that file inside db.Open leaves) and call db.Open" % (a["file"], a["variant"])}
    if ev == "Reopen":
        err = line.get("s", {}).get("err") or ""
        if "Create a new file" in err:          # badger/ristretto: a zero-length log file left by a kill between its creation and its sizing
            why = "zero-length-" + ("memtable-wal" if "opening memtables" in err else "value-log" if "vlog" in err else "file")
        elif "in use" in err.lower() and "directory lock" not in err:
            why = "store-reported-in-use"          # Open itself refuses (e.g. because of the pid file a killed process left behind)
        elif "directory lock" in err:
            why = "directory-lock-held"
        else:
            why = "other"
        return "Reopen/%s/failed:%s" % (line.get("a", {}).get("who", "?"), why), {"err": err}
    if ev == "Kill":
        classes = set()
        for b in rej.get("spec", {}).get("bad", []):
            found, ack = b.get("found"), b.get("acked")
            if found == "nil":
                classes.add("acknowledged-write-lost")
            elif isinstance(found, str) and found.startswith("?"):
                classes.add("foreign-bytes")
            elif not b.get("everstored"):
                classes.add("never-stored-identifier-present")
            elif ack == "nil":
                classes.add("bytes-of-an-older-unacknowledged-write")
            else:
                classes.add("acknowledged-write-replaced-by-an-older-version")
        for c in ("foreign-bytes", "acknowledged-write-lost", "acknowledged-write-replaced-by-an-older-version",
                  "never-stored-identifier-present", "bytes-of-an-older-unacknowledged-write"):
            if c in classes:                      # one class per signature: the gravest
                return "Kill/" + c, {"mode": line.get("a", {}).get("mode"), "classes": sorted(classes)}
        return "Kill/not-allowed", {"mode": line.get("a", {}).get("mode")}
    if ev == "Get":
        s = line.get("s", {})
        if s.get("err"):
            return "Get/db/error-after-reopen", {"err": s["err"]}

        def idtag(x):
            return (key(x["id"]), x["tag"])
        if line.get("a", {}).get("pass") == 2:
            return "Get/db/concurrent-lookup-returned-other-bytes", {"got": s.get("res")}
        if "held" in s and [idtag(x) for x in s["held"]] != [idtag(x) for x in s.get("res", [])]:
            return "Get/db/returned-bytes-changed-while-held", {"at_return": s.get("res"), "later": s["held"]}
        return "Get/db/inconsistent-after-reopen", {}
    return "%s/rejected" % ev, {}
