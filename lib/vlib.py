"""Shared machinery for the /verif checks (stdlib only).

Verdict rule (DESIGN.md section 1): exit 1 / VIOLATION only from behaviour of the real code
(a trace line TLC rejects, a replay step with an outcome the spec does not allow, a reproduced
panic/stall).  A spec-only TLC counterexample, a harness that cannot build, a timeout or an OOM
is exit 2 (check broken), never a violation.
"""
import atexit
import json
import os
import re
import shutil
import subprocess
import sys
import time

VERIF = os.path.dirname(os.path.dirname(os.path.abspath(__file__)))
REPO = os.environ.get("VERIF_REPO", "/repo")
SPEC = os.path.join(VERIF, "spec")
HARNESS = os.path.join(VERIF, "harness")
# VERIF_OUT redirects evidence and replay files (used when a check is run against a mutated scratch copy of the
# repository, so that the committed evidence always describes the unchanged tree)
_OUT = os.environ.get("VERIF_OUT")
EVIDENCE = os.path.join(_OUT, "evidence") if _OUT else os.path.join(VERIF, "evidence")
REPLAYS = os.path.join(_OUT, "replays") if _OUT else os.path.join(VERIF, "replays")
KNOWN = os.path.join(VERIF, "known_findings.txt")
QUIC_DIR = "/root/go/pkg/mod/github.com/libp2p/go-libp2p@v0.22.0/p2p/transport/quic"
NCPU = os.cpu_count() or 4


class Broken(Exception):
    """The check itself could not decide (exit 2)."""


def seed():
    try:
        return int(os.environ.get("VERIF_SEED", "1"))
    except ValueError:
        return 1


def tier(argv_tier=None):
    t = argv_tier or os.environ.get("VERIF_TIER") or "quick"
    return "thorough" if t.startswith("t") else "quick"


_scratch = []


def scratch(name):
    d = os.path.join(VERIF, ".build", "%s-%d" % (name, os.getpid()))
    shutil.rmtree(d, ignore_errors=True)
    os.makedirs(d)
    _scratch.append(d)
    return d


def _cleanup():
    if os.environ.get("VERIF_KEEP"):
        return
    for d in _scratch:
        shutil.rmtree(d, ignore_errors=True)


atexit.register(_cleanup)


def go_env(extra=None):
    env = dict(os.environ)
    env.update({
        "GOFLAGS": "-mod=mod", "GOPROXY": "off", "GOSUMDB": "off", "GOTOOLCHAIN": "local",
        "GODEBUG": "goindex=0", "CGO_ENABLED": env.get("CGO_ENABLED", "1"),
    })
    if _scratch:
        # go build work directories and t.TempDir() of the harness tests live (and die) with the scratch directory
        tmp = os.path.join(_scratch[-1], "tmp")
        os.makedirs(tmp, exist_ok=True)
        env["TMPDIR"] = tmp
    if extra:
        env.update({k: str(v) for k, v in extra.items()})
    return env


def make_overlay(work, module, inject):
    """module: 'node' | 'explorer-backend'.  inject: {pkg dir relative to module: [(harness file, pkg name)]}.
    Harness files are copied into `work` with the package clause rewritten and mapped into the target
    package as zz_verif_*_test.go.  Returns (overlay path, modfile path)."""
    moddir = os.path.join(REPO, module)
    repl = {}
    if os.path.isdir(QUIC_DIR):
        for f in os.listdir(QUIC_DIR):
            if f.endswith(".go") and not f.endswith("_test.go"):
                stub = "quic_transport_stub.go" if f == "transport.go" else "quic_empty_stub.go"
                repl[os.path.join(QUIC_DIR, f)] = os.path.join(HARNESS, "stubs", stub)
    for pkgdir, files in inject.items():
        for i, (src, pkgname) in enumerate(files):
            text = open(src).read()
            text = re.sub(r"(?m)^package\s+\w+", "package " + pkgname, text, count=1)
            base = os.path.basename(src).replace(".go", "")
            dst = os.path.join(work, "%s_%s_%d.go" % (pkgdir.replace("/", "_"), base, i))
            with open(dst, "w") as fh:
                fh.write(text)
            repl[os.path.join(moddir, pkgdir, "zz_verif_%s_test.go" % base)] = dst
    ov = os.path.join(work, "overlay_%s.json" % module.replace("/", "_"))
    with open(ov, "w") as fh:
        json.dump({"Replace": repl}, fh)
    mf = os.path.join(work, "mod_%s" % module.replace("/", "_"))
    os.makedirs(mf, exist_ok=True)
    shutil.copy(os.path.join(moddir, "go.mod"), os.path.join(mf, "go.mod"))
    if os.path.exists(os.path.join(moddir, "go.sum")):
        shutil.copy(os.path.join(moddir, "go.sum"), os.path.join(mf, "go.sum"))
    return ov, os.path.join(mf, "go.mod")


def go_test(work, module, pkg, run, inject, env=None, race=False, timeout=900, extra_args=None, binary_only=False):
    """Build (from REPO's working tree + injected harness files) and run `go test -run <run>` in pkg.
    Returns (returncode, combined output)."""
    ov, mf = make_overlay(work, module, inject)
    cmd = ["go", "test", "-overlay", ov, "-modfile", mf, "-vet=off", "-count=1"]
    if race:
        cmd.append("-race")
    if binary_only:
        cmd += ["-c", "-o", binary_only]
    else:
        cmd += ["-v", "-run", run, "-timeout", "%ds" % timeout]
    if extra_args:
        cmd += extra_args
    cmd.append(pkg)
    t0 = time.time()
    try:
        p = subprocess.run(cmd, cwd=os.path.join(REPO, module), env=go_env(env), stdout=subprocess.PIPE,
                           stderr=subprocess.STDOUT, timeout=timeout + 120)
    except subprocess.TimeoutExpired as e:
        raise Broken("go test timed out after %ds: %s" % (timeout, " ".join(cmd)))
    out = p.stdout.decode("utf-8", "replace")
    return p.returncode, out, time.time() - t0


def run_test_binary(binary, run, cwd, env=None, timeout=900, extra_args=None):
    cmd = [binary, "-test.run", run, "-test.timeout", "%ds" % timeout, "-test.count", "1"] + (extra_args or [])
    try:
        p = subprocess.run(cmd, cwd=cwd, env=go_env(env), stdout=subprocess.PIPE, stderr=subprocess.STDOUT,
                           timeout=timeout + 60)
    except subprocess.TimeoutExpired:
        raise Broken("test binary timed out: %s" % " ".join(cmd))
    return p.returncode, p.stdout.decode("utf-8", "replace")


# ----------------------------------------------------------------------------- TLC

TLC_JAR = "/opt/veriftools/tla/tla2tools.jar"
COMMUNITY = "/opt/veriftools/tla/CommunityModules-deps.jar"


def _tlc_classpath():
    d = os.path.dirname(TLC_JAR)
    jars = [os.path.join(d, f) for f in sorted(os.listdir(d)) if f.endswith(".jar")]
    return ":".join(jars)


def tlc(work, module, cfg=None, workers=None, args=None, timeout=600, deque=False, heap="8g", defines=None):
    """Run TLC on spec/<module>.tla in a scratch copy of the spec directory.
    Returns dict(rc, out, generated, distinct, depth, ok, violated)."""
    sdir = os.path.join(work, "spec")
    if not os.path.isdir(sdir):
        shutil.copytree(SPEC, sdir)
    meta = os.path.join(work, "meta_%s_%d" % (module, int(time.time() * 1000) % 10 ** 9))
    jtmp = os.path.join(work, "jtmp")
    os.makedirs(jtmp, exist_ok=True)
    cmd = ["java", "-Xss64m", "-Xmx" + heap, "-XX:+UseParallelGC", "-Djava.io.tmpdir=" + jtmp]
    if deque:
        cmd.append("-Dtlc2.tool.queue.IStateQueue=StateDeque")
    for k, v in (defines or {}).items():
        cmd.append("-D%s=%s" % (k, v))
    cmd += ["-cp", _tlc_classpath(), "tlc2.TLC", "-metadir", meta, "-noGenerateSpecTE",
            "-workers", str(workers or "auto")]
    if cfg:
        cmd += ["-config", cfg]
    cmd += (args or [])
    cmd.append(module)
    t0 = time.time()
    try:
        p = subprocess.run(cmd, cwd=sdir, stdout=subprocess.PIPE, stderr=subprocess.STDOUT, timeout=timeout)
    except subprocess.TimeoutExpired:
        subprocess.run(["pkill", "-f", "metadir %s" % meta])
        raise Broken("TLC timed out after %ds on %s/%s" % (timeout, module, cfg))
    out = p.stdout.decode("utf-8", "replace")
    shutil.rmtree(meta, ignore_errors=True)
    res = {"rc": p.returncode, "out": out, "wall_s": time.time() - t0, "generated": 0, "distinct": 0, "depth": 0}
    m = re.findall(r"(?m)^(\d[\d,]*) states generated, (\d[\d,]*) distinct states found", out)
    if m:
        res["generated"] = int(m[-1][0].replace(",", ""))
        res["distinct"] = int(m[-1][1].replace(",", ""))
    m = re.search(r"depth of the complete state graph search is (\d+)", out)
    if m:
        res["depth"] = int(m.group(1))
    res["ok"] = p.returncode == 0 and "Model checking completed. No error has been found" in out
    res["violated"] = bool(re.search(r"Invariant .* is violated|Action property .* is violated|"
                                     r"Temporal properties were violated|Error: Deadlock reached|"
                                     r"is violated by the initial state|Assumption .* is false", out))
    return res


def tlc_must_pass(work, module, cfg, **kw):
    r = tlc(work, module, cfg, **kw)
    if not r["ok"]:
        tail = "\n".join(r["out"].splitlines()[-60:])
        raise Broken("TLC did not accept the specification %s/%s (spec-level problem, not a code violation):\n%s"
                     % (module, cfg, tail))
    return r


def tlc_prints(out, tag):
    """Extract values printed by PrintT(<<tag, ToJson(x)>>) lines: <<"TAG", "json">>."""
    res = []
    pat = re.compile(r'^<<"%s", "(.*)">>$' % re.escape(tag))
    for line in out.splitlines():
        m = pat.match(line.strip())
        if m:
            s = m.group(1).encode("utf-8").decode("unicode_escape")
            try:
                res.append(json.loads(s))
            except ValueError:
                pass
    return res


# ----------------------------------------------------------------------------- findings / evidence

def load_known():
    """known_findings.txt lines:
         known: property=<id> sig=<signature regex> :: <description>
         fixed: property=<id> <commit> <what failed>
       Only `known:` lines suppress; `fixed:` lines are documentation."""
    res = []
    if not os.path.exists(KNOWN):
        return res
    for line in open(KNOWN):
        line = line.strip()
        m = re.match(r"known:\s+property=(\S+)\s+sig=(\S+)\s+::\s*(.*)$", line)
        if m:
            res.append({"property": m.group(1), "sig": m.group(2), "desc": m.group(3)})
    return res


class Verdict:
    """Collects violation signatures produced from real-code behaviour and classifies them."""

    def __init__(self, prop):
        self.prop = prop
        self.items = []  # (signature, detail dict)

    def add(self, signature, detail):
        self.items.append((signature, detail))

    def finish(self):
        """Print KNOWN-FINDING / VIOLATION lines; return exit code."""
        known = [k for k in load_known() if k["property"] == self.prop]
        seen_known = {}
        unknown = []
        for sig, detail in self.items:
            hit = None
            for k in known:
                if re.fullmatch(k["sig"], sig):
                    hit = k
                    break
            if hit:
                seen_known.setdefault(hit["sig"], (hit, 0))
                seen_known[hit["sig"]] = (hit, seen_known[hit["sig"]][1] + 1)
            else:
                unknown.append((sig, detail))
        for sig, (k, n) in sorted(seen_known.items()):
            print("KNOWN-FINDING: property=%s %s [sig=%s, %d occurrence(s) this run]" % (self.prop, k["desc"], sig, n))
        self.n_known = sum(n for _, n in seen_known.values())
        self.n_unknown = len(unknown)
        if unknown:
            os.makedirs(REPLAYS, exist_ok=True)
            path = os.path.join(REPLAYS, "%s-%d.json" % (self.prop, seed()))
            with open(path, "w") as fh:
                json.dump({"property": self.prop, "seed": seed(),
                           "violations": [{"signature": s, "detail": d} for s, d in unknown[:50]]}, fh, indent=1,
                          default=str)
            for s, d in unknown[:10]:
                print("  violation signature: %s" % s)
            print("VIOLATION property=%s replay=%s" % (self.prop, path))
            return 1
        return 0


def write_evidence(prop, tier_, level, coverage, assumptions, wall_s, violations):
    os.makedirs(EVIDENCE, exist_ok=True)
    ev = {
        "property_id": prop, "tier": tier_, "seed": seed(), "level": level, "coverage": coverage,
        "assumptions": assumptions, "wall_s": round(wall_s, 2), "violations": violations,
    }
    with open(os.path.join(EVIDENCE, prop + ".json"), "w") as fh:
        json.dump(ev, fh, indent=1, default=str)
        fh.write("\n")


def read_ndjson(path):
    res = []
    if not os.path.exists(path):
        return res
    for line in open(path):
        line = line.strip()
        if line:
            res.append(json.loads(line))
    return res


def main_wrapper(fn):
    """Run a check function; map Broken to exit 2."""
    try:
        rc = fn()
    except Broken as e:
        print("CHECK-BROKEN: %s" % e)
        sys.exit(2)
    sys.exit(rc)
