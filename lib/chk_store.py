"""Checks C12 and C16 (DESIGN.md section 6, Appendix A.4): exhaustive TLC runs of the bounded Store model
(refinement lemmas key-prefix view = stream view; crash model), histories replayed on a real Badger store through
db.Database / publicrpc.PublicrpcServer / nodePrivilegedService.FindMissingMessages, SIGKILL cycles of a storing
child process; every recorded call validated by TLC against Store.tla."""
import concurrent.futures
import json
import os
import time
from collections import Counter

import fam_store as fs
import vlib

PROPS = ["C12", "C16"]

NOTE = ("Trusted: TLC, the Go toolchain, Badger, the harness's own VAA codec. The exhaustive runs are at small constants "
        "(C12: every store of <= 2 (quick) / 3-4 (thorough) identifiers over chain ids {1,2,4,10,17,25,42,255,10001} x 2-3 emitters x "
        "sequences {0,1,2,5,10,12}; C16: 3 identifiers, 2-3 versions); the bridge to real sizes (16-bit chain ids, 32-byte addresses, "
        "64-bit sequences, a real Badger directory, real process kills) is trace validation of replayed/recorded histories. "
        "C16 simulates process kill only (no power loss).")

MANIFEST = {
    "C12": dict(text="Store.tla holds two views of the store - identifier -> bytes (what the property talks about) and rendered key -> bytes "
                     "queried by point lookups and lexicographic prefix scans (what Badger and db.go do); TLC checks exhaustively that both "
                     "give the same answers for every lookup, gap query and batch query (GetExact, ScanSelectsStream, GapIsolated, BatchIsolated) "
                     "when scan prefixes are terminated, and refutes it for an unterminated prefix (negative config). TLC-generated and seeded "
                     "random histories are replayed on a real Badger store through db.Database, publicrpc.PublicrpcServer and "
                     "nodePrivilegedService.FindMissingMessages; TLC validates every call's result against the specification view, including that a "
                     "backfill call fills the store only through the processor's inbound channel (OnlyThroughProcessor; the VAAs carry one to four "
                     "genuine signatures of a five-key set).",
                ref="6/C12", note=NOTE, technique="TLA+ model checking (TLC) + replay of TLC behaviours and random histories on real Badger, trace validation against Store.tla"),
    "C16": dict(text="Store.tla models acknowledgement, kill (acknowledged writes survive, unacknowledged ones may or may not) and reopen; "
                     "AckedSurvive, NeverForeignBytes, ReopenAlways, AckedReadBack are model-checked. A child process stores a seeded stream of real "
                     "VAAs through db.StoreSignedVAA and is SIGKILLed at seeded instants over many cycles on the same Badger directory; the parent "
                     "reopens and reads every identifier; TLC validates the Store/Ack/Kill/Reopen/Get history. In every third cycle a second Open of "
                     "the directory is attempted while the child is storing (refused on the unchanged tree; if granted, the usual oracle decides).",
                ref="6/C16", note=NOTE, technique="TLA+ model checking (TLC) + trace validation of real SIGKILL/reopen cycles against Store.tla"),
}

PLAN = {
    # mc: {cfg: TLC workers}; the configs run concurrently with each other and with the replay
    "C12": {"quick": dict(mc={"MC_Store_c12_quick.cfg": 6, "MC_Store_c12_queries.cfg": 4}, tlc=(70, 24), rnd=260, large=3, parts=2, workers=4),
            "thorough": dict(mc={"MC_Store_c12_thorough.cfg": 8, "MC_Store_c12_deep.cfg": 4, "MC_Store_c12_quick.cfg": 2,
                                 "MC_Store_c12_queries.cfg": 2}, tlc=(1500, 30), rnd=6000, large=40, parts=8, workers=8)},
    "C16": {"quick": dict(mc={"MC_Store_c16_quick.cfg": 8}, dirs=1, cycles=15, max_stores=20000, max_run_ms=1500),
            "thorough": dict(mc={"MC_Store_c16_thorough.cfg": 10, "MC_Store_c16_quick.cfg": 2}, dirs=4, cycles=75, max_stores=60000,
                             max_run_ms=4000)},
}

ASSUME_C12 = [
    "stored VAAs are correctly encoded VAAs with a non-empty payload and at least one signature (built with the harness's own codec)",
    "emitter addresses are 32 bytes, i.e. always render as 64 hex characters (fixed width, one token in the model)",
    "query identifiers stay in the 16-bit chain-id range of vaa.ChainID; batch requests carry at most 20 distinct sequences",
    "gap queries are only issued for streams whose sequences are below 1000 (the required answer for a stream holding 2^64-1 would have 2^64 elements); "
    "64-bit boundary sequences are covered by lookups and batch queries",
    "for a stream without any stored VAA the property leaves the reported range open; required is only that no sequence is reported present",
    "sequences are modelled as small naturals; the harness maps them order-preservingly to concrete uint64 values",
    "backfill nodes (find-missing-messages with rpc_backfill) answer with the genuine signed VAA, with not-found, or with an error / garbage; "
    "a node that answers 200 with well-formed bytes that are NOT a valid VAA for the requested id is outside the quantifier: the code hands "
    "whatever it fetched to the asynchronous verification path and reports that gap as filled, so such a history is not generated",
]
ASSUME_C16 = [
    "process kill (SIGKILL) only; power loss / fsync semantics are not simulated",
    "an acknowledgement is the complete line the child writes to its stdout after StoreSignedVAA returned nil; the store the child was "
    "possibly executing when it died is treated as an unacknowledged write",
    "the child writes 8 versions per identifier cyclically, so a version older than 8 writes is indistinguishable from the current one",
    "a child that cannot start / be killed, or whose store reports an error, makes the check undecided, not red",
    "the failing commit that is provoked deterministically is a store on a store that has just been closed (ErrDBClosed); other commit "
    "failures (disk full, stalled writes) are not provoked",
]


def run_mc(work, cfgs):
    """The design: exhaustive TLC on the bounded model(s), concurrently.  cfgs: {cfg: workers}."""
    def one(cfg, workers):
        w = os.path.join(work, "mc_" + cfg.replace(".cfg", ""))
        os.makedirs(w, exist_ok=True)
        return cfg, vlib.tlc_must_pass(w, "MC_Store", cfg, workers=min(workers, vlib.NCPU), timeout=3000, heap="12g")
    ex = concurrent.futures.ThreadPoolExecutor(len(cfgs))
    return ex, [ex.submit(one, c, n) for c, n in cfgs.items()]


def negative_config(work):
    """Documented negative config: with an unterminated scan prefix TLC refutes the refinement lemma. Informational."""
    w = os.path.join(work, "mc_neg")
    os.makedirs(w, exist_ok=True)
    r = vlib.tlc(w, "MC_Store", "MC_Store_neg.cfg", workers=2, timeout=600)
    import re
    m = re.search(r"Invariant (\w+) is violated", r["out"])
    return {"config": "MC_Store_neg.cfg (Terminated = FALSE)", "refuted": bool(m), "invariant": m.group(1) if m else None}


# ------------------------------------------------------------------ coverage classes (no vacuity)

def bucket(n, edges=(0, 1, 2, 3)):
    for e in edges:
        if n <= e:
            return e
    return edges[-1] + 1


def c12_classes(lines):
    classes, guard = set(), Counter()
    cur = {}
    for ln in lines:
        ev, a, s = ln["ev"], ln["a"], ln["s"]
        if ev == "Reset":
            cur = {}
            continue
        via = a.get("via")
        if ev == "StoreRun":
            ks = fs.run_keys(a)
            classes.add((ev, bucket(len(ks), (99, 299, 599)), any(k in cur for k in ks)))
            guard["store-run-of-100-or-more"] += len(ks) >= 100
            for k in ks:
                cur[k] = a["tag"]
        elif ev == "Store":
            k = fs.key(a["v"]["id"])
            classes.add((ev, k in cur, a["v"]["tag"].endswith("L"), k[3] >= fs.BIG_BASE))
            guard["store-overwrite" if k in cur else "store-new"] += 1
            cur[k] = a["v"]["tag"]
        elif ev == "Get":
            k = fs.key(a["id"])
            conf = any(o[0] == k[0] and o[1] == k[1] and o[3] == k[3] and o[2] != k[2] and (str(o[2]).startswith(str(k[2])) or str(k[2]).startswith(str(o[2])))
                       for o in cur)
            other_em = any(o[2] == k[2] and o[3] == k[3] and (o[0], o[1]) != (k[0], k[1]) for o in cur)
            classes.add((ev, via, k in cur, conf, other_em, k[3] >= fs.BIG_BASE))
            guard["get-found" if k in cur else "get-absent"] += 1
            if conf and k not in cur:
                guard["get-absent-with-prefix-related-neighbour"] += 1
        elif ev == "Gap":
            st = (a["st"]["ec"], a["st"]["em"], a["st"]["tc"])
            own = {o[3] for o in cur if o[:3] == st}
            ext = any(o[0] == st[0] and o[1] == st[1] and o[2] != st[2] and str(o[2]).startswith(str(st[2])) for o in cur)
            pre = any(o[0] == st[0] and o[1] == st[1] and o[2] != st[2] and str(st[2]).startswith(str(o[2])) for o in cur)
            oth = any(o[2] == st[2] and (o[0], o[1]) != (st[0], st[1]) for o in cur)
            gaps = len(fs.gap_of(own)[0])
            classes.add((ev, via, bucket(len(own)), bucket(gaps), ext, pre, oth))
            guard["gap-empty-stream" if not own else "gap-nonempty-stream"] += 1
            if ext:
                guard["gap-with-target-whose-rendering-extends-the-queried-one"] += 1
            if len(own) >= 100 and gaps and len(cur) - len(own) >= 300:
                guard["gap-in-large-stream-with-large-neighbours"] += 1
            if gaps:
                guard["gap-with-missing-sequences"] += 1
        elif ev == "GapBackfill":
            st = (a["st"]["ec"], a["st"]["em"], a["st"]["tc"])
            own = {o[3] for o in cur if o[:3] == st}
            plan = a.get("plan", {})
            faults = sorted({v for v in plan.values() if v not in ("ok", "404")})
            nfill = len(a.get("fills", []))
            classes.add((ev, bucket(len(own)), bucket(nfill), tuple(faults), bool(s.get("err")), bucket(len(s.get("missing", [])))))
            guard["backfill-call"] += 1
            if nfill:
                guard["backfill-filled-a-gap"] += 1
            if faults:
                guard["backfill-node-misbehaved"] += 1
                if not s.get("err"):
                    guard["backfill-node-misbehaved-call-succeeded"] += 1
            if "500" in faults:
                guard["backfill-node-answered-500"] += 1
            if s.get("err"):
                guard["backfill-call-failed-as-a-whole"] += 1
            for v in a.get("fills", []):
                cur[fs.key(v["id"])] = v["tag"]
        elif ev == "GovBatch":
            seqs = set(a["seqs"])
            hit = [o for o in cur if (o[0], o[1]) == fs.GOV and o[3] in seqs]
            foreign = any((o[0], o[1]) != fs.GOV and o[3] in seqs for o in cur)
            classes.add((ev, via, bucket(len(hit)), bucket(len({o[2] for o in hit})), foreign))
            guard["govbatch-nonempty" if hit else "govbatch-empty"] += 1
        elif ev == "NonGovBatch":
            st = (a["st"]["ec"], a["st"]["em"], a["st"]["tc"])
            seqs = set(a["seqs"])
            hit = [o for o in cur if o[:3] == st and o[3] in seqs]
            foreign = any(o[:3] != st and o[3] in seqs for o in cur)
            classes.add((ev, via, bucket(len(hit)), bucket(len(seqs) - len(hit)), foreign))
            guard["nongovbatch-nonempty" if hit else "nongovbatch-empty"] += 1
    return classes, guard


NEEDED_C12 = ["store-new", "store-overwrite", "get-found", "get-absent", "get-absent-with-prefix-related-neighbour", "gap-empty-stream",
              "gap-nonempty-stream", "gap-with-target-whose-rendering-extends-the-queried-one", "gap-with-missing-sequences",
              "govbatch-nonempty", "nongovbatch-nonempty", "backfill-filled-a-gap", "backfill-node-misbehaved",
              "backfill-node-misbehaved-call-succeeded", "backfill-node-answered-500", "store-run-of-100-or-more",
              "gap-in-large-stream-with-large-neighbours"]


def run_c12(prop, tier, replay):
    t0 = time.time()
    work = vlib.scratch(prop)
    plan = PLAN[prop][tier]
    seed = vlib.seed()
    mc_states = mc_trans = 0
    mc_info, neg = [], None
    if replay:
        rp = json.load(open(replay))
        scenarios = [v["detail"]["scenario"] for v in rp.get("violations", []) if v.get("detail", {}).get("scenario")]
        if not scenarios:
            raise vlib.Broken("replay file has no scenario")
        futs = []
    else:
        # 1. the design: exhaustive TLC on the bounded model (runs while the histories are generated and replayed)
        ex, futs = run_mc(work, plan["mc"])
        # 2. histories: TLC behaviours + seeded random histories over the wider identifier domain
        scenarios = (fs.tlc_scenarios(work, plan["tlc"][0], plan["tlc"][1], seed) + fs.gen_scenarios(seed, plan["rnd"])
                     + fs.gen_large(seed, plan["large"]))
    # 3. the real code on a real Badger directory
    lines, wall = fs.replay_c12(work, scenarios, workers=plan["workers"])
    calls = Counter("%s/%s" % (ln["ev"], ln["a"].get("via", "db")) for ln in lines if ln["ev"] != "Reset")
    print("replayed %d histories (%d calls) on real Badger through db / public RPC / admin service in %.1fs" % (len(scenarios), sum(calls.values()), wall))
    # 4. TLC decides conformance of every recorded call
    rejs, r = fs.validate_parallel(work, lines, "c12", plan["parts"] if not replay else 1)
    st_rej = fs.selftest(work, lines) if not replay else None
    print("trace validation: %d states, %.1fs, %d rejected call(s)" % (r["distinct"], r["wall_s"], len(rejs)))
    for f in futs:
        cfg, m = f.result()
        mc_states += m["distinct"]
        mc_trans += m["generated"]
        mc_info.append({"cfg": cfg, "distinct": m["distinct"], "generated": m["generated"], "depth": m["depth"], "wall_s": round(m["wall_s"], 1)})
        print("TLC %s: %d distinct states, %d transitions, depth %d, %.0fs" % (cfg, m["distinct"], m["generated"], m["depth"], m["wall_s"]))
    if not replay:
        neg = negative_config(work)
        print("negative config (unterminated scan prefix): lemma %s" % ("refuted by TLC (%s), as documented" % neg["invariant"] if neg["refuted"] else "NOT refuted"))

    by_t = {}
    for ln in lines:
        by_t.setdefault(ln["t"], []).append(ln)
    byn = {(ln["t"], ln["n"]): ln for ln in lines}
    verdict = vlib.Verdict(prop)
    sigs = Counter()
    for rj in rejs:
        ln = byn.get((rj["t"], rj["n"]))
        if ln is None:
            raise vlib.Broken("TLC rejected an unknown line %r" % rj)
        sig, det = fs.classify_c12(rj, ln, by_t[rj["t"]])
        sigs[sig] += 1
        sc = scenarios[rj["t"] - 1] if 0 < rj["t"] <= len(scenarios) else None
        verdict.add(sig, {"line": ln, "why": rj.get("why"), "required": rj.get("spec"), "explanation": det, "scenario": sc})
    rc = verdict.finish()

    classes, guard = c12_classes(lines)
    if not replay and rc == 0:     # vacuity guards never pre-empt a violation
        missing = [g for g in NEEDED_C12 if guard[g] == 0]
        if missing:
            raise vlib.Broken("vacuous run: no call of class %s" % ", ".join(missing))
    sample = [{"source": sc.get("src"), "steps": sc["steps"][:6]} for sc in scenarios[:1] + scenarios[-1:]]
    cov = {
        "states": mc_states if not replay else max(r["distinct"], 1),
        "transitions": mc_trans if not replay else max(r["generated"], 1),
        "traces_validated_against_impl": len(scenarios),
        "samples": sample,
        "evaluations": sum(calls.values()),
        "distinct_nontrivial": len(classes),
        "rule": "one evaluation = one real call (db / public RPC / admin service) on a real Badger directory whose result TLC compared with "
                "the one Store.tla requires; distinct = distinct (call, layer, store-content class) tuples, where the class says how many "
                "sequences the addressed stream holds, how many are missing, and whether the store also holds VAAs of a target chain whose "
                "decimal rendering extends / is a prefix of the queried one, of another emitter, or of the requested sequences elsewhere",
        "mc_configs": mc_info, "negative_config": neg, "trace_spec_states": r["distinct"],
        "trace_spec_negative_selftest_rejections": st_rej,
        "calls": dict(calls), "situations_exercised": dict(guard),
        "scenario_sources": dict(Counter(sc.get("src") for sc in scenarios)),
        "rejected_calls": len(rejs), "rejection_signatures": dict(sigs),
        "known_findings_matched": getattr(verdict, "n_known", 0),
        "exhaustive": False,
    }
    vlib.write_evidence(prop, tier, "model_checking", cov, ASSUME_C12, time.time() - t0, getattr(verdict, "n_unknown", 0))
    return rc


def run_c16(prop, tier, replay):
    t0 = time.time()
    work = vlib.scratch(prop)
    plan = PLAN[prop][tier]
    mc_states = mc_trans = 0
    mc_info = []
    futs = []
    if replay:
        rp = json.load(open(replay))
        lines = None
        for v in rp.get("violations", []):
            if v.get("detail", {}).get("history"):
                lines = v["detail"]["history"]
                break
        if not lines:
            raise vlib.Broken("replay file has no recorded history")
        stats, wall = {"replayed_recorded_history": True}, 0.0
    else:
        ex, futs = run_mc(work, plan["mc"])
        lines, stats, wall = fs.crash_c16(work, plan["dirs"], plan["cycles"], plan["max_stores"], plan["max_run_ms"])
        print("%d kill cycles on %d Badger director%s: %d acknowledged stores, %d lookups after reopen, %.1fs" % (
            stats["cycles"], plan["dirs"], "y" if plan["dirs"] == 1 else "ies", stats["stores_acked"], stats["lookups"], wall))
    rejs, r = fs.validate_parallel(work, lines, "c16", plan["dirs"] if not replay else 1)
    st_rej = fs.selftest(work, lines) if not replay else None
    print("trace validation: %d states, %.1fs, %d rejected line(s)" % (r["distinct"], r["wall_s"], len(rejs)))
    for f in futs:
        cfg, m = f.result()
        mc_states += m["distinct"]
        mc_trans += m["generated"]
        mc_info.append({"cfg": cfg, "distinct": m["distinct"], "generated": m["generated"], "depth": m["depth"], "wall_s": round(m["wall_s"], 1)})
        print("TLC %s: %d distinct states, %d transitions, depth %d, %.0fs" % (cfg, m["distinct"], m["generated"], m["depth"], m["wall_s"]))

    byn = {(ln["t"], ln["n"]): ln for ln in lines}
    verdict = vlib.Verdict(prop)
    sigs = Counter()
    for rj in rejs:
        ln = byn.get((rj["t"], rj["n"]))
        if ln is None:
            raise vlib.Broken("TLC rejected an unknown line %r" % rj)
        sig, det = fs.classify_c16(rj, ln)
        if ln["ev"] in ("Get", "Kill"):
            # was a store to (one of) the offending identifier(s) acknowledged by a store that was not open?
            want = {fs.key(ln["a"]["id"])} if ln["ev"] == "Get" else {fs.key(b["id"]) for b in rj.get("spec", {}).get("bad", [])}
            ack_closed = None
            for x in lines:
                if x["t"] != rj["t"] or x["n"] >= rj["n"]:
                    continue
                if x["ev"] == "StoreClosed" and fs.key(x["a"]["v"]["id"]) in want:
                    ack_closed = x if x["s"].get("err") == "" else None
                elif x["ev"] == "StoreAcked" or x["ev"] == "Store":
                    pass
            if ack_closed is not None and (ln["ev"] == "Get" or all(
                    b.get("acked") == ack_closed["a"]["v"]["tag"] for b in rj.get("spec", {}).get("bad", [])
                    if fs.key(b["id"]) == fs.key(ack_closed["a"]["v"]["id"]))):
                det["acknowledged_on_closed_store"] = ack_closed["a"]
                sig = "StoreClosed/acknowledged-but-not-found-" + ("after-reopen" if ln["ev"] == "Get" else "after-kill")
        if ln["ev"] == "Kill" and ln["a"].get("mode") == "emulated-torn-file":
            sig = sig.replace("Kill/", "Kill/probe(%s %s)/" % (ln["a"]["variant"], ln["a"]["file"]), 1)
        elif ln["ev"] == "Kill":
            # In which cycle were the offending bytes written ("wc" of the lookups after the kill)?  Bytes of the killed
            # cycle that are neither acknowledged nor the one store logged as in flight mean that the parent accounted
            # fewer stores than the child performed: a defect of the harness's bookkeeping, never a verdict on the store.
            wc = {}
            for x in lines:
                if x["t"] == rj["t"] and x["n"] > rj["n"]:
                    if x["ev"] not in ("Reopen", "Get"):
                        break
                    if x["ev"] == "Get" and x["s"].get("res"):
                        wc[fs.key(x["a"]["id"])] = x["s"]["res"][0].get("wc")
            det["written_in_cycle"] = {"%d/%s/%d/%d" % k: v for k, v in wc.items()
                                       if any(fs.key(b["id"]) == k for b in rj.get("spec", {}).get("bad", []))}
            cyc = ln["a"].get("cycle")
            # every (identifier, tag) the parent accounted for the killed cycle: acknowledged runs + the store in flight
            accounted, tab = set(), []
            for x in lines:
                if x["t"] != rj["t"] or x["n"] >= rj["n"]:
                    continue
                if x["ev"] == "Reset":
                    tab = x["a"].get("ids", [])
                elif x["ev"] in ("Close", "Kill"):
                    accounted = set()
                elif x["ev"] == "StoreAcked":
                    accounted |= {(fs.key(tab[k]), tag) for k, tag in x["a"]["vs"]}
                elif x["ev"] == "Store":
                    accounted.add((fs.key(x["a"]["v"]["id"]), x["a"]["v"]["tag"]))
            unaccounted = [b["id"] for b in rj.get("spec", {}).get("bad", [])
                           if cyc is not None and wc.get(fs.key(b["id"])) == cyc and (fs.key(b["id"]), b.get("found")) not in accounted]
            if unaccounted:
                raise vlib.Broken("harness accounting: after the kill of cycle %s the store holds bytes written in that very cycle for %s "
                                  "that the parent never accounted (neither in an acknowledged run nor as the store in flight)" % (cyc, unaccounted))
        sigs[sig] += 1
        # the recorded history of that directory up to the lookups that follow the rejected line (re-validated by --replay)
        hist, after = [], False
        for x in lines:
            if x["t"] != rj["t"]:
                continue
            if x["n"] > rj["n"] and x["ev"] not in ("Reopen", "Get"):
                break
            hist.append(x)
        verdict.add(sig, {"line": ln, "why": rj.get("why"), "offending": rj.get("spec"), "explanation": det, "history": hist})
    rc = verdict.finish()       # violations first: a store that cannot be reopened ends the history early, and IS the finding
    probe_kills = [ln for ln in lines if ln["ev"] == "Kill" and ln["a"].get("mode") == "emulated-torn-file"]
    if rc == 0 and not replay and not ({".mem", ".vlog"} <= {os.path.splitext(k["a"]["file"])[1] for k in probe_kills}):
        raise vlib.Broken("torn-file probe did not cover Badger's log files: %r" % stats.get("probe_torn_files"))

    classes = set()
    kills = [ln for ln in lines if ln["ev"] == "Kill" and ln["a"].get("mode") != "emulated-torn-file"]
    for k in probe_kills:
        classes.add(("probe", k["a"]["file"], k["a"]["variant"]))
    for k in kills:
        a = k["a"]
        classes.add((a.get("mode"), a.get("opened"), bucket(a.get("acks", 0), (0, 9, 99, 999, 9999))))
    if rc == 0 and not replay and (not kills or stats["stores_acked"] == 0 or stats["lookups"] == 0
                                   or stats.get("stores_on_closed_store_refused", 0) + stats.get("stores_on_closed_store_acknowledged", 0) == 0):
        raise vlib.Broken("vacuous run: no kill / no acknowledged store / no lookup / no store on a closed store")
    cov = {
        "states": mc_states if not replay else max(r["distinct"], 1),
        "transitions": mc_trans if not replay else max(r["generated"], 1),
        "traces_validated_against_impl": len({ln["t"] for ln in lines}),
        "samples": [k["a"] for k in kills[:6]],
        "evaluations": (stats.get("stores_acked", 0) + stats.get("stores_unacked", 0) + stats.get("lookups", 0) + 2 * len(kills)) if not replay else len(lines),
        "distinct_nontrivial": len(classes),
        "rule": "one evaluation = one real call or event (store + acknowledgement, kill, reopen, lookup after reopen) that TLC validated against "
                "Store.tla; one trace = the whole history of one Badger directory; distinct = distinct (kill mode, store already opened?, "
                "number of acknowledged stores in the cycle by decade) classes of kill points",
        "mc_configs": mc_info, "trace_spec_states": r["distinct"], "kill_cycles": len(kills),
        "trace_spec_negative_selftest_rejections": st_rej,
        "harness_statistics": stats, "rejected_lines": len(rejs), "rejection_signatures": dict(sigs),
        "known_findings_matched": getattr(verdict, "n_known", 0),
        "exhaustive": False,
    }
    vlib.write_evidence(prop, tier, "model_checking", cov, ASSUME_C16, time.time() - t0, getattr(verdict, "n_unknown", 0))
    return rc


def run(prop, tier, replay=None):
    return run_c12(prop, tier, replay) if prop == "C12" else run_c16(prop, tier, replay)
