"""Processor family (C01 C02 C03 C13 C14): Processor.tla + harness/processor."""
import json
import os
import random
import shutil
import time

import vlib

PKG = "./pkg/processor"
INJECT = {"pkg/processor": [(os.path.join(vlib.HARNESS, "common", "vh.go"), "processor"),
                            (os.path.join(vlib.HARNESS, "processor", "proc_harness.go"), "processor")]}

# bodies of the TLC universes (MC_Processor.tla MsgUniverse / InjectUniverse)
TLC_BODIES = {
    "d1": {"id": "i1", "chain": 2}, "d2": {"id": "i1", "chain": 2},
    "dg": {"id": "ig", "chain": 1, "gov": True}, "de": {"id": "ie", "chain": 2, "empty": True},
}


def q(n):
    return (2 * n) // 3 + 1


# ------------------------------------------------------------------ scenario sources

def tlc_scenarios(work, n, depth, seed_, overrides=None):
    """Behaviours of Gen_Processor under tlc -simulate."""
    cfg = open(os.path.join(vlib.SPEC, "Gen_Processor.cfg")).read()
    cfg = cfg.replace("GenDepth = 14", "GenDepth = %d" % depth)
    for k, v in (overrides or {}).items():
        import re
        cfg = re.sub(r"(?m)^  %s = .*$" % k, "  %s = %s" % (k, v), cfg)
    sdir = os.path.join(work, "spec")
    if not os.path.isdir(sdir):
        shutil.copytree(vlib.SPEC, sdir)
    name = "Gen_Processor_%d_%d.cfg" % (seed_, depth)
    with open(os.path.join(sdir, name), "w") as fh:
        fh.write(cfg)
    r = vlib.tlc(work, "Gen_Processor", name, workers=1,
                 args=["-simulate", "num=%d" % n, "-depth", str(depth + 2), "-seed", str(seed_)], timeout=600)
    hs = vlib.tlc_prints(r["out"], "SCN")
    if not hs:
        raise vlib.Broken("TLC simulation produced no scenarios:\n" + r["out"][-2000:])
    res = []
    for h in hs:
        res.append({"bodies": TLC_BODIES, "steps": h, "src": "tlc"})
    return res


class Gen:
    """Seeded generator of abstract histories with the property quantifiers' shapes: set sizes 1..19, every
    position of the own key, signer subsets around quorum, forged / duplicated / non-member / other-digest
    observations, inbound VAAs (valid, short, swapped, re-indexed, other set), set updates at any point."""

    def __init__(self, rnd):
        self.r = rnd

    def mkset(self, idx, n, with_self=True):
        keys = ["g%d" % i for i in range(2, 2 + n - (1 if with_self else 0))]
        if with_self:
            keys.insert(self.r.randrange(len(keys) + 1), "g1")
        return {"idx": idx, "keys": keys}

    def obs(self, d, k, **kw):
        o = {"d": d, "claimed": k, "signer": k, "over": d}
        o.update(kw)
        return {"ev": "Observation", "a": {"o": o}}

    def msg(self, d, bodies, tx="t1"):
        b = bodies[d]
        return {"ev": "LocalMessage", "a": {"m": {"d": d, "id": b["id"], "gov": bool(b.get("gov")), "chain": b["chain"],
                                                  "tx": tx, "empty": bool(b.get("empty"))}}}

    def vaa(self, d, bodies, S, idxs, **kw):
        sigs = [{"idx": i, "signer": S["keys"][i]} for i in idxs]
        w = {"ok": True, "d": d, "id": bodies[d]["id"], "setIdx": S["idx"], "sigs": sigs}
        w.update(kw)
        return {"ev": "InboundVAA", "a": {"w": w}}

    def aggregation(self):
        r = self.r
        n = r.choice([1, 2, 3, 3, 4, 4, 5, 6, 7, 9, 12, 13, 16, 17, 18, 19, 19])
        with_self = r.random() < 0.9
        A = self.mkset(r.randrange(0, 5), n, with_self)
        bodies = {"d1": {"id": "i1", "chain": r.choice([1, 2, 4, 255, 10001])},
                  "d2": {"id": r.choice(["i1", "i2"]), "chain": 2}}
        bodies["d2"]["chain"] = bodies["d1"]["chain"] if bodies["d2"]["id"] == "i1" else 2
        if r.random() < 0.3:
            bodies["d1"]["plen"] = r.choice([1, 2, 100, 999, 1000, 1001, 1500, 2000])
        if r.random() < 0.2:
            bodies["d1"]["ts"] = r.choice([0, 1, 2 ** 31, 2 ** 32 - 1])
        elif bodies["d2"]["id"] == "i1" and r.random() < 0.6:
            # two bodies of one message id whose timestamps are around the settlement time apart (late-observation rule)
            bodies["d1"]["ts"] = 1600000000 + r.randrange(1000)
            bodies["d2"]["ts"] = bodies["d1"]["ts"] + r.choice([-31, -30, 1, 29, 30, 31, 61])
        steps = [{"ev": "SetUpdate", "a": {"set": A}}]
        # second set: perturbation of A
        B = None
        if r.random() < 0.5:
            keys = list(A["keys"])
            op = r.choice(["rot", "drop", "add", "swap", "fresh"])
            if op == "rot" and len(keys) > 1:
                keys = keys[1:] + keys[:1]
            elif op == "drop" and len(keys) > 1:
                keys.pop(r.randrange(len(keys)))
            elif op == "add" and len(keys) < 19:
                keys.insert(r.randrange(len(keys) + 1), "h1")
            elif op == "swap" and len(keys) > 1:
                i, j = r.sample(range(len(keys)), 2)
                keys[i], keys[j] = keys[j], keys[i]
            elif op == "fresh":
                keys = ["h%d" % i for i in range(1, len(keys) + 1)]
                if r.random() < 0.5:
                    keys[r.randrange(len(keys))] = "g1"
            B = {"idx": A["idx"] + 1, "keys": keys}
        members = [k for k in A["keys"] if k != "g1"]
        real_members = list(members)
        members = members or ["g1"]
        need = q(n)
        pool = []
        d = "d1"
        # the multiset of events
        pool.append(self.msg(d, bodies))
        k = r.choice([max(0, need - 2), need - 1, need, need + 1, len(members)])
        signers = r.sample(real_members, min(len(real_members), max(0, k)))
        for s in signers:
            pool.append(self.obs(d, s))
            if r.random() < 0.15:
                pool.append(self.obs(d, s))  # duplicate
        # byzantine traffic
        for _ in range(r.choice([0, 0, 1, 2, 3])):
            kind = r.choice(["outsider", "forged", "otherdigest", "wrongaddr", "err", "ownreplay", "shape"])
            m = r.choice(members) if members else "g1"
            if kind == "outsider":
                pool.append(self.obs(d, "x1"))
            elif kind == "forged":
                pool.append(self.obs(d, m, signer="x1"))
            elif kind == "otherdigest":
                pool.append(self.obs(d, m, over="d2"))
            elif kind == "wrongaddr":
                pool.append(self.obs(d, m, signer=r.choice(members)))
            elif kind == "err":
                pool.append(self.obs(d, m, signer="ERR", shape=r.choice(["badv", "shortsig", "longsig", "nilsig", "zerors", "v27", "v27"])))
            elif kind == "ownreplay":
                pool.append(self.obs(d, "g1"))
            else:
                sh = r.choice(["nilhash", "shorthash", "longhash", "prehash", "prehash2", "niladdr", "shortaddr", "longaddr"])
                o = self.obs(d, m, shape=sh)
                # malformed hash: recovery fails; malformed address: claimed address is not the signer's
                if sh.startswith("prehash"):
                    pass  # a genuine observation with bytes in front of the digest: modelled as "recovery fails" by Trace_Processor
                elif "hash" in sh:
                    o["a"]["o"]["signer"] = "ERR"
                    o["a"]["o"]["d"] = "dX"
                    o["a"]["o"]["over"] = "dX"
                else:
                    o["a"]["o"]["claimed"] = "JUNKADDR"
                pool.append(o)
        if r.random() < 0.3:
            pool.append(self.obs("d2", r.choice(members) if members else "g1"))
        if r.random() < 0.25:
            pool.append(self.msg("d2", bodies, tx="t2"))
        if r.random() < 0.2:
            pool.append(self.msg(d, bodies))  # re-observation
        if B is not None:
            pool.append({"ev": "SetUpdate", "a": {"set": B}})
            bm = [x for x in B["keys"] if x != "g1"]
            for s in r.sample(bm, min(len(bm), r.choice([0, 1, q(len(B["keys"]))]))):
                pool.append(self.obs(d, s))
        # inbound VAAs
        for _ in range(r.choice([0, 0, 1, 2])):
            S = r.choice([A, B]) if B else A
            m = len(S["keys"])
            if m == 0:
                continue
            qq = q(m)
            fam = r.choice(["quorum", "short", "all", "swap", "dup", "reidx", "outsider", "junk", "err", "badbytes", "qplus",
                            "duphigh", "duphigh", "unorderedhigh", "trailingbad", "trailingbad"])
            idxs = sorted(r.sample(range(m), min(m, qq)))
            kw = {}
            if fam == "duphigh" and m >= 2:
                # enough entries for a quorum, too few distinct signers: the highest guardian index (or one of the three
                # highest) listed three times
                hi = m - 1 - r.choice([0, 0, 1, 2]) if m >= 4 else m - 1
                low = [i for i in range(m) if i < hi]
                idxs = sorted(r.sample(low, min(len(low), max(0, qq - 3)))) + [hi, hi, hi]
            elif fam == "unorderedhigh" and m >= 3:
                # a quorum of distinct valid signatures whose two highest entries are out of order
                idxs = sorted(r.sample(range(m - 2), min(m - 2, max(0, qq - 2)))) + [m - 1, m - 2]
            if fam == "short":
                idxs = idxs[:-1]
            elif fam == "all":
                idxs = list(range(m))
            elif fam == "qplus":
                idxs = sorted(r.sample(range(m), min(m, qq + 1)))
            elif fam == "trailingbad" and m > qq:
                # a full quorum of valid signatures at the lowest indexes, followed by one or two entries that do not
                # verify (outsider / another body / unrecoverable): every listed signature counts, not the first q
                extra = r.choice([1, 1, 2])
                idxs = list(range(min(m, qq + extra)))
            ev = self.vaa(r.choice(["d1", "d1", "d2"]), bodies, S, idxs, **kw)
            sg = ev["a"]["w"]["sigs"]
            if fam == "trailingbad" and m > qq:
                for bad in sg[qq:]:
                    bad["signer"] = r.choice(["x1", "JUNK", "ERR"])
            if fam == "swap" and len(sg) >= 2:
                sg[0], sg[1] = sg[1], sg[0]
            elif fam == "dup" and sg:
                sg.insert(0, dict(sg[0]))
            elif fam == "reidx" and sg:
                sg[-1]["idx"] = (sg[-1]["idx"] + 1) % 256
            elif fam == "outsider" and sg:
                sg[-1]["signer"] = "x1"
            elif fam == "junk" and sg:
                sg[-1]["signer"] = "JUNK"
            elif fam == "err" and sg:
                sg[-1]["signer"] = "ERR"
            elif fam == "badbytes":
                ev["a"]["w"]["ok"] = False
                ev["a"]["w"]["shape"] = r.choice(["short", "badversion", "truncated", "nil", "countlie"])
            if r.random() < 0.3:
                ev["a"]["w"]["setIdx"] = r.choice([0, 7, S["idx"] + 1])
            pool.append(ev)
        r.shuffle(pool)
        # loopbacks are inserted at random positions after the step that creates them
        out = []
        pending = []
        for ev in pool:
            out.append(ev)
            if ev["ev"] == "LocalMessage":
                pending.append(ev["a"]["m"]["d"])
            while pending and r.random() < 0.5:
                out.append({"ev": "Loopback", "a": {"d": pending.pop(0)}})
        for dd in pending:
            out.append({"ev": "Loopback", "a": {"d": dd}})
        # a late valid observation and a late own replay
        if r.random() < 0.3 and members:
            out.append(self.obs(d, r.choice(members)))
        return {"bodies": bodies, "steps": steps + out, "src": "gen-agg"}

    def setchange(self):
        """Guardian-set changes around an aggregation: signatures parked before the node's own observation (under the
        old set, also by guardians that then leave), own observation under one set and quorum completed after a change,
        re-observation after a change, inbound VAAs for the old and the new set."""
        r = self.r
        n = r.choice([3, 4, 4, 6, 7, 9, 13, 19])
        A = self.mkset(r.randrange(3), n, True)
        old = [k for k in A["keys"] if k != "g1"]
        m = r.choice([1, 2, 3, 4, 6, n])
        stay = r.sample(old, min(len(old), r.randrange(0, m + 1)))
        fresh = ["h%d" % i for i in range(1, m + 1)]
        keysB = (stay + fresh)[:max(1, m - 1)] + (["g1"] if r.random() < 0.85 else [])
        r.shuffle(keysB)
        B = {"idx": A["idx"] + 1, "keys": keysB}
        bodies = {"d1": {"id": "i1", "chain": 2}, "d2": {"id": "i1", "chain": 2, "ts": 1600000100}}
        order = r.choice(["parked-first", "own-first", "reobserve", "mixed"])
        steps = [{"ev": "SetUpdate", "a": {"set": A}}]
        qa, qb = q(n), q(len(keysB))
        oldsig = r.sample(old, min(len(old), r.choice([qa - 1, qa, max(0, qa - 2), len(old)])))
        newmem = [k for k in keysB if k != "g1"]
        newsig = r.sample(newmem, min(len(newmem), r.choice([max(0, qb - 1), qb, len(newmem)])))
        upd = {"ev": "SetUpdate", "a": {"set": B}}
        lb = {"ev": "Loopback?", "a": {"d": "d1"}}
        if order == "parked-first":
            steps += [self.obs("d1", k) for k in oldsig] + [upd, self.msg("d1", bodies), lb] + [self.obs("d1", k) for k in newsig]
        elif order == "own-first":
            cut = r.randrange(0, len(oldsig) + 1)
            steps += [self.msg("d1", bodies), lb] + [self.obs("d1", k) for k in oldsig[:cut]] + [upd]
            tail = [self.obs("d1", k) for k in oldsig[cut:]] + [self.obs("d1", k) for k in newsig]
            r.shuffle(tail)
            steps += tail
        elif order == "reobserve":
            steps += [self.msg("d1", bodies), lb] + [self.obs("d1", k) for k in oldsig[:max(0, qa - 2)]] + [upd, self.msg("d1", bodies), lb]
            steps += [self.obs("d1", k) for k in newsig] + [self.obs("d1", k) for k in oldsig]
        else:
            pool = [self.obs("d1", k) for k in oldsig] + [self.obs("d1", k) for k in newsig] + [upd, self.msg("d1", bodies), lb, lb]
            r.shuffle(pool)
            steps += pool
        for S in (A, B):
            if r.random() < 0.4 and S["keys"]:
                k = len(S["keys"])
                steps.insert(r.randrange(1, len(steps) + 1), self.vaa(r.choice(["d1", "d2"]), bodies, S, sorted(r.sample(range(k), r.choice([q(k), max(0, q(k) - 1)])))))
        steps.append(lb)
        return {"bodies": bodies, "steps": steps, "src": "gen-setchange"}

    def governance(self):
        """The governance emitter: chain observations naming it are never signed, whatever is already stored or
        aggregated for that message id; operator injection is the only origin of governance VAAs."""
        r = self.r
        n = r.choice([1, 3, 4, 7])
        A = self.mkset(0, n, True)
        bodies = {"dg": {"id": "ig", "chain": 1, "gov": True}, "dh": {"id": "ig", "chain": 1, "gov": True, "ts": 1600000005},
                  "d1": {"id": "i1", "chain": 2},
                  # look-alikes that are NOT the governance emitter: another emitter on the governance chain, and the
                  # governance emitter's address on another chain - both must be signed like any other message
                  "dc": {"id": "ic", "chain": 1}, "da": {"id": "ia", "chain": 2, "govaddr": True}}
        members = [k for k in A["keys"] if k != "g1"]
        need = q(n)
        steps = [{"ev": "SetUpdate", "a": {"set": A}}]
        how = r.choice(["inject", "inbound", "parked", "fresh"])
        inj = {"ev": "Inject", "a": {"v": {"d": "dg", "id": "ig", "setIdx": 0, "chain": 1}}}
        if how == "inject":
            steps += [inj, {"ev": "Loopback?", "a": {"d": "dg"}}] + [self.obs("dg", k) for k in members[:need]]
        elif how == "inbound":
            steps.append(self.vaa("dg", bodies, A, sorted(r.sample(range(n), need))))
        elif how == "parked":
            steps += [self.obs("dg", k) for k in members[:max(0, need - 1)]]
        # now the chain "observes" a message from the governance emitter: same body, or another body with the same id
        for d in r.sample(["dg", "dh"], r.choice([1, 2])):
            steps.append(self.msg(d, bodies, tx="tg"))
            steps.append({"ev": "Loopback?", "a": {"d": d}})
            steps += [self.obs(d, k) for k in r.sample(members, min(len(members), need))]
        if r.random() < 0.5:
            steps += [inj, {"ev": "Loopback?", "a": {"d": "dg"}}]
        for d in r.sample(["d1", "dc", "da"], r.choice([1, 2, 3])):
            steps.append(self.msg(d, bodies))
            steps.append({"ev": "Loopback?", "a": {"d": d}})
            steps += [self.obs(d, k) for k in r.sample(members, min(len(members), need))]
        return {"bodies": bodies, "steps": steps, "src": "gen-gov"}

    def cleanup(self):
        """Histories of ticks and elapsed durations over reachable aggregation states (C14)."""
        r = self.r
        n = r.choice([1, 3, 4, 7, 19])
        A = self.mkset(0, n, True)
        bodies = {"d1": {"id": "i1", "chain": 2}, "d2": {"id": "i2", "chain": 4}, "d3": {"id": "i3", "chain": 255}}
        steps = [{"ev": "SetUpdate", "a": {"set": A}}]
        if r.random() < 0.25:
            steps.insert(0, {"ev": "ReqCap", "a": {"n": r.choice([0, 1, 2])}})  # outbound request queue (nearly) full
        if r.random() < 0.3:
            steps.insert(0, {"ev": "SendBusy", "a": {}})  # unbuffered broadcast queue whose reader (p2p loop) is never parked in its receive
        members = [k for k in A["keys"] if k != "g1"]
        need = q(n)
        # d1: observed; quorum reached or not;  d2: never observed locally (parked);  d3: observed + VAA arrives from a peer
        plan = r.choice(["pending", "done", "late", "parked", "mixed", "mixed", "mixed"])
        if r.random() < 0.3:
            # neighbouring stream entries: the same emitter and target, sequence numbers of which one is a decimal prefix of
            # the other (1 / 12, 7 / 70, 3 / 300): "a VAA for this message is stored" must be an exact match
            s1 = r.choice([1, 2, 7, 9, 10, 42])
            s3 = int(str(s1) + r.choice(["0", "2", "00", "9", "17"]))
            if r.random() < 0.3:
                s1, s3 = s3, s1
            bodies["d1"].update({"seq": s1})
            bodies["d3"].update({"chain": 2, "eid": "i1", "seq": s3})
            plan = r.choice(["mixed", "mixed", "pending"])
        rotate_at = -1
        if r.random() < 0.3:
            rotate_at = r.randrange(0, 6)   # a guardian-set update while messages are pending (retries must go on)
        if plan in ("pending", "mixed", "late"):
            if members and r.random() < 0.4:
                steps.append(self.obs("d1", r.choice(members)))  # a peer's observation arrives first
            steps.append(self.msg("d1", bodies))
            if r.random() < 0.8:
                steps.append({"ev": "Loopback", "a": {"d": "d1"}})
            for s in r.sample(members, min(len(members), max(0, need - 2))):
                steps.append(self.obs("d1", s))
        if plan in ("done", "mixed"):
            steps.append(self.msg("d3", bodies, tx="t3"))
            steps.append({"ev": "Loopback", "a": {"d": "d3"}})
            for s in r.sample(members, min(len(members), need)):
                steps.append(self.obs("d3", s))
        if plan in ("parked", "mixed") and members:
            steps.append(self.obs("d2", r.choice(members)))
        if plan == "late" and n > 0:
            steps.append(self.vaa("d1", bodies, A, sorted(r.sample(range(n), need))))
        # ticks; in some histories the store stops answering at some point
        down_at = r.randrange(0, 10) if r.random() < 0.2 else -1
        for i in range(r.randrange(3, 14)):
            if i == rotate_at:
                keys = list(A["keys"])
                op = r.choice(["same", "rot", "add", "drop"])
                if op == "rot" and len(keys) > 1:
                    keys = keys[1:] + keys[:1]
                elif op == "add" and len(keys) < 19:
                    keys.append("h1")
                elif op == "drop" and len(keys) > 1:
                    keys.remove(r.choice([k for k in keys if k != "g1"]))
                steps.append({"ev": "SetUpdate", "a": {"set": {"idx": A["idx"] + 1, "keys": keys}}})
            if i == down_at:
                steps.append({"ev": "StoreDown", "a": {"x": 0}})
                down_at = -2
            if r.random() < 0.75:
                k = r.choice([1, 29, 30, 31, 60, 269, 270, 299, 300, 301, 330, 600, 3599, 3600, 3601, 7200, 36000, 432000])
                steps.append({"ev": "Advance", "a": {"k": k}})
            steps.append({"ev": "CleanupTick", "a": {"x": 0}})
            if down_at == -2:
                continue
            if r.random() < 0.1 and members:
                steps.append(self.obs(r.choice(["d1", "d2", "d3"]), r.choice(members)))
            if r.random() < 0.05:
                steps.append(self.msg("d1", bodies))
        return {"bodies": bodies, "steps": steps, "src": "gen-cleanup"}

    def adversarial(self):
        """C13 alphabet: every input channel with hostile field values, in random order."""
        r = self.r
        n = r.choice([1, 3, 4])
        A = self.mkset(0, n, True)
        E = {"idx": 1, "keys": []}
        bodies = {"d1": {"id": "i1", "chain": 2}, "de": {"id": "ie", "chain": 2, "empty": True},
                  "db": {"id": "ib", "chain": 2, "plen": r.choice([1001, 1500, 4000])},
                  "dz": {"id": "iz", "chain": 0, "ts": 0}, "dg": {"id": "ig", "chain": 1, "gov": True}}
        members = [k for k in A["keys"] if k != "g1"] or ["g1"]
        alphabet = []
        for d in bodies:
            alphabet.append(lambda d=d: self.msg(d, bodies))
            alphabet.append(lambda d=d: {"ev": "Inject", "a": {"v": {"d": d, "id": bodies[d]["id"], "setIdx": r.choice([0, 1, 9]), "chain": bodies[d]["chain"]}}})
        alphabet += [
            lambda: {"ev": "SetUpdate", "a": {"set": A}},
            lambda: {"ev": "SetUpdate", "a": {"set": E}},
            lambda: self.obs(r.choice(list(bodies)), r.choice(members)),
            lambda: self.obs("d1", r.choice(members), signer="ERR", shape=r.choice(["badv", "shortsig", "longsig", "nilsig", "zerors", "v27", "v27"])),
            lambda: {"ev": "Advance", "a": {"k": r.choice([31, 301, 3601])}},
            lambda: {"ev": "CleanupTick", "a": {"x": 0}},
            lambda: self.vaa(r.choice(list(bodies)), bodies, A, list(range(n))),
            lambda: self.vaa("d1", bodies, A, list(range(n)), ok=False, shape=r.choice(["short", "badversion", "truncated", "nil", "countlie"])),
        ]
        steps = []
        if r.random() < 0.7:
            steps.append({"ev": "SetUpdate", "a": {"set": A}})
        pending = []
        for _ in range(r.randrange(4, 16)):
            ev = r.choice(alphabet)()
            if ev["ev"] == "Observation":
                o = ev["a"]["o"]
                if r.random() < 0.2:
                    sh = r.choice(["nilhash", "shorthash", "longhash", "prehash", "prehash2", "niladdr", "shortaddr", "longaddr"])
                    o["shape"] = sh
                    if sh.startswith("prehash"):
                        pass
                    elif "hash" in sh:
                        o["signer"], o["d"], o["over"] = "ERR", "dX", "dX"
                    else:
                        o["claimed"] = "JUNKADDR"
            steps.append(ev)
            if ev["ev"] in ("LocalMessage", "Inject"):
                pending.append(ev["a"].get("m", ev["a"].get("v"))["d"])
            if pending and r.random() < 0.6:
                steps.append({"ev": "Loopback?", "a": {"d": pending.pop(0)}})
        if r.random() < 0.7:
            # let whatever entries this history created live through their whole life cycle
            for k in (31, 301, 301, 3601):
                steps.append({"ev": "Advance", "a": {"k": k}})
                steps.append({"ev": "CleanupTick", "a": {"x": 0}})
                if r.random() < 0.3:
                    steps.append(self.obs(r.choice(list(bodies)), r.choice(members)))
        return {"bodies": bodies, "steps": steps, "src": "gen-adv"}

    def permutations(self):
        """C02 confluence: one multiset of events delivered in many orders (returns several scenarios)."""
        import itertools
        r = self.r
        n = r.choice([1, 2, 3, 4, 5, 7])
        A = self.mkset(0, n, True)
        bodies = {"d1": {"id": "i1", "chain": 2}, "d2": {"id": "i2", "chain": 2}}
        members = [k for k in A["keys"] if k != "g1"]
        need = q(n)
        pool = [self.msg("d1", bodies), {"ev": "Loopback?", "a": {"d": "d1"}}]
        for s in members[:max(0, need - 1 + r.choice([-1, 0, 0, 1]))]:
            pool.append(self.obs("d1", s))
        if members and r.random() < 0.5:
            pool.append(self.obs("d1", members[0]))  # duplicate
        if r.random() < 0.6:
            pool.append(r.choice([self.obs("d1", "x1"), self.obs("d1", members[0] if members else "g1", signer="x1"),
                                  self.obs("d1", members[0] if members else "g1", over="d2")]))
        if r.random() < 0.3:
            keys = list(A["keys"])
            r.shuffle(keys)
            pool.append({"ev": "SetUpdate", "a": {"set": {"idx": 1, "keys": keys}}})
        pool = pool[:7]
        if len(pool) <= 5:
            orders = list(itertools.permutations(range(len(pool))))
        else:
            orders = [r.sample(range(len(pool)), len(pool)) for _ in range(60)]
        res = []
        for o in orders:
            steps = [{"ev": "SetUpdate", "a": {"set": A}}] + [json.loads(json.dumps(pool[i])) for i in o]
            steps.append({"ev": "Loopback?", "a": {"d": "d1"}})
            res.append({"bodies": bodies, "steps": steps, "src": "gen-perm"})
        return res

    def byzantine(self):
        """C03: every single-mutation class of a valid observation, before and after a set change."""
        r = self.r
        n = r.choice([1, 2, 3, 4, 7, 13, 19])
        A = self.mkset(r.randrange(3), n, r.random() < 0.85)
        keysB = [k for k in A["keys"] if r.random() < 0.7] + (["h1"] if r.random() < 0.5 else [])
        r.shuffle(keysB)
        B = {"idx": A["idx"] + 1, "keys": keysB}
        bodies = {"d1": {"id": "i1", "chain": 2}, "d2": {"id": "i2", "chain": 4}}
        everyone = sorted(set(A["keys"] + B["keys"] + ["x1"]))
        steps = [{"ev": "SetUpdate", "a": {"set": A}}]
        if r.random() < 0.6:
            steps.append(self.msg("d1", bodies))
            if r.random() < 0.7:
                steps.append({"ev": "Loopback?", "a": {"d": "d1"}})
        changed = False
        for _ in range(r.randrange(6, 16)):
            if not changed and r.random() < 0.12:
                steps.append({"ev": "SetUpdate", "a": {"set": B}})
                changed = True
                continue
            d = r.choice(["d1", "d1", "d2"])
            k = r.choice(everyone)
            kind = r.choice(["valid", "forged", "otherdigest", "wrongaddr", "err", "shape", "outsider", "formerly"])
            if kind == "valid":
                steps.append(self.obs(d, k))
            elif kind == "forged":
                steps.append(self.obs(d, k, signer="x1"))
            elif kind == "otherdigest":
                steps.append(self.obs(d, k, over="d2" if d == "d1" else "d1"))
            elif kind == "wrongaddr":
                steps.append(self.obs(d, k, signer=r.choice(everyone)))
            elif kind == "err":
                steps.append(self.obs(d, k, signer="ERR", shape=r.choice(["badv", "shortsig", "longsig", "nilsig", "zerors", "v27", "v27"])))
            elif kind == "outsider":
                steps.append(self.obs(d, "x1"))
            elif kind == "formerly":
                steps.append(self.obs(d, r.choice(A["keys"])))
            else:
                sh = r.choice(["nilhash", "shorthash", "longhash", "prehash", "prehash2", "niladdr", "shortaddr", "longaddr"])
                o = self.obs(d, k, shape=sh)
                if sh.startswith("prehash"):
                    pass
                elif "hash" in sh:
                    o["a"]["o"].update(signer="ERR", d="dX", over="dX")
                else:
                    o["a"]["o"]["claimed"] = "JUNKADDR"
                steps.append(o)
            if r.random() < 0.1:
                steps.append({"ev": "Loopback?", "a": {"d": "d1"}})
        return {"bodies": bodies, "steps": steps, "src": "gen-byz"}


def with_restart(sc, rnd):
    """The node process dies and comes back at some point of the history (new Processor on the same store); it
    re-learns the guardian set that was current (or not yet: then it has none for a while)."""
    steps = sc["steps"]
    if len(steps) < 4 or any(st["ev"] in ("StoreDown", "ReqCap", "SendBusy") for st in steps):
        return sc
    pos = rnd.randrange(2, len(steps))
    cur = None
    for st in steps[:pos]:
        if st["ev"] == "SetUpdate":
            cur = st
    ins = [{"ev": "Restart", "a": {"x": 0}}]
    if cur is not None and rnd.random() < 0.8:
        ins.append(json.loads(json.dumps(cur)))
    sc["steps"] = steps[:pos] + ins + steps[pos:]
    sc["src"] = sc.get("src", "") + "+restart"
    return sc


def with_store_fault(sc, rnd):
    """The store stops answering at some point of an aggregation history (lookups and writes fail from then on)."""
    steps = sc["steps"]
    if len(steps) < 4 or any(st["ev"] in ("StoreDown", "ReqCap", "SendBusy", "Restart") for st in steps):
        return sc
    pos = rnd.randrange(2, len(steps))
    sc["steps"] = steps[:pos] + [{"ev": "StoreDown", "a": {"x": 0}}] + steps[pos:]
    sc["src"] = sc.get("src", "") + "+storedown"
    return sc


def quorum_site_scenarios(seed_, sizes):
    """C07, use sites of the threshold in the node: for each set size n one history that (a) offers inbound signed VAAs
    with q-1, q, floor(2n/3) and n-floor(n/3) signatures of the set (fresh message ids) and (b) lets the node observe a
    message itself and delivers the members' observations one by one, so the publication has to happen exactly at
    the q-th distinct signature."""
    rnd = random.Random("quorumsites-%d" % seed_)
    g = Gen(rnd)
    res = []
    for n in sizes:
        A = g.mkset(rnd.randrange(0, 4), n, True)
        need = q(n)
        counts = sorted({c for c in (need - 1, need, (2 * n) // 3, n - n // 3, n) if 0 < c <= n})
        bodies = {"d1": {"id": "i1", "chain": 2}}
        steps = [{"ev": "SetUpdate", "a": {"set": A}}]
        for j, c in enumerate(counts):
            d = "v%d" % j
            bodies[d] = {"id": "j%d" % j, "chain": 2}
            steps.append(g.vaa(d, bodies, A, sorted(rnd.sample(range(n), c))))
        if n > need:
            # the threshold counts VALID signatures: q valid ones followed by one that does not verify is not a complete VAA
            bodies["vt"] = {"id": "jt", "chain": 2}
            ev = g.vaa("vt", bodies, A, list(range(need + 1)))
            ev["a"]["w"]["sigs"][-1]["signer"] = rnd.choice(["x1", "JUNK"])
            steps.append(ev)
            bodies["vu"] = {"id": "ju", "chain": 2}
            steps.append(g.vaa("vu", bodies, A, list(range(need))))     # and the same without the bad entry is one
        steps.append(g.msg("d1", bodies))
        steps.append({"ev": "Loopback", "a": {"d": "d1"}})
        others = [k for k in A["keys"] if k != "g1"]
        rnd.shuffle(others)
        for k in others:
            steps.append(g.obs("d1", k))
        res.append({"bodies": bodies, "steps": steps, "src": "gen-quorumsites"})
    # a message pending across a guardian-set update keeps the threshold of the set it was observed under
    for n in sorted(set(sizes)):
        if n < 4:
            continue
        A = g.mkset(1, n, True)
        need = q(n)
        others = [k for k in A["keys"] if k != "g1"]
        rnd.shuffle(others)
        first = others[:need - 2]            # with the own signature: need - 1 signers, one short
        m = max(1, min(n - 1, need - 1))     # a smaller set whose threshold the signatures held would meet
        keysB = (["g1"] + first + [k for k in others if k not in first])[:m]
        rnd.shuffle(keysB)
        B = {"idx": 2, "keys": keysB}
        bodies = {"d1": {"id": "i1", "chain": 2}}
        steps = [{"ev": "SetUpdate", "a": {"set": A}}, g.msg("d1", bodies), {"ev": "Loopback", "a": {"d": "d1"}}]
        steps += [g.obs("d1", k) for k in first]
        steps.append({"ev": "SetUpdate", "a": {"set": B}})
        if first:
            steps.append(g.obs("d1", first[0]))                      # retransmission: still one short of A's threshold
        rest = [k for k in others if k not in first]
        steps += [g.obs("d1", k) for k in rest[:2]]                   # the observation that completes A's quorum, and one more
        res.append({"bodies": bodies, "steps": steps, "src": "gen-quorumsites-setchange"})
    return res


def gen_scenarios(seed_, n, profile):
    rnd = random.Random("%s-%d" % (profile, seed_))
    g = Gen(rnd)
    res = []
    for _ in range(n):
        x = getattr(g, profile)()
        xs = x if isinstance(x, list) else [x]
        if profile in ("aggregation", "setchange", "cleanup", "governance", "adversarial"):
            xs = [with_restart(sc, rnd) if rnd.random() < 0.15 else sc for sc in xs]
        if profile in ("aggregation", "setchange", "governance", "permutations"):
            xs = [with_store_fault(sc, rnd) if rnd.random() < 0.08 else sc for sc in xs]
        res += xs
    return res


# ------------------------------------------------------------------ replay + validation

class Crash(Exception):
    """The test process died from a panic that no handler call could recover (e.g. in a goroutine the code spawned)."""

    def __init__(self, sig, tail):
        Exception.__init__(self, sig)
        self.sig, self.tail = sig, tail


def crash_signature(out):
    """If the go test output shows an unrecovered panic / fatal error whose stack goes through the package under test
    (not only through the injected harness), return a signature naming the innermost such function."""
    import re
    m = re.search(r"^(panic: .*|fatal error: .*)$", out, re.M)
    if not m:
        return None
    stack = out[m.start():]
    for fn in re.findall(r"^(github\.com/alephium/wormhole-fork/node/pkg/[\w/]+\.(?:\(\*?\w+\)\.)?[\w.]+)\(", stack, re.M):
        if "zz_verif" in fn or ".ph" in fn or ".vh" in fn or "TestVerif" in fn:
            continue
        msg = re.sub(r"0x[0-9a-f]+", "0x", m.group(1))
        msg = re.sub(r"[^A-Za-z0-9]+", "-", msg)[:50].strip("-")
        return "crash/%s/%s" % (fn.split("/")[-1], msg)
    return None


def replay(work, scenarios, tag="p", runloop=False):
    scp = os.path.join(work, "scenarios_%s.ndjson" % tag)
    trp = os.path.join(work, "trace_%s.ndjson" % tag)
    with open(scp, "w") as fh:
        for i, s in enumerate(scenarios):
            # whether a local message is signed can be the implementation's choice ("late observation" rule), so
            # every scripted loopback delivery is conditional on an own observation really being in flight
            for st in s["steps"]:
                if st["ev"] == "Loopback":
                    st["ev"] = "Loopback?"
            fh.write(json.dumps({"id": i + 1, "bodies": s["bodies"], "steps": s["steps"]}) + "\n")
    rc, out, wall = vlib.go_test(work, "node", PKG, "TestVerifProcessorReplay", INJECT,
                                 env={"VERIF_SCENARIOS": scp, "VERIF_TRACE": trp, "VERIF_SEED": vlib.seed(),
                                      "VERIF_RUNLOOP": "1" if runloop else ""}, timeout=1200)
    if "VERIF-REPLAYED" not in out:
        crash = crash_signature(out)
        if crash:
            raise Crash(crash, out[-6000:])
        raise vlib.Broken("processor harness did not complete (rc=%d):\n%s" % (rc, out[-4000:]))
    return vlib.read_ndjson(trp), wall


def validate(work, lines, tag="p"):
    """Run Trace_Processor over the recorded lines. Returns (rejections, tlc result)."""
    sdir = os.path.join(work, "spec")
    if not os.path.isdir(sdir):
        shutil.copytree(vlib.SPEC, sdir)
    with open(os.path.join(sdir, "trace.ndjson"), "w") as fh:
        for ln in lines:
            fh.write(json.dumps(ln) + "\n")
    r = vlib.tlc(work, "Trace_Processor", "Trace_Processor.cfg", workers=1, timeout=1800, heap="12g")
    fin = vlib.tlc_prints(r["out"], "FINISHED")
    if r["violated"] or not fin:
        # an invariant/action property failed on a state the code really reached, or TLC broke
        if r["violated"]:
            return [{"t": -1, "n": -1, "ev": "INVARIANT", "why": "a specification invariant is violated on the recorded behaviour",
                     "tlc": "\n".join(r["out"].splitlines()[-80:])}], r
        raise vlib.Broken("trace validation did not finish:\n" + r["out"][-3000:])
    rejs = vlib.tlc_prints(r["out"], "REJECT")
    return rejs, r


def diff_components(rej, line):
    """Which projected components differ between the specification's state and the logged one."""
    spec, s = rej.get("spec", {}), line.get("s", {})
    comps = set()
    if "panic" in s:
        comps.add("panic")
    if "post-state differs" not in rej.get("why", ""):
        comps.add("not-enabled")
        return comps

    def norm(x):
        return json.dumps(x, sort_keys=True)
    lgs = s.get("gs", [])
    if norm(spec.get("gs")) != norm(lgs[0] if lgs else "Nil"):
        comps.add("gs")
    lgst = s.get("gst", lgs)
    if norm(spec.get("gs")) != norm(lgst[0] if lgst else "Nil"):
        comps.add("gst")  # the set published to the gossip verifiers differs from the processor's
    sagg, lagg = spec.get("agg", {}) or {}, s.get("agg", {}) or {}
    if isinstance(sagg, list):
        sagg = {}
    if set(sagg) != set(lagg):
        comps.add("agg-keys")
    for d in set(sagg) & set(lagg):
        a, b = sagg[d], lagg[d]
        if sorted(a["sigs"]) != sorted(b["sigs"]):
            comps.add("agg-sigs")
        if a["submitted"] != b["submitted"]:
            comps.add("agg-submitted")
        if a["retry"] != b["retry"]:
            comps.add("agg-retry")
        if norm(a["our"]) != norm(b["our"][0] if b["our"] else "Nil"):
            comps.add("agg-our")
        if norm(a["snap"]) != norm(b["snap"][0] if b["snap"] else "Nil"):
            comps.add("agg-snap")
        if norm(a.get("tx")) != norm(b["tx"][0] if b.get("tx") else "Nil"):
            comps.add("agg-tx")  # the transaction a later re-observation request will name
    sdb, ldb = spec.get("db", {}) or {}, s.get("db", {}) or {}
    if isinstance(sdb, list):
        sdb = {}
    if norm(sdb) != norm(ldb):
        comps.add("db")
    sl, ll = spec.get("loop", {}) or {}, s.get("loop", {}) or {}
    if isinstance(sl, list):
        sl = {}
    if norm(sl) != norm(ll):
        comps.add("loop")
    so = spec.get("out", []) or []
    lo = s.get("out", []) or []
    skinds = sorted(o["kind"] for o in so)
    lkinds = sorted(o["kind"] for o in lo)
    if skinds != lkinds:
        comps.add("out-kinds")
    sv = [o for o in so if o["kind"] == "vaa"]
    lv = [o for o in lo if o["kind"] == "vaa"]
    if norm(sv) != norm(lv):
        comps.add("out-vaa")
    if len(so) != len(lo) or norm(sorted(norm(o) for o in so if o["kind"] != "vaa")) != norm(sorted(
            norm({k: (v[0] if isinstance(v, list) and k == "tx" and v else ("Nil" if isinstance(v, list) and k == "tx" else v))
                  for k, v in o.items() if k != "midok"}) for o in lo if o["kind"] != "vaa")):
        comps.add("out-other")
    if not comps:
        comps.add("unknown")
    return comps


def attribute(rej, line):
    """Properties a rejected line speaks to (DESIGN.md 6, processor family)."""
    comps = diff_components(rej, line)
    ev = line.get("ev")
    props = set()
    if "panic" in comps:
        props.add("C13")
        comps = comps - {"unknown"}
        if ev == "CleanupTick":
            props.add("C14")  # a cleanup pass that dies or blocks retries and expires nothing
        if comps == {"panic"}:
            return props, comps
        # the handler died half-way: whatever it should have done and did not (or did only partly) also speaks
        # to the properties that own that state
    if ev in ("CleanupTick", "Advance") or comps & {"agg-retry", "agg-tx"}:
        props.add("C14")
    invalid_obs = False
    if ev == "Observation":
        o = line["a"]["o"]
        invalid_obs = (o["signer"] in ("ERR", "JUNK") or o["signer"] != o["claimed"] or o["over"] != o["d"]
                       or str(o.get("shape", "")).startswith("prehash"))
        # C03: a message changes state only if validly signed by a member of the *applicable* set, so the recorded
        # signers / the set of entries differing from what the membership rules dictate speaks to C03 as well
        if invalid_obs or comps & {"agg-sigs", "agg-keys", "agg-snap"}:
            props.add("C03")
    # C01 speaks about what is stored / broadcast and about the state those decisions are made from:
    # the guardian-set snapshot, the node's own VAA, the recorded signers, the current set; and about
    # every step of the inbound-VAA path.
    if ev == "InboundVAA" or comps & {"db", "out-vaa", "agg-snap", "agg-our", "agg-sigs", "gs", "gst"}:
        props.add("C01")
    if "gst" in comps:
        props.add("C03")  # heartbeats / requests are verified against that published set
    if "agg-snap" in comps:
        props.add("C03")  # the applicable set of an entry is what the membership of its gossiped signers is tested against
    # C02 speaks about when and what the node publishes and signs.
    if ev not in ("CleanupTick", "Advance", "InboundVAA") and not invalid_obs:
        props.add("C02")
    if ev == "INVARIANT":
        props |= {"C01", "C02"}
    if not props:
        props.add("C02")
    return props, comps


def signature(rej, line, comps):
    """Stable signature of a rejection for known_findings matching."""
    ev = line.get("ev", rej.get("ev"))
    if "panic" in comps and "panic" in line.get("s", {}):
        msg = line["s"]["panic"].splitlines()[0]
        import re
        msg = re.sub(r"0x[0-9a-f]+", "0x", msg)
        msg = re.sub(r"[^A-Za-z0-9]+", "-", msg)[:60].strip("-")
        return "panic/%s/%s" % (ev, msg)
    return "%s/%s" % (ev, "+".join(sorted(comps)))
