"""EVM watcher family (C10): EvmChain.tla + EvmWatcher.tla + harness/ethereum."""
import json
import os
import random
import re
import shutil
import concurrent.futures

import vlib

PKG = "./pkg/ethereum"
INJECT = {"pkg/ethereum": [(os.path.join(vlib.HARNESS, "common", "vh.go"), "ethereum"),
                           (os.path.join(vlib.HARNESS, "ethereum", "evm_harness.go"), "ethereum")]}

ENV_EVS = {"NewHead", "Mine", "Reorg", "Remine", "DropReceipt", "FailTx", "Arm"}
# error texts of the fake node's one-shot transient failures (harness evErrTexts): a generic one, geth's
# "header not found" / "block not found" of a lagging backend, "not found: try again", JSON-RPC errors with code
# and data, a timeout-like one.  The genuine "unknown transaction" answers (null result / exact "not found") are
# chosen per scenario with cfg.nf.
ERR_TEXTS = ["generic", "header", "block", "retry", "coded", "timeout", "unknownbk"]
REAL_W = 60   # Watcher.maxWaitConfirmations default (watcher.go NewEthWatcher); the harness logs the value it reads


# ------------------------------------------------------------------ scenario sources

def tlc_scenarios(work, n, depth, seed_, overrides=None):
    """Behaviours of Gen_EvmWatcher under tlc -simulate, reduced to what the harness scripts: environment
    actions, pushed logs, re-observation requests, with their position relative to the watcher's calls."""
    cfg = open(os.path.join(vlib.SPEC, "Gen_EvmWatcher.cfg")).read()
    cfg = re.sub(r"GenDepth = \d+", "GenDepth = %d" % depth, cfg)
    for k, v in (overrides or {}).items():
        cfg = re.sub(r"(?m)^  %s = .*$" % k, "  %s = %s" % (k, v), cfg)
    sdir = os.path.join(work, "spec")
    if not os.path.isdir(sdir):
        shutil.copytree(vlib.SPEC, sdir)
    name = "Gen_EvmWatcher_%d_%d.cfg" % (seed_, depth)
    with open(os.path.join(sdir, name), "w") as fh:
        fh.write(cfg)
    r = vlib.tlc(work, "Gen_EvmWatcher", name, workers=1,
                 args=["-simulate", "num=%d" % (3 * n), "-depth", str(depth), "-seed", str(seed_)], timeout=900)
    hs = vlib.tlc_prints(r["out"], "SCN")
    if not hs:
        raise vlib.Broken("TLC simulation produced no scenarios:\n" + r["out"][-2000:])
    return [from_tlc(h) for h in hs[:n]]


def from_tlc(h, rnd=None):
    rnd = rnd or random.Random(json.dumps(h, sort_keys=True))
    steps = []
    head_step = None      # last top-level NewHead
    in_scan = False
    rcpts = 0             # H_Receipt calls since head_step
    reobs = None          # current Reobserve step while between R_Head and R_Receipt
    after_rhead = False
    fresh = False         # a log was pushed since the last top-level head step (so something is probably pending)
    intake = None         # current PushLog step while its block lookup has not been answered (LogReceived .. L_BlockTime)
    for x in h["hist"]:
        ev, a = x["ev"], x["a"]
        if ev in ENV_EVS:
            st = {"ev": ev, "a": dict(a)}
            if ev == "Arm":
                st["a"]["text"] = rnd.choice(ERR_TEXTS)
            if intake is not None:
                intake["a"]["hold"] = True
                intake.setdefault("mid", [{"after": 0, "steps": []}])[0]["steps"].append(st)
            elif reobs is not None and after_rhead:
                reobs.setdefault("mid", [{"after": 0, "steps": []}])[0]["steps"].append(st)
            elif in_scan and head_step is not None:
                mids = head_step.setdefault("mid", [])
                for m in mids:
                    if m["after"] == rcpts:
                        m["steps"].append(st)
                        break
                else:
                    mids.append({"after": rcpts, "steps": [st]})
            else:
                steps.append(st)
                if ev == "NewHead":
                    head_step, rcpts, fresh = st, 0, False
        elif ev == "PushLog":
            fresh = True
            intake = {"ev": "PushLog", "a": dict(a)}
            if rnd.random() < 0.3:
                intake["a"]["hold"] = True      # held even if nothing is scripted for the gap
            steps.append(intake)
        elif ev in ("L_BlockTime", "L_Insert"):
            intake = None
        elif ev == "Restart":
            # every restart costs the supervisor's real back-off (0.25..0.75 s): keep those with something pending
            if not (fresh and rnd.random() < 0.6):
                continue
            steps.append({"ev": "Restart", "a": {"via": rnd.choice(["poll", "ltime"]), "text": rnd.choice(ERR_TEXTS)}})
        elif ev == "Reobserve":
            reobs = {"ev": "Reobserve", "a": a}
            after_rhead = False
            steps.append(reobs)
        elif ev == "R_Head":
            after_rhead = True
        elif ev == "R_Receipt":
            reobs, after_rhead = None, False
        elif ev == "H_Head":
            in_scan = intake is None
        elif ev == "H_Done":
            in_scan = False
        elif ev == "H_Receipt":
            rcpts += 1
    lat = h["latest"]
    return {"cfg": {"fin": h["fin"], "W": h["W"], "nf": rnd.choice(["null", "error"])}, "init": {"latest": lat, "final": 1},
            "steps": steps, "src": "tlc"}


CL_CLASSES = [0, 0, 1, 1, 2, 5, 15, 32, 64, 200, 255]


class Gen:
    """Seeded generator over the concrete domain of the property's quantifier: the real window (60), head
    increments from 1 to 200 with boundary targets around block+confirmations and block+confirmations+window,
    consistency levels 0..255, both confirmation modes, look-alike logs of another contract / another topic,
    failed transactions, reorgs with and without re-inclusion, one-shot RPC errors on every call kind,
    re-observation requests at random points (with chain changes between its head read and receipt read)."""

    def __init__(self, rnd):
        self.r = rnd

    def scenario(self):
        r = self.r
        fin = r.random() < 0.5
        lag = r.choice([0, 2, 12, 64]) if fin else r.choice([0, 5])
        latest = r.randrange(70, 2000)
        S = {"fin": fin, "lag": lag, "latest": latest, "final": latest - lag, "steps": [], "txs": {}, "mined": {}, "ntx": 0,
             "seq": r.randrange(1, 1000), "variant": {}, "pend": []}
        init = {"latest": latest, "final": latest - lag}
        n = r.randrange(5, 16)
        x0 = r.random()
        if x0 < 0.25:
            self.held_intake(S)
        elif x0 < 0.30:
            self.restart_while_pending(S)
        else:
            self.mine_and_push(S)
        for _ in range(n):
            x = r.random()
            if x < 0.22:
                self.mine_and_push(S)
            elif x < 0.60:
                self.head(S)
            elif x < 0.70:
                self.reorg(S)
            elif x < 0.74:
                self.simple(S, "DropReceipt")
            elif x < 0.78:
                self.simple(S, "FailTx")
            elif x < 0.84:
                S["steps"].append({"ev": "Arm", "a": {"kind": r.choice(["poll", "rhead", "hreceipt", "hreceipt", "rreceipt", "rtime"]),
                                                      "text": r.choice(ERR_TEXTS)}})
            elif x < 0.92 and S["pend"]:
                self.error_at_depth(S)
            elif x < 0.96 and S.get("fresh"):
                S["fresh"] = False
                S["steps"].append({"ev": "Restart", "a": {"via": r.choice(["poll", "ltime"]), "text": r.choice(ERR_TEXTS)}})
            else:
                self.reobserve(S)
        # let everything that can be confirmed be confirmed
        if r.random() < 0.8:
            self.head(S, force=r.choice([1, 3, 70, 200]))
            self.head(S, force=1)
        return {"cfg": {"fin": fin, "W": 0, "nf": r.choice(["null", "error"])}, "init": init, "steps": S["steps"], "src": "gen"}

    def tag_head(self, S):
        return S["final"] if S["fin"] else S["latest"]

    def conf(self, S, cl):
        return 0 if S["fin"] else cl

    def logs(self, S):
        r = self.r
        res = []
        k = r.choice([1, 1, 1, 2, 3])
        for _ in range(k):
            kind = r.choice(["msg", "msg", "msg", "msg", "msg", "msg", "foreign", "foreign", "topic", "topic", "null"])
            S["seq"] += r.randrange(1, 4)
            lg = {"core": kind not in ("foreign", "null"), "topic": kind not in ("topic", "null"), "sender": r.choice(["s1", "s2", "s3"]),
                  "seq": S["seq"], "cl": r.choice(CL_CLASSES)}
            if kind == "null":
                lg["null"] = True      # a null entry in the receipt's log list (a sloppy node): skipped, never a message
            res.append(lg)
        return res

    def mine_and_push(self, S):
        r = self.r
        S["ntx"] += 1
        tx = "x%d" % S["ntx"]
        nblk = max(1, S["latest"] - r.choice([0, 0, 0, 1, 2, 5]))
        logs = self.logs(S)
        status = 1 if r.random() < 0.9 else 0
        S["txs"][tx] = logs
        S["mined"][tx] = nblk
        S["steps"].append({"ev": "Mine", "a": {"tx": tx, "n": nblk, "status": status, "logs": logs}})
        order = list(range(1, len(logs) + 1))
        r.shuffle(order)
        for i in order:
            if r.random() < 0.9:
                S["steps"].append({"ev": "PushLog", "a": {"tx": tx, "i": i, "hold": r.random() < 0.2}})
                lg = logs[i - 1]
                if lg["core"] and lg["topic"]:
                    S["pend"].append((tx, nblk, lg["cl"]))
                    if status == 1 and nblk + self.conf(S, lg["cl"]) > self.tag_head(S):
                        S["fresh"] = True

    def held_intake(self, S):
        """The log hand-over is not atomic: the chain moves (0..3 heads, possibly far) after the log has arrived and
        before its pending entry is stored - the node's answer to the block lookup is held back meanwhile -, with
        nothing else pending or with other entries pending; afterwards the chain moves on and the message must
        come out.  Preceded, sometimes, by heads nobody is waiting for (the poller is idle and falls behind)."""
        r = self.r
        for _ in range(r.choice([0, 0, 1, 2])):
            self.head(S, force=r.choice([1, 2, 7, 61]))
        S["ntx"] += 1
        tx = "x%d" % S["ntx"]
        nblk = max(1, S["latest"] - r.choice([0, 0, 1, 3]))
        S["seq"] += 1
        lg = {"core": True, "topic": True, "sender": r.choice(["s1", "s2"]), "seq": S["seq"], "cl": r.choice([0, 0, 1, 2, 15])}
        S["txs"][tx] = [lg]
        S["mined"][tx] = nblk
        S["steps"].append({"ev": "Mine", "a": {"tx": tx, "n": nblk, "status": 1, "logs": [lg]}})
        mark = len(S["steps"])
        for _ in range(r.choice([0, 1, 1, 2, 3])):
            self.head(S, force=r.choice([1, 1, 2, 3, 16, 70]))
        gap = [x for x in S["steps"][mark:] if x["ev"] == "NewHead"]
        for x in gap:
            x.pop("mid", None)
        del S["steps"][mark:]
        st = {"ev": "PushLog", "a": {"tx": tx, "i": 1, "hold": True}}
        if gap:
            st["mid"] = [{"after": 0, "steps": gap}]
        S["steps"].append(st)
        S["pend"].append((tx, nblk, lg["cl"]))
        for _ in range(r.choice([1, 2, 3])):
            self.head(S, force=r.choice([1, 1, 2, 16]))

    def restart_while_pending(self, S):
        """Run returns (fatal RPC error) and the supervisor restarts it on the same Watcher while k >= 1 messages are
        still waiting for their depth; the chain moves on, a later log wakes the poller, and every message whose
        transaction stayed in its block has to come out."""
        r = self.r
        for _ in range(r.choice([1, 1, 2])):
            S["ntx"] += 1
            tx = "x%d" % S["ntx"]
            S["seq"] += 1
            lg = {"core": True, "topic": True, "sender": r.choice(["s1", "s2"]), "seq": S["seq"], "cl": r.choice([1, 2, 5, 15, 200])}
            S["txs"][tx], S["mined"][tx] = [lg], S["latest"]
            S["steps"].append({"ev": "Mine", "a": {"tx": tx, "n": S["latest"], "status": 1, "logs": [lg]}})
            S["steps"].append({"ev": "PushLog", "a": {"tx": tx, "i": 1}})
            S["pend"].append((tx, S["latest"], lg["cl"]))
        if not S["fin"] and r.random() < 0.5:
            self.head(S, force=1)
        S["steps"].append({"ev": "Restart", "a": {"via": r.choice(["poll", "ltime"]), "text": r.choice(ERR_TEXTS)}})
        for _ in range(r.choice([0, 1, 2])):
            self.head(S, force=r.choice([1, 2, 5, 30]))
        if r.random() < 0.2:
            S["steps"].append({"ev": "Restart", "a": {"via": "ltime", "text": r.choice(ERR_TEXTS)}})
        self.mine_and_push(S)
        for _ in range(r.choice([1, 2])):
            self.head(S, force=r.choice([1, 3, 16, 70, 260]))

    def head(self, S, force=None):
        r = self.r
        S["fresh"] = False
        cur = self.tag_head(S)
        j = None
        if force is not None:
            j = force
        elif S["pend"] and r.random() < 0.7:
            tx, b, cl = r.choice(S["pend"])
            c = self.conf(S, cl)
            target = b + c + r.choice([-1, 0, 0, 1, 2, REAL_W - 1, REAL_W, REAL_W, REAL_W + 1, REAL_W + 50])
            if target > cur:
                j = target - cur
        if j is None:
            j = r.choice([1, 1, 1, 2, 3, 7, 30, 59, 60, 61, 100, 200])
        if S["fin"]:
            if r.random() < 0.3:
                S["lag"] = r.choice([0, 2, 12, 64, 64])     # finality catches up / falls behind
            S["final"] += j
            S["latest"] = max(S["latest"], S["final"] + S["lag"])
        else:
            S["latest"] += j
            S["final"] = max(S["final"], S["latest"] - S["lag"])
        st = {"ev": "NewHead", "a": {"latest": S["latest"], "final": S["final"]}}
        # chain changes in the middle of the scan this head triggers
        if r.random() < 0.15 and S["mined"]:
            tx = r.choice(sorted(S["mined"]))
            mid = r.choice([
                [{"ev": "Reorg", "a": {"n": S["mined"][tx]}}],
                [{"ev": "DropReceipt", "a": {"tx": tx}}],
                [{"ev": "FailTx", "a": {"tx": tx}}],
                [{"ev": "Reorg", "a": {"n": S["mined"][tx]}}, {"ev": "Remine", "a": {"tx": tx, "n": S["latest"], "status": 1}}],
                [{"ev": "NewHead", "a": {"latest": S["latest"] + 61, "final": S["final"] + 61}}],
            ])
            if mid[0]["ev"] == "NewHead":
                S["latest"] += 61
                S["final"] += 61
            st["mid"] = [{"after": r.choice([0, 1, 1, 2]), "steps": mid}]
        S["steps"].append(st)

    def error_at_depth(self, S):
        """A transient failure of the receipt lookup exactly at the head where a pending message reaches its depth (or
        a little / much later), then more heads: the message must stay pending and be forwarded by a later scan.
        With some probability the same failure also hits a re-observation of that transaction."""
        r = self.r
        cur = self.tag_head(S)
        cands = [(tx, b, cl) for (tx, b, cl) in S["pend"] if b + self.conf(S, cl) > cur]
        if not cands:
            return self.mine_and_push(S)
        tx, b, cl = r.choice(cands)
        when = r.choice([0, 0, 0, 1, 2, 30])
        S["steps"].append({"ev": "Arm", "a": {"kind": "hreceipt", "text": r.choice(ERR_TEXTS)}})
        self.head(S, force=b + self.conf(S, cl) + when - cur)
        if r.random() < 0.4:
            S["steps"].append({"ev": "Arm", "a": {"kind": r.choice(["rreceipt", "rhead", "rtime"]), "text": r.choice(ERR_TEXTS)}})
            S["steps"].append({"ev": "Reobserve", "a": {"tx": tx}})
        for _ in range(r.choice([1, 2, 2])):
            self.head(S, force=r.choice([1, 1, 2, 5]))

    def reorg(self, S):
        r = self.r
        if not S["mined"]:
            return
        tx = r.choice(sorted(S["mined"]))
        b = S["mined"][tx]
        if S["fin"] and b <= S["final"]:
            return          # finalized blocks are not replaced
        S["steps"].append({"ev": "Reorg", "a": {"n": b}})
        x = r.random()
        if x < 0.6:
            nb = r.choice([b, b, min(S["latest"], b + 1), S["latest"]])
            S["steps"].append({"ev": "Remine", "a": {"tx": tx, "n": nb, "status": 1 if r.random() < 0.85 else 0}})
            S["mined"][tx] = nb
            if r.random() < 0.7:
                for i, lg in enumerate(S["txs"][tx]):
                    S["steps"].append({"ev": "PushLog", "a": {"tx": tx, "i": i + 1}})
                    if lg["core"] and lg["topic"]:
                        S["pend"].append((tx, nb, lg["cl"]))

    def simple(self, S, ev):
        if S["mined"]:
            S["steps"].append({"ev": ev, "a": {"tx": self.r.choice(sorted(S["mined"]))}})

    def reobserve(self, S):
        """A re-observation request; with some probability the chain moves in the gap between the handler's two
        requests (head read / receipt read, whichever order the code under test uses): the head advances to exactly
        block + confirmations (or far beyond) and the transaction's block is replaced, with or without re-inclusion."""
        r = self.r
        tx = r.choice(sorted(S["txs"]) + ["nope"]) if S["txs"] else "nope"
        st = {"ev": "Reobserve", "a": {"tx": tx}}
        if r.random() < 0.45 and tx in S["mined"]:
            b = S["mined"][tx]
            cur = self.tag_head(S)
            cls = [lg["cl"] for lg in S["txs"][tx] if lg["core"] and lg["topic"]] or [0]
            target = b + self.conf(S, r.choice(cls)) + r.choice([0, 0, 1, 70])
            j = max(1, target - cur)
            if S["fin"]:
                S["final"] += j
                S["latest"] = max(S["latest"], S["final"] + S["lag"])
            else:
                S["latest"] += j
                S["final"] = max(S["final"], S["latest"] - S["lag"])
            mid = [{"ev": "NewHead", "a": {"latest": S["latest"], "final": S["final"]}}]
            if r.random() < 0.3:
                mid = []       # only the chain content changes
            if not (S["fin"] and b <= S["final"] - j) and r.random() < 0.8:
                mid.append({"ev": "Reorg", "a": {"n": b}})
                if r.random() < 0.5:
                    nb = r.choice([b, S["latest"]])
                    mid.append({"ev": "Remine", "a": {"tx": tx, "n": nb, "status": 1 if r.random() < 0.85 else 0}})
                    S["mined"][tx] = nb
            elif r.random() < 0.5:
                mid.append({"ev": r.choice(["DropReceipt", "FailTx"]), "a": {"tx": tx}})
            if mid:
                st["mid"] = [{"after": 0, "steps": mid}]
        S["steps"].append(st)


def gen_scenarios(seed_, n):
    g = Gen(random.Random("evm-%d" % seed_))
    return [g.scenario() for _ in range(n)]


# ------------------------------------------------------------------ replay + validation

def build(work):
    binary = os.path.join(work, "evm.test")
    rc, out, wall = vlib.go_test(work, "node", PKG, "", INJECT, binary_only=binary, timeout=900)
    if rc != 0 or not os.path.exists(binary):
        raise vlib.Broken("EVM harness does not build against the working tree:\n" + out[-4000:])
    return binary, wall


def replay(work, scenarios, shards=4):
    """Run the scenarios on the real Watcher.Run; returns the recorded lines (trace ids = scenario index + 1)."""
    binary, bwall = build(work)
    for i, s in enumerate(scenarios):
        s["id"] = i + 1
    shards = max(1, min(shards, len(scenarios)))
    parts = [scenarios[k::shards] for k in range(shards)]

    def one(k):
        scp = os.path.join(work, "scenarios_%d.ndjson" % k)
        trp = os.path.join(work, "trace_%d.ndjson" % k)
        with open(scp, "w") as fh:
            for s in parts[k]:
                fh.write(json.dumps({"id": s["id"], "cfg": s["cfg"], "init": s["init"], "steps": s["steps"]}) + "\n")
        rc, out = vlib.run_test_binary(binary, "TestVerifEvmReplay", os.path.join(vlib.REPO, "node", "pkg", "ethereum"),
                                       env={"VERIF_SCENARIOS": scp, "VERIF_TRACE": trp, "VERIF_SEED": vlib.seed()}, timeout=1500)
        crash = None
        if "VERIF-REPLAYED" not in out:
            crash = parse_crash(out)
            if crash is None or crash["where"] != "code":
                raise vlib.Broken("EVM harness did not complete (rc=%d):\n%s" % (rc, out[-4000:]))
        return vlib.read_ndjson(trp), crash

    import time
    t0 = time.time()
    with concurrent.futures.ThreadPoolExecutor(max_workers=shards) as ex:
        res = list(ex.map(one, range(shards)))
    lines = [ln for part, _ in res for ln in part]
    lines.sort(key=lambda ln: (ln["t"], ln["n"]))
    crashes = []
    for part, crash in res:
        if crash:
            crash["last_lines"] = part[-12:]      # lines are flushed one by one: this is where the process died
            crash["t"] = part[-1]["t"] if part else None
            crashes.append(crash)
    return lines, time.time() - t0, bwall, crashes


def _slug(text, n=60):
    text = re.sub(r"0x[0-9a-fA-F]+", "0x", text)
    return re.sub(r"[^A-Za-z0-9]+", "-", text).strip("-")[:n].strip("-")


def _short_func(fn):
    fn = fn.strip()
    if fn.endswith(")"):                         # drop the argument list: ...Run.func2({0x1, 0x2}, 0x3)
        depth = 0
        for i in range(len(fn) - 1, -1, -1):
            if fn[i] == ")":
                depth += 1
            elif fn[i] == "(":
                depth -= 1
                if depth == 0:
                    fn = fn[:i]
                    break
    fn = fn.split("/")[-1]                       # ethereum.(*Watcher).Run.func2
    fn = re.sub(r"^ethereum\.", "", fn)
    return re.sub(r"[^A-Za-z0-9_.]+", "", fn)


def crash_frames(text):
    """(function, file) pairs of the first goroutine of a Go panic / fatal-error dump (the one that crashed)."""
    m = re.search(r"(?m)^(panic: .*|fatal error: .*)$", text)
    if not m:
        return None, []
    rest = text[m.end():]
    g = re.search(r"(?m)^goroutine \d+ \[[^\]]*\]:\n", rest)
    if not g:
        return m.group(1), []
    block = rest[g.end():].split("\n\n")[0].splitlines()
    frames = []
    for i in range(0, len(block) - 1):
        if block[i + 1].startswith("\t") and not block[i].startswith("\t"):
            frames.append((block[i].strip(), block[i + 1].strip().split(" ")[0]))
    return m.group(1), frames


def parse_crash(text):
    """An unrecovered panic / fatal error that killed the test process.  where = "code" when the innermost frame
    that belongs to this project is in node/pkg/ethereum of the tree under test, "harness" when it is in an
    injected harness file (then the check is broken, not the code)."""
    msg, frames = crash_frames(text)
    if msg is None:
        return None
    pkgdir = os.path.join(vlib.REPO, "node", "pkg", "ethereum") + os.sep
    for fn, fl in frames:
        if fl.startswith(pkgdir) and "zz_verif" not in fl:
            return {"where": "code", "panic": msg, "func": _short_func(fn), "file": fl, "frames": frames[:12]}
        if "/.build/" in fl or "zz_verif" in fl or "/harness/" in fl:
            return {"where": "harness", "panic": msg, "func": _short_func(fn), "file": fl, "frames": frames[:12]}
    return {"where": "unknown", "panic": msg, "func": "?", "file": "?", "frames": frames[:12]}


def crash_signature(c):
    msg = re.sub(r"^(panic|fatal error): ", "", c["panic"])
    msg = re.sub(r"\[signal .*$", "", msg)
    return "crash/%s/%s" % (c["func"], _slug(msg))



def _validate_chunk(work, k, lines):
    w = os.path.join(work, "val_%d" % k)
    os.makedirs(w, exist_ok=True)
    sdir = os.path.join(w, "spec")
    if not os.path.isdir(sdir):
        shutil.copytree(vlib.SPEC, sdir)
    with open(os.path.join(sdir, "trace.ndjson"), "w") as fh:
        for ln in lines:
            fh.write(json.dumps(ln) + "\n")
    r = vlib.tlc(w, "Trace_EvmWatcher", "Trace_EvmWatcher.cfg", workers=1, timeout=2400, heap="6g")
    fin = vlib.tlc_prints(r["out"], "FINISHED")
    if r["violated"]:
        return [{"t": -1, "n": -1, "ev": "INVARIANT", "why": "a specification invariant is violated on the recorded behaviour",
                 "tlc": "\n".join(r["out"].splitlines()[-80:]), "spec": {}}], r
    if not fin:
        raise vlib.Broken("trace validation did not finish:\n" + r["out"][-3000:])
    # A trace is explained iff some branch of the specification consumed its last line; the branch may have had to
    # re-synchronise at the end of scans the specification does not allow (deviations).  Take the branch with the
    # fewest deviations; a trace no branch finishes is rejected at the deepest line reached.
    done = {}
    for d in vlib.tlc_prints(r["out"], "DONE"):
        cur = done.get(d["t"])
        if cur is None or len(d["devs"]) < len(cur):
            done[d["t"]] = d["devs"]
    devs = {}
    for d in vlib.tlc_prints(r["out"], "DEV"):
        devs.setdefault((d["t"], d["n"]), []).append(d)
    dead = {}
    for d in vlib.tlc_prints(r["out"], "DEAD"):
        cur = dead.get(d["t"])
        if cur is None or d["n"] > cur[0]["n"]:
            dead[d["t"]] = [d]
        elif d["n"] == cur[0]["n"]:
            cur.append(d)
    rejs = []
    for t in sorted({ln["t"] for ln in lines}):
        if t in done:
            for n_ in done[t]:
                alts = devs.get((t, n_), [])
                if not alts:
                    raise vlib.Broken("deviation record missing for trace %s line %s" % (t, n_))
                rej = dict(alts[0])
                rej["alts"] = alts
                rejs.append(rej)
            continue
        if t not in dead:
            raise vlib.Broken("trace %s neither accepted nor rejected by TLC" % t)
        # several branches may die at the same deepest line; prefer those that needed the fewest re-synchronisations
        fewest = min(len(d.get("devs", [])) for d in dead[t])
        alts = [d for d in dead[t] if len(d.get("devs", [])) == fewest]
        rej = dict(alts[0])
        rej["alts"] = alts          # the same line reached with different attributions of ambiguous receipt lookups
        for n_ in alts[0].get("devs", []):
            dalts = devs.get((t, n_), [])
            if dalts:
                x = dict(dalts[0])
                x["alts"] = dalts
                rejs.append(x)
        rejs.append(rej)
    return rejs, r


def validate(work, lines, parallel=4, chunk=600):
    """TLC validates the recorded lines against Trace_EvmWatcher, `chunk` traces per TLC run."""
    ids = sorted({ln["t"] for ln in lines})
    groups = [set(ids[i:i + chunk]) for i in range(0, len(ids), chunk)] or [set()]
    parts = [[ln for ln in lines if ln["t"] in g] for g in groups]
    with concurrent.futures.ThreadPoolExecutor(max_workers=max(1, min(parallel, 6))) as ex:
        res = list(ex.map(lambda kv: _validate_chunk(work, kv[0], kv[1]), enumerate(parts)))
    rejs = [x for rj, _ in res for x in rj]
    r = {"distinct": sum(x["distinct"] for _, x in res), "generated": sum(x["generated"] for _, x in res),
         "wall_s": max(x["wall_s"] for _, x in res)}
    return rejs, r


# How much a broken rule needs an implementation to do something without any trigger (used only to choose
# between readings of an ambiguous scan): deleting an entry nothing was asked about is the least plausible.
IMPLAUSIBLE = {"scan/dropped-without-lookup": 3, "scan/dropped-before-depth": 3, "scan/dropped-unexplained": 3,
               "scan/deep-entry-not-looked-up": 2}


def best_signature(rej, line, prev):
    """The deepest line may have been reached by several branches (different attributions of receipt lookups that
    carry only a tx hash shared by several pending entries).  Report the most plausible reading: the one whose
    broken rules all have a trigger in the observed calls, then the one with the fewest broken rules."""
    best = None
    for alt in rej.get("alts") or [rej]:
        sig = signature(alt, line, prev)
        sigs = sorted(sig if isinstance(sig, list) else [sig])
        w = [IMPLAUSIBLE.get(x, 1) for x in sigs]
        cand = ((max(w), sum(w), sigs), alt)
        if best is None or cand[0] < best[0]:
            best = cand
    return best[0][2], best[1]


# ------------------------------------------------------------------ attribution

def _key(e):
    return (e["tx"], tuple(e["blk"]), e["sender"], e["seq"])


def _conf(spec, cl):
    return 0 if spec["cfg"]["fin"] else cl


def signature(rej, line, prev):
    """Stable, specific signature of a rejected line: which rule of the intended behaviour the real watcher broke."""
    ev = rej.get("ev")
    why = rej.get("why", "")
    spec = rej.get("spec", {}) or {}
    a = line.get("a", {}) or {}
    if ev == "INVARIANT":
        return "invariant"
    if ev == "Stall":
        return "stall/%s" % a.get("what", "?")
    if ev == "RunExit":
        # Watcher.Run returned although the scripted node was healthy: class = the error text up to its first detail
        return "run-exit/%s" % _slug(re.sub(r"\d+", "N", str(a.get("err", "")).split(":")[0]), 50)
    if ev == "Crash":
        msg, frames = crash_frames("panic: %s\n\n%s" % (a.get("panic", ""), a.get("stack", "")))
        fn = "?"
        for f, fl in frames:
            if "/node/pkg/ethereum/" in fl and "/.build/" not in fl and "zz_verif" not in fl and "harness" not in fl:
                fn = _short_func(f)
                break
        return "crash/%s/%s" % (fn, _slug(str(a.get("panic", ""))))
    hs = (spec.get("hs") or [None])[0]
    rs = (spec.get("rs") or [None])[0]
    pend = spec.get("pending") or []
    tried = {tuple([k[0], tuple(k[1]), k[2], k[3]]) for k in (spec.get("tried") or [])}
    W = spec.get("cfg", {}).get("W", 0)
    if ev == "Start":
        return "start/wrong-block-tag"
    if ev in ("B_Poll", "R_Head") and "does not allow" in why:
        want = "finalized" if spec.get("cfg", {}).get("fin") else "latest"
        if a.get("tag") != want:
            return "%s/wrong-block-tag" % ("poll" if ev == "B_Poll" else "reobs")
        return "%s/not-enabled" % ev
    if ev == "PushLog":
        return "subscription/filter-delivers-%s" % ("foreign-log" if a.get("delivered") else "nothing")
    if ev == "H_Done":
        if "post-state differs" in why:
            return "scan/pending-has-unexpected-entry"
        if hs is None:
            return "scan/end-without-start"
        h = hs["h"]
        seen = {tuple([k[0], tuple(k[1]), k[2], k[3]]) for k in hs["seen"]}
        logged = {_key(k) for k in (line.get("s", {}) or {}).get("pending", [])}
        cls = set()
        for e in pend:
            k = _key(e)
            deep = e["blk"][0] + _conf(spec, e["cl"]) <= h
            expired = e["blk"][0] + _conf(spec, e["cl"]) + W <= h
            missing = k not in logged
            if deep and k not in seen:
                if missing:
                    cls.add("abandoned-without-lookup" if expired else "dropped-without-lookup")
                else:
                    cls.add("deep-entry-not-looked-up")
            elif missing and k in seen and k in tried and not expired:
                cls.add("dropped-on-transient-rpc-error")
            elif missing and not deep:
                cls.add("dropped-before-depth")
            elif missing and k in seen and k not in tried:
                cls.add("dropped-unexplained")
        if hs.get("fwd") not in (None, "Nil"):
            cls.add("confirmed-not-forwarded")
        return ["scan/" + c for c in sorted(cls)] if cls else "scan/end-not-allowed"
    if ev == "Forward":
        if not a.get("intact", True):
            return "forward/content-altered"
        k = _key(a) if all(x in a for x in ("tx", "blk", "sender", "seq")) else None
        if hs is not None:
            for e in pend:
                if _key(e) == k and e["blk"][0] + _conf(spec, e["cl"]) > hs["h"]:
                    return "forward/before-depth"
            if prev and prev.get("ev") == "H_Receipt" and prev["a"].get("tx") == a.get("tx"):
                resp = prev["a"]["resp"]
                if resp["kind"] != "found":
                    return "forward/receipt-%s" % resp["kind"]
                if resp["status"] != 1:
                    return "forward/failed-transaction"
                if list(resp["blk"]) != list(a.get("blk", [])):
                    return "forward/receipt-in-other-block"
            return "forward/scan-unexpected"
        if rs is not None or (prev and prev.get("ev", "").startswith("R_")):
            return "forward/reobs-unexpected"
        return "forward/unexpected"
    if ev == "H_Receipt":
        return "scan/unexpected-lookup"
    if ev == "R_Req":
        if rs is not None and rs.get("st") == "fwd":
            return "reobs/qualifying-message-not-forwarded"
        return "reobs/request-overlaps"
    if ev == "R_Receipt" and rs is not None and rs.get("st") == "head":
        return "reobs/receipt-before-head"
    if ev == "R_BlockTime" and rs is None:
        return "reobs/continued-after-unusable-receipt"
    if ev == "RunRestart":
        if "post-state differs" in why:
            logged = {_key(k) for k in (line.get("s", {}) or {}).get("pending", [])}
            lost = [e for e in pend if _key(e) not in logged]
            return "restart/pending-lost" if lost else "restart/pending-has-unexpected-entry"
        return "restart/not-allowed-here"
    if ev == "L_Insert":
        return "intake/pending-differs"
    if ev == "End":
        return "end/pending-differs"
    return "%s/%s" % (ev, "post-state" if "post-state" in why else "not-enabled")
