"""Source extraction of the contract side of C04 / C07 (DESIGN.md section 3.5: no solc / Ralph compiler offline).

Reads
  * ethereum/contracts/Messages.sol : parseVM (the `index += k` ladder, the two `slice(index, length - index)`, the
    double keccak) and quorum() with its use in verifyVM;
  * alephium/contracts/governance.ral : parseAndVerifyVAA (byteVecSlice!/size! forms, the signature loop, the double
    keccak) and the quorumSize expression with its use.
and returns plain tables (name, offset, width) / formula values for n = 0..255 (unsigned truncating arithmetic) that
chk_format compares with the tables TLC prints from VAAWire.tla / Quorum.tla.

`ExtractError` = the source no longer has the shape this parser understands (=> vlib.Broken, exit 2, never a violation).
A successfully extracted table that differs from the specification is a violation, decided by the caller.
"""
import os
import re

U256 = 1 << 256


class ExtractError(Exception):
    pass


# ------------------------------------------------------------------ helpers

def _strip_comments(src, line="//"):
    src = re.sub(r"/\*.*?\*/", lambda m: re.sub(r"[^\n]", " ", m.group(0)), src, flags=re.S)
    return re.sub(r"%s[^\n]*" % re.escape(line), "", src)


def _block(src, start):
    """Text between the brace that opens at/after `start` and its matching closing brace."""
    i = src.find("{", start)
    if i < 0:
        raise ExtractError("no block after offset %d" % start)
    depth = 0
    for j in range(i, len(src)):
        if src[j] == "{":
            depth += 1
        elif src[j] == "}":
            depth -= 1
            if depth == 0:
                return src[i + 1:j], i + 1, j
    raise ExtractError("unbalanced braces")


class _Expr:
    """Tiny evaluator: integers, identifiers, + - * /, parentheses; unsigned truncating arithmetic."""

    _cache = {}

    def __init__(self, text, env):
        toks = _Expr._cache.get(text)
        if toks is None:
            toks = re.findall(r"\d+|[A-Za-z_][\w.!]*|[-+*/()]", text)
            if "".join(toks) != re.sub(r"\s+", "", text):
                raise ExtractError("cannot tokenize expression %r" % text)
            _Expr._cache[text] = toks
        self.toks = toks
        self.env = env
        self.i = 0

    def peek(self):
        return self.toks[self.i] if self.i < len(self.toks) else None

    def eat(self):
        t = self.peek()
        self.i += 1
        return t

    def atom(self):
        t = self.eat()
        if t is None:
            raise ExtractError("unexpected end of expression")
        if t == "(":
            v = self.sum()
            if self.eat() != ")":
                raise ExtractError("missing )")
            return v
        if t.isdigit():
            return int(t)
        if t in self.env:
            v = self.env[t]
            if callable(v):                      # a call f(<expr>) of an extracted pure function (e.g. quorum(n))
                if self.eat() != "(":
                    raise ExtractError("function %r used without a call" % t)
                arg = self.sum()
                if self.eat() != ")":
                    raise ExtractError("missing ) after call of %r" % t)
                return None if arg is None else v(arg)
            return v
        raise ExtractError("unknown identifier %r in expression" % t)

    def prod(self):
        v = self.atom()
        while self.peek() in ("*", "/"):
            op = self.eat()
            w = self.atom()
            if v is None or w is None:
                v = None
            elif op == "*":
                v = (v * w) % U256
            else:
                v = None if w == 0 else v // w
        return v

    def sum(self):
        v = self.prod()
        while self.peek() in ("+", "-"):
            op = self.eat()
            w = self.prod()
            if v is None or w is None:
                v = None
            elif op == "+":
                v = (v + w) % U256
            else:
                v = None if w > v else v - w          # unsigned underflow: the contract call fails
        return v

    def value(self):
        v = self.sum()
        if self.peek() is not None:
            raise ExtractError("trailing tokens in expression")
        return v


def evaluate(text, env):
    return _Expr(text, env).value()


def split_comparison(text):
    """`<expr> OP <expr>` with exactly one top-level comparison operator -> (lhs, op, rhs)."""
    depth, found = 0, []
    i = 0
    while i < len(text):
        c = text[i]
        if c == "(":
            depth += 1
        elif c == ")":
            depth -= 1
        elif depth == 0:
            m = re.match(r"<=|>=|==|!=|<|>", text[i:])
            if m:
                found.append((i, m.group(0)))
                i += len(m.group(0))
                continue
            if text.startswith("&&", i) or text.startswith("||", i):
                raise ExtractError("compound condition %r" % text)
        i += 1
    if len(found) != 1:
        raise ExtractError("not a single comparison: %r" % text)
    pos, op = found[0]
    return text[:pos].strip(), op, text[pos + len(op):].strip()


_CMP = {"<": lambda a, b: a < b, "<=": lambda a, b: a <= b, ">": lambda a, b: a > b, ">=": lambda a, b: a >= b,
        "==": lambda a, b: a == b, "!=": lambda a, b: a != b}


def evaluate_comparison(parts, env):
    """Truth value of a comparison of two unsigned expressions; None when an operand cannot be computed on chain
    (underflow, division by zero: the call fails)."""
    lhs, op, rhs = parts
    a, b = evaluate(lhs, env), evaluate(rhs, env)
    if a is None or b is None:
        return None
    return _CMP[op](a, b)


# ------------------------------------------------------------------ Messages.sol

SOL_WIDTH = {"Uint8": 1, "Uint16": 2, "Uint32": 4, "Uint64": 8, "Bytes32": 32}
SOL_NAMES = {"version": "version", "guardianSetIndex": "guardianSetIndex", "signersLen": "numSignatures",
             "guardianIndex": "index", "r": "r", "s": "s", "v": "v",
             "timestamp": "timestamp", "nonce": "nonce", "emitterChainId": "emitterChain", "targetChainId": "targetChain",
             "emitterAddress": "emitterAddress", "sequence": "sequence", "consistencyLevel": "consistencyLevel"}


def extract_sol(path):
    if not os.path.exists(path):
        raise ExtractError("missing " + path)
    src = _strip_comments(open(path).read())
    m = re.search(r"function\s+parseVM\s*\(", src)
    if not m:
        raise ExtractError("Messages.sol: parseVM not found")
    body, _, _ = _block(src, m.end())
    # split into statements, remembering the signature loop
    lm = re.search(r"for\s*\(\s*uint\s+(\w+)\s*=\s*0\s*;\s*\1\s*<\s*(\w+)\s*;\s*\1\+\+\s*\)", body)
    if not lm:
        raise ExtractError("Messages.sol: signature loop not found in parseVM")
    loop_body, lb, le = _block(body, lm.end())
    pre, post = body[:lm.start()], body[le + 1:]

    read_re = re.compile(r"([\w.\[\]]+)\s*=\s*encodedVM\.to(Uint8|Uint16|Uint32|Uint64|Bytes32)\(\s*index\s*\)\s*(\+\s*27)?\s*$")
    adv_re = re.compile(r"index\s*\+=\s*(\d+)\s*$")

    def ladder(text, what):
        fields, off, pending, extra = [], 0, None, []
        for st in [s.strip() for s in text.split(";")]:
            if not st:
                continue
            st1 = re.sub(r"^(uint\d*|uint256|uint8|bytes32)\s+", "", st)
            r = read_re.search(st1)
            a = adv_re.match(st1)
            if r:
                if pending is not None:
                    raise ExtractError("Messages.sol: read of %s not followed by an index advance (%s)" % (pending["src"], what))
                name = re.split(r"[.\]]", r.group(1))[-1]
                pending = {"src": name, "offset": off, "width": SOL_WIDTH[r.group(2)], "plus27": bool(r.group(3))}
            elif a:
                k = int(a.group(1))
                if pending is None:
                    raise ExtractError("Messages.sol: index advance without a read (%s)" % what)
                pending["advance"] = k
                fields.append(pending)
                pending = None
                off += k
            else:
                extra.append(st)
        if pending is not None:
            raise ExtractError("Messages.sol: trailing read without advance (%s)" % what)
        return fields, off, extra

    if not re.match(r"\s*uint\s+index\s*=\s*0\s*;", pre):
        raise ExtractError("Messages.sol: parseVM does not start with `uint index = 0`")
    pre = re.sub(r"^\s*uint\s+index\s*=\s*0\s*;", "", pre)
    hdr, hdr_len, hdr_extra = ladder(pre, "header")
    sig, sig_w, sig_extra = ladder(loop_body, "signature loop")
    # after the loop: body slice + hash, then the body ladder, then the payload slice
    bm = re.search(r"bytes\s+memory\s+(\w+)\s*=\s*encodedVM\.slice\(\s*index\s*,\s*encodedVM\.length\s*-\s*index\s*\)\s*;", post)
    if not bm:
        raise ExtractError("Messages.sol: body slice `encodedVM.slice(index, encodedVM.length - index)` not found after the signature loop")
    if post[:bm.start()].strip():
        raise ExtractError("Messages.sol: unexpected statements between the signature loop and the body slice")
    bname = bm.group(1)
    rest = post[bm.end():]
    hm = re.search(r"vm\.hash\s*=\s*([^;]+);", rest)
    if not hm:
        raise ExtractError("Messages.sol: vm.hash assignment not found")
    hexpr = re.sub(r"\s+", "", hm.group(1))
    hash_double = hexpr == "keccak256(abi.encodePacked(keccak256(%s)))" % bname
    rest = rest[:hm.start()] + rest[hm.end():]
    pm = re.search(r"vm\.payload\s*=\s*encodedVM\.slice\(\s*index\s*,\s*encodedVM\.length\s*-\s*index\s*\)\s*;", rest)
    if not pm:
        raise ExtractError("Messages.sol: payload slice not found")
    if rest[pm.end():].strip():
        raise ExtractError("Messages.sol: statements after the payload slice")
    bdy, bdy_len, bdy_extra = ladder(rest[:pm.start()], "body")
    ver = None
    for st in hdr_extra:
        vm_ = re.search(r"require\(\s*vm\.version\s*==\s*(\d+)", st)
        if vm_:
            ver = int(vm_.group(1))
    leftovers = [s for s in hdr_extra if "require(" not in s and "new Structs.Signature" not in s] + sig_extra + bdy_extra
    leftovers = [s for s in leftovers if s.strip()]
    if leftovers:
        raise ExtractError("Messages.sol: statements in parseVM this extractor does not understand: %r" % leftovers[:3])
    if ver is None:
        raise ExtractError("Messages.sol: version requirement not found")

    def named(fs):
        out = []
        for f in fs:
            if f["src"] not in SOL_NAMES:
                raise ExtractError("Messages.sol: unknown field %r" % f["src"])
            out.append({"name": SOL_NAMES[f["src"]], "offset": f["offset"], "width": f["width"], "advance": f["advance"]})
        return out

    count_var = lm.group(2)
    if not any(f["src"] == count_var for f in hdr):
        raise ExtractError("Messages.sol: loop bound %s is not a header field" % count_var)

    # quorum
    qm = re.search(r"function\s+quorum\s*\(\s*uint\d*\s+(\w+)\s*\)", src)
    if not qm:
        raise ExtractError("Messages.sol: quorum() not found")
    qbody, _, _ = _block(src, qm.end())
    rm = re.search(r"return\s+([^;]+);", qbody)
    if not rm:
        raise ExtractError("Messages.sol: quorum() has no return expression")
    qexpr, qvar = rm.group(1).strip(), qm.group(1)
    cond = None
    for im in re.finditer(r"\bif\s*\(", src):
        depth, j = 1, im.end()
        while j < len(src) and depth:
            depth += {"(": 1, ")": -1}.get(src[j], 0)
            j += 1
        if depth == 0 and re.match(r"\s*\{\s*return\s*\(\s*false\s*,\s*\"no quorum\"", src[j:]):
            cond = src[im.end():j - 1].strip()
            break
    if cond is None:
        raise ExtractError("Messages.sol: `if (<condition>) { return (false, \"no quorum\")` not found in verifyVM")
    cparts = split_comparison(cond)

    def quorum_fn(x, _e=qexpr, _v=qvar):
        return evaluate(_e, {_v: x})

    def accepts(sg, n, _p=cparts):
        # the rejection condition over the signature count and the key count (calls of quorum() inlined)
        r = evaluate_comparison(_p, {"vm.signatures.length": sg, "guardianSet.keys.length": n, "quorum": quorum_fn})
        return r is False
    try:
        accepts(1, 1)
    except ExtractError as e:
        raise ExtractError("Messages.sol: cannot evaluate the quorum condition %r: %s" % (cond, e))
    return {
        "file": path, "program": "Messages.sol:parseVM",
        "header": named(hdr), "headerLen": hdr_len, "sig": named(sig), "sigWidth": sig_w, "body": named(bdy),
        "payloadOffset": bdy_len, "payloadToEnd": True, "hashOverBodyToEnd": True, "hashDouble": hash_double,
        "hashExpr": hexpr, "version": ver, "recIdPlus27": any(f["plus27"] for f in sig if f["src"] == "v"),
        "quorumExpr": qexpr, "quorumUse": "reject if " + re.sub(r"\s+", "", cond),
        "quorum": [evaluate(qexpr, {qvar: n}) for n in range(256)],
        "acceptsCount": accepts,
    }


# ------------------------------------------------------------------ governance.ral

RAL_NAMES = {"guardianSetIndex": "guardianSetIndex", "signatureSize": "numSignatures", "guardianIndex": "index",
             "emitterChainId": "emitterChain", "targetChainId": "targetChain", "emitterAddress": "emitterAddress",
             "sequence": "sequence", "timestamp": "timestamp", "nonce": "nonce", "consistencyLevel": "consistencyLevel"}


def extract_ral(path):
    if not os.path.exists(path):
        raise ExtractError("missing " + path)
    src = _strip_comments(open(path).read())
    m = re.search(r"fn\s+parseAndVerifyVAA\s*\(\s*(\w+)\s*:\s*ByteVec", src)
    if not m:
        raise ExtractError("governance.ral: parseAndVerifyVAA not found")
    data = m.group(1)
    body, _, _ = _block(src, m.end())
    vm_ = re.search(r"const\s+Version\s*=\s*#([0-9a-fA-F]{2})\b", src)
    if not vm_:
        raise ExtractError("governance.ral: const Version not found")
    version = int(vm_.group(1), 16)
    m0 = re.search(r"assert!\(\s*byteVecSlice!\(\s*%s\s*,\s*(\d+)\s*,\s*(\d+)\s*\)\s*==\s*Version\s*," % data, body)
    if not m0:
        raise ExtractError("governance.ral: version check not found")
    header = [{"name": "version", "offset": int(m0.group(1)), "width": int(m0.group(2)) - int(m0.group(1))}]

    let_re = re.compile(r"let\s+(?:mut\s+)?(\w+)\s*=\s*(?:u256From(\d+)Byte!\(\s*)?byteVecSlice!\(\s*(\w+)\s*,\s*([^,()]+?)\s*,\s*((?:size!\(\s*\w+\s*\))|[^,()]+?)\s*\)\s*\)?\s*(\+\s*27)?\s*$", re.M)
    lets = []
    for lm in let_re.finditer(body):
        lets.append({"name": lm.group(1), "conv": int(lm.group(2)) if lm.group(2) else None, "src": lm.group(3),
                     "a": lm.group(4).strip(), "b": lm.group(5).strip(), "plus27": bool(lm.group(6))})
    byname = {l["name"]: l for l in lets}

    def need(n):
        if n not in byname:
            raise ExtractError("governance.ral: `let %s = ...byteVecSlice!...` not found" % n)
        return byname[n]

    def fixed(l, env=None):
        a, b = evaluate(l["a"], env or {}), evaluate(l["b"], env or {})
        if a is None or b is None or b < a:
            raise ExtractError("governance.ral: cannot evaluate slice bounds of %s" % l["name"])
        if l["conv"] is not None and l["conv"] != b - a:
            # the conversion intrinsic fails at run time on a slice of another width: still a layout statement
            pass
        return a, b - a

    for n in ("guardianSetIndex", "signatureSize"):
        l = need(n)
        if l["src"] != data:
            raise ExtractError("governance.ral: %s is not sliced from %s" % (n, data))
        a, w = fixed(l)
        header.append({"name": RAL_NAMES[n], "offset": a, "width": w, "conv": l["conv"]})
    # body slice: data[<start expression>, size!(data)).  The start expression is evaluated (below, bodyStart) for
    # combinations of signature count / quorum / set size and compared with the specification's BodyStart(n); the
    # header length and signature width are read off it where it has the canonical form H + signatureSize * W.
    bm = re.search(r"let\s+(\w+)\s*=\s*byteVecSlice!\(\s*%s\s*,\s*([^,]+?)\s*,\s*size!\(\s*%s\s*\)\s*\)" % (data, data), body)
    if not bm:
        raise ExtractError("governance.ral: body slice `byteVecSlice!(data, <start>, size!(data))` not found")
    bname, bstart_expr = bm.group(1), bm.group(2).strip()

    def body_start(sig_n, quorum_n, guardian_n, _e=bstart_expr):
        return evaluate(_e, {"signatureSize": sig_n, "quorumSize": quorum_n, "guardianSize": guardian_n, "guardianSetIndex": 3})
    try:
        h0 = body_start(0, 0, 0)
        h1 = body_start(1, 0, 0)
    except ExtractError as e:
        raise ExtractError("governance.ral: cannot evaluate the body start expression %r: %s" % (bstart_expr, e))
    del h0, h1
    hm = re.search(r"let\s+hash\s*=\s*([^\n]+)", body)
    if not hm:
        raise ExtractError("governance.ral: hash not found")
    hexpr = re.sub(r"\s+", "", hm.group(1))
    hash_double = hexpr == "keccak256!(keccak256!(%s))" % bname
    # signature loop
    om = re.search(r"let\s+mut\s+offset\s*=\s*(\d+)", body)
    sm = re.search(r"offset\s*=\s*offset\s*\+\s*(\d+)", body)
    if not om or not sm:
        raise ExtractError("governance.ral: signature loop offset handling not found")
    loop_start, loop_step = int(om.group(1)), int(sm.group(1))
    if not re.search(r"for\s*\(\s*let\s+mut\s+(\w+)\s*=\s*0\s*;\s*\1\s*<\s*signatureSize\s*;", body):
        raise ExtractError("governance.ral: signature loop bound not found")
    gi = need("guardianIndex")
    sg = need("signature")
    env = {"offset": 0}
    ga, gw = fixed(gi, env)
    sa, sw = fixed(sg, env)
    rec = need("recId")
    ra, rw = fixed(rec)
    if rec["src"] != "signature" or not rec["plus27"]:
        raise ExtractError("governance.ral: recId is not `u256From1Byte!(byteVecSlice!(signature, a, b)) + 27`")
    rsm = re.search(r"byteVecSlice!\(\s*signature\s*,\s*(\d+)\s*,\s*(\d+)\s*\)\s*\+\+", body)
    if not rsm:
        raise ExtractError("governance.ral: r||s slice of the signature not found")
    rs_a, rs_w = int(rsm.group(1)), int(rsm.group(2)) - int(rsm.group(1))
    sig = [{"name": "index", "offset": ga, "width": gw},
           {"name": "r||s", "offset": sa + rs_a, "width": rs_w},
           {"name": "v", "offset": sa + ra, "width": rw}]
    # ascending-index requirement
    asc = bool(re.search(r"assert!\(\s*guardianIndexI256\s*>\s*lastGuardianIndex", body))
    # body fields
    bfields = []
    payload = None
    for l in lets:
        if l["src"] != bname:
            continue
        if l["b"].startswith("size!"):
            if l["name"] != "payload":
                raise ExtractError("governance.ral: open-ended body slice %s is not the payload" % l["name"])
            payload = evaluate(l["a"], {})
            continue
        if l["name"] not in RAL_NAMES:
            raise ExtractError("governance.ral: unknown body field %r" % l["name"])
        a, w = fixed(l)
        bfields.append({"name": RAL_NAMES[l["name"]], "offset": a, "width": w, "conv": l["conv"]})
    if payload is None or not bfields:
        raise ExtractError("governance.ral: body fields / payload slice not found")
    # quorum
    qm = re.search(r"let\s+quorumSize\s*=\s*([^\n]+)", body)
    if not qm:
        raise ExtractError("governance.ral: quorumSize not found")
    qexpr = qm.group(1).strip()
    gm = re.search(r"let\s+guardianSize\s*=", body)
    if not gm or "guardianSize" not in qexpr:
        raise ExtractError("governance.ral: quorumSize is not a function of guardianSize")
    um = re.search(r"assert!\(\s*([^,\n]+?)\s*,\s*ErrorCodes\.InvalidSignatureSize\s*\)", body)
    if not um:
        raise ExtractError("governance.ral: quorum assertion (ErrorCodes.InvalidSignatureSize) not found")
    rcond = um.group(1).strip()
    rparts = split_comparison(rcond)

    def accepts(sg, n, _p=rparts, _e=qexpr):
        r = evaluate_comparison(_p, {"signatureSize": sg, "guardianSize": n, "quorumSize": evaluate(_e, {"guardianSize": n})})
        return r is True
    try:
        accepts(1, 1)
    except ExtractError as e:
        raise ExtractError("governance.ral: cannot evaluate the quorum assertion %r: %s" % (rcond, e))
    return {
        "file": path, "program": "governance.ral:parseAndVerifyVAA",
        "header": header, "headerLen": loop_start, "sig": sig, "sigWidth": loop_step,
        "bodyStartExpr": bstart_expr, "bodyStart": body_start,
        "loopStart": loop_start, "body": bfields, "payloadOffset": payload, "payloadToEnd": True, "hashOverBodyToEnd": True,
        "hashDouble": hash_double, "hashExpr": hexpr, "version": version, "ascendingIndices": asc, "recIdPlus27": True,
        "quorumExpr": qexpr, "quorumUse": "assert " + re.sub(r"\s+", "", rcond),
        "quorum": [evaluate(qexpr, {"guardianSize": n}) for n in range(256)],
        "acceptsCount": accepts,
    }


# ------------------------------------------------------------------ comparison with the tables TLC printed

def compare_layout(ext, layout):
    """Returns a list of (signature, detail) for every difference between an extracted program layout and the
    specification's tables (VAAWire.tla: HeaderLayout, SigLayout, BodyLayout).  Empty list = agreement."""
    prog = ext["program"]
    diffs = []

    def d(what, got, want):
        diffs.append(("contract-layout/%s/%s" % (prog, what), {"program": prog, "what": what, "extracted": got, "specification": want}))

    spec = {k: {f["name"]: f for f in layout[k]} for k in ("header", "sig", "body")}
    for region in ("header", "body"):
        for f in ext[region]:
            s = spec[region].get(f["name"])
            if s is None:
                d("%s.%s/unknown-field" % (region, f["name"]), f, None)
                continue
            if f["offset"] != s["offset"]:
                d("%s.%s/offset" % (region, f["name"]), f["offset"], s["offset"])
            if f["width"] != s["width"]:
                d("%s.%s/width" % (region, f["name"]), f["width"], s["width"])
            if f.get("advance", f["width"]) != s["width"]:
                d("%s.%s/advance" % (region, f["name"]), f.get("advance"), s["width"])
            if f.get("conv") not in (None, s["width"]):
                d("%s.%s/conversion-width" % (region, f["name"]), f.get("conv"), s["width"])
    # signature entry: r||s may be extracted as one 64-byte slice
    srs = {"name": "r||s", "offset": spec["sig"]["r"]["offset"], "width": spec["sig"]["r"]["width"] + spec["sig"]["s"]["width"]}
    for f in ext["sig"]:
        s = srs if f["name"] == "r||s" else spec["sig"].get(f["name"])
        if s is None:
            d("sig.%s/unknown-field" % f["name"], f, None)
            continue
        if f["offset"] != s["offset"]:
            d("sig.%s/offset" % f["name"], f["offset"], s["offset"])
        if f["width"] != s["width"]:
            d("sig.%s/width" % f["name"], f["width"], s["width"])
        if f.get("advance", f["width"]) != s["width"]:
            d("sig.%s/advance" % f["name"], f.get("advance"), s["width"])
    for k, want in (("headerLen", layout["headerLen"]), ("sigWidth", layout["sigWidth"]), ("payloadOffset", layout["payloadOffset"]),
                    ("version", layout["version"])):
        if ext[k] != want:
            d(k, ext[k], want)
    if "bodyStart" in ext:
        # the hashed body must start right after the signatures the VAA CARRIES: evaluate the start expression for
        # set sizes g, the contract's own quorum q(g) and signature counts n >= q (also n > q)
        bad = []
        for g in (1, 2, 3, 4, 7, 13, 19, 100, 255):
            q = ext["quorum"][g]
            for n in sorted({q, q + 1, g} if q is not None else {g}):
                if n > max(g, q or 0) or n < 0:      # a VAA carries between quorum and all signatures of its set
                    continue
                got = ext["bodyStart"](n, q if q is not None else 0, g)
                want = layout["headerLen"] + layout["sigWidth"] * n
                if got != want:
                    bad.append({"signatures": n, "quorum": q, "guardians": g, "extracted": got, "specification": want})
        if bad:
            diffs.append(("contract-layout/%s/bodyStart/expr=%s" % (prog, re.sub(r"\s+", "", ext["bodyStartExpr"])),
                          {"program": prog, "what": "start of the hashed body", "expression": ext["bodyStartExpr"], "differs_at": bad[:12]}))
    if "loopStart" in ext and ext["loopStart"] != layout["headerLen"]:
        d("loopStart", ext["loopStart"], layout["headerLen"])
    if not ext["hashDouble"]:
        d("hash", ext["hashExpr"], layout["hash"])
    # the Solidity ladder must cover every field of the specification (it parses all of them)
    if prog.startswith("Messages.sol"):
        for region in ("header", "sig", "body"):
            got = [f["name"] for f in ext[region]]
            want = [f["name"] for f in layout[region]]
            if got != want:
                d("%s/field-order" % region, got, want)
    return diffs


def compare_quorum(ext, qtable):
    """qtable: {n: Q(n)} for n = 0..255 as printed by TLC.  Differences in the formula value and in the acceptance
    rule `signatures >= quorum`."""
    prog = ext["program"].split(":")[0]
    diffs = []
    bad = [n for n in range(256) if ext["quorum"][n] != qtable[n]]
    if bad:
        diffs.append(("contract-quorum/%s/formula/first-n=%d" % (prog, bad[0]),
                      {"program": prog, "expr": ext["quorumExpr"], "differs_at": bad[:20],
                       "extracted": [ext["quorum"][n] for n in bad[:20]], "specification": [qtable[n] for n in bad[:20]]}))
    # acceptance by signature count: the whole square n = 1..255 (guardians), s = 0..255 (signatures) against s >= Q(n)
    badu = [(sg, n) for n in range(1, 256) for sg in range(256) if ext["acceptsCount"](sg, n) != (sg >= qtable[n])]
    if badu:
        diffs.append(("contract-quorum/%s/acceptance-rule/sigs=%d,n=%d" % (prog, badu[0][0], badu[0][1]),
                      {"program": prog, "use": ext["quorumUse"], "pairs_differing": len(badu), "differs_at (sigs, n)": badu[:20]}))
    return diffs


def printable(ext):
    return {k: v for k, v in ext.items() if not callable(v)}


if __name__ == "__main__":
    import json
    import sys
    repo = sys.argv[1] if len(sys.argv) > 1 else "/repo"
    print(json.dumps(printable(extract_sol(os.path.join(repo, "ethereum/contracts/Messages.sol"))), indent=1))
    print(json.dumps(printable(extract_ral(os.path.join(repo, "alephium/contracts/governance.ral"))), indent=1))
