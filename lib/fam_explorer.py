"""Explorer family (C19): Explorer.tla + harness/explorer (module explorer-backend, packages guardiansets and processor)."""
import json
import os
import random
import re
import shutil

import vlib

COMMON = os.path.join(vlib.HARNESS, "common", "vh.go")
EXC = os.path.join(vlib.HARNESS, "explorer", "ex_common.go")
INJECT_SETS = {"guardiansets": [(COMMON, "guardiansets"), (EXC, "guardiansets"),
                                (os.path.join(vlib.HARNESS, "explorer", "gs_harness.go"), "guardiansets")]}
INJECT_PUSH = {"processor": [(COMMON, "processor"), (EXC, "processor"),
                             (os.path.join(vlib.HARNESS, "explorer", "push_harness.go"), "processor")]}

# the universe of MC_Explorer.tla
MC_CHAIN = [["g1", "g2", "g3"], ["g2", "g3", "g4", "g1"], ["g4"]]


def q(n):
    return (2 * n) // 3 + 1


# ------------------------------------------------------------------ scenarios from TLC

def _gen_cfg(work, name, overrides):
    cfg = open(os.path.join(vlib.SPEC, "Gen_Explorer.cfg")).read()
    for k, v in overrides.items():
        cfg = re.sub(r"(?m)^  %s = .*$" % k, "  %s = %s" % (k, v), cfg)
    sdir = os.path.join(work, "spec")
    if not os.path.isdir(sdir):
        shutil.copytree(vlib.SPEC, sdir)
    with open(os.path.join(sdir, name), "w") as fh:
        fh.write(cfg)
    return name


def tlc_scenarios(work, n, seed_, kind):
    """Behaviours of Gen_Explorer under tlc -simulate; the calls of each behaviour are replayed one after the other.
    kind = 'sets' (lookups, current-set reads, appends) or 'push' (pushes and lookups; the chain answers)."""
    if kind == "sets":
        ov = {"KindsR1": '{"lookup", "current"}', "KindsR2": '{"lookup", "current"}', "MaxCallsR1": 3, "MaxCallsR2": 3,
              "MaxAppends": 2, "VaaNames": "{}", "GenDepth": 8}
    else:
        ov = {"KindsR1": '{"push"}', "KindsR2": '{"push", "lookup"}', "MaxCallsR1": 4, "MaxCallsR2": 3, "MaxAppends": 0,
              "VaaNames": '{"A", "B", "C", "D", "E", "F", "G", "H", "I", "J"}', "GenDepth": 8}
    if kind == "push-unknown":   # the VAAs that name an index the explorer does not hold (yet), every signer population
        ov = {"KindsR1": '{"push"}', "KindsR2": '{"push"}', "MaxCallsR1": 4, "MaxCallsR2": 3, "MaxAppends": 0,
              "VaaNames": '{"A", "F", "G", "H", "I", "J"}', "GenDepth": 7}
    name = _gen_cfg(work, "Gen_Explorer_%s_%d.cfg" % (kind, seed_), ov)
    r = vlib.tlc(work, "Gen_Explorer", name, workers=1,
                 args=["-simulate", "num=%d" % (n * 2), "-depth", "200", "-seed", str(seed_)], timeout=300)
    hs = vlib.tlc_prints(r["out"], "SCN")
    if not hs:
        raise vlib.Broken("TLC simulation of Gen_Explorer produced no scenarios:\n" + r["out"][-2000:])
    seen, res = set(), []
    for h in hs:
        k = json.dumps(h, sort_keys=True)
        if k in seen:
            continue
        seen.add(k)
        res.append({"init": {"chain": MC_CHAIN, "n0": 1, "top": 0, "qcap": 1 if kind != "push-unknown" else 3, "up": True},
                    "steps": h, "src": "tlc-" + kind})
        if len(res) >= n:
            break
    return res


# ------------------------------------------------------------------ seeded generators

def universe(r, k):
    pool = ["g%d" % i for i in range(1, 41)]
    sets = []
    prev = []
    for _ in range(k):
        n = r.choice([1, 1, 2, 3, 4, 4, 5, 7, 10, 13, 19])
        keep = [x for x in prev if r.random() < 0.6][:n]
        fresh = [x for x in r.sample(pool, n + len(keep)) if x not in keep][:n - len(keep)]
        keys = keep + fresh
        r.shuffle(keys)
        sets.append(keys)
        prev = keys
    return sets


def gen_sets(r):
    k = r.choice([3, 4, 6, 9])
    chain = universe(r, k)
    n0 = r.randrange(1, k + 1)
    top = r.randrange(n0 - 1, k)
    up = r.random() < 0.7
    cur = n0 - 1
    steps = []
    poisoned = False
    for _ in range(r.randrange(6, 18)):
        x = r.random()
        if x < 0.15 and top + 1 < k:
            steps.append({"ev": "Grow", "a": {}})
            top += 1
        elif x < 0.35:
            steps.append({"ev": "Current", "a": {}})
        elif x < 0.6 and not poisoned:
            hi = r.randrange(cur, top + 1) if r.random() < 0.8 else r.randrange(-1, top + 1)
            lo = r.randrange(0, cur + 2)
            if hi + 1 < lo:
                hi = lo - 1
            steps.append({"ev": "Append", "a": {"lo": lo, "hi": hi}})
            cur = max(cur, hi)
        else:
            kind = r.choice(["known", "known", "pending", "pending", "beyond"])
            if kind == "known":
                i = r.randrange(0, cur + 1)
            elif kind == "pending" and top > cur:
                i = r.randrange(cur + 1, top + 1)
            else:
                i = top + r.choice([1, 1, 2, 5])
            steps.append({"ev": "Lookup", "a": {"i": i}})
            if up and cur < i <= top:
                cur = i
            if up and i > top:
                poisoned = True    # the specification wants an error here; whatever the code does, stop relying on cur
    return {"init": {"chain": chain, "n0": n0, "top": top - sum(1 for s in steps if s["ev"] == "Grow"), "qcap": 1, "up": up},
            "steps": steps, "src": "gen-sets"}


def hammer_scenario(r, readers, ops, appends, free_ops, mode="both"):
    """Concurrent lookups against the append path on one GuardianSets instance: a logged phase (validated as a
    concurrent history) and a free-running phase (no logging while it runs; results validated by value).  One instance
    per mode, because the race detector reports a racy address once: mode 'lookup' hammers GetGuardianSet only,
    'current' GetCurrentGuardianSet only."""
    k = appends * 2 + 2
    chain = universe(r, k)
    steps = [{"ev": "Hammer", "a": {"readers": readers, "ops": ops, "appends": appends, "free": False, "mode": mode, "seed": r.randrange(1, 10 ** 6)}},
             {"ev": "Hammer", "a": {"readers": readers, "ops": free_ops, "appends": appends, "free": True, "mode": mode, "seed": r.randrange(1, 10 ** 6)}}]
    return {"init": {"chain": chain, "n0": 1, "top": 0, "qcap": 1, "up": True}, "steps": steps, "src": "hammer"}


def append_hammer_scenario(r, rounds, maxk):
    """Concurrent appenders (2..maxk at once) with identical and overlapping batches on one GuardianSets instance,
    round after round while governance keeps creating sets; list projection and lookups after every round."""
    k = 2 * rounds + 2
    chain = universe(r, k)
    chain = [ks[:r.choice([1, 2, 3])] for ks in chain]      # many sets, few keys each
    steps = [{"ev": "AppendHammer", "a": {"rounds": rounds, "maxk": maxk, "seed": r.randrange(1, 10 ** 6)}}]
    return {"init": {"chain": chain, "n0": 1, "top": 0, "qcap": 1, "up": True}, "steps": steps, "src": "append-hammer"}


def mk_vaa(vid, set_idx, keys, idxs, cls, **kw):
    sigs = [{"idx": i, "signer": keys[i]} for i in idxs]
    v = {"id": vid, "setIdx": set_idx, "sigs": sigs, "cls": cls}
    v.update(kw)
    return v


def gen_push(r):
    k = r.choice([2, 3, 4, 6])
    chain = universe(r, k)
    n0 = r.randrange(1, k + 1)
    top = r.randrange(n0 - 1, k)
    up = r.random() < 0.75
    qcap = r.choice([1, 1, 2, 3])
    steps = []
    nid = [0]
    pushed_ok = []

    def fresh():
        nid[0] += 1
        return "m%d" % nid[0]

    def valid(si, vid=None, cls="valid"):
        keys = chain[si]
        n = len(keys)
        cnt = r.choice([q(n), q(n), n, min(n, q(n) + 1)])
        return mk_vaa(vid or fresh(), si, keys, sorted(r.sample(range(n), cnt)), cls)

    grows = 0
    for _ in range(r.randrange(5, 16)):
        x = r.random()
        known = list(range(0, min(top, k - 1) + 1))
        si = r.choice(known)
        keys = chain[si]
        n = len(keys)
        if x < 0.08 and top + 1 < k:
            steps.append({"ev": "Grow", "a": {}})
            top += 1
            grows += 1
            continue
        if x < 0.18:
            steps.append({"ev": "Drain", "a": {}})
            continue
        if x < 0.24:
            steps.append({"ev": "Lookup", "a": {"i": r.randrange(0, top + 1)}})
            continue
        c = r.choice(["valid", "valid", "valid", "short", "wrong-signer", "other-set", "swapped", "dup-index", "no-sigs",
                      "duplicate", "duplicate", "future", "outsider-extra", "forged-copy", "forged-copy"])
        if c == "forged-copy" and pushed_ok:
            # the body of a VAA that was verified before (queued, or refused by a full queue, or already drained), with
            # signatures that do not verify / name another set: a verdict about a body says nothing about these signatures
            p0 = r.choice(pushed_ok)
            kp = chain[p0["setIdx"]]
            how = r.choice(["outsiders", "short", "none", "one-bad"])
            idxs = [sg["idx"] for sg in p0["sigs"]]
            if how == "short":
                idxs = idxs[:max(0, q(len(kp)) - 1)]
            elif how == "none":
                idxs = []
            v = mk_vaa(p0["id"], p0["setIdx"], kp, idxs, "forged-copy-of-a-verified-body")
            if how == "outsiders":
                for sg in v["sigs"]:
                    sg["signer"] = "x1"
            elif how == "one-bad" and v["sigs"]:
                v["sigs"][r.randrange(len(v["sigs"]))]["signer"] = "x1"
            if r.random() < 0.5:
                steps.append({"ev": "Drain", "a": {}})
        elif c == "valid":
            v = valid(si)
            pushed_ok.append(v)
        elif c == "short":
            if q(n) - 1 == 0:
                v = mk_vaa(fresh(), si, keys, [], "no-sigs")
            else:
                v = mk_vaa(fresh(), si, keys, sorted(r.sample(range(n), q(n) - 1)), "short")
        elif c == "no-sigs":
            v = mk_vaa(fresh(), si, keys, [], "no-sigs")
        elif c == "wrong-signer":
            v = valid(si, cls="wrong-signer")
            v["sigs"][r.randrange(len(v["sigs"]))]["signer"] = "x1"
        elif c == "outsider-extra":
            v = mk_vaa(fresh(), si, keys, list(range(n)), "index-out-of-range")
            v["sigs"].append({"idx": n, "signer": "x1"})
        elif c == "other-set":
            sj = r.choice([j for j in known if j != si] or [si])
            kj = chain[sj]
            if sj == si or kj == keys:
                v = valid(si)
                pushed_ok.append(v)
            else:
                cnt = q(len(kj))
                v = mk_vaa(fresh(), si, kj, sorted(r.sample(range(len(kj)), cnt)), "signed-by-set-%s-names-other" % ("newer" if sj > si else "older"))
        elif c == "swapped":
            v = valid(si, cls="swapped")
            if len(v["sigs"]) >= 2:
                v["sigs"][0], v["sigs"][1] = v["sigs"][1], v["sigs"][0]
            else:
                v["cls"] = "valid"
                pushed_ok.append(v)
        elif c == "dup-index":
            v = valid(si, cls="dup-index")
            v["sigs"].insert(0, dict(v["sigs"][0]))
        elif c == "duplicate" and pushed_ok:
            v = dict(r.choice(pushed_ok))
            v["cls"] = "duplicate"
        else:
            fi = top + r.choice([1, 2]) if r.random() < 0.5 else r.randrange(0, top + 1)
            if fi <= top:
                v = valid(fi, cls="named-set-on-chain")
                pushed_ok.append(v)
            else:
                kk = chain[fi] if fi < k else ["x1"]
                v = mk_vaa(fresh(), fi, kk, list(range(q(len(kk)))), "future-set-not-on-chain")
        steps.append({"ev": "Push", "a": {"v": v}})
    return {"init": {"chain": chain, "n0": n0, "top": top - grows, "qcap": qcap, "up": up}, "steps": steps, "src": "gen-push"}


def _valid_under(sigs, keys):
    last = -1
    seen = set()
    for sg in sigs:
        if sg["idx"] >= len(keys) or sg["idx"] <= last or keys[sg["idx"]] != sg["signer"] or sg["signer"] in seen:
            return False
        last = sg["idx"]
        seen.add(sg["signer"])
    return len(sigs) > 0 and len(sigs) >= q(len(keys))


def gen_held(r, kind):
    """A lookup (or a gossiped VAA) of a FUTURE index i whose chain fetch the node holds back while another caller
    appends past i (the updater with sets up to i+1 or further / a lookup of a newer index); then the node answers.
    The push variants name the intermediate set i and are signed either by set i (valid) or by the newer set i+1."""
    k = r.choice([4, 5, 6])
    while True:
        chain = universe(r, k)
        if all(chain[j] != chain[j + 1] for j in range(k - 1)):
            break
    n0 = r.randrange(1, k - 1)          # cur = n0-1; i = n0 is unknown to the explorer, i+1 exists on chain
    i = n0
    hi = r.randrange(i + 1, k)
    init = {"chain": chain, "n0": n0, "top": k - 1, "qcap": 3, "up": True}
    if kind == "sets":
        steps = [{"ev": "Current", "a": {}},
                 {"ev": "HeldLookup", "a": {"i": i, "lo": r.choice([1, n0]), "hi": hi}}]
        steps += [{"ev": "Lookup", "a": {"i": j}} for j in range(0, hi + 1)]
        return {"init": init, "steps": steps, "src": "held-lookup"}
    ki, kn = chain[i], chain[i + 1]
    if r.random() < 0.5:
        v = mk_vaa("hv", i, ki, sorted(r.sample(range(len(ki)), q(len(ki)))), "held-valid-intermediate-set")
    else:
        v = mk_vaa("hn", i, kn, sorted(r.sample(range(len(kn)), q(len(kn)))), "held-names-intermediate-signed-by-newer-set")
        if _valid_under(v["sigs"], ki):
            v["cls"] = "held-valid-intermediate-set"
    steps = [{"ev": "HeldPush", "a": {"v": v, "advance": hi}}, {"ev": "Lookup", "a": {"i": i}}, {"ev": "Lookup", "a": {"i": hi}},
             {"ev": "Push", "a": {"v": mk_vaa("after", i, ki, sorted(r.sample(range(len(ki)), q(len(ki)))), "valid")}}]
    return {"init": init, "steps": steps, "src": "held-push"}


def gen_updater(r):
    """The periodic updater's real path: governance creates sets, the REAL updateGuardianSet loop ticks (its fetch
    GetGuardianSetsFromChain(current+1) is let through one tick at a time), with node failures of the index call or
    of a set call inside the range; list projection after every tick, lookups in between and of every index at the
    end.  Half of the scenarios also build the initial list the way main.go does (GetGuardianSetsFromChain(.., 0))."""
    k = r.choice([4, 5, 6, 8])
    chain = universe(r, k)
    startup = r.random() < 0.5
    top = r.randrange(0, 2)
    n0 = top + 1 if startup else r.randrange(1, top + 2)
    init = {"chain": chain, "n0": n0, "top": top, "qcap": 1, "up": True, "updater": True, "startup": startup}
    steps = []
    for _ in range(r.randrange(4, 10)):
        x = r.random()
        if x < 0.35 and top + 1 < k:
            for _ in range(r.choice([1, 1, 2, 3])):
                if top + 1 < k:
                    steps.append({"ev": "Grow", "a": {}})
                    top += 1
        elif x < 0.75:
            f = r.choice(["", "", "", "index", "set", "set"])
            steps.append({"ev": "Tick", "a": {"fail": f, "nth": r.choice([1, 1, 2, 3])}})
        elif x < 0.9:
            steps.append({"ev": "Lookup", "a": {"i": r.randrange(0, top + 1)}})
        else:
            steps.append({"ev": "Current", "a": {}})
    steps.append({"ev": "Tick", "a": {"fail": ""}})
    steps.append({"ev": "Current", "a": {}})
    steps += [{"ev": "Lookup", "a": {"i": i}} for i in range(top + 1)]
    return {"init": init, "steps": steps, "src": "updater"}


def updater_scenarios(seed_, n):
    rnd = random.Random("explorer-updater-%d" % seed_)
    return [gen_updater(rnd) for _ in range(n)]


def held_scenarios(seed_, n, kind):
    rnd = random.Random("explorer-held-%s-%d" % (kind, seed_))
    return [gen_held(rnd, kind) for _ in range(n)]


def gen_push_unknown(r):
    """VAAs naming a guardian-set index the explorer does not hold, signed by every interesting key population (all keys
    / a quorum of the explorer's current set, a quorum of an older set it holds, the named set's own keys, outsiders),
    against every outcome of the chain lookup: the node is unreachable (closed port), the node answers the set call
    with an error, the index is not on chain, the node returns the set.  Property: queued only if the VAA verifies
    against the set with the index it names, which must then be known (fetched)."""
    k = r.choice([3, 4, 6])
    while True:
        chain = universe(r, k)
        if all(chain[j] != chain[j + 1] for j in range(k - 1)):
            break
    n0 = r.randrange(1, k)                   # the explorer holds 0..cur
    cur = n0 - 1
    top = r.randrange(cur, k - 1)            # at least one index of the universe is not on chain yet
    up = r.random() < 0.65
    qcap = 4
    steps = []
    nid = [0]

    def fresh():
        nid[0] += 1
        return "u%d" % nid[0]
    for _ in range(r.randrange(3, 8)):
        where = r.choice(["not-on-chain", "not-on-chain", "on-chain-unknown", "on-chain-unknown", "beyond-universe"])
        if where == "on-chain-unknown" and top > cur:
            idx = r.randrange(cur + 1, top + 1)
        elif where == "beyond-universe":
            idx = k + r.choice([0, 1, 5])
        else:
            idx = r.randrange(top + 1, k)
        pop = r.choice(["current-all", "current-quorum", "older-quorum", "named-set", "outsiders"])
        if pop == "older-quorum" and cur == 0:
            pop = "current-quorum"
        if pop == "named-set" and idx >= k:
            pop = "current-all"
        if pop == "current-all":
            keys = chain[cur]
            idxs = list(range(len(keys)))
        elif pop == "current-quorum":
            keys = chain[cur]
            idxs = sorted(r.sample(range(len(keys)), q(len(keys))))
        elif pop == "older-quorum":
            keys = chain[r.randrange(0, cur)]
            idxs = sorted(r.sample(range(len(keys)), q(len(keys))))
        elif pop == "named-set":
            keys = chain[idx]
            idxs = sorted(r.sample(range(len(keys)), q(len(keys))))
        else:
            keys = ["x%d" % (i + 1) for i in range(len(chain[cur]))]
            idxs = list(range(len(keys)))
        rpc = "fail" if (up and r.random() < 0.35) else ""
        outcome = ("node-unreachable" if not up else "node-errors" if rpc else "index-not-on-chain" if idx > top else "node-returns-the-set")
        v = mk_vaa(fresh(), idx, keys, idxs, "unknown-index/%s/%s" % (pop, outcome))
        a = {"v": v}
        if rpc:
            a["rpc"] = rpc
        steps.append({"ev": "Push", "a": a})
        if outcome == "node-returns-the-set":
            cur = max(cur, idx)
        if r.random() < 0.3:
            # a copy of the same VAA once more (a failed or refused one must not have been marked as seen)
            steps.append({"ev": "Push", "a": {"v": dict(v, cls=v["cls"] + "/again")}})
            if up and idx <= top:
                cur = max(cur, idx)
        if r.random() < 0.25:
            kc = chain[cur]
            steps.append({"ev": "Push", "a": {"v": mk_vaa(fresh(), cur, kc, sorted(r.sample(range(len(kc)), q(len(kc)))), "valid")}})
        if r.random() < 0.2:
            steps.append({"ev": "Drain", "a": {}})
    return {"init": {"chain": chain, "n0": n0, "top": top, "qcap": qcap, "up": up}, "steps": steps, "src": "gen-push-unknown"}


def gen_scenarios(seed_, n, kind):
    rnd = random.Random("explorer-%s-%d" % (kind, seed_))
    f = {"sets": gen_sets, "push": gen_push, "push-unknown": gen_push_unknown}[kind]
    return [f(rnd) for _ in range(n)]


# ------------------------------------------------------------------ replay

RACE_RE = re.compile(r"WARNING: DATA RACE\n(.*?)\n==================", re.S)


def parse_races(out):
    """Race-detector reports -> [(signature, text)].  Signature = the two accesses as kind@function, sorted."""
    res = []
    for m in RACE_RE.finditer(out):
        block = m.group(1)
        acc = []
        for am in re.finditer(r"(?m)^(Read|Write|Previous read|Previous write|Atomic read|Atomic write|Previous atomic read|"
                              r"Previous atomic write) at 0x[0-9a-f]+ by (?:main )?goroutine \d+:\n((?:  .*\n?)+)", block):
            kind = "write" if "rite" in am.group(1) else "read"
            frames = [ln.strip() for ln in am.group(2).splitlines() if ln.startswith("  ") and not ln.startswith("      ")]
            fn = "?"
            harness = False
            for fr in frames:
                name = fr.split("(")[0] if not fr.startswith("github.com") else fr
                if "explorer-backend/" in fr:
                    short = fr.split("explorer-backend/")[1]
                    short = re.sub(r"\(\)$", "", short)
                    nm = short.split(".", 1)[1] if "." in short else short
                    if re.match(r"\(?\*?(ghRun|phxRun|exChain)\b|gh[A-Z]|phx[A-Z]|ex[A-Z]|vh[A-Z]|TestVerif", nm):
                        harness = True
                        break
                    fn = short
                    break
            acc.append((kind, fn, harness))
        if len(acc) >= 2:
            a, b = acc[0], acc[1]
            if a[1] == "?" or b[1] == "?" or (a[2] and a[1] == "?") or (b[2] and b[1] == "?"):
                sig = "race/unattributed"
            else:
                sig = "race/" + "~".join(sorted(["%s@%s" % (a[0], a[1]), "%s@%s" % (b[0], b[1])]))
            res.append((re.sub(r"[^A-Za-z0-9/@~.*()_-]+", "-", sig), block[:3000]))
    return res


def parse_crash(out, marker="explorer-backend/"):
    """A `panic:` / `fatal error:` that killed the test process: (signature, text) when the innermost frame that belongs
    to the module under test is code under test (not the injected harness, whose files are zz_verif_*), else None."""
    m = re.search(r"(?m)^(panic|fatal error): (.*)$", out)
    if not m:
        return None
    text = re.sub(r"\s*\[recovered\].*", "", m.group(2)).strip()
    tail = out[m.start():]
    g = re.search(r"(?m)^goroutine \d+ \[[^\]]*\]:\n((?:.+\n?)+)", tail)
    if not g:
        return None
    lines = g.group(1).splitlines()
    for i, ln in enumerate(lines):
        if ln.startswith("\t") or marker not in ln:
            continue
        where = lines[i + 1] if i + 1 < len(lines) else ""
        if "zz_verif" in where:
            return None           # the harness itself panicked
        fn = re.sub(r"\([^()]*\)$", "", ln.split(marker)[1].strip())     # drop the argument list
        fn = re.sub(r"\(\*(\w+)\)", r"\1", fn)
        val = re.sub(r"0x[0-9a-f]+", "0x", re.sub(r"\d+", "N", text))
        sig = "crash/%s/%s" % (re.sub(r"[^A-Za-z0-9.]+", "-", fn).strip("-"), re.sub(r"[^A-Za-z0-9]+", "-", val)[:70].strip("-"))
        return sig, tail[:3500]
    return None


def _read_trace(path):
    res = []
    if os.path.exists(path):
        for line in open(path, errors="replace"):
            line = line.strip()
            if line:
                try:
                    res.append(json.loads(line))
                except ValueError:
                    break             # the process died while writing
    return res


def replay(work, scenarios, kind, tag):
    scp = os.path.join(work, "scenarios_%s_%s.ndjson" % (tag, kind))
    trp = os.path.join(work, "trace_%s_%s.ndjson" % (tag, kind))
    with open(scp, "w") as fh:
        for i, s in enumerate(scenarios):
            fh.write(json.dumps({"id": s["tid"], "bodies": {"init": s["init"]}, "steps": s["steps"]}) + "\n")
    pkg, run, inj = (("./guardiansets", "TestVerifExplorerSets", INJECT_SETS) if kind == "sets"
                     else ("./processor", "TestVerifExplorerPush", INJECT_PUSH))
    rc, out, wall = vlib.go_test(work, "explorer-backend", pkg, run, inj,
                                 env={"VERIF_SCENARIOS": scp, "VERIF_TRACE": trp, "VERIF_SEED": vlib.seed()}, race=True, timeout=900)
    crash = None
    if "VERIF-REPLAYED" not in out:
        # the process died: a crash inside a goroutine of the code under test (which no recover() of the harness can
        # reach) is an observation about the code; anything else is a broken harness
        crash = parse_crash(out)
        if crash is None:
            raise vlib.Broken("explorer harness (%s) did not complete (rc=%d):\n%s" % (kind, rc, out[-4000:]))
    lines = _read_trace(trp)
    if crash:
        done = set(ln["t"] for ln in lines)
        crash = (crash[0], crash[1], [s["tid"] for s in scenarios if s["tid"] not in done][:1])
    return lines, parse_races(out), wall, crash


def _width(tl):
    """Largest number of calls open at the same time in a trace."""
    open_, w = set(), 0
    for ln in tl:
        if ln["ev"].endswith("Call"):
            open_.add(ln["a"]["p"])
            w = max(w, len(open_))
        elif ln["ev"].endswith("Ret") and ln["ev"] != "FreeRet":
            open_.discard(ln["a"].get("p"))
    return w


def validate(work, lines):
    """Trace_Explorer over the recorded lines at level 1 (a call takes effect right before its return), then the traces
    that stay unexplained (other than by a panic, which nothing explains) at level 2 (atomic anywhere between call and
    return), then -- histories at most 3 calls wide -- with all interleavings (see Trace_Explorer.tla)."""
    res, r = _validate(work, lines, "Trace_Explorer.cfg")
    r["passes"] = {"level1": len(res)}

    def unexplained():
        return set(t for t, bad in res.items() if bad is not None and bad.get("a", {}).get("res", {}).get("tag") != "panic"
                   and "panic" not in bad.get("a", {}) and bad["ev"] != "Panic")
    for cfg, name in (("Trace_Explorer_atomic.cfg", "level2"), ("Trace_Explorer_full.cfg", "level3")):
        redo = unexplained()
        if name == "level3":
            by_t = {}
            for ln in lines:
                if ln["t"] in redo:
                    by_t.setdefault(ln["t"], []).append(ln)
            redo = set(t for t in redo if _width(by_t[t]) <= 3)
        if not redo:
            continue
        res2, r2 = _validate(work, [ln for ln in lines if ln["t"] in redo], cfg)
        res.update(res2)
        for k in ("distinct", "generated", "wall_s"):
            r[k] += r2[k]
        r["passes"][name] = len(redo)
    return res, r


def _validate(work, lines, cfg):
    sdir = os.path.join(work, "spec")
    if not os.path.isdir(sdir):
        shutil.copytree(vlib.SPEC, sdir)
    lines.sort(key=lambda ln: (ln["t"], ln["n"]))
    with open(os.path.join(sdir, "trace.ndjson"), "w") as fh:
        for ln in lines:
            fh.write(json.dumps(ln) + "\n")
    r = vlib.tlc(work, "Trace_Explorer", cfg, workers=1, timeout=1800, heap="12g")
    fin = vlib.tlc_prints(r["out"], "FINISHED")
    if r["violated"]:
        raise vlib.Broken("a specification invariant failed during trace validation (the trace specification only takes "
                          "specification actions, so this is a spec problem):\n" + r["out"][-3000:])
    if not fin:
        raise vlib.Broken("trace validation did not finish:\n" + r["out"][-3000:])
    hw = {}
    for m in re.finditer(r'<<"HW", (\d+), (\d+), (\d+)>>', r["out"]):
        hw[int(m.group(1))] = int(m.group(3))
    starts = [i for i, ln in enumerate(lines) if ln["ev"] == "Reset"]
    res = {}
    for k, i in enumerate(starts):
        t = lines[i]["t"]
        end = (starts[k + 1] if k + 1 < len(starts) else len(lines)) + 1
        if t not in hw:
            raise vlib.Broken("trace %d missing from TLC's report" % t)
        res[t] = None if hw[t] >= end else lines[hw[t] - 1]
    return res, r


def panic_signature(ln):
    val = re.sub(r"\d+", "N", re.sub(r"0x[0-9a-f]+", "0x", ln["a"].get("value", "")))
    return "panic/%s/%s" % (ln["a"].get("call"), re.sub(r"[^A-Za-z0-9]+", "-", val)[:60].strip("-"))


def classify_reject(trace_lines, bad, scenario):
    """Signature of an unexplained line (the verdict is TLC's; this only names the class of the input)."""
    ev = bad["ev"]
    a = bad.get("a", {})
    if ev == "Panic":
        return panic_signature(bad)
    if ev == "StartupFailed":
        return "reject/StartupFailed/initial-sets-could-not-be-fetched-from-a-node-that-answers"
    if ev == "TickTimeout":
        return "reject/TickTimeout/updater-tick-did-not-finish"
    if ev == "TickFailed":
        return "reject/TickFailed/%s" % ("updater-fetch-failed-although-the-node-answered" if not a.get("node_failures") else "state-changed")
    if ev == "AppendRet" and a.get("p") == "t" and "panic" not in a:
        return "reject/TickRet/list-after-updater-tick-is-not-the-chain-prefix"
    top, up = None, False
    for ln in trace_lines:
        if ln is bad:
            break
        if ln["ev"] == "Init":
            top = ln["a"]["top"]
            up = ln["a"]["up"]
        elif ln["ev"] == "ChainGrow":
            top = ln["a"]["top"]
    st = bad.get("s") or {}
    if "idxs" in st and a.get("res", {}).get("tag") != "panic":
        # projected list state (read under the structure's own lock) that the specification does not have
        if st["idxs"] != list(range(len(st["idxs"]))):
            return "reject/%s/list-position-differs-from-set-index" % ev
        if st.get("n") != st.get("cur", -2) + 1:
            return "reject/%s/list-length-differs-from-current-index" % ev
    if ev in ("LookupRet", "CurrentRet", "FreeRet"):
        res = a.get("res", {})
        if res.get("tag") == "panic":
            return "panic/%s/%s" % (ev, re.sub(r"[^A-Za-z0-9]+", "-", re.sub(r"\d+", "N", res.get("msg", "")))[:60].strip("-"))
        if ev == "LookupRet" and res.get("tag") == "set" and top is not None and a.get("i", 0) > top:
            return "reject/LookupRet/index-not-on-chain-answered-with-%s" % ("empty-set" if not res["set"]["keys"] else "a-set")
        if ev == "LookupRet" and res.get("tag") == "set" and res["set"]["idx"] != a.get("i"):
            return "reject/LookupRet/returned-%s-set-than-requested" % ("a-newer" if res["set"]["idx"] > a["i"] else "an-older")
        return "reject/%s/%s" % (ev, res.get("tag"))
    if ev == "PushRet":
        cls = "?"
        calls = [ln for ln in trace_lines if ln["ev"] == "PushCall" and ln["n"] < bad["n"]]
        if calls:
            cls = calls[-1]["a"]["v"].get("cls", calls[-1]["a"]["v"].get("id"))
        if calls and up and top is not None and calls[-1]["a"]["v"]["setIdx"] > top and a.get("out") == "error":
            # the verdict is the right one, the state is not: the index that is not on chain was cached
            return "reject/PushRet/index-not-on-chain-cached-as-empty-set"
        return "reject/PushRet/%s/%s" % (a.get("out"), cls)
    if ev == "AppendRet" and "panic" in a:
        return "panic/AppendRet"
    return "reject/%s" % ev
