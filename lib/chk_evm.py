"""Check C10 (DESIGN.md section 6): exhaustive TLC run of the bounded EvmChain+EvmWatcher model, then the real
Watcher.Run is driven against a fake JSON-RPC node with TLC-generated and seeded chain histories and TLC validates
every recorded line (served RPCs, environment changes, outputs, scan boundaries) against EvmWatcher.tla."""
import json
import os
import time
from collections import Counter

import fam_evm as fe
import vlib

PROPS = ["C10"]

NOTE = ("Trusted: TLC, the Go toolchain, go-ethereum's rpc/ethclient/abi packages. The chain node is simulated: its API semantics "
        "are the assumptions written in EvmChain.tla and the fake node's answers are themselves checked against that module. "
        "Exhaustive TLC run at scaled constants (window 3, jumps {1,2,3,4}, cl {0,1}); the bridge to the real window (60), "
        "jumps up to 200 and cl 0..255 is trace validation of seeded histories. Scan boundaries are observed through the "
        "watcher's own logger ('processing new header' / 'processed new header'); RPC errors on eth_subscribe, eth_call and the "
        "log-intake block lookup (which end Run) are not injected.")

MANIFEST = {
    "C10": dict(text="EvmChain.tla + EvmWatcher.tla are model-checked exhaustively (ForwardSound, ExactlyOnce for every head increment "
                     "including >= the abandonment window, AtMostOnce, AbandonOnlyAfterWindow, DropOrphans); the real Watcher.Run dials a fake "
                     "JSON-RPC node that serves scripted chain histories (head jumps, reorgs, receipts moving/disappearing/failing, RPC "
                     "errors) and TLC validates every served call, every message on the output channel and every scan boundary against "
                     "the specification's actions.",
                ref="6/C10", note=NOTE, technique="TLA+ model checking (TLC) + trace validation of the real Watcher.Run against a fake JSON-RPC node"),
}

PLAN = {
    # tier: (mc cfgs, (tlc scenarios, depth), seeded scenarios, shards)
    "quick": (["MC_EvmWatcher_quick.cfg", "MC_EvmWatcher_reobs_quick.cfg", "MC_EvmWatcher_intake_quick.cfg", "MC_EvmWatcher_restart_quick.cfg"], (200, 36), 800, 6),
    "thorough": (["MC_EvmWatcher_thorough.cfg", "MC_EvmWatcher_reobs_thorough.cfg", "MC_EvmWatcher_mixed_thorough.cfg", "MC_EvmWatcher_intake_thorough.cfg", "MC_EvmWatcher_restart_thorough.cfg"], (2500, 44), 9500, 8),
}

ASSUME = [
    "the EVM node is simulated; its API semantics (receipts by hash, block tags latest/finalized, log subscription filtered by the "
    "criteria the client sent) are the assumptions of EvmChain.tla; the fake node's logged answers are checked against that module",
    "finalized mode = chain id Ethereum with unsafeDevMode off (poller reads 'finalized', consistency level ignored); latest mode = the "
    "BSC configuration (poller reads 'latest', waitForConfirmations on); the devnet combination (latest, zero confirmations) is not run",
    "logs are pushed and re-observation requests issued only when the watcher is quiet; chain changes are also applied between two calls "
    "of one scan and between the head read and the receipt read of a re-observation",
    "scan start/end are observed through the watcher's logger; RPC failures of eth_subscribe / eth_call / log-intake eth_getBlockByHash "
    "(which terminate Run) are not injected",
    "exhaustive TLC run uses scaled constants (window 3, <= 4 heads, jumps 1..4, cl 0..1, <= 1 reorg, <= 1 RPC error)",
]


def bucket(d, W):
    if d < 0:
        return "<0"
    if d == 0:
        return "0"
    if d < W:
        return "<W"
    if d == W:
        return "W"
    return ">W"


def run(prop, tier, replay=None):
    t0 = time.time()
    work = vlib.scratch(prop)
    mcs, (ntlc, depth), ngen, shards = PLAN[tier]
    seed = vlib.seed()
    scenarios = []
    mc_states = mc_trans = 0
    if replay:
        rp = json.load(open(replay))
        scenarios = [v["detail"]["scenario"] for v in rp.get("violations", []) if v.get("detail", {}).get("scenario")]
        if not scenarios:
            raise vlib.Broken("replay file has no scenario")
    else:
        for cfg in mcs:
            r = vlib.tlc_must_pass(work, "MC_EvmWatcher", cfg, workers=vlib.NCPU, timeout=3000, heap="24g")
            mc_states += r["distinct"]
            mc_trans += r["generated"]
            print("TLC %s: %d distinct states, %d transitions, depth %d, %.0fs" % (cfg, r["distinct"], r["generated"], r["depth"], r["wall_s"]))
        scenarios += fe.tlc_scenarios(work, ntlc, depth, seed)
        scenarios += fe.gen_scenarios(seed, ngen)

    lines, wall, bwall, crashes = fe.replay(work, scenarios, shards)
    planned = len(scenarios)
    stalled = {ln["t"] for ln in lines if ln["ev"] in ("Stall", "RunExit", "Crash")}
    # discarded = histories that COMPLETED but contained a wait long enough to come near the code's own timeouts;
    # a history in which the watcher stalled is never discarded: the stall is the observation
    bad = {ln["t"] for ln in lines if ln["ev"] == "Slow"} - stalled
    lines = [ln for ln in lines if ln["t"] not in bad]
    executed = {ln["t"] for ln in lines}
    ran = len(executed)
    print("ran %d of %d chain histories (%d recorded lines) on the real Watcher.Run in %.1fs (build %.1fs); %d discarded as slow; %d with a stall"
          % (ran, planned, len(lines), wall, bwall, len(bad), len(stalled)))
    if not lines and not crashes:
        raise vlib.Broken("no line was recorded from the real Watcher.Run (%d histories planned, %d discarded as slow)" % (planned, len(bad)))
    rejs, r = fe.validate(work, lines, parallel=shards)
    print("trace validation: %d states, %.1fs, %d rejected line(s)" % (r["distinct"], r["wall_s"], len(rejs)))

    byn = {(ln["t"], ln["n"]): i for i, ln in enumerate(lines)}
    first = {}
    for i, ln in enumerate(lines):
        first.setdefault(ln["t"], i)
    verdict = vlib.Verdict(prop)
    for c in crashes:
        # an unrecovered panic in a goroutine of the code under test killed the test process
        verdict.add(fe.crash_signature(c), {"panic": c["panic"], "function": c["func"], "file": c["file"], "frames": c["frames"],
                                            "trace": c.get("last_lines"),
                                            "scenario": scenarios[c["t"] - 1] if c.get("t") and 0 < c["t"] <= len(scenarios) else None})
    timeouts = []
    for rj in rejs:
        if rj.get("ev") == "Timeout":
            # the harness gave up waiting at this point (everything before it was accepted): not a verdict
            i = byn.get((rj["t"], rj["n"]))
            timeouts.append((rj["t"], lines[i]["a"].get("what") if i is not None else "?"))
            continue
        if str(rj.get("why", "")).startswith("node"):
            raise vlib.Broken("fake node / harness disagrees with EvmChain.tla at trace %s line %s (%s): %s"
                              % (rj["t"], rj["n"], rj["ev"], json.dumps(lines[byn[(rj["t"], rj["n"])]]) if (rj["t"], rj["n"]) in byn else "?"))
        i = byn.get((rj["t"], rj["n"]))
        ln = lines[i] if i is not None else {"ev": rj.get("ev"), "a": {}, "s": {}}
        prev = lines[i - 1] if i else None
        sig, rj = fe.best_signature(rj, ln, prev)
        sc = scenarios[rj["t"] - 1] if 0 < rj["t"] <= len(scenarios) else None
        for sg in (sig if isinstance(sig, list) else [sig]):
          verdict.add(sg, {"line": ln, "why": rj.get("why"), "spec_state": rj.get("spec"), "tlc": rj.get("tlc"),
                           "trace": lines[max(first.get(rj["t"], 0), (i or 0) - 24):(i or 0) + 1], "scenario": sc})
    if not verdict.items:
        # nothing the real code did was rejected: the run only counts if it really covered what was planned
        if len(timeouts) > max(2, ran // 50):
            raise vlib.Broken("the harness could not drive the watcher in %d scenarios, e.g. %s" % (len(timeouts), timeouts[:3]))
        if not replay and ran < 0.9 * planned:
            raise vlib.Broken("only %d of %d planned chain histories were executed (%d discarded as slow) and no violation explains it"
                              % (ran, planned, len(bad)))
        srcs_planned = {sc.get("src") for sc in scenarios}
        srcs_ran = {scenarios[t - 1].get("src") for t in executed if 0 < t <= planned}
        if srcs_planned - srcs_ran:
            raise vlib.Broken("no history of source(s) %s was executed" % sorted(srcs_planned - srcs_ran))
    rc = verdict.finish()

    # ---- coverage actually reached by this run
    acts = Counter(ln["ev"] for ln in lines)
    classes = set()
    eff = Counter()
    state = {}
    for ln in lines:
        t, ev, a = ln["t"], ln["ev"], ln["a"]
        st = state.setdefault(t, {"fin": False, "W": 60, "h": None, "pend": {}, "jump_from": None, "pl": 0})
        if ev == "Start":
            st.update(fin=a["fin"], W=a["W"], pl=a["pl"])
        elif ev == "Mine":
            st.setdefault("logs", {})[a["tx"]] = a["logs"]
        elif ev == "B_Poll" and a["ok"]:
            if a["n"] > st["pl"]:
                classes.add(("poll", st["fin"], bucket(a["n"] - st["pl"], st["W"])))
                if a["n"] - st["pl"] >= st["W"]:
                    eff["head-jump>=window"] += 1
                st["pl"] = a["n"]
        elif ev == "H_Head":
            st["h"] = a["n"]
        elif ev in ("H_Receipt", "R_Receipt"):
            k = a["resp"]["kind"]
            if k == "found":
                k = "found-status%d" % a["resp"]["status"]
                d = (st["h"] or 0) - a["resp"]["blk"][0]
            else:
                d = 0
                if k == "error":
                    k = "error[%s]" % a["resp"].get("err", "?")[:28]
                elif k == "notfound":
                    k = "notfound[%s]" % a["resp"].get("style", "null")
            classes.add((ev, st["fin"], k, bucket(d, st["W"]) if ev == "H_Receipt" else None))
            eff["%s:%s" % (ev, k)] += 1
        elif ev == "Forward":
            via = "reobs" if st.get("inreobs") else "scan"
            eff["forward:" + via] += 1
            classes.add(("Forward", st["fin"], via, min(a["cl"], 3) if not st["fin"] else 0,
                         bucket((st["h"] or 0) - a["blk"][0] - (0 if st["fin"] else a["cl"]), st["W"]) if via == "scan" else None))
        elif ev == "H_Done":
            classes.add(("H_Done", st["fin"], min(len(ln["s"]["pending"]), 3)))
        elif ev == "R_Req":
            st["inreobs"] = True
        elif ev in ("H_Head", "PushLog", "NewHead"):
            pass
        if ev in ("H_Head", "B_Poll", "PushLog"):
            st["inreobs"] = False
        if ev == "PushLog":
            eff["push:" + ("delivered" if a["delivered"] else "filtered") + (":held" if a.get("hold") else "")] += 1
        if ev == "RunRestart":
            eff["restart:%s:pending%d" % (a.get("via"), min(len(ln["s"]["pending"]), 2))] += 1
            classes.add(("RunRestart", st["fin"], a.get("via"), min(len(ln["s"]["pending"]), 3)))
            st["pl"] = a["pl"]
        if ev in ("Reorg", "Remine", "DropReceipt", "FailTx", "Arm"):
            eff["env:" + ev + (":" + a["kind"] if ev == "Arm" else "")] += 1
    ok_traces = ran - len(timeouts)
    sample = [{"source": sc.get("src"), "cfg": sc["cfg"], "init": sc["init"], "steps": sc["steps"][:8]} for sc in scenarios[:1] + scenarios[-1:]]
    cov = {
        "states": mc_states if not replay else max(r["distinct"], 1),
        "transitions": mc_trans if not replay else max(r["generated"], 1),
        "traces_validated_against_impl": ok_traces,
        "samples": sample,
        "evaluations": len(lines),
        "distinct_nontrivial": len(classes),
        "rule": "one evaluation = one recorded line (served RPC with its answer, environment change, message on the output channel, scan "
                "start/end with the pending key set) that TLC compared with the specification; distinct = distinct tuples of (line kind, "
                "confirmation mode, receipt answer class, depth class of the scanned head relative to block+confirmations and to the "
                "window, consistency-level class / forwarding path / head-increment class)",
        "mc_configs": mcs, "trace_spec_states": r["distinct"], "line_kinds": dict(acts), "effects_observed": dict(eff),
        "scenario_sources": dict(Counter(sc.get("src") for sc in scenarios)),
        "modes": dict(Counter("finalized" if sc["cfg"]["fin"] else "latest" for sc in scenarios)),
        "crashes": len(crashes), "planned": planned, "executed": ran, "stalled": len(stalled), "discarded_slow": len(bad), "harness_timeouts": len(timeouts), "rejected_lines": len(verdict.items), "known_findings_matched": getattr(verdict, "n_known", 0),
        "signatures": dict(Counter(s for s, _ in verdict.items)),
        "exhaustive": False,
    }
    vlib.write_evidence(prop, tier, "model_checking", cov, ASSUME, time.time() - t0, getattr(verdict, "n_unknown", 0))
    return rc
