"""Checks C08 C09 C11 (DESIGN.md section 6): the Alephium watcher.

C11: AlphDecode.tla (TLC proves the lemmas and exports the class enumeration), every class combination is run through
     the real decoding functions, TLC validates every logged evaluation (Trace_AlphDecode).
C08/C09: AlphChain.tla + AlphWatcher.tla model-checked; the real Watcher.Run under a real supervisor against a scripted
     fake Alephium REST node; TLC validates every served request / output against AlphWatcher (Trace_AlphWatcher)."""
import json
import os
import time
from collections import Counter

import fam_alph as fa
import vlib

PROPS = ["C08", "C09", "C11"]

NOTE11 = ("Trusted: TLC, the Go toolchain, math/big in the harness's own comparison of decoded values. Model-based-testing use of "
          "the specification: exhaustive over the class domain of AlphDecode.tla, sampling (seeded representatives per class) over "
          "the real 2^256 domain. The Ralph side of the attestation layout is compared by source extraction, not by running contracts.")
NOTE_W = ("Trusted: TLC, the Go toolchain, net/http. The Alephium node is simulated (append-only contract event stream with "
          "nextStart = start + len, per-tx events of all contracts, main-chain flag, headers); its API semantics are assumptions "
          "written in AlphChain.tla. Wall-clock thresholds are exercised on both sides with >= 60 s margin, never across.")

MANIFEST = {
    "C08": dict(text="AlphChain.tla + AlphWatcher.tla are model-checked exhaustively (ForwardSound on both paths, PollOnce, NoOrphanForward); "
                     "the real Watcher.Run runs under a real supervisor against a scripted fake Alephium REST node whose single mutex orders "
                     "every served request, scripted chain change and drained output; TLC validates each recorded line against AlphWatcher.",
                ref="6/C08", note=NOTE_W, technique="TLA+ model checking (TLC) + trace validation of the real watcher against a scripted REST node"),
    "C09": dict(text="Same modules with fairness: EventuallyForwarded, NoSpin, NoCollateralLoss model-checked; the real watcher is driven with "
                     "events appended between count and page requests, every page boundary, malformed / foreign / attestation-shaped events and "
                     "metadata call failure shapes; traces validated by TLC, plus bounded-liveness observation (deadline, spin detector, child process).",
                ref="6/C09", note=NOTE_W, technique="TLA+ model checking with fairness (TLC) + trace validation + bounded-liveness replay"),
    "C11": dict(text="AlphDecode.tla states per field the accepted value set and the decoded record; TLC checks totality, reject-outside, "
                     "injectivity and the attestation layout and exports every class combination, each of which is evaluated on the real "
                     "ToWormholeMessage / toMessagePublication / parseAttestToken / id helpers and validated line by line by TLC; the same events are "
                     "then decoded by 32 goroutines at once (the node decodes on the poller and on the re-observation goroutine) and every outcome "
                     "that differs from the first one of the same event becomes a line for TLC.",
                ref="6/C11", note=NOTE11, technique="TLA+ specification as oracle (TLC enumeration + per-evaluation trace validation)"),
}

ASSUME11 = [
    "the numeric meaning of a class (which decimal string / byte string it stands for) is the harness mapping documented at the top of "
    "harness/alephium/alph_decode.go; AlphDecode.tla fixes the order of the numeric classes and which fit each field",
    "'+1' is not something a node reports for a U256: reading it as 1 or rejecting it are both accepted",
    "the Ralph attestation layout is obtained by source extraction from token_bridge.ral",
]


def run_c11(prop, tier, replay):
    t0 = time.time()
    work = vlib.scratch(prop)
    r, exp = fa.decode_model(work, tier)
    print("TLC MC_AlphDecode_%s: %d distinct states, %d transitions, %.0fs; exported %d field cases, %d attestation cases, %d id classes"
          % (tier, r["distinct"], r["generated"], r["wall_s"], len(exp["CASES"]), len(exp["ATTEST"]), len(exp["IDS"])))
    # --replay: the whole class enumeration is re-evaluated (it takes seconds); the replay file only names the failing classes
    # source extraction: the contract's ladder must be the layout TLC printed
    lay = [(f["name"], f["len"]) for f in exp["LAYOUT"]["fields"]]
    src = fa.layout_from_source()
    src_ok = [w for _, w in src] == [w for _, w in lay] and sum(w for _, w in src) == exp["LAYOUT"]["length"]
    reps = 3 if tier == "quick" else 2
    lines, inp = fa.decode_run(work, exp, reps)
    rejs, tr = fa.decode_validate(work, lines)
    print("evaluated %d cases on the real functions; trace validation: %d states, %.1fs, %d rejected line(s)"
          % (len(lines), tr["distinct"], tr["wall_s"], len(rejs)))
    byn = {ln["n"]: ln for ln in lines}
    # negative self-test of the trace specification: an accepted evaluation with one corrupted field must be rejected
    rejected_n = {rj["n"] for rj in rejs}
    good = next((ln for ln in lines if ln["ev"] == "Decode" and ln["s"].get("out") == "ok" and ln["n"] not in rejected_n), None)
    if good is not None:
        bad = json.loads(json.dumps(good))
        bad["s"]["eq"][1] = False
        neg, _ = fa.decode_validate(work, [good, bad])
        if [x["n"] for x in neg] != [bad["n"]] and len(neg) != 1:
            raise vlib.Broken("Trace_AlphDecode self-test: a corrupted evaluation was not rejected")
    verdict = vlib.Verdict(prop)
    # single-field rejections first (for attribution of pairs)
    single = {}
    for rj in rejs:
        ln = byn[rj["n"]]
        if ln["ev"] == "Decode":
            non = [(fa.FIELD_NAMES[i], ln["a"]["f"][i]) for i in range(6) if ln["a"]["f"][i] != fa.NOMINAL[i]]
            if ln["a"]["n"] != 6:
                non.append(("count", str(ln["a"]["n"])))
            if len(non) == 1:
                single[non[0]] = fa.decode_outkind(ln)
    sigs = Counter()
    for rj in rejs:
        ln = byn[rj["n"]]
        sig = fa.decode_signature(ln, single)
        sigs[sig] += 1
        if sigs[sig] == 1:
            verdict.add(sig, {"line": ln, "why": rj.get("why")})
    if not src_ok:
        verdict.add("layout/token_bridge.ral-differs", {"source": src, "spec": lay})
    rc = verdict.finish()
    for s, n in sorted(sigs.items()):
        print("  rejected: %-60s x%d" % (s, n))
    classes = {(ln["ev"], json.dumps(ln["a"], sort_keys=True), ln["s"].get("out")) for ln in lines}
    outs = Counter((ln["ev"], ln["s"].get("out")) for ln in lines)
    cov = {
        "states": r["distinct"], "transitions": r["generated"],
        "traces_validated_against_impl": len(lines),
        "samples": [lines[0], lines[len(lines) // 2], lines[-1]],
        "evaluations": len(lines), "distinct_nontrivial": len(classes),
        "rule": "one evaluation = one call of the real ToWormholeMessage(+toMessagePublication) / parseAttestToken / id helpers on a concrete "
                "representative of a TLC-exported class combination, decided by TLC; distinct = distinct (function, class combination, outcome)",
        "field_cases": len(exp["CASES"]), "attest_cases": len(exp["ATTEST"]), "id_classes": len(exp["IDS"]), "representatives_per_case": reps,
        "outcomes": {"%s:%s" % k: v for k, v in sorted(outs.items())},
        "ral_layout_extracted": src, "ral_layout_matches_spec": src_ok,
        "rejected_signatures": dict(sigs), "known_findings_matched": getattr(verdict, "n_known", 0),
        "exhaustive": True,
    }
    vlib.write_evidence(prop, tier, "model_checking", cov, ASSUME11, time.time() - t0, getattr(verdict, "n_unknown", 0))
    return rc


def run(prop, tier, replay=None):
    if prop == "C11":
        return run_c11(prop, tier, replay)
    return run_watch(prop, tier, replay)


# =============================================================================== C08 / C09

PLAN = {
    # prop: tier: (MC configs, [(tlc profile, n, depth, overrides)], [(generator family, n)])
    "C08": {"quick": (["poll_quick", "reobs_quick", "fail_quick", "attest_quick"], [("poll", 10, 22, {})],
                      [("poll", 12), ("reorg", 8), ("reobs", 20), ("apifail", 6), ("race", 8), ("lag", 10), ("xfer", 10)]),
            "thorough": (["poll_thorough", "reobs_thorough", "fail_thorough", "attest_thorough"], [("poll", 120, 26, {}), ("reobs", 60, 22, {"MaxReq": 2, "SharedTx": "TRUE"})],
                         [("poll", 260), ("reorg", 120), ("reobs", 320), ("apifail", 80), ("race", 120), ("lag", 160), ("xfer", 160)])},
    "C09": {"quick": (["junk_quick", "live_quick"], [("live", 8, 20, {"MaxReq": 0, "MaxLook": 0, "Mainnets": "{FALSE}"})],
                      [("race", 16), ("junk", 22), ("hold", 8), ("order", 10), ("reobs", 6), ("apifail", 4)]),
            "thorough": (["junk_thorough", "live_thorough", "live_quick"], [("live", 100, 24, {"MaxReq": 0, "MaxLook": 0, "Mainnets": "{FALSE}"}),
                                                              ("junk", 100, 24, {"MaxReq": 0, "MaxLook": 0, "Mainnets": "{FALSE}"})],
                         [("race", 300), ("junk", 420), ("hold", 120), ("order", 160), ("reobs", 80), ("apifail", 60)])},
}

ASSUME_W = [
    "the Alephium node is simulated; its API semantics are the assumptions listed at the top of spec/AlphChain.tla",
    "wall-clock: block timestamps are placed >= 60 s before or >= 180 s after every time threshold of the scenario, so the real "
    "time.Now() of the watcher can never be near one; the transition 'held, later released by the passing of time' is covered by TLC only",
    "the route of a request does not identify the goroutine that made it and channel hand-offs are invisible: TLC searches all "
    "explanations of a recorded scenario; a scenario is rejected only if none exists",
    "a zombie goroutine of a Run that ended is given 40 ms after its context is cancelled before RunExit is logged",
    "exhaustive TLC runs use scaled constants (Floor 1, one clock unit per block interval, <= 2-3 blocks, <= 2-4 events)",
]


def run_watch(prop, tier, replay=None):
    t0 = time.time()
    work = vlib.scratch(prop)
    mcs, tlcs, gens = PLAN[prop][tier]
    seed = vlib.seed()
    jobs = 4 if tier == "quick" else 8
    mc_states = mc_trans = 0
    scenarios = []
    if replay:
        rp = json.load(open(replay))
        scenarios = [v["detail"]["scenario"] for v in rp.get("violations", []) if v.get("detail", {}).get("scenario")]
        if not scenarios:
            raise vlib.Broken("replay file has no scenario")
    else:
        # the exhaustive TLC runs on the specification do not depend on the real-code run: they go on in a second
        # thread while the scenarios are generated, run and validated, and are joined before the verdict
        import threading
        mc_out = {"lines": [], "err": None, "states": 0, "trans": 0}

        def model_check():
            try:
                mwork = vlib.scratch(prop + "-mc")
                for c in ([] if os.environ.get("VERIF_ALPH_NOMC") else mcs):      # developer switch for mutation self-tests only
                    cfg = "MC_AlphWatcher_%s.cfg" % c
                    r = vlib.tlc(mwork, "MC_AlphWatcher", cfg, workers=max(4, vlib.NCPU - 4), timeout=3000, heap="24g")
                    if not r["ok"] and r["rc"] in (137, 143) and not r["violated"]:
                        r = vlib.tlc(mwork, "MC_AlphWatcher", cfg, workers=max(4, vlib.NCPU - 4), timeout=3000, heap="24g")
                    if not r["ok"]:
                        raise vlib.Broken("TLC did not accept the specification MC_AlphWatcher/%s (spec-level problem, not a code "
                                          "violation):\n%s" % (cfg, "\n".join(r["out"].splitlines()[-60:])))
                    mc_out["states"] += r["distinct"]
                    mc_out["trans"] += r["generated"]
                    mc_out["lines"].append("TLC %s: %d distinct states, %d transitions, depth %d, %.0fs"
                                           % (cfg, r["distinct"], r["generated"], r["depth"], r["wall_s"]))
            except BaseException as e:      # re-raised in the main thread
                mc_out["err"] = e

        mc_thread = threading.Thread(target=model_check)
        mc_thread.start()
        for prof, n, depth, ov in tlcs:
            scenarios += fa.tlc_scenarios(work, n, depth, seed, prof, ov)
        for fam, n in gens:
            scenarios += fa.gen_scenarios(seed, n, fam)
        scenarios += fa.pinned(prop)
    lines, crashes, wall = fa.watch_run(work, scenarios, jobs)
    raw = len(lines)
    lines = fa.compress(lines)
    print("ran %d scenarios on the real Watcher.Run against the scripted node in %.1fs (%d lines, %d after dropping idle polls, %d process death(s))"
          % (len(scenarios), wall, raw, len(lines), len(crashes)))
    rejs, r = fa.watch_validate(work, lines)
    print("trace validation: %d states, %.1fs, %d rejected scenario(s)" % (r["distinct"], r["wall_s"], len(rejs)))

    if not replay:
        mc_thread.join()
        if mc_out["err"] is not None:
            raise mc_out["err"]
        mc_states, mc_trans = mc_out["states"], mc_out["trans"]
        for x in mc_out["lines"]:
            print(x)
    # vacuity guard: C08 speaks about the re-observation path too; a run in which that path forwarded nothing at all (and
    # nothing was rejected) has not exercised conditions (i)-(vi) there and cannot decide the property
    reobs_forwards = r.get("reobs_forwards", 0)
    if prop == "C08" and not replay and not rejs and reobs_forwards == 0:
        raise vlib.Broken("vacuous: no message was forwarded by the re-observation path in %d scenarios, C08 cannot be decided "
                          "on that path (is re-observation forwarding anything at all?)" % len(scenarios))
    by_t = {}
    for ln in lines:
        by_t.setdefault(ln["t"], []).append(ln)
    # negative self-test of the trace specification: an accepted scenario in which one output is logged twice (a second
    # forward of the same event by the polling path) must be rejected at exactly that line
    rej_t = {rj["t"] for rj in rejs}
    selftest = None
    for t, ls in by_t.items():
        outs = [i for i, x in enumerate(ls) if x["ev"] == "Out"]
        if t in rej_t or not outs or any(x["ev"] == "Env" and x["a"]["op"] == "req" for x in ls):
            continue
        cor = [dict(x) for x in ls[:outs[0] + 1]] + [dict(ls[outs[0]])] + [dict(x) for x in ls[outs[0] + 1:]]
        for i, x in enumerate(cor):
            x["n"] = i + 1
        neg, _ = fa.watch_validate(work, cor)
        selftest = bool(neg) and neg[0]["l"] == outs[0] + 2
        if not selftest:
            raise vlib.Broken("Trace_AlphWatcher self-test: a duplicated output was not rejected (scenario %d)" % t)
        break
    verdict = vlib.Verdict(prop)
    sigs, others = Counter(), Counter()
    for rj in rejs:
        sc = scenarios[rj["t"] - 1]
        p, sig = fa.classify(rj, by_t[rj["t"]], sc["mainnet"])
        # an End line the harness itself did not flag can only be a disagreement between harness and specification
        if rj["line"]["ev"] == "End" and not rj["line"]["a"]["missing"] and not rj["line"]["a"]["spin"] and not rj["line"]["a"].get("untaken") \
                and not sc.get("reobsOverlap"):
            raise vlib.Broken("specification expects a message the harness did not wait for (scenario %d, family %s): %s"
                              % (rj["t"], sc.get("family"), json.dumps(rj.get("frontier", [])[:1])[:1500]))
        if prop in p.split("+"):
            sigs[sig] += 1
            if sigs[sig] == 1:
                ctx = [x for x in by_t[rj["t"]] if x["n"] <= rj["line"]["n"]][-12:]
                verdict.add(sig, {"line": rj["line"], "family": sc.get("family"), "source": sc.get("src"), "context": ctx,
                                  "spec_frontier": rj.get("frontier", [])[:3], "scenario": {k: v for k, v in sc.items() if k != "id"},
                                  "crash": next((c for c in crashes if c["scenario"] == rj["t"]), None)})
        else:
            others["%s:%s" % (p, sig)] += 1
    rc = verdict.finish()
    for s, n in sorted(sigs.items()):
        print("  rejected: %-70s x%d" % (s, n))
    for kk, v in sorted(others.items()):
        print("note: %d rejected scenario(s) speak to another property (%s); see that property's check" % (v, kk))

    # evidence: what was covered
    routes, effects, fams = Counter(), Counter(), Counter(sc.get("family") for sc in scenarios)
    classes = set()
    for t, ls in by_t.items():
        for ln in ls:
            a = ln["a"]
            if ln["ev"] == "Req":
                routes[a["route"] + ("!fail" if a.get("fail") else "")] += 1
                if a["route"] == "page":
                    classes.add(("page", len(a["evs"]), tuple(sorted((e["ok"], e["tb"], e["kind"], e["ei"]) for e in a["evs"]))))
                elif a["route"] == "multicall":
                    classes.add(("multicall", a["ans"]))
                elif a["route"] in ("is-main", "status"):
                    classes.add((a["route"], a.get("r", a.get("conf"))))
            elif ln["ev"] == "Out":
                effects["forwarded"] += 1
            elif ln["ev"] == "Env":
                effects["env:" + a["op"]] += 1
                if a["op"] == "emit":
                    classes.add(("emit", a["e"]["ok"], a["e"]["tb"], a["e"]["kind"], min(a["e"]["cl"], 3) if a["e"]["cl"] < 200 else a["e"]["cl"], a.get("bad")))
            elif ln["ev"] in ("RunExit", "RunStart", "Crash"):
                effects[ln["ev"]] += 1
            elif ln["ev"] == "End":
                effects["end:" + ("spin" if a["spin"] else "missing" if a["missing"] else "complete")] += 1
    expected = sum(len(sc.get("expect", [])) for sc in scenarios)
    cov = {
        "states": mc_states if not replay else max(r["distinct"], 1), "transitions": mc_trans if not replay else max(r["generated"], 1),
        "traces_validated_against_impl": len(scenarios),
        "samples": [{"family": sc.get("family"), "source": sc.get("src"), "steps": sc["steps"][:3]} for sc in scenarios[:1] + scenarios[-1:]],
        "evaluations": len(lines), "distinct_nontrivial": len(classes),
        "rule": "one evaluation = one recorded line (served request with its answer, environment change, output, Run start/exit) of the real "
                "Watcher.Run that TLC explained with an action of AlphWatcher/AlphChain; distinct = distinct (page content class | metadata "
                "answer shape | main-chain / status answer | emitted event class)",
        "mc_configs": mcs, "trace_spec_states": r["distinct"], "requests_by_route": dict(routes), "effects_observed": dict(effects),
        "scenario_families": dict(fams), "trace_spec_negative_selftest": selftest, "messages_the_spec_required": expected, "process_deaths": len(crashes), "reobservation_forwards": reobs_forwards,
        "rejected_signatures": dict(sigs), "rejected_other_properties": dict(others),
        "known_findings_matched": getattr(verdict, "n_known", 0), "exhaustive": False,
    }
    vlib.write_evidence(prop, tier, "model_checking", cov, ASSUME_W, time.time() - t0, getattr(verdict, "n_unknown", 0))
    return rc
