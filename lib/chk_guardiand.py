"""Checks C15 (governance request -> VAA) and C17 (re-observation request router), DESIGN.md section 6.

C17: Reobserve.tla model-checked exhaustively together with the router's algorithm on the mock clock
     (MC_Reobserve), TLC-generated and seeded histories replayed on the real handleReobservationRequests
     goroutine and PostObservationRequest, every recorded step validated by TLC (Trace_Reobserve).
C15: Governance.tla (layout table, representability, builder) with its lemmas checked by TLC over all
     requests / all pairs of the boundary domain (MC_Governance); the enumeration and seeded requests run through
     the real conversion functions and InjectGovernanceVAA; every outcome validated by TLC (Trace_Governance);
     the contracts' offsets and sizes extracted from the .ral sources and compared with the layout table."""
import copy
import json
import re
import time
from collections import Counter

import extract_ralph_gov as ex
import fam_guardiand as fg
import vlib

PROPS = ["C15", "C17"]

NOTE17 = ("Trusted: TLC, the Go toolchain, the benbjohnson mock clock (its Add/ticker semantics are modelled in MC_Reobserve.tla). "
          "Exhaustive run: 2 chains + 1 unknown, 2 transactions, capacity 1, minute granularity, unbounded time, bounded number of forwards. "
          "The bridge to real sizes (capacities 0..50, many chains/transactions, second granularity, hours-long advances) is trace "
          "validation of the real router goroutine. Liveness is bounded-time observation (deadline 10 s per step) with a goroutine dump. "
          "Chain ids >= 65536 are reported under their own signature (Request/wide-chain-id/...).")
NOTE15 = ("Trusted: TLC, the Go toolchain, Keccak. Exhaustive over the specification's boundary-value domain, sampling over the real "
          "domain (model-based testing use of the technique, DESIGN.md section 8). The Ralph side is compared by source extraction, not by "
          "executing the contracts (no compiler offline). Module names are identified up to leading NUL bytes (the wire field is left padded).")

MANIFEST = {
    "C15": dict(text="Governance.tla defines, per governance message kind, the payload layout the contracts parse and when a request is "
                     "representable; TLC checks injectivity, exact contract size and request-only dependence over all (pairs of) boundary "
                     "requests, and validates the outcome of every enumerated and seeded request on the real conversion functions and "
                     "InjectGovernanceVAA (panic = violation); offsets/sizes extracted from the .ral parsers must equal the layout table.",
                ref="6/C15", note=NOTE15, technique="TLA+ specification as oracle (TLC) + replay of the TLC enumeration and seeded requests + source extraction"),
    "C17": dict(text="Reobserve.tla (request/drain/post/advance with exactly the freedom of the 'about eleven minutes' window) is model-checked "
                     "together with the router's cache/ticker algorithm on the mock clock (refinement + OnlyNamedChain, AtMostOncePerWindow, "
                     "ForwardAgain, NotRememberedIfNotSent, NeverBlocks); TLC-generated and seeded histories run on the real router "
                     "goroutine with sentinel rendezvous and TLC validates every recorded step.",
                ref="6/C17", note=NOTE17, technique="TLA+ model checking (TLC) + trace validation of the real router on a mock clock + bounded-liveness deadlines"),
}

PLAN17 = {
    "quick": dict(mc=["MC_Reobserve_quick.cfg", "MC_Reobserve_post.cfg"], tlc=(150, 16), cleanup=28,
                  gens=[("sweep", 112), ("random", 160), ("phase", 120), ("fill", 60), ("repeat", 120), ("txids", 60), ("burst1100", 1), ("burst2100", 1), ("wide", 12)]),
    "thorough": dict(mc=["MC_Reobserve_thorough.cfg", "MC_Reobserve_post.cfg"], tlc=(2500, 24), cleanup=140,
                     gens=[("sweep", 448), ("random", 3000), ("phase", 2500), ("fill", 600), ("repeat", 1500), ("txids", 600), ("burst1100", 2), ("burst2100", 2), ("burst5000", 2), ("wide", 60)]),
}
PLAN15 = {"quick": dict(seeded=800, batches=250), "thorough": dict(seeded=20000, batches=6000)}

ASSUME17 = [
    "a transaction is identified by the exact byte string of its id (any length), a chain by its exact 32-bit id",
    "the harness issues a request only after the previous step's rendezvous (a sentinel request received, or - so that nothing comes between "
    "two copies of a request - the router goroutine observed parked in its select) and when the ticker channel is empty, i.e. tick processing "
    "latency is negligible against the minute-scale window (in production select may serve a request before a simultaneously due tick)",
    "mock clock semantics as modelled in MC_Reobserve.tla (ticks at multiples of the period since creation, 1-slot channel, non-blocking offer)",
    "watcher queues have a single consumer; the harness's sentinel requests name a chain no watcher serves (65535, or 65533 in histories where 65535 is a watched chain)",
    "'about eleven minutes' is read as: suppressed for age < 11 min, forwarded again for age >= 11 min + one purge period (7 min), free in between",
]
ASSUME15 = [
    "requests are what the protobuf wire format can carry (every case passes through proto.Marshal/Unmarshal); text fields are ASCII",
    "a fixed-width field is representable only by a value of exactly that many bytes; rejection is always an allowed outcome",
    "two guardian keys are the same guardian iff they decode to the same 20 bytes (whatever their spelling); a set naming a guardian twice must be rejected",
    "a module name is the request's byte string as given (surrounding whitespace / NULs are bytes of the name); only the injectivity "
    "lemma identifies names up to leading NUL bytes (left-padded wire field); cross-kind injectivity assumes the token bridge's module name",
    "Keccak-256 is trusted; the harness's digest is recomputed by a pure-python Keccak from the logged fields (payloads up to 64 KiB)",
    "contract side by source extraction of governance.ral and token_bridge_governance.ral, not by executing the contracts",
]


def _add_distinct_first(verdict, found):
    """Verdict prints the first 10 and stores the first 50 violations: put one instance of every distinct signature first."""
    seen, first, rest = set(), [], []
    for sig, d in found:
        (rest if sig in seen else first).append((sig, d))
        seen.add(sig)
    for sig, d in sorted(first, key=lambda x: x[0]) + rest:
        verdict.add(sig, d)


# ============================================================================ C17

def _selftests17(scenario_lines):
    """Negative self-test of the trace specification: corrupt one recorded outcome in copies of real traces; TLC must
    reject exactly those.  Returns (extra lines, {trace id: description})."""
    ann = fg.reobs_annotate(scenario_lines)
    by_t = {}
    for ln in scenario_lines:
        by_t.setdefault(ln["t"], []).append(ln)
    extra, expect = [], {}
    want = {"drop-a-must-forward": lambda c: c["ev"] == "Request" and c["fwd"] and c["age"] in ("never", "gtWP") and not c["wide"],
            "forward-a-duplicate": lambda c: c["ev"] == "Request" and not c["fwd"] and c["known"] and c["age"] == "ltW" and c["fill"] in ("empty", "partial")}
    tid = 900000
    for name, pred in want.items():
        for (t, n), c in sorted(ann.items()):
            if pred(c):
                tid += 1
                tr = copy.deepcopy(by_t[t])
                for ln in tr:
                    ln["t"] = tid
                    if ln["n"] == n:
                        ch = ln["a"]["c"]
                        ln["s"]["lens"][ch] += -1 if name == "drop-a-must-forward" else 1
                extra += tr
                expect[tid] = (name, n)
                break
    return extra, expect


def _settle(prop, rc, verdict, problems):
    """Verdict order: violations found from real-code behaviour come first (exit 1).  Vacuity guards and negative
    self-tests of the machinery decide only when no new violation was found (then: exit 2); otherwise they are notes,
    because a grossly wrong implementation (refuses / crashes on everything) makes the run vacuous by itself."""
    if not problems:
        return rc
    if rc == 0:
        raise vlib.Broken("; ".join(problems))
    for p in problems:
        print("note (not a verdict, %d violation(s) reported above): %s" % (getattr(verdict, "n_unknown", 0), p))
    return rc


def run17(tier, replay):
    t0 = time.time()
    prop = "C17"
    problems = []
    work = vlib.scratch(prop)
    plan = PLAN17[tier]
    seed = vlib.seed()
    mc_states = mc_trans = 0
    mcinfo = []
    if replay:
        rp = json.load(open(replay))
        scenarios = [v["detail"]["scenario"] for v in rp.get("violations", []) if v.get("detail", {}).get("scenario")]
        cleanups = [v["detail"]["cleanup"] for v in rp.get("violations", []) if v.get("detail", {}).get("cleanup")]
        if not scenarios and not cleanups:
            raise vlib.Broken("replay file has no scenario")
    else:
        for cfg in plan["mc"]:
            r = vlib.tlc_must_pass(work, "MC_Reobserve", cfg, workers=vlib.NCPU, timeout=3000, heap="16g")
            mc_states += r["distinct"]
            mc_trans += r["generated"]
            mcinfo.append({"cfg": cfg, "distinct": r["distinct"], "generated": r["generated"], "depth": r["depth"], "wall_s": round(r["wall_s"], 1)})
            print("TLC %s: %d distinct states, %d transitions, depth %d, %.0fs" % (cfg, r["distinct"], r["generated"], r["depth"], r["wall_s"]))
        scenarios = fg.reobs_tlc_scenarios(work, plan["tlc"][0], plan["tlc"][1], seed)
        for prof, n in plan["gens"]:
            scenarios += fg.reobs_gen_scenarios(seed, n, prof)
        cleanups = fg.cleanup_scenarios(seed, plan["cleanup"])
    lines, wall = fg.reobs_replay(work, scenarios) if scenarios else ([], 0.0)
    print("replayed %d histories (%d steps) on the real router in %.1fs" % (len(scenarios), len(lines), wall))
    # the third poster on the outbound queue: the processor's cleanup pass (one small trace per scenario)
    cl_lines, cl_wall = fg.cleanup_replay(work, cleanups, len(scenarios) + 1) if cleanups else ([], 0.0)
    print("ran the real processor handleCleanup against %d outbound-queue fill levels (%d lines) in %.1fs" % (len(cleanups), len(cl_lines), cl_wall))
    router_lines = lines
    lines = lines + cl_lines
    extra, expect = ([], {}) if replay else _selftests17(router_lines)
    rejs, r = fg.reobs_validate(work, lines + extra)
    selfrej = {rj["t"] for rj in rejs if rj["t"] in expect}
    if not replay and (len(expect) < 2 or selfrej != set(expect)):
        problems.append("negative self-test of Trace_Reobserve failed: corrupted traces %s, rejected %s" % (expect, sorted(selfrej)))
    rejs = [rj for rj in rejs if rj["t"] not in expect]
    print("trace validation: %d states, %.1fs, %d rejected line(s); self-test: %d corrupted traces rejected" % (r["distinct"], r["wall_s"], len(rejs), len(selfrej)))

    ann = fg.reobs_annotate(lines)
    byn = {(ln["t"], ln["n"]): ln for ln in lines}
    verdict = vlib.Verdict(prop)
    found = []
    stored = set()
    for rj in rejs:
        ln = byn.get((rj["t"], rj["n"]), {"ev": rj.get("ev"), "a": {}, "s": {}})
        cls = ann.get((rj["t"], rj["n"]), {})
        sc = scenarios[rj["t"] - 1] if 0 < rj["t"] <= len(scenarios) else None
        cu = cleanups[rj["t"] - len(scenarios) - 1] if len(scenarios) < rj["t"] <= len(scenarios) + len(cleanups) else None
        if sc is not None and (rj["t"] in stored or len(json.dumps(sc)) > 2000000):
            sc = None                      # one copy of a history per replay file; huge ones are regenerated from the seed
        stored.add(rj["t"])
        found.append((fg.reobs_signature(rj, ln, cls), {"line": ln, "why": rj.get("why"), "spec_state": rj.get("spec"), "class": cls,
                                                         "tlc": rj.get("tlc"), "scenario": sc, "cleanup": cu}))
    _add_distinct_first(verdict, found)
    rc = verdict.finish()

    # coverage
    reqc = Counter()
    txlens = Counter()
    livec = Counter()
    b2b = Counter()
    aliasc = Counter()
    advc = Counter()
    postc = Counter()
    acts = Counter()
    for k, c in ann.items():
        acts[c["ev"]] += 1
        if c["ev"] == "Request":
            reqc[(c["known"], c["wide"], c["fill"], c["age"], c["fwd"], c["phase"])] += 1
            txlens[c["txlen"]] += 1
            livec[(c["live"], c["age"], c["fwd"])] += 1
            if c["back2back"]:
                b2b[(c["fill"], c["age"], c["fwd"])] += 1
            if c["alias"] and c["age"] == "never":
                aliasc["forwarded" if c["fwd"] else "dropped-%s" % c["fill"]] += 1
        elif c["ev"] == "Advance":
            advc[(c["ticks"], c["mode"], c["coalesced"], c["long"])] += 1
        elif c["ev"] == "Post":
            postc[(c["ok"], c["api"])] += 1
    if not replay:
        need = {"forwarded": any(k[4] for k in reqc), "suppressed-in-window": any(k[3] == "ltW" and not k[4] and k[2] != "full" for k in reqc),
                "forwarded-again": any(k[3] in ("gtWP", "eqWP") and k[4] for k in reqc), "dropped-full": any(k[2] in ("full", "cap0") and not k[4] for k in reqc),
                "dropped-unknown": any(not k[0] for k in reqc), "zone-both": {k[4] for k in reqc if k[3] == "zone" and k[2] in ("empty", "partial")} == {True, False},
                "post-ok": any(k[0] for k in postc), "post-full": any(not k[0] for k in postc),
                "colliding-tx-ids-forwarded": aliasc["forwarded"] >= 20, "tx-id-lengths": len(txlens) >= 8,
                "suppressed-with-more-than-1000-pairs-in-window": livec[("gt1000", "ltW", False)] >= 6,
                "back-to-back-copy-forwarded-after-drop": sum(v for k, v in b2b.items() if k[1] == "never" and k[2]) >= 20,
                "back-to-back-copy-suppressed": any(k[1] == "ltW" and not k[2] for k in b2b),
                "cleanup-post-ok": any(k == (True, "cleanup") for k in postc), "cleanup-post-full": any(k == (False, "cleanup") for k in postc)}
        missing = [k for k, v in need.items() if not v]
        if missing:
            problems.append("vacuous run: never observed %s" % missing)
    caps = Counter()
    for sc in scenarios:
        for c, k in sc["cfg"]["caps"].items():
            caps[k] += 1
    sample = [{"source": sc.get("src"), "cfg": sc["cfg"], "steps": sc["steps"][:8]} for sc in scenarios[:1] + scenarios[-1:]]
    cov = {
        "states": mc_states if not replay else max(r["distinct"], 1),
        "transitions": mc_trans if not replay else max(r["generated"], 1),
        "traces_validated_against_impl": len(scenarios) + len(cleanups),
        "samples": sample,
        "evaluations": sum(acts.values()),
        "distinct_nontrivial": len(reqc) + len(advc) + len(postc),
        "rule": "one evaluation = one step driven on the real router/post function whose observable post-state TLC compared with the "
                "specification's; distinct = distinct (chain known?, id >= 65536?, queue fill class, age class of the pair relative to the "
                "window, forwarded?, at a ticker instant?) tuples for requests + (ticks crossed, Add mode, ticks coalesced?, long?) for advances "
                "+ (ok?, poster: function / admin API / processor cleanup pass) for posts",
        "mc_runs": mcinfo, "trace_spec_states": r["distinct"],
        "steps": dict(acts),
        "request_classes": {"/".join(map(str, k)): v for k, v in sorted(reqc.items(), key=str)},
        "advance_classes": {"/".join(map(str, k)): v for k, v in sorted(advc.items(), key=str)},
        "post_classes": {"/".join(map(str, k)): v for k, v in sorted(postc.items(), key=str)},
        "requests_by_pairs_remembered_in_window": {"/".join(map(str, k)): v for k, v in sorted(livec.items(), key=str)},
        "back_to_back_copies_of_the_previous_request": {"/".join(map(str, k)): v for k, v in sorted(b2b.items(), key=str)},
        "cleanup_pass_scenarios": len(cleanups),
        "tx_id_lengths_bytes": {str(k): v for k, v in sorted(txlens.items())},
        "requests_whose_id_collides_with_a_forwarded_one_under_crop_or_pad": dict(aliasc),
        "queue_capacities": {str(k): v for k, v in sorted(caps.items())},
        "scenario_sources": dict(Counter(sc.get("src") for sc in scenarios)),
        "negative_selftest": {str(k): v[0] for k, v in expect.items()},
        "rejected_lines": len(verdict.items), "known_findings_matched": getattr(verdict, "n_known", 0),
        "exhaustive": False,
    }
    cov["check_notes"] = problems
    vlib.write_evidence(prop, tier, "model_checking", cov, ASSUME17, time.time() - t0, getattr(verdict, "n_unknown", 0))
    return _settle(prop, rc, verdict, problems)


# ============================================================================ C15

def _selftests15(lines):
    """Corrupt one payload digit / one header field / the purity of one accepted line / only the payload as read again
    after later constructions; TLC must reject each copy."""
    extra, expect = [], {}
    tid = 900000
    full = [ln for ln in lines if all(c["class"] == "vaa" for c in ln["s"]["calls"]) and len(ln["s"]["calls"]) == 6
            and len(ln["s"]["calls"][0]["vaa"]["payload"]) < 400]
    base = next((ln for ln in full if ln["a"]["req"]["kind"] == "transfer_fee"), full[0] if full else None)
    if base is None:
        return extra, expect

    def flip(h, i):
        return h[:i] + ("1" if h[i] != "1" else "2") + h[i + 1:]
    for name in ("payload", "header", "impure", "digest", "later"):
        tid += 1
        ln = copy.deepcopy(base)
        ln["t"] = tid
        calls = ln["s"]["calls"]
        if name == "payload":
            for c in calls:
                c["vaa"]["payload"] = flip(c["vaa"]["payload"], len(c["vaa"]["payload"]) - 1)
        elif name == "header":
            for c in calls:
                c["vaa"]["seq"] = flip(c["vaa"]["seq"], 15)
        elif name == "impure":
            calls[1]["vaa"]["cl"] = calls[1]["vaa"]["cl"] + 1
        elif name == "later":      # only the value read again at the end differs (aliasing)
            calls[-1]["vaa"]["payload"] = flip(calls[-1]["vaa"]["payload"], len(calls[-1]["vaa"]["payload"]) - 1)
        else:
            for c in calls:
                c["vaa"]["digest"] = flip(c["vaa"]["digest"], 3)
        extra.append(ln)
        expect[tid] = name
    return extra, expect


def _shape(v):
    """Shape class of one abstract request field (for the coverage count)."""
    if isinstance(v, dict) and "form" in v:
        return (v["form"], min(v.get("n", 0), 70))
    if isinstance(v, dict):
        return (v.get("pat"), min(v.get("n", 0), 300))
    if isinstance(v, list):
        return ("list", len(v), tuple(sorted({g.get("form") for g in v if isinstance(g, dict)})))
    if isinstance(v, str):
        return ("num", int(v, 16).bit_length())
    return v


def run15(tier, replay):
    t0 = time.time()
    prop = "C15"
    problems = []
    work = vlib.scratch(prop)
    seed = vlib.seed()
    verdict = vlib.Verdict(prop)
    # 1. the design: lemmas over the boundary domain, and its enumeration
    reqs, layout, consts, mc = fg.gov_tlc(work, tier)
    print("TLC MC_Governance_%s: %d states (requests x environments), %d transitions (pairs), %.0fs; %d requests exported" %
          (tier, mc["distinct"], mc["generated"], mc["wall_s"], len(reqs)))
    # 2. programs: the contracts' parsers
    try:
        extracted = ex.extract(vlib.REPO)
    except ex.ExtractError as e:
        raise vlib.Broken("cannot extract the governance parsers from the .ral sources: %s" % e)
    diffs = ex.compare(extracted, layout, consts)
    for d in diffs:
        verdict.add("ralph/%s/%s" % (d["where"], d["what"]), d)
    print("ralph extraction: %d parser functions, %d difference(s) to the layout table" %
          (sum(len(extracted[f]["parsers"]) for f in ex.FILES), len(diffs)))
    # 3. requests
    if replay:
        rp = json.load(open(replay))
        cases, seenc = [], set()
        for v in rp.get("violations", []):
            cs = v.get("detail", {}).get("case")
            if cs and json.dumps(cs, sort_keys=True) not in seenc:
                seenc.add(json.dumps(cs, sort_keys=True))
                cases.append(fg.gov_expand(cs))
        if not cases:
            raise vlib.Broken("replay file has no case")
    else:
        cases = [{"req": x["req"], "expect": x["expect"], "src": "tlc"} for x in reqs]
        cases += fg.gov_seeded(seed, PLAN15[tier]["seeded"])
        cases += [{"reqs": b, "src": "tlc-batch"} for b in mc["batches"]]
        cases += fg.gov_seeded_batches(seed, PLAN15[tier]["batches"])
    lines, wall, tmap = fg.gov_replay(work, cases)
    nmulti = sum(1 for c in cases if "reqs" in c)
    print("replayed %d messages (%d requests, %d of them carrying 2-4 messages) on the real conversion functions / InjectGovernanceVAA in %.1fs"
          % (len(lines), len(cases), nmulti, wall))
    extra, expect = ([], {}) if replay else _selftests15(lines)
    rejs, r = fg.gov_validate(work, lines + extra)
    seen = {rj["t"]: rj.get("tags", []) for rj in rejs if rj["t"] in expect}
    if not replay:
        wrong = [k for k, name in expect.items() if {"later": "impure"}.get(name, name) not in seen.get(k, [])]
        if len(expect) < 5 or wrong:
            problems.append("negative self-test of Trace_Governance failed: %s not rejected as expected (%s); "
                            "the self-test needs one request the node accepts on every path" % (wrong, seen))
    rejs = [rj for rj in rejs if rj["t"] not in expect]
    print("trace validation: %.1fs, %d rejected request(s); self-test: %d corrupted lines rejected" % (r["wall_s"], len(rejs), len(seen)))
    byt = {ln["t"]: ln for ln in lines}
    found = []
    for rj in rejs:
        ln = byt[rj["t"]]
        case = tmap[rj["t"]][0]
        small = {"kind": rj.get("kind"), "tags": rj.get("tags"), "unfit": rj.get("unfit"), "expect": rj.get("expect"), "message": ln["a"].get("batch"),
                 "calls": [{k: (v if k != "vaa" else {kk: (vv if len(str(vv)) < 300 else str(vv)[:300] + "...") for kk, vv in v.items()})
                            for k, v in c.items()} for c in ln["s"]["calls"]],
                 "case": fg.gov_compact({k: v for k, v in case.items() if k != "expect"})}
        for sig in fg.gov_signatures(rj, ln):
            found.append((sig, small))
    _add_distinct_first(verdict, found)
    # R: the outcome TLC exported for its own enumeration must also be what validation concluded (consistency of the two paths)
    rejected_ids = {rj["t"] for rj in rejs}
    for t, (c, _) in tmap.items():
        if c.get("src") == "tlc" and c.get("expect", {}).get("class") == "reject":
            if any(k["class"] == "vaa" for k in byt[t]["s"]["calls"]) and t not in rejected_ids:
                problems.append("TLC's exported expectation and trace validation disagree on case %d" % t)
                break
    # independent digest check
    dig_checked = dig_bad = 0
    for ln in lines:
        for c in ln["s"]["calls"]:
            if c["class"] == "vaa" and len(c["vaa"]["payload"]) <= 131072:
                dig_checked += 1
                if not fg.gov_own_digest_ok(c["vaa"]):
                    dig_bad += 1
    if dig_bad:
        problems.append("the harness's own digest disagrees with the pure-python Keccak on %d VAAs" % dig_bad)
    rc = verdict.finish()

    outc = Counter()
    accepted = Counter()
    classes = set()
    for ln in lines:
        q = ln["a"]["req"]
        oc = tuple(sorted({c["class"] for c in ln["s"]["calls"]}))
        outc[(q["kind"], "+".join(oc))] += 1
        if oc == ("vaa",):
            accepted[q["kind"]] += 1
        shape = tuple(sorted((k, _shape(v)) for k, v in q.items() if k != "kind"))
        classes.add((q["kind"], oc, shape))
    modc = Counter()
    for ln in lines:
        mcl = fg.gov_module_class(ln["a"]["req"])
        if mcl:
            modc["%s:%s:%s" % (ln["a"]["req"]["kind"], mcl["cls"], "+".join(sorted({c["class"] for c in ln["s"]["calls"]})))] += 1
    # multi-message requests: relation of each message's payload length to the previous message of the same request
    multi = Counter()
    later_reads = 0
    for ln in lines:
        later_reads += sum(1 for c in ln["s"]["calls"] if c.get("via", "").endswith("-later") and c["class"] == "vaa")
    first_t = {}
    for t, (cc, i) in tmap.items():
        if "reqs" in cc and i == 0:
            first_t[id(cc)] = t
    for cc_id, t in first_t.items():
        cc = tmap[t][0]
        ls = [byt[t + i] for i in range(len(cc["reqs"]))]
        ok = all(c["class"] == "vaa" for ln in ls for c in ln["s"]["calls"])
        multi["accepted" if ok else "refused"] += 1
        if ok:
            for a, b in zip(ls, ls[1:]):
                la, lb = len(a["s"]["calls"][0]["vaa"]["payload"]), len(b["s"]["calls"][0]["vaa"]["payload"])
                same = a["a"]["req"]["kind"] == b["a"]["req"]["kind"]
                multi["%s-kind/next-%s" % ("same" if same else "other", "shorter" if lb < la else "equal" if lb == la else "longer")] += 1
    if not replay:
        need = ["same-kind/next-shorter", "same-kind/next-equal", "same-kind/next-longer", "other-kind/next-shorter", "other-kind/next-longer"]
        miss = [k for k in need if not multi[k]]
        if miss or not later_reads:
            problems.append("vacuous run: multi-message classes %s never accepted / %d later re-reads" % (miss, later_reads))
        for k in ("bridge_register_chain", "bridge_contract_upgrade"):
            for cls in ("gt32/ws-trim-le32", "le32/ws-trim-le32", "gt32/plain", "le32/plain"):
                if not any(key.startswith("%s:%s:" % (k, cls)) for key in modc):
                    problems.append("vacuous run: no %s request with a module name of class %s" % (k, cls))
        none_acc = [k for k in fg.GOV_KINDS if not accepted[k]]
        if none_acc:
            problems.append("vacuous run: no request of kind %s was accepted on every path, the exact-payload half was not exercised "
                            "(a node that only refuses is allowed by the property, so this is 'cannot decide', not a violation)" % none_acc)
    sample = [{"source": c.get("src"), "req": c.get("req"), "reqs": c.get("reqs")} for c in cases[:1] + cases[-1:] if len(json.dumps(c)) < 6000]
    cov = {
        "states": mc["distinct"], "transitions": mc["generated"],
        "traces_validated_against_impl": len(lines),
        "samples": sample,
        "evaluations": sum(len(ln["s"]["calls"]) for ln in lines),
        "distinct_nontrivial": len(classes),
        "rule": "one evaluation = one call of the real code (InjectGovernanceVAA on two service instances, conversion function directly) whose "
                "outcome TLC compared with the specification; distinct = distinct (kind, outcome classes, per-field shape [text form and byte "
                "length, list pattern and length, numeric magnitude class]) tuples",
        "mc_config": "MC_Governance_%s.cfg" % tier, "requests_from_tlc": len(reqs), "multi_message_requests_from_tlc": len(mc["batches"]),
        "requests_seeded": sum(1 for c in cases if str(c.get("src", "")).startswith("seeded")),
        "outcomes": {"%s:%s" % k: v for k, v in sorted(outc.items())},
        "accepted_per_kind": dict(accepted),
        "ralph": {"parsers": {f: sorted(extracted[f]["parsers"]) for f in ex.FILES}, "differences": diffs,
                  "upgrade_blob_from": extracted.get("upgrade_blob_from")},
        "module_name_classes": dict(sorted(modc.items())),
        "multi_message_requests": dict(multi), "vaas_read_again_after_later_constructions": later_reads,
        "digests_rechecked_in_python": dig_checked,
        "negative_selftest": {str(k): v for k, v in expect.items()},
        "rejected_requests": len(rejs), "known_findings_matched": getattr(verdict, "n_known", 0),
        "exhaustive": False,
    }
    cov["check_notes"] = problems
    vlib.write_evidence(prop, tier, "model_checking", cov, ASSUME15, time.time() - t0, getattr(verdict, "n_unknown", 0))
    return _settle(prop, rc, verdict, problems)


def run(prop, tier, replay=None):
    try:
        return run17(tier, replay) if prop == "C17" else run15(tier, replay)
    except fg.ProcessCrash as e:
        # the whole test process was killed from inside the code under test (e.g. an unrecovered panic in a goroutine the
        # code started, a runtime fatal error): "no request crashes the node" / "never blocks the dispatcher"
        verdict = vlib.Verdict(prop)
        sig = "process-crash/%s/%s" % (e.where, re.sub(r"[^A-Za-z0-9]+", "-", e.msg)[:60].strip("-"))
        verdict.add(sig, {"output": e.out})
        rc = verdict.finish()
        vlib.write_evidence(prop, tier, "model_checking", {"states": 0, "transitions": 0, "traces_validated_against_impl": 0, "samples": [e.msg],
                                                           "evaluations": 0, "distinct_nontrivial": 0,
                                                           "rule": "the harness process was killed inside the code under test before any trace could be validated"},
                            [], 0, getattr(verdict, "n_unknown", 0))
        return rc
