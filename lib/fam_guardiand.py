"""guardiand family: C17 (Reobserve.tla + harness/guardiand/reobs_harness.go) and
C15 (Governance.tla + harness/guardiand/gov_harness.go)."""
import json
import os
import random
import re
import shutil

import vlib

PKG = "./cmd/guardiand"
INJECT = {"cmd/guardiand": [(os.path.join(vlib.HARNESS, "common", "vh.go"), "guardiand"),
                            (os.path.join(vlib.HARNESS, "guardiand", "reobs_harness.go"), "guardiand"),
                            (os.path.join(vlib.HARNESS, "guardiand", "gov_harness.go"), "guardiand")]}

PKG_PROC = "./pkg/processor"
INJECT_PROC = {"pkg/processor": [(os.path.join(vlib.HARNESS, "common", "vh.go"), "processor"),
                                 (os.path.join(vlib.HARNESS, "guardiand", "cleanup_post_harness.go"), "processor")]}

W, P = 660, 420          # seconds: suppression window, purge period (Trace_Reobserve.cfg)
SENTINEL_CHAIN = 65535   # reserved by the harness for its rendezvous requests


def _specdir(work):
    sdir = os.path.join(work, "spec")
    if not os.path.isdir(sdir):
        shutil.copytree(vlib.SPEC, sdir)
    return sdir


class ProcessCrash(Exception):
    """The test process died inside the code under test (not in the harness): a crash of the node, i.e. real-code behaviour."""

    def __init__(self, where, msg, out):
        Exception.__init__(self, msg)
        self.where, self.msg, self.out = where, msg, out


def _crash_or_broken(what, rc, out):
    """The harness did not complete.  If the process was killed by a panic / fatal error whose innermost frame outside the Go
    runtime is code under test (not an injected zz_verif file), report that as the node crashing; otherwise Broken."""
    m = re.search(r"^(panic: .*|fatal error: .*)$", out, re.M)
    if m:
        frames = re.findall(r"^\t(\S+\.go):\d+", out[m.end():], re.M)
        frames = [f for f in frames if "/src/runtime/" not in f and "/src/testing/" not in f]
        if frames and "zz_verif" not in frames[0] and ("/node/cmd/" in frames[0] or "/node/pkg/" in frames[0]):
            raise ProcessCrash(os.path.basename(frames[0]), m.group(1), out[-3000:])
    raise vlib.Broken("%s did not complete (rc=%d):\n%s" % (what, rc, out[-4000:]))


# ===================================================================== C17: scenarios

def reobs_tlc_scenarios(work, n, depth, seed_):
    """Behaviours of Gen_Reobserve under `tlc -simulate` (time unit = 1 min)."""
    cfg = open(os.path.join(vlib.SPEC, "Gen_Reobserve.cfg")).read().replace("GenDepth = 16", "GenDepth = %d" % depth)
    sdir = _specdir(work)
    name = "Gen_Reobserve_%d_%d.cfg" % (seed_, depth)
    with open(os.path.join(sdir, name), "w") as fh:
        fh.write(cfg)
    r = vlib.tlc(work, "Gen_Reobserve", name, workers=1,
                 args=["-simulate", "num=%d" % n, "-depth", str(depth * 5), "-seed", str(seed_)], timeout=600)
    hs = vlib.tlc_prints(r["out"], "SCN")
    if not hs:
        raise vlib.Broken("TLC simulation produced no re-observation scenarios:\n" + r["out"][-2000:])
    rnd = random.Random("reobs-tlc-%d" % seed_)
    res, seen = [], set()
    for h in hs:
        key = json.dumps(h, sort_keys=True)
        if key in seen:
            continue
        seen.add(key)
        steps = []
        mode = rnd.choice(["single", "step", "mixed"])
        for st in h:
            a = dict(st["a"])
            if st["ev"] == "Advance":
                a["mode"] = rnd.choice(["single", "step"]) if mode == "mixed" else mode
            if st["ev"] == "Post":
                a = {"id": "%04x" % rnd.randrange(65536), "api": rnd.random() < 0.5}
            steps.append({"ev": st["ev"], "a": a})
        res.append({"cfg": {"caps": {"2": 1, "4": 1}, "fill": {}, "outcap": 1, "unit": 60}, "steps": steps, "src": "tlc"})
    return res


class ReobsGen:
    def __init__(self, rnd):
        self.r = rnd

    def adv(self, dt, mode=None):
        return {"ev": "Advance", "a": {"dt": int(dt), "mode": mode or self.r.choice(["single", "step"])}}

    @staticmethod
    def req(c, tx):
        return {"ev": "Request", "a": {"c": str(c), "tx": tx}}

    def hexn(self, n):
        return "".join("%02x" % self.r.randrange(256) for _ in range(n))

    def tx(self):
        """A transaction id: a byte string of any length (EVM hashes are 32 bytes; Solana / Algorand / Alephium ids are not)."""
        return self.hexn(self.r.choice([0, 1, 2, 8, 20, 31, 32, 32, 32, 33, 64]))

    def txfamily(self):
        """DIFFERENT ids that coincide under some crop / pad normalisation to a fixed width (last or first 32 bytes, left or
        right zero padding, leading-zero stripping, numeric value)."""
        r = self.r
        b = self.hexn(32)
        fams = [
            [self.hexn(32) + b, self.hexn(32) + b],                    # two 64-byte ids sharing their trailing 32 bytes
            [b + self.hexn(32), b + self.hexn(32)],                    # ... sharing their leading 32 bytes
            [b, self.hexn(1) + b, self.hexn(32) + b],                  # a 32-byte id and longer ids ending in it
            [b, b + self.hexn(1), b + self.hexn(32)],                  # ... beginning with it
            ["07", "0007", "000007", "00" * 31 + "07", "0700", "07" + "00" * 31],   # the same number / left and right padding
            ["", "00", "0000", "00" * 20, "00" * 31, "00" * 32, "00" * 33, "00" * 64],   # the empty id and zero ids of every length
            ["00" + b[2:], b[2:], "0000" + b[2:]],                     # 32, 31 and 33 bytes: leading zero dropped / added
            [self.hexn(20), None, None],                               # 20 bytes and its paddings to 32 (filled below)
            [b[:62], b[:62] + "00", "00" + b[:62]],                    # 31 bytes, right- and left-padded to 32
            [b, b.upper().lower(), b[:32] + b[:32]],                   # control: equal ids stay equal; a 32-byte id made of one half twice
        ]
        f = r.choice(fams)
        if f[1] is None:
            f = [f[0], "00" * 12 + f[0], f[0] + "00" * 12]
        return f

    def txids(self):
        """Transaction-id identity: requests for different ids that collide under crop/pad normalisations, on the same chain
        and across chains; each is a different transaction and must be forwarded; exact repeats are suppressed."""
        r = self.r
        fam = self.txfamily()
        r.shuffle(fam)
        steps = []
        chains = ["2", "4"]
        if r.random() < 0.4:
            steps.append(self.adv(r.choice([1, 200, 419, 500])))
        c = r.choice(chains)
        for t in fam:
            steps.append(self.req(c, t))
        other = chains[1 - chains.index(c)]
        for t in r.sample(fam, min(len(fam), 3)):
            steps.append(self.req(other, t))
        for t in r.sample(fam, min(len(fam), 2)):
            steps.append(self.req(c, t))                               # exact repeats
        for _ in range(3):
            steps.append({"ev": "Drain", "a": {"c": c}})
        steps.append(self.adv(r.choice([W - 1, W + P])))
        for t in fam[:3]:
            steps.append(self.req(c, t))
        return {"cfg": {"caps": {"2": 40, "4": 40}, "fill": {}, "outcap": 1, "unit": 1}, "steps": steps, "src": "gen-txids"}

    def random(self):
        """Wide concrete domain: capacities 0..50, many chains and transactions, second-granular and long
        advances aimed at the window thresholds, every fill level through prefill."""
        r = self.r
        ids = r.sample([0, 1, 2, 3, 4, 5, 10, 255, 256, 10001, 65534], r.randrange(1, 7))
        caps, fill = {}, {}
        for c in ids:
            k = r.choice([0, 1, 1, 1, 2, 3, 5, 50])
            caps[str(c)] = k
            if k and r.random() < 0.4:
                fill[str(c)] = ["f%03x" % i for i in range(r.randrange(0, k + 1))]
        sentinel = None
        if r.random() < 0.15:                       # the largest 16-bit id is a watched chain like any other
            ids[r.randrange(len(ids))] = 65535
            sentinel = 65533
            caps = {}
            fill = {}
            for c in ids:
                caps[str(c)] = r.choice([1, 2, 5])
        unknown = [c for c in [0, 1, 2, 3, 4, 5, 7, 9, 10, 255, 256, 257, 10001, 65534] if c not in ids]
        txs = [self.tx() for _ in range(r.randrange(1, 7))]
        if r.random() < 0.5:
            txs += self.txfamily()[:4]
        outcap = r.choice([0, 1, 2, 5, 50])
        steps = []
        now = 0
        sent = {}
        for _ in range(r.randrange(10, 60)):
            x = r.random()
            if x < 0.5:
                c = r.choice(ids) if r.random() < 0.85 else r.choice(unknown)
                tx = r.choice(txs)
                idle = r.random() < 0.35
                steps.append(self.reqi(c, tx) if idle else self.req(c, tx))
                if idle and r.random() < 0.3:
                    if r.random() < 0.5:
                        steps.append({"ev": "Drain", "a": {"c": str(c)}})
                    steps.append(self.reqi(c, tx))                     # the same request again, back to back
                if (c, tx) not in sent or now - sent[(c, tx)] >= W:
                    sent[(c, tx)] = now
            elif x < 0.75:
                y = r.random()
                dt = None
                if y < 0.45 and sent:
                    t0 = sent[r.choice(sorted(sent))]
                    tgt = t0 + r.choice([W - 1, W, W + 1, W + P // 2, W + P - 1, W + P, W + P + 1])
                    if tgt > now:
                        dt = tgt - now
                if dt is None:
                    dt = r.choice([1, 30, 59, 60, 61, 240, P - 1, P, P + 1, W - 1, W, W + 1, 720, W + P - 1, W + P, W + P + 1,
                                   2 * P, 3600, 21600] + ([172800] if r.random() < 0.05 else []))
                steps.append(self.adv(dt))
                now += dt
            elif x < 0.9:
                steps.append({"ev": "Drain", "a": {"c": str(r.choice(ids))}})
            elif x < 0.96:
                steps.append({"ev": "Post", "a": {"id": self.tx() or "00", "api": r.random() < 0.5}})
            else:
                steps.append({"ev": "DrainOut", "a": {}})
        cfg = {"caps": caps, "fill": fill, "outcap": outcap, "unit": 1}
        if sentinel:
            cfg["sentinel"] = sentinel
        return {"cfg": cfg, "steps": steps, "src": "gen-random"}

    def phase(self):
        """Sweep of the phase between the purge ticker and the requests: forward at phase phi, ask again at a
        chosen age, in one or several Add calls."""
        r = self.r
        phi = r.choice([0, 1, 59, 60, 200, 419, 420, 421, 600, 839])
        age = r.choice([1, 419, 420, 659, 660, 661, 700, 839, 840, 841, 1079, 1080, 1081, 1500, 5000])
        c, tx = r.choice([2, 4]), self.tx()
        steps = []
        if phi:
            steps.append(self.adv(phi))
        steps.append(self.req(c, tx))
        steps.append({"ev": "Drain", "a": {"c": str(c)}})
        parts = r.choice([1, 1, 2, 3])
        rest = age
        for i in range(parts - 1):
            d = r.randrange(0, rest + 1)
            steps.append(self.adv(d))
            rest -= d
            if r.random() < 0.3:
                steps.append(self.req(r.choice([2, 4]), self.tx()))   # unrelated traffic
        steps.append(self.adv(rest))
        steps.append(self.req(c, tx))
        steps.append({"ev": "Drain", "a": {"c": str(c)}})
        age2 = r.choice([1, 659, 660, 1079, 1080, 2000])
        steps.append(self.adv(age2))
        steps.append(self.req(c, tx))
        steps.append(self.req(c, tx))
        return {"cfg": {"caps": {"2": 2, "4": 2}, "fill": {}, "outcap": 1, "unit": 1}, "steps": steps, "src": "gen-phase"}

    def sweep(self, i, seed_):
        """Systematic sweep of the phase between the purge ticker and the requests, 15 s apart over two ticker periods:
        forward at phase phi, then ask again exactly at the tightest points the property fixes: age W - 1 (must still be
        suppressed) and age W + P (must be forwarded again), three rounds per history.  A purge threshold below W - 15 s
        or a purge period above P + 15 s is hit at some phase."""
        phi = (15 * i + 7 * seed_) % (2 * P)
        ages = [[W + P, W - 1, W + P], [W - 1, W + P, W + P], [W + P, W + P, W - 1], [W - 1, W + P + 1, W]][(i // (2 * P // 15)) % 4]
        mode = ["single", "step"][i % 2]
        c, tx = ["2", "4"][i % 2], "%064x" % (i + 1)
        steps = []
        if phi:
            steps.append(self.adv(phi, mode))
        steps.append(self.req(c, tx))
        for a in ages:
            steps.append({"ev": "Drain", "a": {"c": c}})
            steps.append(self.adv(a, mode))
            steps.append(self.req(c, tx))
        return {"cfg": {"caps": {"2": 2, "4": 2}, "fill": {}, "outcap": 1, "unit": 1}, "steps": steps, "src": "gen-sweep"}

    def burst(self, n, variant):
        """A long burst: n DISTINCT (chain, tx) requests inside one suppression window, all forwarded (the harness keeps
        draining the watcher queues, or the queues are large), followed by repeats of early, middle and late ones before the
        window lapses (must all be suppressed) and after it has lapsed for certain (must all be forwarded again)."""
        r = self.r
        chains = ["2", "4"]
        drained = variant % 2 == 0
        cap = 64 if drained else n + 64
        txs = [(chains[j % 2] if variant % 3 else "2", "%064x" % (0xb0000000 + j * 7919 + variant)) for j in range(n)]
        steps = []
        phi = r.choice([0, 1, 100, 419])
        if phi:
            steps.append(self.adv(phi))
        elapsed = 0
        inq = {"2": 0, "4": 0}
        for j, (c, tx) in enumerate(txs):
            steps.append(self.req(c, tx))
            inq[c] += 1
            if drained and inq[c] >= cap - 4:
                steps += [{"ev": "Drain", "a": {"c": c}}] * inq[c]
                inq[c] = 0
            if j % 400 == 399 and elapsed < 60:
                steps.append(self.adv(5))
                elapsed += 5
        probe = [txs[0], txs[1], txs[n // 3], txs[n // 2], txs[n - 2], txs[n - 1]]

        def ask():
            for c in chains:
                steps.extend([{"ev": "Drain", "a": {"c": c}}] * min(inq[c], 20))
                inq[c] = max(0, inq[c] - 20)
            for c, tx in probe:
                steps.append(self.req(c, tx))
        ask()                                                     # seconds after the burst
        steps.append(self.adv(W - 1 - elapsed))
        ask()                                                     # the first forwards are W - 1 old: still suppressed
        steps.append(self.adv(W + P))
        ask()                                                     # every forward of the burst is at least W + P old
        for c, tx in probe[:2]:
            steps.append(self.req(c, tx))                         # and remembered afresh
        return {"cfg": {"caps": {"2": cap, "4": cap}, "fill": {}, "outcap": 1, "unit": 1}, "steps": steps, "src": "gen-burst-%d" % n}

    def reqi(self, c, tx):
        """A request after which the harness sends nothing (it waits for the router to be idle), so that the next request of
        the history is the next request the router receives."""
        return {"ev": "Request", "a": {"c": str(c), "tx": tx, "sync": "idle"}}

    def repeat(self):
        """Copies of ONE request arriving back to back (2..5, nothing in between on the request channel), as all guardians'
        cleanup passes produce them.  The first copy meets a full queue, no watcher, an id beyond 16 bits, or is forwarded;
        the harness drains the queue between the copies, lets time pass, or does nothing.  A copy that was not forwarded
        has left no memory: the next copy is forwarded as soon as the chain is served and has room."""
        r = self.r
        k = r.choice([1, 1, 2, 3])
        first = r.choice(["full", "full", "full", "forwarded", "unknown", "wide"])
        caps = {"2": k, "4": r.choice([1, 2])}
        fill = {"2": ["f%03x" % i for i in range(k if first == "full" else r.randrange(0, k))]}
        tx = self.tx()
        c = {"full": 2, "forwarded": 2, "unknown": 9, "wide": r.choice([65538, 65540, 131074])}[first]
        steps = []
        if r.random() < 0.3:
            steps.append(self.adv(r.choice([1, 100, 419, 420, 500])))
        if r.random() < 0.3:
            steps.append(self.reqi(4, self.tx()))                      # some other request came before
        n = r.randrange(2, 6)
        for i in range(n):
            steps.append(self.reqi(c, tx))
            if i < n - 1:
                y = r.random()
                if y < 0.55:
                    steps += [{"ev": "Drain", "a": {"c": "2"}}] * r.choice([1, 1, k])
                elif y < 0.7:
                    steps.append(self.adv(r.choice([1, 59, P - 1, P, P + 1])))
                elif y < 0.8:
                    steps.append({"ev": "Post", "a": {"id": self.tx() or "00", "api": r.random() < 0.5}})
        steps += [{"ev": "Drain", "a": {"c": "2"}}] * k
        steps.append(self.reqi(c, tx))
        steps.append(self.reqi(4, tx))                                 # same tx, other chain, back to back
        steps.append(self.reqi(4, tx))
        steps.append(self.adv(r.choice([W - 1, W + P])))
        steps.append(self.reqi(c, tx))
        steps.append(self.reqi(c, tx))
        return {"cfg": {"caps": caps, "fill": fill, "outcap": 1, "unit": 1}, "steps": steps, "src": "gen-repeat"}

    def fill(self):
        """Watcher queues and the outbound queue at every fill level; dropped requests asked again."""
        r = self.r
        k = r.choice([0, 1, 2, 3, 5, 50])
        j = r.randrange(0, k + 1)
        caps = {"2": k, "4": r.choice([0, 1, 2])}
        fill = {"2": ["f%03x" % i for i in range(j)]}
        txs = [self.tx() for _ in range(k - j + 3)]
        steps = [self.req(2, t) for t in txs]                 # fills up, the last ones are dropped
        steps.append(self.req(4, txs[-1]))                   # same tx, other chain
        steps.append({"ev": "Drain", "a": {"c": "2"}})
        steps.append(self.req(2, txs[-1]))                   # dropped before: must not have been remembered
        steps.append(self.req(2, txs[0]))                    # forwarded before: remembered
        for _ in range(r.randrange(0, k + 2)):
            steps.append({"ev": "Drain", "a": {"c": "2"}})
        steps.append(self.adv(r.choice([W - 1, W, W + P])))
        steps.append(self.req(2, txs[0]))
        steps.append(self.req(2, txs[-2]))
        oc = r.choice([0, 1, 2, 3, 50])
        for i in range(oc + 2):
            steps.append({"ev": "Post", "a": {"id": "%04x" % i, "api": i % 2 == 0}})
        steps.append({"ev": "DrainOut", "a": {}})
        steps.append({"ev": "Post", "a": {"id": "beef", "api": False}})
        steps.append({"ev": "Post", "a": {"id": "cafe", "api": True}})
        return {"cfg": {"caps": caps, "fill": fill, "outcap": oc, "unit": 1}, "steps": steps, "src": "gen-fill"}

    def wide(self):
        """Chain ids beyond the 16-bit range the rest of the node uses (reported under their own signature)."""
        r = self.r
        caps = {"2": 2, "4": 1}
        if r.random() < 0.3:
            caps["0"] = 1
        tx = self.tx()
        wide = r.choice([65538, 65540, 65536, 131074, 4294967295, 65536 + 9, 2 ** 31 + 2])
        steps = []
        if r.random() < 0.5:
            steps.append(self.req(wide & 0xffff, tx))
        steps.append(self.req(wide, tx))
        steps.append(self.req(wide, self.tx()))
        steps.append({"ev": "Drain", "a": {"c": str(r.choice([2, 4]))}})
        steps.append(self.adv(r.choice([1, W + P])))
        steps.append(self.req(wide, tx))
        return {"cfg": {"caps": caps, "fill": {}, "outcap": 1, "unit": 1}, "steps": steps, "src": "gen-wide"}


def reobs_gen_scenarios(seed_, n, profile):
    rnd = random.Random("reobs-%s-%d" % (profile, seed_))
    g = ReobsGen(rnd)
    if profile == "sweep":
        return [g.sweep(i, seed_) for i in range(n)]
    if profile.startswith("burst"):
        return [g.burst(int(profile[5:]), seed_ + i) for i in range(n)]
    return [getattr(g, profile)() for _ in range(n)]


# ===================================================================== C17: replay + validation

def reobs_replay(work, scenarios, deadline_ms=10000, par=8):
    scp = os.path.join(work, "reobs_scenarios.ndjson")
    trp = os.path.join(work, "reobs_trace.ndjson")
    with open(scp, "w") as fh:
        for i, s in enumerate(scenarios):
            fh.write(json.dumps({"id": i + 1, "cfg": s["cfg"], "steps": s["steps"]}) + "\n")
    rc, out, wall = vlib.go_test(work, "node", PKG, "TestVerifReobserveReplay", INJECT,
                                 env={"VERIF_SCENARIOS": scp, "VERIF_TRACE": trp, "VERIF_SEED": vlib.seed(),
                                      "VERIF_DEADLINE_MS": deadline_ms, "VERIF_PAR": par}, timeout=1500)
    if "VERIF-REPLAYED" not in out:
        _crash_or_broken("re-observation harness", rc, out)
    return vlib.read_ndjson(trp), wall


def cleanup_scenarios(seed_, n):
    """The processor's cleanup pass as a poster on the outbound request queue: every fill level of small queues, the real
    capacity (50) full / one short / empty, 1..4 due entries, and a control where nothing is due yet."""
    r = random.Random("cleanup-%d" % seed_)
    res = []
    grid = [(k, j) for k in (0, 1, 2, 3) for j in range(k + 1)] + [(50, 50), (50, 49), (50, 48), (50, 0), (50, 25)]
    for i in range(n):
        k, j = grid[i % len(grid)]
        res.append({"outcap": k, "prefill": j, "entries": r.choice([1, 1, 2, 3, 4]), "age_s": r.choice([301, 360, 3600]) if i % 9 else 200})
    return res


def cleanup_replay(work, scenarios, first_id, deadline_ms=10000):
    """Run the real handleCleanup against outbound queues of every fill level (package processor)."""
    scp = os.path.join(work, "cleanup_scenarios.ndjson")
    trp = os.path.join(work, "cleanup_trace.ndjson")
    with open(scp, "w") as fh:
        for i, s in enumerate(scenarios):
            fh.write(json.dumps(dict(s, id=first_id + i)) + "\n")
    rc, out, wall = vlib.go_test(work, "node", PKG_PROC, "TestVerifCleanupPost", INJECT_PROC,
                                 env={"VERIF_SCENARIOS": scp, "VERIF_TRACE": trp, "VERIF_DEADLINE_MS": deadline_ms}, timeout=1500)
    if "VERIF-REPLAYED" not in out:
        _crash_or_broken("cleanup-post harness", rc, out)
    return vlib.read_ndjson(trp), wall


def reobs_validate(work, lines):
    sdir = _specdir(work)
    with open(os.path.join(sdir, "trace.ndjson"), "w") as fh:
        for ln in lines:
            fh.write(json.dumps(ln) + "\n")
    r = vlib.tlc(work, "Trace_Reobserve", "Trace_Reobserve.cfg", workers=1, timeout=1800, heap="8g")
    fin = vlib.tlc_prints(r["out"], "FINISHED")
    if r["violated"]:
        m = re.search(r"(Invariant|Action property) (\S+) is violated", r["out"])
        return [{"t": -1, "n": -1, "ev": "INVARIANT", "why": "specification property %s is violated on the recorded behaviour" % (m.group(2) if m else "?"),
                 "tlc": "\n".join(r["out"].splitlines()[-60:])}], r
    if not fin:
        raise vlib.Broken("re-observation trace validation did not finish:\n" + r["out"][-3000:])
    return vlib.tlc_prints(r["out"], "REJECT"), r


def _tx_norms(h):
    """Crop / pad normalisations of an id to 32 bytes (description only): two different ids sharing one of them collide."""
    return {("l", h[-64:].rjust(64, "0")), ("r", h[:64].ljust(64, "0")), ("s", h.lstrip("0")), ("t", h.rstrip("0"))}


def reobs_annotate(lines):
    """Python mirror of the specification's bookkeeping, used ONLY to describe steps (coverage classes and
    violation signatures); verdicts come from TLC.  Returns {(t, n): class dict}."""
    res = {}
    st = None
    for ln in lines:
        ev, a, s = ln["ev"], ln.get("a", {}), ln.get("s", {})
        if ev == "Reset":
            st = {"now": 0, "caps": a["caps"], "lens": {c: len(a["fill"].get(c, [])) for c in a["caps"]}, "last": {}, "norm": {}, "fwdt": [], "old": 0}
            continue
        if st is None:
            continue
        cls = {"ev": ev}
        if ev == "Request":
            c, tx = a["c"], a["tx"]
            known = c in st["caps"]
            wide = int(c) >= 65536
            cap = st["caps"].get(c, 0)
            ln0 = st["lens"].get(c, 0)
            fillc = "unknown" if not known else ("cap0" if cap == 0 else "full" if ln0 >= cap else "empty" if ln0 == 0 else "partial")
            t0 = st["last"].get((c, tx))
            age = None if t0 is None else st["now"] - t0
            agec = ("never" if age is None else "ltW" if age < W else "eqW" if age == W else "zone" if age < W + P
                    else "eqWP" if age == W + P else "gtWP")
            grew = [k for k in s.get("lens", {}) if s["lens"][k] != st["lens"].get(k)]
            fwd = known and s.get("lens", {}).get(c) == ln0 + 1
            low = str(int(c) & 0xffff)
            alias = any(tt != tx for k in _tx_norms(tx) for tt in st["norm"].get((c, k), ()))
            while st["old"] < len(st["fwdt"]) and st["now"] - st["fwdt"][st["old"]] >= W:
                st["old"] += 1
            live = len(st["fwdt"]) - st["old"]           # forwards younger than W: what a suppression cache must hold
            back2back = st.get("prev") == (c, tx)
            st["prev"] = (c, tx) if a.get("sync") == "idle" else None   # a sentinel follows otherwise
            cls.update(known=known, wide=wide, fill=fillc, age=agec, fwd=bool(fwd), grew=grew, phase=(st["now"] % P == 0),
                       back2back=back2back, idle=a.get("sync") == "idle",
                       to_low16=bool(wide and low in grew), alias=alias, txlen=len(tx) // 2,
                       live="le100" if live <= 100 else "le1000" if live <= 1000 else "gt1000")
            if fwd:
                st["last"][(c, tx)] = st["now"]
                st["fwdt"].append(st["now"])
                for k in _tx_norms(tx):
                    st["norm"].setdefault((c, k), set()).add(tx)
        elif ev == "Advance":
            st["prev"] = None                                           # sentinels are sent while the clock settles
            cls.update(ticks=min(s.get("ticks", 0), 3), mode=a.get("mode"),
                       coalesced=s.get("ticks", 0) > s.get("clock_reads", 0) > 0, long=a.get("dt", 0) > W + P)
            st["now"] += a.get("dt", 0)
        elif ev == "Post":
            cls.update(ok=a.get("ok"), api=a.get("via") or a.get("api"), full=s.get("is_chan_full", False))
        elif ev in ("Stall", "Panic"):
            cls.update(during=a.get("during"))
            if a.get("during") == "Post-cleanup":
                cls["fill"] = ("full" if a.get("prefill", 0) >= a.get("outcap", 0) else
                               "fills-up" if a.get("prefill", 0) + a.get("entries", 0) > a.get("outcap", 0) else "room")
            c = a.get("c")
            if c is not None:
                cap = st["caps"].get(c)
                cls["fill"] = "unknown" if cap is None else ("full" if st["lens"].get(c, 0) >= cap else "room")
        if "lens" in s:
            st["lens"] = dict(s["lens"])
        res[(ln["t"], ln["n"])] = cls
    return res


def reobs_signature(rej, line, cls):
    ev = line.get("ev", rej.get("ev"))
    if ev == "INVARIANT":
        return "INVARIANT/" + re.sub(r"[^A-Za-z0-9_]+", "-", rej.get("why", ""))[:80]
    if ev == "Stall":
        return "Stall/%s/queue-%s" % (cls.get("during"), cls.get("fill", "na"))
    if ev == "Panic":
        msg = re.sub(r"[^A-Za-z0-9]+", "-", (line.get("s", {}).get("panic", "") or "").splitlines()[0])[:60].strip("-")
        return "Panic/%s/%s" % (cls.get("during"), msg)
    if ev == "Request":
        if cls.get("wide"):
            return "Request/wide-chain-id/" + ("forwarded-to-low-16-bits" if cls.get("to_low16") else "forwarded" if cls.get("grew") else "other")
        who = "known" if cls.get("known") else "unknown"
        out = "forwarded" if cls.get("fwd") else ("misrouted" if cls.get("grew") else "dropped")
        sig = "Request/%s/age-%s/queue-%s/%s" % (who, cls.get("age"), cls.get("fill"), out)
        if out == "forwarded" and cls.get("age") == "ltW" and cls.get("live") == "gt1000":
            sig += "/more-than-1000-pairs-in-window"     # forgotten inside its window while a long burst was being remembered
        if out == "dropped" and cls.get("back2back"):
            sig += "/copy-of-the-previous-request"       # the request before it on the channel was the same one (and was not forwarded)
        elif out == "dropped" and cls.get("age") == "never" and cls.get("alias"):
            sig += "/tx-id-aliases-a-forwarded-one"      # a different id that collides with a remembered one after cropping / padding
        return sig
    if ev == "Post" and line.get("a", {}).get("via") == "cleanup":
        return "Post-cleanup/ok=%s/%s" % (line.get("a", {}).get("ok"), "post-state" if "post-state" in rej.get("why", "") else "not-allowed")
    if ev == "Post":
        return "Post/ok=%s/%s" % (line.get("a", {}).get("ok"), "post-state" if "post-state" in rej.get("why", "") else "not-allowed")
    return "%s/%s" % (ev, "post-state" if "post-state" in rej.get("why", "") else "not-allowed")


# ===================================================================== C15: requests

GOV_KINDS = ["contract_upgrade", "guardian_set", "update_message_fee", "transfer_fee", "bridge_register_chain",
             "bridge_contract_upgrade", "destroy_sequences", "update_min_cl", "update_refund_address"]
DEFAULT_CFG = {"gchain": "0001", "gaddr": "00" * 31 + "04"}


def gov_tlc(work, tier):
    """Exhaustive TLC run of MC_Governance: lemmas over all requests / all pairs, and the exported enumeration."""
    cfg = "MC_Governance_%s.cfg" % tier
    r = vlib.tlc_must_pass(work, "MC_Governance", cfg, workers=min(vlib.NCPU, 8), timeout=2400, heap="12g")
    reqs = vlib.tlc_prints(r["out"], "REQ")
    lay = vlib.tlc_prints(r["out"], "LAYOUT")
    con = vlib.tlc_prints(r["out"], "CONSTS")
    batches = vlib.tlc_prints(r["out"], "BATCH")
    if not reqs or not batches or len(lay) != 1 or len(con) != 1:
        raise vlib.Broken("MC_Governance did not export its enumeration / layout table")
    r["batches"] = batches
    return reqs, lay[0], con[0], r


def _ok(h):
    return {"form": "ok", "hex": h, "n": len(h) // 2, "chars": len(h)}


def _pre(h):
    return {"form": "prefixed", "hex": h, "n": len(h) // 2, "chars": len(h) + 2}


def _bad(form, chars):
    return {"form": form, "hex": "", "n": 0, "chars": chars}


class GovGen:
    """Seeded requests over a much wider concrete domain than TLC's boundary classes."""

    def __init__(self, rnd):
        self.r = rnd

    def hexbytes(self, n):
        r = self.r
        y = r.random()
        if y < 0.1:
            return "00" * n
        if y < 0.2:
            return "ff" * n
        return "".join("%02x" % r.randrange(256) for _ in range(n))

    def u(self, req_bits, wire_bits):
        r = self.r
        lim = 1 << wire_bits
        top = (1 << req_bits) - 1
        y = r.random()
        if y < 0.45:
            v = r.randrange(lim)
        elif y < 0.6:
            v = r.choice([0, 1, lim - 1])
        elif y < 0.8:
            v = min(top, r.choice([lim, lim + 1, lim + 2, 2 * lim, 2 * lim - 1, lim * 3 + 2, top, top - 1, 1 << (req_bits - 1)]))
        else:
            v = r.randrange(top + 1)
        return "%0*x" % (req_bits // 4, v)

    def text(self, w=None, maxlen=80):
        """w: the exact byte width the wire field has (None: free length)."""
        r = self.r
        y = r.random()
        if w is not None:
            n = w if y < 0.6 else r.choice([0, 1, w - 1, w + 1, 2 * w, r.randrange(0, 3 * w)])
        else:
            n = r.choice([0, 1, 2, 33, r.randrange(0, maxlen)])
        z = r.random()
        if z < 0.8:
            return _ok(self.hexbytes(n))
        if z < 0.88:
            return _pre(self.hexbytes(n))
        if z < 0.94:
            return _bad("odd", max(1, 2 * n - 1 + 2 * r.randrange(0, 2)))
        return _bad("nonhex", max(2, 2 * n))

    def module(self):
        """A module name: the request's byte string as given.  Plain names of length 0, 1, 11, 31, 32, 33, 64, ... and names
        with leading / trailing blanks, tabs, newlines, carriage returns and NULs, in particular raw length > 32 >= trimmed
        length and raw length == 32 with surrounding whitespace."""
        r = self.r
        y = r.random()
        if y < 0.35:
            return _ok("546f6b656e427269646765")
        if y < 0.42:
            return _ok("436f7265")
        if y < 0.65:
            n = r.choice([0, 1, 11, 31, 32, 33, 34, 40, 64, 100])
            return _ok("".join("%02x" % r.randrange(0x21, 0x7f) for _ in range(n)))
        core = r.choice(["546f6b656e427269646765", "436f7265", "", None, None])
        if core is None:
            core = "".join("%02x" % r.randrange(0x21, 0x7f) for _ in range(r.choice([1, 11, 30, 31, 32, 32, 33])))
        ws = lambda: r.choice(["20", "20", "09", "0a", "0d", "00", "0d0a"])
        total = r.choice([31, 32, 32, 33, 33, 34, 64, len(core) // 2 + 1, len(core) // 2 + 2])
        pad = max(0, total - len(core) // 2)
        where = r.choice(["lead", "trail", "both"])
        lead = pad if where == "lead" else 0 if where == "trail" else pad // 2
        same = r.random() < 0.6
        w = ws()
        h = "".join((w if same else ws()) for _ in range(lead)) + core + "".join((w if same else ws()) for _ in range(pad - lead))
        return _ok(h)

    def header(self):
        r = self.r
        return {"tchain": self.u(32, 16) if r.random() < 0.3 else "%08x" % r.randrange(65536),
                "seq": self.u(64, 64), "nonce": self.u(32, 32), "ts": self.u(32, 32),
                "gsi": self.u(32, 32) if r.random() < 0.9 else r.choice(["ffffffff", "fffffffe"])}

    def seqs(self):
        r = self.r
        y = r.random()
        if y < 0.02:
            return {"n": r.choice([65535, 65536, 65537, 70000]), "pat": r.choice(["idx", "ff"]), "xs": []}
        if y < 0.1:
            return {"n": r.choice([255, 256, 257, 1000]), "pat": "idx", "xs": []}
        n = r.choice([0, 1, 2, 3, r.randrange(0, 40)])
        return {"n": n, "pat": "explicit", "xs": [self.u(64, 64) for _ in range(n)]}

    def respell(self, k):
        """The same value in another accepted spelling (letter case, 0x / 0X / no prefix)."""
        r = self.r
        y = {"form": r.choice(["ok", "prefixed", "prefixedX"]), "hex": k["hex"], "n": k["n"], "cs": r.choice(["lower", "upper", "mixed"])}
        y["chars"] = len(k["hex"]) + (0 if y["form"] == "ok" else 2)
        return y

    def key20(self):
        r = self.r
        # keys with many letters, so that their spelling really varies; now and then the all-zero / all-ones key
        if r.random() < 0.03:
            return r.choice(["00" * 20, "ff" * 20])
        return "".join(r.choice("0123456789abcdefabcdefabcdef") for _ in range(40))

    def guardians(self):
        r = self.r
        y = r.random()
        n = r.choice([255, 256, 300]) if y < 0.03 else r.choice([0, 1, 2, 13, 18, 19, 20, 21, r.randrange(0, 30)])
        keys = []
        for i in range(n):
            z = r.random()
            if z < 0.02:
                keys.append(self.text(20))
            elif z < 0.3:
                keys.append(self.respell(_ok(self.key20())))     # a single key in any accepted spelling
            else:
                keys.append(_ok(self.key20()))
        z = r.random()
        if keys and z < 0.2:       # one guardian named twice, in a different spelling
            k = r.choice([g for g in keys if g["form"] in ("ok", "prefixed", "prefixedX")] or [_ok(self.key20())])
            keys.insert(r.randrange(len(keys) + 1), self.respell(k))
        elif keys and z < 0.27:    # ... or literally twice
            keys.insert(r.randrange(len(keys) + 1), dict(r.choice(keys)))
        return keys

    def refund(self):
        r = self.r
        y = r.random()
        if y < 0.03:
            return _ok(self.hexbytes(1) * r.choice([65535, 65536, 65537, 70000]))
        return self.text(None, 120)

    def request(self):
        r = self.r
        kind = r.choice(GOV_KINDS + (["none"] if r.random() < 0.05 else []))
        q = {"kind": kind}
        q.update(self.header())
        if kind == "contract_upgrade":
            q["payload"] = self.text(None, 200)
        elif kind == "guardian_set":
            q["guardians"] = self.guardians()
        elif kind == "update_message_fee":
            q["fee"] = self.text(32)
        elif kind == "transfer_fee":
            q["amount"] = self.text(32)
            q["recipient"] = self.text(32)
        elif kind == "bridge_register_chain":
            q.update(module=self.module(), chain=self.u(32, 16), emitter=self.text(32))
        elif kind == "bridge_contract_upgrade":
            q.update(module=self.module(), payload=self.text(None, 200))
        elif kind == "destroy_sequences":
            q.update(echain=self.u(32, 16), seqs=self.seqs())
        elif kind == "update_min_cl":
            q["cl"] = self.u(32, 8)
        elif kind == "update_refund_address":
            q["refund"] = self.refund()
        cfg = dict(DEFAULT_CFG) if r.random() < 0.3 else {"gchain": "%04x" % r.randrange(65536), "gaddr": self.hexbytes(32)}
        return {"req": q, "cfg": cfg, "style": {"upper": r.random() < 0.3}, "src": "seeded"}


    def valid(self, kind=None):
        """A request the node's own policy accepts (well-formed, in range), with tails of varied length."""
        r = self.r
        kind = kind or r.choice(GOV_KINDS)
        q = {"kind": kind}
        if kind in ("contract_upgrade", "bridge_contract_upgrade"):
            q["payload"] = _ok(self.hexbytes(r.choice([0, 1, 2, 8, 35, 100, 300])))
        if kind in ("bridge_register_chain", "bridge_contract_upgrade"):
            q["module"] = _ok("546f6b656e427269646765") if r.random() < 0.7 else self.module()
        if kind == "guardian_set":
            n = r.choice([1, 2, 3, 7, 13, 19])
            q["guardians"] = [_ok("%040x" % (r.getrandbits(150) * 32 + i)) for i in range(n)]
        elif kind == "update_message_fee":
            q["fee"] = _ok(self.hexbytes(32))
        elif kind == "transfer_fee":
            q["amount"], q["recipient"] = _ok(self.hexbytes(32)), _ok(self.hexbytes(32))
        elif kind == "bridge_register_chain":
            q.update(chain="%08x" % r.randrange(65536), emitter=_ok(self.hexbytes(32)))
        elif kind == "destroy_sequences":
            n = r.choice([0, 1, 1, 2, 3, 4, 8, 20, 60])
            q.update(echain="%08x" % r.randrange(65536), seqs={"n": n, "pat": "explicit", "xs": ["%016x" % r.getrandbits(64) for _ in range(n)]})
        elif kind == "update_min_cl":
            q["cl"] = "%08x" % r.randrange(256)
        elif kind == "update_refund_address":
            q["refund"] = _ok(self.hexbytes(r.choice([0, 1, 33, 33, 64, 200])))
        q.update(tchain="%08x" % r.randrange(65536), seq="%016x" % r.getrandbits(64), nonce="%08x" % r.getrandbits(32))
        return q

    def batch(self):
        """One request with 2..4 messages: same kind (second payload shorter / equal / longer than the first),
        different kinds, and occasionally a message the node must or may refuse."""
        r = self.r
        n = r.choice([2, 2, 2, 3, 3, 4])
        y = r.random()
        if y < 0.5:
            k = r.choice(["destroy_sequences", "destroy_sequences", "contract_upgrade", "bridge_contract_upgrade", "guardian_set",
                          "update_refund_address", "transfer_fee", "update_min_cl", "bridge_register_chain", "update_message_fee"])
            kinds = [k] * n
        elif y < 0.8:
            kinds = [r.choice(GOV_KINDS) for _ in range(n)]
        else:
            a, b = r.sample(GOV_KINDS, 2)
            kinds = [a, b, a, b][:n]
        reqs = [self.valid(k) for k in kinds]
        if r.random() < 0.25:
            reqs[r.randrange(1, n)] = json.loads(json.dumps(reqs[0]))     # the very same message twice
        if r.random() < 0.08:
            bad = self.request()["req"]
            reqs[r.randrange(n)] = bad
        ts, gsi = "%08x" % r.getrandbits(32), "%08x" % r.randrange(2 ** 32 - 1)
        for q in reqs:
            q["ts"], q["gsi"] = ts, gsi
        cfg = dict(DEFAULT_CFG) if r.random() < 0.3 else {"gchain": "%04x" % r.randrange(65536), "gaddr": self.hexbytes(32)}
        return {"reqs": reqs, "cfg": cfg, "style": {"upper": r.random() < 0.3}, "src": "seeded-batch"}


def gov_seeded_batches(seed_, n):
    g = GovGen(random.Random("gov-batch-%d" % seed_))
    return [g.batch() for _ in range(n)]


def gov_seeded(seed_, n):
    g = GovGen(random.Random("gov-%d" % seed_))
    return [g.request() for _ in range(n)]


def gov_compact(x):
    """Replay files keep requests small: a long hex text that repeats one byte is stored as {hexfill, n}."""
    if isinstance(x, dict):
        if isinstance(x.get("hex"), str) and len(x["hex"]) > 2000 and x["hex"] == x["hex"][:2] * (len(x["hex"]) // 2):
            y = {k: v for k, v in x.items() if k != "hex"}
            y["hexfill"] = x["hex"][:2]
            return y
        return {k: gov_compact(v) for k, v in x.items()}
    if isinstance(x, list):
        return [gov_compact(v) for v in x]
    return x


def gov_expand(x):
    if isinstance(x, dict):
        if "hexfill" in x:
            y = {k: v for k, v in x.items() if k != "hexfill"}
            y["hex"] = x["hexfill"] * x["n"]
            return y
        return {k: gov_expand(v) for k, v in x.items()}
    if isinstance(x, list):
        return [gov_expand(v) for v in x]
    return x


def gov_replay(work, cases):
    """cases: {"req": ..} (one message) or {"reqs": [..]} (one request carrying several messages; one trace line per
    message).  Returns (lines, wall, tmap) with tmap[trace id] = (case, index of the message in the case)."""
    inp = os.path.join(work, "gov_requests.ndjson")
    trp = os.path.join(work, "gov_trace.ndjson")
    tmap = {}
    tid = 1
    with open(inp, "w") as fh:
        for c in cases:
            e = {"id": tid, "cfg": c.get("cfg", DEFAULT_CFG), "style": c.get("style", {"upper": False})}
            if "reqs" in c:
                e["reqs"] = c["reqs"]
                for i in range(len(c["reqs"])):
                    tmap[tid + i] = (c, i)
                tid += len(c["reqs"])
            else:
                e["req"] = c["req"]
                tmap[tid] = (c, 0)
                tid += 1
            fh.write(json.dumps(e) + "\n")
    rc, out, wall = vlib.go_test(work, "node", PKG, "TestVerifGovernanceReplay", INJECT,
                                 env={"VERIF_GOV_REQUESTS": inp, "VERIF_TRACE": trp, "VERIF_SEED": vlib.seed()}, timeout=1500)
    if "VERIF-REPLAYED" not in out:
        _crash_or_broken("governance harness", rc, out)
    lines = vlib.read_ndjson(trp)
    if sorted(ln["t"] for ln in lines) != sorted(tmap):
        raise vlib.Broken("governance harness did not log exactly one line per message")
    return lines, wall, tmap


def gov_validate(work, lines):
    sdir = _specdir(work)
    with open(os.path.join(sdir, "trace.ndjson"), "w") as fh:
        for ln in lines:
            fh.write(json.dumps(ln) + "\n")
    r = vlib.tlc(work, "Trace_Governance", "Trace_Governance.cfg", workers=1, timeout=2400, heap="12g")
    fin = vlib.tlc_prints(r["out"], "FINISHED")
    if not fin or fin[0]["lines"] != len(lines):
        raise vlib.Broken("governance trace validation did not finish:\n" + r["out"][-3000:])
    return vlib.tlc_prints(r["out"], "REJECT"), r


_WS = {0x20, 0x09, 0x0a, 0x0d, 0x0b, 0x0c, 0x00}


def gov_module_class(req):
    """Description of a request's module name (coverage classes and signature labels only)."""
    m = req.get("module")
    if not isinstance(m, dict) or m.get("form") != "ok":
        return None
    b = bytes.fromhex(m["hex"])
    t = b.strip(bytes(_WS))
    return {"raw": len(b), "trimmed": len(t), "ws": len(t) != len(b),
            "cls": "%s/%s" % ("le32" if len(b) <= 32 else "gt32", "plain" if len(t) == len(b) else "ws-trim-le32" if len(t) <= 32 else "ws-trim-gt32")}


def gov_signatures(rej, line):
    """One signature per (tag, offending part): stable, names the failing call site / input class."""
    kind = rej.get("kind")
    tags = rej.get("tags", [])
    unfit = sorted(rej.get("unfit", []))
    mc = gov_module_class(line.get("a", {}).get("req", {}))
    if mc and mc["ws"]:
        # the module name has surrounding whitespace / NUL bytes: name the class (module-ws = raw name too long only
        # because of them; module-ws-fits = raw name fits, the node must use it as given or refuse)
        label = "module-ws" if (mc["raw"] > 32 >= mc["trimmed"]) else "module-ws-long" if mc["raw"] > 32 else "module-ws-fits"
        unfit = [label if u == "module" else u for u in unfit] or ([label] if mc["raw"] <= 32 else [])
    sigs = []
    calls = line.get("s", {}).get("calls", [])
    multi = line.get("a", {}).get("batch", {}).get("size", 1) > 1
    # where the deviation shows: in a request carrying several messages, and/or only when a result is read again
    # after later constructions (the first reading was still right)
    first = [c for c in calls if not c.get("via", "").endswith("-later") and c.get("class") == "vaa"]
    later = [c for c in calls if c.get("via", "").endswith("-later") and c.get("class") == "vaa"]
    later_only = (not multi) and len(first) == len(later) and any(a.get("vaa") != b.get("vaa") for a, b in zip(first, later))
    where = "/multi-message" if multi else ""
    for tag in sorted(tags):
        if tag in ("payload", "digest", "header", "impure"):
            sigs.append("%s/%s%s%s" % (kind, tag, where or ("/after-later-construction" if later_only else ""),
                                       "/module-ws" if (mc and mc["ws"] and tag == "payload") else ""))
            continue
        if tag == "panic" and multi:
            # the whole request panicked: which of its messages did it is not observable; the single-message cases name it
            msgs = sorted({re.sub(r"[^A-Za-z0-9]+", "-", (c.get("panic") or "").splitlines()[0] if c.get("panic") else "")[:50].strip("-")
                           for c in calls if c.get("class") == "panic"})
            sigs.append("multi-message-request/panic/%s" % "+".join(msgs))
            continue
        if tag == "panic":
            msgs = sorted({re.sub(r"[^A-Za-z0-9]+", "-", (c.get("panic") or "").splitlines()[0] if c.get("panic") else "")[:50].strip("-")
                           for c in calls if c.get("class") == "panic"})
            for part in (unfit or ["representable"]):
                sigs.append("%s/panic/%s/%s" % (kind, part, "+".join(msgs)))
        elif tag == "accepted-unrepresentable":
            for part in (unfit or ["?"]):
                sigs.append("%s/accepted-unrepresentable/%s" % (kind, part))
        else:
            sigs.append("%s/%s" % (kind, tag))
    return sigs or ["%s/unknown" % kind]


# ---- independent check of the harness's own digest (pure-python Keccak-256; hashlib only has SHA-3 padding)

_RC = [0x0000000000000001, 0x0000000000008082, 0x800000000000808A, 0x8000000080008000, 0x000000000000808B, 0x0000000080000001,
       0x8000000080008081, 0x8000000000008009, 0x000000000000008A, 0x0000000000000088, 0x0000000080008009, 0x000000008000000A,
       0x000000008000808B, 0x800000000000008B, 0x8000000000008089, 0x8000000000008003, 0x8000000000008002, 0x8000000000000080,
       0x000000000000800A, 0x800000008000000A, 0x8000000080008081, 0x8000000000008080, 0x0000000080000001, 0x8000000080008008]
_ROT = [[0, 36, 3, 41, 18], [1, 44, 10, 45, 2], [62, 6, 43, 15, 61], [28, 55, 25, 21, 56], [27, 20, 39, 8, 14]]
_M = (1 << 64) - 1


def _rol(x, n):
    n %= 64
    return ((x << n) | (x >> (64 - n))) & _M if n else x


def _keccak_f(a):
    for rc in _RC:
        c = [a[x][0] ^ a[x][1] ^ a[x][2] ^ a[x][3] ^ a[x][4] for x in range(5)]
        d = [c[(x - 1) % 5] ^ _rol(c[(x + 1) % 5], 1) for x in range(5)]
        a = [[a[x][y] ^ d[x] for y in range(5)] for x in range(5)]
        b = [[0] * 5 for _ in range(5)]
        for x in range(5):
            for y in range(5):
                b[y][(2 * x + 3 * y) % 5] = _rol(a[x][y], _ROT[x][y])
        a = [[b[x][y] ^ ((~b[(x + 1) % 5][y]) & b[(x + 2) % 5][y]) for y in range(5)] for x in range(5)]
        a[0][0] ^= rc
    return a


def keccak256(data):
    rate = 136
    p = bytearray(data)
    p.append(0x01)
    while len(p) % rate:
        p.append(0)
    p[-1] |= 0x80
    a = [[0] * 5 for _ in range(5)]
    for off in range(0, len(p), rate):
        blk = p[off:off + rate]
        for i in range(rate // 8):
            a[i % 5][i // 5] ^= int.from_bytes(blk[8 * i:8 * i + 8], "little")
        a = _keccak_f(a)
    out = b"".join(a[i % 5][i // 5].to_bytes(8, "little") for i in range(4))
    return out


def gov_own_digest_ok(v):
    """digest the wire format implies for the logged fields: keccak(keccak(ts|nonce|echain|tchain|eaddr|seq|cl|payload))"""
    body = bytes.fromhex(v["ts"][-8:] + v["nonce"] + v["echain"] + v["tchain"] + v["eaddr"] + v["seq"] + "%02x" % v["cl"] + v["payload"])
    return keccak256(keccak256(body)).hex() == v["own"]
