"""Check C20 (DESIGN.md section 6): exhaustive TLC runs of the bounded Spy model (safety and, under fairness of the
server's own goroutines only, liveness), TLC behaviours and seeded scenarios replayed on the real spyServer with fake
client streams, recorded traces validated against Spy.tla with inferred internal steps, bounded-liveness deadlines."""
import json
import os
import time
from collections import Counter

import fam_spy as fs
import vlib

PROPS = ["C20"]

NOTE = ("Trusted: TLC, the Go toolchain and scheduler, the fake gRPC streams of the harness (Send blocks / fails on command, "
        "context cancelled on command). Exhaustive runs use 2-3 subscribers, 2 emitters, 2-3 VAAs and a budget of 1-2 client faults; "
        "the bridge to larger configurations (8 subscribers, 9 emitters, 14 VAAs) is trace validation. Liveness on the real code is "
        "bounded-time observation (5 s deadline, nominal latency microseconds), reported only with the goroutine dump that explains it.")

MANIFEST = {
    "C20": dict(text="Spy.tla models spyServer at the code's grain (mutex, subscription map, filters, per-subscriber queue, handler loop, "
                     "stream Send that may stall or fail, context cancellation, deferred removal) with the delivery policy for slow "
                     "subscribers left open; TLC checks ExactDelivery, ServeReaders, QueueFifo exhaustively and PublishTerminates, "
                     "SubscribeTerminates, RemoveTerminates, MatchingDelivered under fairness of the server goroutines only. The real "
                     "spyServer is driven with scripted fake streams; every logged boundary event is validated by TLC against the same "
                     "actions (internal steps inferred), and operations that must complete are awaited with a 5 s deadline.",
                ref="6/C20", note=NOTE,
                technique="TLA+ model checking (TLC, safety + liveness) + trace validation with inferred silent steps + bounded-liveness replay"),
}

PLAN = {
    # tier: (safety cfgs, liveness cfgs, tlc scenarios, generated scenarios, probes)
    "quick": (["MC_Spy_safety_quick.cfg", "MC_Spy_inputs_quick.cfg"], ["MC_Spy_live_quick.cfg"], 60, 140, 3),
    "thorough": (["MC_Spy_safety_thorough.cfg", "MC_Spy_inputs_quick.cfg"], ["MC_Spy_live_thorough.cfg"], 400, 1600, 12),
}

ASSUME = [
    "the fake client streams are the environment: Send returns nil, blocks while the client is stalled, or fails after a "
    "disconnect/cancel; the handler goroutine learns about a cancelled context only through ctx.Done() or a failing Send",
    "one publisher at a time (the spy has a single goroutine that calls Publish)",
    "published VAAs are valid encodings and pairwise distinct",
    "a subscriber that reads again after a stall is owed every matching VAA published after it has caught up (queue drained, "
    "back in its select); what was published in between may be missing but never duplicated or reordered",
    "liveness on the real code: 5 s deadline per operation; liveness in the model: weak/strong fairness for the server's own "
    "steps only, none for the clients",
]


def run(prop, tier, replay=None):
    t0 = time.time()
    work = vlib.scratch(prop)
    safety, live, ntlc, ngen, probes = PLAN[tier]
    seed = vlib.seed()
    mc_states = mc_trans = 0
    mc_info = {}
    if replay:
        rp = json.load(open(replay))
        scenarios = [v["detail"]["scenario"] for v in rp.get("violations", []) if v.get("detail", {}).get("scenario")]
        if not scenarios:
            raise vlib.Broken("replay file has no scenario")
    else:
        # 1. the design
        for cfg in safety:
            r = vlib.tlc_must_pass(work, "MC_Spy", cfg, workers=vlib.NCPU, timeout=3000, heap="24g")
            mc_states += r["distinct"]
            mc_trans += r["generated"]
            mc_info[cfg] = [r["distinct"], r["generated"], round(r["wall_s"], 1)]
            print("TLC %s: %d distinct states, %d transitions, depth %d, %.0fs" % (cfg, r["distinct"], r["generated"], r["depth"], r["wall_s"]))
        for cfg in live:
            r = vlib.tlc_must_pass(work, "MC_Spy", cfg, workers=vlib.NCPU, timeout=3000, heap="24g", args=["-lncheck", "final"])
            mc_states += r["distinct"]
            mc_trans += r["generated"]
            mc_info[cfg] = [r["distinct"], r["generated"], round(r["wall_s"], 1)]
            print("TLC %s (liveness): %d distinct states, %d transitions, %.0fs" % (cfg, r["distinct"], r["generated"], r["wall_s"]))
        # vacuity guard for the liveness configuration: the delivery policy of a blocking send must violate PublishTerminates
        r = vlib.tlc(work, "MC_Spy", "MC_Spy_blocking_control.cfg", workers=1, timeout=300)
        if "Temporal property PublishTerminatesP was violated" not in r["out"]:
            raise vlib.Broken("negative control failed: the blocking-send policy does not violate PublishTerminates in the model:\n" + r["out"][-1500:])
        mc_info["MC_Spy_blocking_control.cfg"] = "PublishTerminates violated, as it must be"
        print("TLC negative control: a publisher that only ever blocks on a full queue violates PublishTerminates in the model (expected)")
        # 2. scenarios
        scenarios = fs.tlc_scenarios(work, ntlc, seed) + fs.gen_scenarios(seed, ngen) + fs.input_scenarios(seed, max(30, ngen // 4))
        scenarios = fs.decorate_all(scenarios, seed)
        scenarios += fs.flood_scenarios(seed, ("resume", "lonely-fail") if tier == "quick" else ("resume", "fail", "lonely-fail", "lonely-resume", "pair-fail"))
    # 3. the real spyServer
    lines, wall = fs.replay(work, scenarios, prop, probes=probes)
    by_t = {}
    for ln in lines:
        by_t.setdefault(ln["t"], []).append(ln)
    print("replayed %d scenarios on the real spyServer (%d logged events) in %.1fs" % (len(scenarios), len(lines), wall))
    # 4. TLC explains (or not) every recorded line
    flood_ids = [i + 1 for i, sc in enumerate(scenarios) if str(sc.get("src", "")).startswith("flood")]
    first_bad, r = fs.validate(work, lines, prop, flood_ids)
    nrej = sum(1 for v in first_bad.values() if v is not None)
    print("trace validation: %d states, %.1fs, %d of %d traces with a line the specification cannot explain" % (
        r["distinct"], r["wall_s"], nrej, len(first_bad)))

    verdict = vlib.Verdict(prop)
    for sig, text in fs.CRASHES:
        print("the spy harness process was killed by a crash in the code under test: %s" % sig)
        verdict.add(sig, {"kind": "crash of the code under test outside any call the harness makes (the test process died)", "output": text})
    stalls = Counter()
    for ln in lines:
        if ln["ev"] == "Timeout":
            sig = fs.stall_signature(ln)
            if ln["a"].get("op") == "Delivery":
                # name the input class when the starved subscriber shares its client connection with another subscription
                conns = {x["a"]["s"]: x["a"].get("conn") for x in by_t[ln["t"]] if x["ev"] == "SubscribeCalled"}
                mine = conns.get(ln["a"].get("s"))
                if mine and sum(1 for c in conns.values() if c == mine) > 1:
                    sig += "/subscriptions-sharing-a-client-connection"
            stalls[sig] += 1
            sc = scenarios[ln["t"] - 1] if 0 < ln["t"] <= len(scenarios) else None
            verdict.add(sig, {"kind": "reproduced stall", "op": ln["a"].get("op"), "args": {k: ln["a"].get(k) for k in ("s", "v", "afterResume")},
                              "deadline_ms": ln["a"].get("deadline_ms"), "goroutines": ln["a"].get("goroutines"),
                              "stacks": ln["a"].get("stacks"), "scenario": sc,
                              "history": [[x["ev"], x["a"]] for x in by_t[ln["t"]] if x["n"] < ln["n"]][-40:]})
    panics = Counter()
    for ln in lines:
        if ln["ev"] == "Panic":
            sig = fs.panic_signature(ln)
            panics[sig] += 1
            sc = scenarios[ln["t"] - 1] if 0 < ln["t"] <= len(scenarios) else None
            verdict.add(sig, {"kind": "panic in the code under test (recovered by the harness)", "call": ln["a"].get("call"),
                              "value": ln["a"].get("value"), "first_frame_in_package": ln["a"].get("fn"), "stack": ln["a"].get("stack"),
                              "args": {k: ln["a"].get(k) for k in ("s", "v")}, "scenario": sc if len(json.dumps(sc)) < 20000 else {"src": sc.get("src")},
                              "history": [[x["ev"], {k: v for k, v in x["a"].items() if k not in ("stacks", "goroutines", "stack")}]
                                          for x in by_t[ln["t"]] if x["n"] < ln["n"]][-40:]})
    rejects = Counter()
    for t, bad in sorted(first_bad.items()):
        if bad is None or bad["ev"] in ("Timeout", "Panic"):
            continue   # Timeout / Panic lines are already reported as a stall / a panic
        sig = fs.classify_reject(by_t[t], bad)
        rejects[sig] += 1
        sc = scenarios[t - 1] if 0 < t <= len(scenarios) else None
        verdict.add(sig, {"kind": "trace line rejected by TLC", "line": {"ev": bad["ev"], "a": bad["a"], "n": bad["n"]}, "scenario": sc,
                          "history": [[x["ev"], x["a"]] for x in by_t[t] if x["n"] < bad["n"]][-60:]})
    for t, bad in first_bad.items():
        if bad is not None and bad["ev"] in ("Timeout", "Panic") and not any(x["ev"] == bad["ev"] for x in by_t[t]):
            raise vlib.Broken("inconsistent trace bookkeeping")
    rc = verdict.finish()

    # evidence
    acts = Counter(ln["ev"] for ln in lines)
    classes = set()
    for t, tl in by_t.items():
        state = {}
        nsub = 0
        for ln in tl:
            a = ln.get("a", {})
            if ln["ev"] == "SubscribeCalled":
                nsub += 1
                state[a["s"]] = "reading"
            elif ln["ev"] in ("Stall", "Resume", "Fail", "Cancel"):
                state[a["s"]] = {"Stall": "stalled", "Resume": "resumed", "Fail": "failing", "Cancel": "cancelled"}[ln["ev"]]
            elif ln["ev"] == "PublishCalled":
                classes.add(("publish", min(nsub, 4), tuple(sorted(Counter(state.values()).items()))))
            elif ln["ev"] in ("Received", "SendBlocked", "SendFailed", "Removed"):
                classes.add((ln["ev"], state.get(a.get("s"))))
    complete = sum(1 for tl in by_t.values() if tl[-1]["ev"] == "End")
    sample = []
    for sc in scenarios[:1] + scenarios[-1:]:
        sample.append({"source": sc.get("src"), "steps": sc["steps"][:10]})
    cov = {
        "states": mc_states if not replay else max(r["distinct"], 1),
        "transitions": mc_trans if not replay else max(r["generated"], 1),
        "traces_validated_against_impl": len(first_bad),
        "samples": sample,
        "evaluations": len(lines),
        "distinct_nontrivial": len(classes),
        "rule": "one evaluation = one logged boundary event of the real spyServer that TLC had to explain with the specification's "
                "actions; distinct = distinct (event kind, number of subscribers / fault state of the subscriber concerned) classes",
        "mc_configs": mc_info, "trace_spec_states": r["distinct"],
        "events": dict(acts), "scenario_sources": dict(Counter(sc.get("src") for sc in scenarios)),
        "scenarios_run_to_End": complete, "traces_fully_explained": len(first_bad) - nrej,
        "process_crashes": [c[0] for c in fs.CRASHES], "stalls_reproduced": dict(stalls), "panics": dict(panics), "rejected_lines": dict(rejects),
        "floods": [dict(ln["a"], trace=ln["t"], stalled_out=any(x["ev"] == "Timeout" for x in by_t[ln["t"]]), panicked=any(x["ev"] == "Panic" for x in by_t[ln["t"]]),
                        ran_to_End=by_t[ln["t"]][-1]["ev"] == "End") for ln in lines if ln["ev"] == "FloodInfo"],
        "max_subscribers": max([sum(1 for x in tl if x["ev"] == "SubscribeCalled") for tl in by_t.values()] or [0]),
        "max_vaas": max([sum(1 for x in tl if x["ev"] == "PublishCalled") for tl in by_t.values()] or [0]),
        "known_findings_matched": getattr(verdict, "n_known", 0),
        "exhaustive": False,
    }
    vlib.write_evidence(prop, tier, "model_checking", cov, ASSUME, time.time() - t0, getattr(verdict, "n_unknown", 0))
    return rc
