"""Alephium watcher family (C08 C09 C11): AlphDecode.tla / AlphChain.tla + AlphWatcher.tla and harness/alephium."""
import json
import os
import random
import re
import shutil
import subprocess
import time

import vlib

PKG = "./pkg/alephium"
H = os.path.join(vlib.HARNESS, "alephium")
INJECT = {"pkg/alephium": [(os.path.join(vlib.HARNESS, "common", "vh.go"), "alephium")] +
          [(os.path.join(H, f), "alephium") for f in sorted(os.listdir(H)) if f.endswith(".go")]}

NOMINAL = ["b32", "r8", "r64", "n4", "pT", "1"]
FIELD_NAMES = ["sender", "chain", "seq", "nonce", "payload", "cl"]


def spec_dir(work):
    sdir = os.path.join(work, "spec")
    if not os.path.isdir(sdir):
        shutil.copytree(vlib.SPEC, sdir)
    return sdir


def build_binary(work):
    """Build the in-package test binary once (real working tree + injected harness)."""
    binp = os.path.join(work, "alph.test")
    if os.path.exists(binp):
        return binp
    rc, out, wall = vlib.go_test(work, "node", PKG, "", INJECT, binary_only=binp, timeout=900)
    if rc != 0 or not os.path.exists(binp):
        raise vlib.Broken("alephium harness does not build (rc=%d):\n%s" % (rc, out[-4000:]))
    return binp


# =============================================================================== C11

def decode_model(work, tier):
    """Exhaustive TLC run of MC_AlphDecode; returns (tlc result, exported cases)."""
    cfg = "MC_AlphDecode_%s.cfg" % tier
    r = vlib.tlc_must_pass(work, "MC_AlphDecode", cfg, workers=min(vlib.NCPU, 8), timeout=900)
    exp = {}
    for tag in ("CASES", "ATTEST", "IDS", "TS", "LAYOUT"):
        v = vlib.tlc_prints(r["out"], tag)
        if not v:
            raise vlib.Broken("MC_AlphDecode did not export %s" % tag)
        exp[tag] = v[0]
    return r, exp


def decode_run(work, exp, reps):
    """Run the real decoding functions on every exported case; returns the trace lines."""
    cases = sorted(exp["CASES"], key=lambda c: (c["n"], c["f"]))
    att = sorted((a["a"] for a in exp["ATTEST"]), key=lambda a: json.dumps(a, sort_keys=True))
    inp = {"cases": [{"n": c["n"], "f": c["f"]} for c in cases], "attest": att,
           "ids": sorted(c["c"] for c in exp["IDS"]), "ts": sorted(t["t"] for t in exp["TS"]), "reps": reps}
    cp = os.path.join(work, "decode_cases.json")
    tp = os.path.join(work, "decode_trace.ndjson")
    with open(cp, "w") as fh:
        json.dump(inp, fh)
    binp = build_binary(work)
    rc, out = vlib.run_test_binary(binp, "TestVerifAlphDecode$", os.path.join(vlib.REPO, "node", "pkg", "alephium"),
                                   env={"VERIF_CASES": cp, "VERIF_TRACE": tp, "VERIF_SEED": vlib.seed()}, timeout=600)
    if "VERIF-DECODED" not in out:
        raise vlib.Broken("decode harness did not complete (rc=%d):\n%s" % (rc, out[-3000:]))
    return vlib.read_ndjson(tp), inp


def decode_validate(work, lines):
    sdir = spec_dir(work)
    with open(os.path.join(sdir, "trace.ndjson"), "w") as fh:
        for ln in lines:
            fh.write(json.dumps(ln) + "\n")
    r = vlib.tlc(work, "Trace_AlphDecode", "Trace_AlphDecode.cfg", workers=1, timeout=900)
    fin = vlib.tlc_prints(r["out"], "FINISHED")
    if not fin or fin[-1]["lines"] != len(lines):
        raise vlib.Broken("decode trace validation did not finish:\n" + r["out"][-3000:])
    return vlib.tlc_prints(r["out"], "REJECT"), r


def layout_from_source():
    """Source extraction (no Ralph compiler offline): the `++` ladder of attestToken in token_bridge.ral."""
    p = os.path.join(vlib.REPO, "alephium", "contracts", "token_bridge", "token_bridge.ral")
    try:
        src = open(p).read()
    except OSError:
        raise vlib.Broken("cannot read " + p)
    m = re.search(r"pub fn attestToken\((.*?)\)\s*->\s*\(\)\s*\{(.*?)governance\.publishWormholeMessage", src, re.S)
    if not m:
        raise vlib.Broken("attestToken not found in token_bridge.ral (source extraction failed)")
    body = m.group(2)
    sizes = dict(re.findall(r"assert!\(size!\((\w+)\)\s*==\s*(\d+)", body))
    lad = re.search(r"let payload\s*=\s*(.*?)\n\s*\n", body, re.S)
    if not lad:
        raise vlib.Broken("payload ladder not found in attestToken (source extraction failed)")
    parts = [x.strip() for x in lad.group(1).split("++")]
    widths = []
    for part in parts:
        mm = re.match(r"u256To(\d+)Byte!\((\w+)\)", part)
        if part == "PayloadId.AttestToken":
            widths.append(("payloadId", 1))
        elif mm:
            widths.append((mm.group(2), int(mm.group(1))))
        elif part in sizes:
            widths.append((part, int(sizes[part])))
        else:
            raise vlib.Broken("cannot size ladder element %r (source extraction failed)" % part)
    return widths


def decode_signature(line, single_rejected):
    """Stable signature of a rejected C11 line: the (minimal) non-nominal field classes + the real outcome.
    single_rejected: {(field, class): outcome kind} of the rejected one-non-nominal-field lines, used to attribute a
    rejected pair to the single field that already fails alone."""
    ev = line["ev"]
    out = line["s"].get("out")
    if ev == "Decode":
        a = line["a"]
        non = [(FIELD_NAMES[i], a["f"][i]) for i in range(6) if a["f"][i] != NOMINAL[i]]
        if a["n"] != 6:
            non.append(("count", str(a["n"])))
        outk = decode_outkind(line)
        culprits = [(k, c) for k, c in non if single_rejected.get((k, c)) == outk]
        use = culprits[:1] if culprits else non
        return "decode/%s/%s" % ("+".join("%s=%s" % kc for kc in use) or "nominal", outk)
    if ev == "Attest":
        a = line["a"]
        eq = line["s"].get("eq", {})
        bad = [k for k in sorted(eq) if not eq[k]]
        return "attest/len=%s,chain=%s,dec=%s,sym=%s,name=%s/%s%s" % (a["len"], a["chain"], a["dec"], a["sym"], a["name"], out,
                                                                     "-wrong-" + "+".join(bad) if bad else "")
    if ev == "Id":
        return "ids/%s/a2i=%s,hex=%s" % (line["a"]["c"], line["s"].get("a2i"), line["s"].get("hex"))
    return "%s/%s" % (ev, out)


def decode_outkind(line):
    out = line["s"].get("out")
    if out == "ok":
        eq = line["s"].get("eq", [])
        bad = [FIELD_NAMES[i] for i in range(len(eq)) if not eq[i]]
        pub = line["s"].get("pub", {})
        if not bad and not (pub.get("same") and line["s"].get("tx")):
            bad = ["publication"]
        return "accepted" + ("-wrong-" + "+".join(bad) if bad else "")
    return out


# =============================================================================== C08 / C09: scenarios

FLOOR, BLOCK_SECS = 205, 16          # MinimalConsistencyLevel, BlockTimeMs / 1000 (watcher.go); also in Trace_AlphWatcher.cfg
MARGIN_PAST, MARGIN_FUTURE = 60, 180  # a time threshold is never closer than this to the scenario's wall-clock window
BAD_KINDS = ["chain70000", "chain65536", "seq2p64", "nonce5", "fields5", "fields7", "cl256", "cl2p200", "sender31", "variant",
             "payloadU256"]
TOK_SHAPES = ["fail", "short", "long", "failed0", "failed1", "failed2", "empty0", "empty1", "empty2", "badtype", "dec256"]
# every sdk.Val variant as the single return value of each metadata method, except the one the method really returns
# (symbol, name: ByteVec; decimals: U256 within 0..255)
_VARIANTS = ["bool", "i256", "i256pos", "u256", "u256big", "bytevec", "address", "array", "array-empty", "array-nested", "array-bytevec"]
VAL_SHAPES = ["val%d:%s" % (pos, v) for pos in (0, 1, 2) for v in _VARIANTS
              if not (pos < 2 and v == "bytevec") and not (pos == 2 and v == "u256")]
TOK_SHAPES = TOK_SHAPES + VAL_SHAPES


def constants_from_source():
    """The two constants of the confirmation rule, read from watcher.go (exit 2 if the source was restructured)."""
    src = open(os.path.join(vlib.REPO, "node", "pkg", "alephium", "watcher.go")).read()
    m1 = re.search(r"const BlockTimeMs\s*=\s*(\d+)", src)
    m2 = re.search(r"const MinimalConsistencyLevel\s+uint8\s*=\s*(\d+)", src)
    if not m1 or not m2:
        raise vlib.Broken("BlockTimeMs / MinimalConsistencyLevel not found in watcher.go")
    return int(m2.group(1)), int(m1.group(1)) // 1000


def dur(e, mainnet):
    if mainnet and e["kind"] == "transfer":
        return max(e["cl"], FLOOR) * BLOCK_SECS
    return e["cl"] * BLOCK_SECS


def mk_event(i, blk, tx=None, **kw):
    e = dict(id=i, blk=blk, tx=tx if tx is not None else i, gov=True, ei=0, ok=True, tb=True, cl=0, kind="transfer", tok="none",
             claim="none", bad="", tgt=0, plen=0, pid=0)
    e.update(kw)
    return e


class World:
    """Ground truth of one scenario while it is being written (mirror of AlphChain for the generator)."""

    def __init__(self, mainnet):
        self.mainnet = mainnet
        self.blocks = {}
        self.height = 0
        self.stream = []
        self.foreign = []
        self.tok = {}
        self.nid = 0
        self.nb = 0

    def apply(self, op):
        o = op["op"]
        if o == "block":
            self.blocks[op["b"]] = dict(h=op["h"], ts=op["ts"], main=True)
            self.height = max(self.height, op["h"])
        elif o == "emit":
            self.stream.append(op["e"])
        elif o == "foreign":
            self.foreign.append(op["e"])
        elif o == "reorg":
            self.blocks[op["b"]]["main"] = False
        elif o == "height":
            self.height = max(self.height, op["h"])
        elif o == "lagheight":
            self.height = op["h"]
        elif o == "tok":
            self.tok[op["id"]] = op["shape"]

    def time_ok(self, e):
        x = self.blocks[e["blk"]]["ts"] + dur(e, self.mainnet)
        if x <= -MARGIN_PAST:
            return True
        if x >= MARGIN_FUTURE:
            return False
        return None   # too close to a threshold: the generator must not produce this

    def must_pend(self, e):
        if e["ei"] != 0 or not e["ok"]:
            return False
        if e["kind"] == "attest":
            if e["tok"] == "alph":
                return e["claim"] == "malph"
            return e["tb"] and self.tok.get(e["tok"], "fail") == e["claim"]
        return True

    def final_ids(self, init_from):
        res = []
        for i, e in enumerate(self.stream):
            if i < init_from:
                continue
            b = self.blocks[e["blk"]]
            if self.must_pend(e) and e["tb"] and b["main"] and b["h"] + e["cl"] <= self.height and self.time_ok(e):
                res.append(e["id"])
        return res


def finish_scenario(sc, src, family):
    """Replays the ops on a World to compute what must come out and to check the time margins."""
    w = World(sc["mainnet"])
    for op in sc["pre"]:
        w.apply(op)
    init_from = len(w.stream)
    has_fail = False
    for st in sc["steps"]:
        for op in st["ops"]:
            w.apply(op)
            has_fail = has_fail or op["op"] == "failnext"
    for e in w.stream + w.foreign:
        if w.time_ok(e) is None:
            return None
    sc["expect"] = [] if has_fail else w.final_ids(init_from)
    sc["src"] = src
    sc["family"] = family
    if has_fail:
        sc["settleMs"] = 1300
    # A message the polling path must forward whose tx is ALSO re-observed can reach the output through either path, and the
    # harness cannot tell the paths apart when it waits: such scenarios are given a long quiet period (>= 100 poll
    # intervals) before End, and TLC's End obligation (forwarded by the POLLING path) is the verdict for them.
    reqs = {op["tx"] for st in sc["steps"] for op in st["ops"] if op["op"] == "req"} | {op["tx"] for op in sc["pre"] if op["op"] == "req"}
    by_id = {e["id"]: e for e in w.stream}
    sc["reobsOverlap"] = any(by_id[i]["tx"] in reqs for i in sc["expect"] if i in by_id)
    if sc["reobsOverlap"]:
        sc["settleMs"] = max(sc.get("settleMs", 0), 600)
    return sc


# attestations that must NOT be forwarded: (token named, metadata claimed).  t1 reports m1, t3 reports m2, t4 reports m1d.
# Field-wise: exactly one of decimals / symbol / name / token chain differs from what the named contract reports, the
# named token is another one (token id), the decimals differ the other way round, and all fields at once.
ATTEST_PAIRS = [("t1", "m1d"), ("t1", "m1s"), ("t1", "m1n"), ("t1", "badchain"), ("t3", "m1"), ("t4", "m1"), ("t1", "m2")]


class WGen:
    """Seeded generator of fake-node scripts with the property quantifiers' shapes."""

    CLS = [0, 0, 1, 1, 2, 3, 7, 15, 40, 100, 204, 205, 206, 254]
    TS = [-5000, -5000, -4300, -1000, -100]

    def __init__(self, rnd):
        self.r = rnd

    def new(self, mainnet=None, page=None):
        r = self.r
        self.w = World(r.random() < 0.5 if mainnet is None else mainnet)
        self.sc = {"mainnet": self.w.mainnet, "page": page or r.choice([1, 2, 2, 3, 5]), "pre": [], "steps": [], "pollMs": r.choice([2, 3, 5])}
        self.cur = self.sc["pre"]
        self.base_h = r.choice([0, 10, 1000, 10 ** 9])
        self.w.height = self.base_h
        return self

    def op(self, **kw):
        self.cur.append(kw)
        self.w.apply(kw)

    def step(self, route=None, nth=None):
        st = {"after": {"route": route, "nth": nth} if route else None, "ops": []}
        self.sc["steps"].append(st)
        self.cur = st["ops"]

    def block(self, ts=None, h=None):
        self.w.nb += 1
        b = self.w.nb
        self.op(op="block", b=b, h=h if h is not None else self.w.height + 1, ts=ts if ts is not None else self.r.choice(self.TS))
        return b

    def emit(self, blk, **kw):
        self.w.nid += 1
        e = mk_event(self.w.nid, blk, **kw)
        if not e["ok"] and not e["bad"]:
            e["bad"] = self.r.choice(BAD_KINDS)
        self.op(op="emit", e=e)
        return e

    def foreign(self, of, **kw):
        self.w.nid += 1
        e = dict(of)
        e.update(id=self.w.nid, gov=False, ei=0, ok=True, tb=True, bad="")
        e.update(kw)
        self.op(op="foreign", e=e)
        return e

    def good(self, blk, **kw):
        kw.setdefault("cl", self.r.choice(self.CLS))
        return self.emit(blk, **kw)

    RECIPIENT_SIZES = [0, 1, 20, 31, 32, 33, 64]

    def transfer(self, blk, size=None, **kw):
        """a token transfer whose recipient has `size` bytes: the contract emits 101 + size payload bytes, id 1"""
        size = self.r.choice(self.RECIPIENT_SIZES) if size is None else size
        return self.good(blk, kind="transfer", plen=101 + size, **kw)

    def odd_payload(self, blk, what, **kw):
        """decodable events whose payload is EMPTY or a single byte (every payload id): anyone can publish them"""
        kw.setdefault("cl", 0)
        if what == "empty":
            return self.good(blk, kind="other", plen=-1, **kw)
        if what == "1b-transfer":
            return self.good(blk, kind="transfer", plen=1, **kw)
        if what == "1b-attest":          # payload id 2 but not an attestation's 100 bytes: never acceptable, no call needed
            return self.good(blk, kind="attest", tok="t1", claim="badlen", plen=1, **kw)
        return self.good(blk, kind="other", plen=1, pid={"1b-0": 0, "1b-3": 3, "1b-255": 255}[what] or 256, **kw)

    def raise_height(self, by=None):
        self.op(op="height", h=self.w.height + (by if by is not None else self.r.choice([1, 1, 2, 3, 16, 300])))

    def old_events(self):
        """what is on the stream before the watcher starts (must be ignored)"""
        n = self.r.choice([0, 0, 1, 3])
        if n:
            b = self.block(ts=-5000)
            for _ in range(n):
                self.good(b, cl=0)

    def toks(self):
        self.op(op="tok", id="t1", shape="m1")
        self.op(op="tok", id="t2", shape=self.r.choice(TOK_SHAPES))
        self.op(op="tok", id="t3", shape="m2")
        self.op(op="tok", id="t4", shape="m1d")     # same symbol and name as m1, other decimals

    # ---------------------------------------------------------------- families
    def poll(self):
        """C08 polling path: blocks of mixed events, heights that reach / do not reach the confirmations, both sides of the
        wall-clock floor, mainnet on/off, foreign senders, attestations (matching / mismatching / native token)."""
        r = self.r
        self.new()
        self.toks()
        self.old_events()
        self.step("count", 1)
        nblocks = r.choice([1, 2, 2, 3])
        for bi in range(nblocks):
            if bi:
                self.step(r.choice([None, "count", "chain-info", "is-main", "page"]), None)
                if self.sc["steps"][-1]["after"]:
                    self.sc["steps"][-1]["after"]["nth"] = r.randrange(2, 6)
            b = self.block()
            for _ in range(r.choice([1, 1, 2, 3])):
                k = r.random()
                if k < 0.25:
                    self.good(b)
                elif k < 0.5:
                    self.transfer(b, cl=r.choice(self.CLS))
                elif k < 0.62:
                    self.good(b, tb=False)
                elif k < 0.72:
                    tok, claim = r.choice(ATTEST_PAIRS + [("t1", "m1")] * 4 + [("t4", "m1d")])
                    self.good(b, kind="attest", tok=tok, claim=claim, cl=r.choice([0, 1, 2]))
                elif k < 0.8:
                    self.good(b, kind="attest", tok="alph", claim=r.choice(["malph", "malph", "malphd", "malphn", "m1"]), cl=r.choice([0, 1]))
                elif k < 0.88:
                    self.good(b, kind="other")
                elif k < 0.94:
                    self.good(b, kind="attest", tok="t3", claim="m1", cl=0)
                else:
                    self.good(b, kind="attest", tok="t1", claim="m1", tb=False, cl=0)
        for _ in range(r.choice([1, 2, 3, 4])):
            self.step(None)
            self.raise_height()
        return finish_scenario(self.sc, "gen", "poll")

    def reorg(self):
        """C08: a block is orphaned before / after its events are confirmable; optionally the tx is mined again."""
        r = self.r
        self.new()
        self.toks()
        self.step("count", 1)
        b = self.block(ts=r.choice([-5000, -4300]))
        evs = [self.good(b, cl=r.choice([0, 1, 2, 3])) for _ in range(r.choice([1, 2]))]
        other = self.block(ts=-5000)
        self.good(other, cl=r.choice([0, 1]))
        when = r.choice(["before-fetch", "pending", "mid-round", "late"])
        if when == "before-fetch":
            self.op(op="reorg", b=b)
        elif when == "pending":
            self.step("is-main", r.choice([1, 2, 3]))
            self.op(op="reorg", b=b)
        elif when == "mid-round":
            self.step("headers", 1)
            self.op(op="reorg", b=b)
        if r.random() < 0.5 and when != "late":
            self.step(None)
            nb = self.block(ts=-5000, h=self.w.blocks[b]["h"])
            for e in evs:
                self.good(nb, cl=e["cl"], tx=e["tx"])
        for _ in range(r.choice([2, 3])):
            self.step(None)
            self.raise_height(r.choice([1, 2, 4]))
        if when == "late":
            self.step(None)
            self.op(op="reorg", b=b)
            self.step(None)
            self.raise_height(1)
        return finish_scenario(self.sc, "gen", "reorg")

    def reobs(self):
        """C08 re-observation path: the tx holds a token-bridge message and / or a look-alike event of ANOTHER contract, a
        foreign-sender message, a mismatching attestation; blocks on both sides of the height rule and of the wall-clock floor;
        the block is orphaned between the status and the main-chain request; the tx is mined again elsewhere."""
        r = self.r
        self.new(page=2)
        self.toks()
        self.step("count", 1)
        kind = r.choice(["good", "lookalike", "lookalike-only", "young", "unconfirmed", "foreign-sender", "attest-bad", "attest-good",
                         "orphan-race", "reinclude", "malformed", "malformed", "malformed", "unknown-tx", "multi", "multi", "multi",
                         "other-index"])
        if kind == "multi":
            return self.reobs_multi()
        ts = -5000
        cl = r.choice([0, 1, 2, 5])
        if kind == "young":
            ts = r.choice([-1000, -100])
            self.sc["mainnet"] = self.w.mainnet = True
            cl = r.choice([0, 1, 2])
        b = self.block(ts=ts)
        target = None
        if kind in ("good", "lookalike", "young", "unconfirmed", "orphan-race", "reinclude"):
            target = self.good(b, cl=cl if kind != "unconfirmed" else r.choice([5, 9]))
        if kind in ("lookalike", "lookalike-only"):
            if target is None:
                target = self.good(b, cl=0, tb=False)      # the governance stream has a foreign-sender event in this tx
            self.foreign(target, cl=r.choice([0, 1]), kind=r.choice(["transfer", "other"]))
        if kind == "foreign-sender":
            target = self.good(b, tb=False, cl=0)
        if kind == "attest-bad":
            tok, claim = r.choice(ATTEST_PAIRS + [("t2", "m2"), ("alph", "malphd"), ("alph", "malphn")])
            target = self.good(b, kind="attest", tok=tok, claim=claim, cl=0)
        if kind == "attest-good":
            target = self.good(b, kind="attest", tok="t1", claim="m1", cl=0)
        if kind == "malformed":
            return self.reobs_malformed()
        if kind == "unknown-tx":
            target = self.good(b, cl=0)
        if kind == "other-index":        # the core contract emits, in this tx, an event that is not a WormholeMessage
            target = self.good(b, cl=0) if r.random() < 0.5 else self.emit(b, ei=1)
            self.emit(b, ei=1, tx=target["tx"])
        self.step(None)
        self.raise_height(r.choice([1, 2, 6]))
        if kind == "reinclude":
            self.step(None)
            self.op(op="reorg", b=b)
            nb = self.block(ts=-5000, h=self.w.blocks[b]["h"])
            self.good(nb, cl=target["cl"], tx=target["tx"])
        self.step(None)
        if r.random() < 0.5:
            self.decoy(target["tx"])      # in a step of its own: it must not be mistaken for the genuine request below
            self.step(None)
        self.op(op="req", tx=target["tx"] if kind != "unknown-tx" else 9999)
        if kind == "orphan-race":
            self.step(r.choice(["status", "events-tx"]), 1)
            self.op(op="reorg", b=b)
        if r.random() < 0.4:
            self.step(None)
            self.op(op="req", tx=target["tx"])
        self.step(None)
        self.raise_height(1)
        return finish_scenario(self.sc, "gen", "reobs")

    def decoy(self, tx):
        """a re-observation request that is not the Alephium watcher's (other chain id, also one that only equals 255 after
        truncation to 16 bits; tx hash of another length): it must be dropped without a single node call"""
        r = self.r
        if r.random() < 0.7:
            self.op(op="req", tx=tx, chain=r.choice([1, 2, 4, 254, 256, 65535, 65791]))
        else:
            self.op(op="req", tx=tx, len=r.choice([31, 33, 20, 1]))

    def reobs_malformed(self, bad=None, shape=None, pre=None):
        """Re-observation requests for transactions whose core-contract events have MALFORMED fields (every malformation
        the polling path gets: wrong field count, wrong types, oversize values ...): alone in the tx, before / after a
        well-formed message of the same tx, transfer- or attestation-shaped, token-bridge or foreign sender; emitted before
        the watcher started (re-observation alone) or polled as well.  Nothing of the malformed event may come out, the
        watcher must stay up, and the requests that follow must still be taken and served."""
        r = self.r
        self.new(page=r.choice([1, 2, 3]))
        self.toks()
        pre = r.random() < 0.4 if pre is None else pre
        if not pre:
            self.step("count", 1)
        bad = bad or r.choice(BAD_KINDS)
        shape = shape or r.choice(["alone", "before-good", "after-good", "two-bad", "attest-shaped"])
        b = self.block(ts=-5000)
        kw = dict(ok=False, bad=bad, tb=r.random() < 0.6, cl=r.choice([0, 1]))
        if shape == "attest-shaped":
            kw.update(kind="attest", tok=r.choice(["t1", "t2"]), claim="m1")
        good = None
        if shape == "after-good":
            good = self.good(b, cl=0)
        m = self.emit(b, tx=good["tx"] if good else None, **kw)
        if shape == "before-good":
            good = self.good(b, cl=0, tx=m["tx"])
        if shape == "two-bad":
            self.emit(b, ok=False, bad=r.choice(BAD_KINDS), tb=True, tx=m["tx"])
        other = self.good(b, cl=0)                      # a well-formed message in a tx of its own
        self.raise_height(2)
        if pre:
            self.step("count", 1)
        else:
            self.step(None)
        self.op(op="req", tx=m["tx"])
        if r.random() < 0.5:
            self.step(None)
        self.op(op="req", tx=other["tx"])               # the next request must still be served
        self.op(op="req", tx=m["tx"])
        self.step(None)
        nb = self.block(ts=-5000)                       # and the polling path is still alive
        self.good(nb, cl=0)
        self.step(None)
        self.raise_height(1)
        self.op(op="req", tx=other["tx"])
        return finish_scenario(self.sc, "gen", "reobs:malformed")

    def reobs_multi(self, order=None, foreign=None, young=None):
        """C08 re-observation of a transaction that carries SEVERAL messages of the core contract with different consistency
        levels: some are deep enough when the request is served, others are not (both orders, two or three events,
        optionally one of them from a foreign sender, optionally a mainnet transfer still under the wall-clock floor)."""
        r = self.r
        if young is None:
            young = r.random() < 0.2
        self.new(mainnet=True if young else None, page=r.choice([1, 2, 3]))
        self.toks()
        self.step("count", 1)
        b = self.block(ts=-5000)
        low, high = r.choice([0, 1, 2]), r.choice([20, 50, 100])
        cls = order or r.choice([[low, high], [high, low], [low, high, low + 1], [high, low, high + 7], [high, high + 3, low]])
        fpos = foreign if foreign is not None else (r.randrange(len(cls)) if r.random() < 0.3 else -1)
        first = None
        for i, cl in enumerate(cls):
            kw = dict(cl=cl, tb=(i != fpos))
            if young and cl == low and i != fpos:
                kw["kind"] = "other"        # not a transfer: no mainnet floor, only the height rule and cl intervals
            e = self.good(b, tx=first["tx"] if first else None, **kw)
            first = first or e
        self.step(None)
        self.raise_height(r.choice([3, 5, 8]))
        self.step(None)
        self.op(op="req", tx=first["tx"])
        if r.random() < 0.5:
            self.step(r.choice([None, "status", "events-tx"]), 1)
            self.raise_height(1)
        if r.random() < 0.3:
            self.step(None)
            self.op(op="req", tx=first["tx"])
        return finish_scenario(self.sc, "gen", "reobs:multi")

    def xfer(self):
        """C08 wall-clock floor of MAINNET token transfers for every recipient size (payload = 101 + size bytes) and
        consistency levels below / at / above the floor, in blocks on both sides of max(cl, 205) * 16 s, on the polling path
        and on the re-observation path; non-transfers of the same lengths next to them follow cl * 16 s."""
        r = self.r
        if r.random() < 0.3:
            return self.xfer_mixed()
        self.new(mainnet=r.random() < 0.85, page=r.choice([1, 2, 3, 5]))
        self.toks()
        pre = r.random() < 0.3               # emitted before the watcher starts: re-observation alone
        if not pre:
            self.step("count", 1)
        evs = []
        for _ in range(r.choice([1, 2, 2])):
            b = self.block(ts=r.choice([-5000, -4300, -3500, -1000, -1000, -100]))
            for _ in range(r.choice([1, 2, 3])):
                k = r.random()
                cl = r.choice([0, 1, 2, 10, 50, 204, 205, 206, 254])
                if k < 0.75:
                    evs.append(self.transfer(b, cl=cl))
                elif k < 0.9:
                    evs.append(self.good(b, kind="other", plen=r.choice([101, 133, 165]), cl=cl))
                else:
                    evs.append(self.odd_payload(b, r.choice(["empty", "1b-transfer"]), tb=True, cl=cl))
        self.raise_height(300)
        if pre:
            self.step("count", 1)
        for e in r.sample(evs, min(len(evs), r.choice([1, 2, 3]))):
            self.step(None)
            self.op(op="req", tx=e["tx"])
        self.step(None)
        self.raise_height(1)
        return finish_scenario(self.sc, "gen", "xfer")

    def xfer_mixed(self):
        """One block that carries a non-transfer (attestation or other message) AND a token transfer with the SAME
        consistency level below the floor, in either order, old enough for the level but not for the floor: the
        confirmation rule is per message, the neighbour's answer must not be reused for the transfer."""
        r = self.r
        self.new(mainnet=r.random() < 0.9, page=r.choice([1, 2, 5]))
        self.toks()
        self.step("count", 1)
        cl = r.choice([0, 1, 2, 10, 50])
        b = self.block(ts=r.choice([-1000, -1000, -3000, -100 if cl < 5 else -1000]))
        evs = []
        tx = "shared" if r.random() < 0.4 else None

        def nontransfer():
            if r.random() < 0.6:
                return self.good(b, kind="attest", tok="t1", claim="m1", cl=cl, **({"tx": evs[0]["tx"]} if (tx and evs) else {}))
            return self.good(b, kind="other", plen=r.choice([101, 133]), cl=cl, **({"tx": evs[0]["tx"]} if (tx and evs) else {}))

        def transfer():
            return self.transfer(b, cl=cl, **({"tx": evs[0]["tx"]} if (tx and evs) else {}))
        order = r.choice(["nt", "nt", "tn", "ntn", "ntt"])
        for ch in order:
            evs.append(nontransfer() if ch == "n" else transfer())
        self.raise_height(300)
        for _ in range(3):
            self.step(None)
            self.raise_height(1)
        if r.random() < 0.4:
            self.step(None)
            self.op(op="req", tx=evs[-1]["tx"])
            self.step(None)
            self.raise_height(1)
        return finish_scenario(self.sc, "gen", "xfer")

    def lag(self):
        """C08 height rule under a stale / lagging height: the node serves the events of a new block while the height it
        reports is still BELOW that block (the two come from independent requests), or falls back after it had been higher;
        on the polling path and on the re-observation path.  Nothing may come out before height >= block height + cl."""
        r = self.r
        if r.random() < 0.3:
            return self.lag_reobs()
        self.new(page=r.choice([1, 2, 3]))
        self.toks()
        self.old_events()
        self.step("count", 1)
        back = r.choice([1, 1, 2, 5])
        b = self.block(ts=-5000)
        bh = self.w.blocks[b]["h"]
        evs = [self.good(b, cl=r.choice([1, 2, 10, 100, 254]), tx=None) for _ in range(r.choice([1, 2]))]
        if r.random() < 0.4:
            evs.append(self.good(b, cl=0))
        self.op(op="lagheight", h=max(0, bh - back))
        mode = r.choice(["poll", "poll", "reobs", "both"])
        if mode in ("reobs", "both"):
            self.step(None)
            self.op(op="req", tx=evs[0]["tx"])
        self.step(None)
        self.op(op="lagheight", h=bh)             # the node catches up: exactly the block's height (cl 0 only)
        if r.random() < 0.5:
            self.step(None)
            self.raise_height(r.choice([1, 2, 10]))
            self.step(r.choice([None, "chain-info", "is-main"]), r.randrange(2, 9))
            self.op(op="lagheight", h=max(0, bh - back))    # ... and falls back again while events are pending
            if mode in ("reobs", "both"):
                self.op(op="req", tx=evs[0]["tx"])
        self.step(None)
        self.op(op="height", h=bh + r.choice([1, 2, 10, 120]))
        if mode == "both":
            self.step(None)
            self.op(op="req", tx=evs[-1]["tx"])
        return finish_scenario(self.sc, "gen", "lag")

    def lag_reobs(self, back=None, cl=None):
        """The same on the re-observation path ALONE: the message was emitted before the watcher started (the polling path
        never sees it), the node reports a height below its block when the request is served."""
        r = self.r
        self.new(page=2)
        self.toks()
        back = back or r.choice([1, 1, 2, 5])
        b = self.block(ts=-5000)
        bh = self.w.blocks[b]["h"]
        e = self.good(b, cl=cl if cl is not None else r.choice([1, 2, 10, 100, 254]))
        if r.random() < 0.5:
            self.good(b, cl=0, tx=e["tx"])
        self.op(op="lagheight", h=max(0, bh - back))
        self.step("count", 1)
        self.op(op="req", tx=e["tx"])
        self.step(None)
        self.op(op="lagheight", h=bh)
        self.op(op="req", tx=e["tx"])
        self.step(None)
        self.op(op="lagheight", h=max(0, bh - back))
        self.op(op="req", tx=e["tx"])
        self.step(None)
        self.op(op="height", h=bh + r.choice([1, 10, 300]))
        self.op(op="req", tx=e["tx"])
        return finish_scenario(self.sc, "gen", "lag:reobs-only")

    def order(self):
        """C09 exactly-once under out-of-order finality: several token-bridge messages to the SAME target chain with increasing
        sequences and DEcreasing confirmation delays (later sequences become final first), also two blocks becoming final in
        the same round; every one of them must still come out exactly once."""
        r = self.r
        self.new(page=r.choice([1, 2, 3, 5]))
        self.toks()
        self.old_events()
        self.step("count", 1)
        tgt = r.choice([2, 4, 65535])
        n = r.choice([2, 3, 3, 4])
        cls = sorted(r.sample([0, 1, 2, 3, 5, 8], n), reverse=True)
        shape = r.choice(["one-block", "block-each", "block-each", "two-blocks"])
        b = self.block(ts=-5000)
        for i, cl in enumerate(cls):
            if i and (shape == "block-each" or (shape == "two-blocks" and i == n // 2)):
                if r.random() < 0.5:
                    self.step(None)
                b = self.block(ts=-5000)
            self.good(b, cl=cl, tgt=tgt)
            if r.random() < 0.25:
                self.good(b, cl=r.choice([0, 4]), tgt=(tgt + 1 if tgt < 65535 else 1))       # traffic to another target chain in between
        top = self.w.height
        if r.random() < 0.5:
            for _ in range(max(cls) + 1):             # one block at a time: the lowest cl (highest sequence) is final first
                self.step(None)
                self.raise_height(1)
        else:
            self.step(None)
            self.raise_height(1)
            self.step(None)
            self.op(op="height", h=top + max(cls) + 1)    # several blocks become final in the same round
        return finish_scenario(self.sc, "gen", "order")

    def hold(self):
        """C09 schedule control: new events arrive while NOTHING is pending (height poller idle); the answer to the page
        request (or to the metadata call of that poll) is held back for many poll intervals, so that whatever the other
        goroutines do in that window happens before the batch reaches the handler.  The messages must still come out."""
        r = self.r
        self.new(page=r.choice([1, 2, 3]))
        self.sc["pollMs"] = r.choice([2, 3])
        self.toks()
        self.old_events()
        self.step("count", 1)
        rounds = r.choice([1, 1, 2])
        for k in range(rounds):
            if k:
                self.step(None)         # the earlier batch is confirmed and forwarded: pending is empty again
            route = r.choice(["page", "page", "multicall"])
            self.op(op="hold", route=route, ms=r.choice([40, 60, 90]))
            b = self.block(ts=-5000)
            if route == "multicall":
                self.good(b, kind="attest", tok="t1", claim="m1", cl=0)
            for _ in range(r.choice([1, 2])):
                self.good(b, cl=r.choice([0, 0, 1]))
            self.step(None)
            self.raise_height(r.choice([2, 3]))
        return finish_scenario(self.sc, "gen", "hold")

    def apifail_reobs(self, route=None, settle=None):
        """A one-shot node API error on ONE route of the re-observation path, aimed at the re-observer: the message was
        emitted before the watcher started, so the polling path is idle and the armed failure can only hit the re-observer's
        own call (tx status, events by tx id, block header, main-chain, chain-info; the metadata multi-call through an
        HTTP error).  The request is abandoned, the watcher stays up, a repeated request is served normally."""
        r = self.r
        route = route or r.choice(["status", "events-tx", "headers", "is-main", "chain-info", "multicall"])
        self.new(page=2)
        self.op(op="tok", id="t1", shape="m1")
        self.op(op="tok", id="t6", shape="fail")
        b = self.block(ts=-5000)
        if route == "multicall":
            e = self.good(b, kind="attest", tok="t6", claim="m1", cl=0)
        else:
            e = self.good(b, cl=r.choice([0, 1]))
        e2 = self.good(b, kind="attest", tok="t1", claim="m1", cl=0)
        self.raise_height(3)
        self.step("count", 1)
        if route != "multicall":
            self.op(op="failnext", route=route)
        self.op(op="req", tx=e["tx"])
        self.step(None)
        self.op(op="req", tx=e["tx"])            # again, without a failure
        self.op(op="req", tx=e2["tx"])
        self.step(None)
        nb = self.block(ts=-5000)                # and the polling path is still alive
        self.good(nb, cl=0)
        self.step(None)
        self.raise_height(1)
        sc = finish_scenario(self.sc, "gen", "apifail:reobs-" + route)
        if sc is not None and settle:
            sc["settleMs"] = settle
        return sc

    def apifail(self):
        """C08 under node API errors at any call: the round / batch is abandoned, Run may end and is restarted."""
        r = self.r
        if r.random() < 0.5:
            return self.apifail_reobs()
        if r.random() < 0.35:
            return self.apifail_midpage()
        self.new()
        self.toks()
        self.old_events()
        route = r.choice(["count", "page", "chain-info", "is-main", "headers", "status", "events-tx", "version", "clique"])
        self.step("count", 1)
        b = self.block(ts=-5000)
        for _ in range(r.choice([1, 2])):
            self.good(b, cl=r.choice([0, 1, 2]))
        if route in ("count", "page", "version", "clique", "chain-info", "is-main", "headers"):
            self.op(op="failnext", route=route if route not in ("version", "clique") else "count")
        if route in ("version", "clique"):
            self.step("count", 2)
            self.op(op="failnext", route=route)
        if route in ("status", "events-tx"):
            self.op(op="failnext", route=route)
            self.op(op="req", tx=self.w.stream[-1]["tx"])
        self.step(None)
        self.raise_height(3)
        self.step(None)
        nb = self.block(ts=-5000)
        self.good(nb, cl=0)
        self.step(None)
        self.raise_height(2)
        return finish_scenario(self.sc, "gen", "apifail")

    def apifail_midpage(self):
        """A node API error on a page request that is not the first one of a multi-page poll: pages already read must
        neither be lost nor handed over twice, whether Run ends (and is restarted) or carries on."""
        r = self.r
        page = r.choice([1, 1, 2])
        self.new(page=page)
        self.toks()
        self.old_events()
        self.step("count", 1)
        b = self.block(ts=-5000)
        n = r.choice([page + 1, 2 * page, 2 * page + 1, 3 * page + 1])
        for _ in range(n):
            self.good(b, cl=r.choice([0, 0, 1]))
        pages = (n + page - 1) // page
        self.step("page", r.randrange(1, pages))        # after the k-th page request, k < number of pages
        self.op(op="failnext", route="page")
        for _ in range(4):
            self.step(None)
            self.raise_height(r.choice([1, 2]))
        if r.random() < 0.6:
            self.step(None)
            b3 = self.block(ts=-5000)
            self.good(b3, cl=0)
            self.step(None)
            self.raise_height(2)
        return finish_scenario(self.sc, "gen", "apifail")

    def race(self):
        """C09: events appended between the count request and the page requests, every page boundary."""
        r = self.r
        page = r.choice([1, 1, 2, 2, 3])
        self.new(page=page)
        self.toks()
        self.old_events()
        self.step("count", 1)
        b = self.block(ts=-5000)
        n1 = r.choice([1, 2, 3, 4])
        for _ in range(n1):
            self.good(b, cl=r.choice([0, 0, 1, 2]))
        # after the count poll that sees n1 new events, more arrive: before the 1st page, or between pages
        where = r.choice(["after-count", "after-page1", "after-page2", "none"])
        if where != "none":
            if where == "after-count":
                self.step("count", 2)
            else:
                self.step("page", 1 if where == "after-page1" else 2)
            b2 = self.block(ts=-5000) if r.random() < 0.5 else b
            for _ in range(r.choice([1, 2, page, page + 1])):
                self.good(b2, cl=r.choice([0, 1]))
        for _ in range(3):
            self.step(None)
            self.raise_height(r.choice([1, 2]))
        if r.random() < 0.5:
            self.step(None)
            b3 = self.block(ts=-5000)
            self.good(b3, cl=0)
            self.step(None)
            self.raise_height(1)
        return finish_scenario(self.sc, "gen", "race")

    def junk(self):
        """C09: well-formed token-bridge messages with malformed / foreign / wrong-index / attestation-shaped neighbours whose
        metadata multi-call fails in every shape; nothing of that may cost a good message."""
        r = self.r
        self.new()
        self.toks()
        self.old_events()
        self.step("count", 1)
        b = self.block(ts=-5000)
        pos = r.randrange(0, 3)
        n = r.choice([2, 3, 4])
        culprit = r.choice(["malformed", "malformed", "tokshape", "tokshape", "foreign", "index", "attest-foreign", "cl255", "mismatch",
                            "empty-payload", "empty-payload", "one-byte-payload"])
        for i in range(n):
            if i == min(pos, n - 1):
                if culprit == "malformed":
                    self.emit(b, ok=False, tb=r.random() < 0.5)
                elif culprit == "tokshape":
                    self.good(b, kind="attest", tok="t2", claim="m1", cl=0)
                elif culprit == "attest-foreign":
                    self.good(b, kind="attest", tok="t2", claim="m1", cl=0, tb=False)
                elif culprit == "foreign":
                    self.good(b, tb=False, cl=0)
                elif culprit == "index":
                    self.emit(b, ei=1)
                elif culprit == "cl255":
                    self.good(b, cl=255)
                elif culprit == "empty-payload":
                    self.odd_payload(b, "empty", tb=r.random() < 0.4)
                elif culprit == "one-byte-payload":
                    self.odd_payload(b, r.choice(["1b-transfer", "1b-attest", "1b-0", "1b-3", "1b-255"]), tb=r.random() < 0.4)
                else:
                    self.good(b, kind="attest", tok="t3", claim="m1", cl=0)
            else:
                self.good(b, cl=r.choice([0, 0, 1]))
        for _ in range(2):
            self.step(None)
            self.raise_height(r.choice([1, 2]))
        self.step(None)
        b2 = self.block(ts=-5000)
        self.good(b2, cl=0)
        self.step(None)
        self.raise_height(300 if culprit == "cl255" else 2)
        return finish_scenario(self.sc, "gen", "junk:" + culprit)


def gen_scenarios(seed_, n, family):
    rnd = random.Random("alph-%s-%d" % (family, seed_))
    g = WGen(rnd)
    res = []
    tries = 0
    while len(res) < n and tries < 20 * n + 50:
        tries += 1
        sc = getattr(g, family)()
        if sc is not None:
            res.append(sc)
    if len(res) < n:
        raise vlib.Broken("scenario generator %s produced only %d of %d scenarios" % (family, len(res), n))
    return res


def tlc_scenarios(work, n, depth, seed_, profile, overrides=None):
    """Behaviours of Gen_AlphWatcher under tlc -simulate, turned into fake-node scripts."""
    cfg = open(os.path.join(vlib.SPEC, "Gen_AlphWatcher.cfg")).read()
    cfg = re.sub(r"(?m)^  GenDepth = .*$", "  GenDepth = %d" % depth, cfg)
    cfg = re.sub(r'(?m)^  Profile = .*$', '  Profile = "%s"' % profile, cfg)
    for k, v in (overrides or {}).items():
        cfg = re.sub(r"(?m)^  %s = .*$" % k, "  %s = %s" % (k, v), cfg)
    sdir = spec_dir(work)
    name = "Gen_AlphWatcher_%s_%d.cfg" % (profile, seed_)
    with open(os.path.join(sdir, name), "w") as fh:
        fh.write(cfg)
    r = vlib.tlc(work, "Gen_AlphWatcher", name, workers=1,
                 args=["-simulate", "num=%d" % (n * 3), "-depth", str(depth * 6), "-seed", str(seed_)], timeout=600)
    hs = vlib.tlc_prints(r["out"], "SCN")
    if not hs:
        raise vlib.Broken("TLC simulation produced no watcher scenarios:\n" + r["out"][-2000:])
    rnd = random.Random("alph-tlc-%s-%d" % (profile, seed_))
    seen = set()
    res = []
    for h in hs:
        key = json.dumps(h, sort_keys=True)
        if key in seen:
            continue
        seen.add(key)
        sc = {"mainnet": h["mainnet"], "page": h["page"], "pollMs": 3,
              "pre": [{"op": "tok", "id": "t1", "shape": "m1"}, {"op": "tok", "id": "t2", "shape": "failed1"}], "steps": []}
        served = {}
        trig = None
        cur = None
        base = 50
        for x in h["hist"]:
            if x["k"] == "w":
                served[x["route"]] = served.get(x["route"], 0) + 1
                trig = {"route": x["route"], "nth": served[x["route"]]}
                cur = None
                continue
            if cur is None:
                cur = {"after": trig, "ops": []}
                sc["steps"].append(cur)
            ops = cur["ops"]
            if x["op"] == "height":
                ops.append({"op": "height", "h": base + x["h"]})
            elif x["op"] == "mine":
                ops.append({"op": "block", "b": x["b"], "h": base + x["h"], "ts": rnd.choice([-5000, -5000, -4300, -1000])})
                for e in x["evs"]:
                    e = dict(e)
                    e["bad"] = "" if e["ok"] else rnd.choice(BAD_KINDS)
                    ops.append({"op": "emit", "e": e})
            elif x["op"] == "reorg":
                ops.append({"op": "reorg", "b": x["b"]})
            elif x["op"] == "foreign":
                for e in x["evs"]:
                    e = dict(e)
                    e["bad"] = ""
                    ops.append({"op": "foreign", "e": e})
            elif x["op"] == "req":
                ops.append({"op": "req", "tx": x["tx"]})
        sc["steps"].append({"after": None, "ops": [{"op": "height", "h": base + 8}]})
        sc = finish_scenario(sc, "tlc", "tlc:" + profile)
        if sc is not None:
            res.append(sc)
        if len(res) >= n:
            break
    return res


# =============================================================================== C08 / C09: running the real watcher

def _crash_where(out):
    """First frames of the watcher package in a Go crash dump."""
    m = re.search(r"(panic: .*|fatal error: .*)", out)
    head = m.group(1) if m else "process died"
    funcs = re.findall(r"pkg/alephium\.(\(\*?\w+\)\.\w+|\w+)\(", out)
    funcs = [f for f in funcs if not f.startswith("an") and "Verif" not in f]
    return head, funcs[:4]


def _run_shard(binp, work, idx, scenarios):
    """Runs one shard sequentially in child processes; a child that dies (SIGSEGV in a watcher goroutine kills the whole
    process) is the observation: a Crash line is appended for the scenario in progress and the next child continues."""
    sp = os.path.join(work, "wscen_%d.ndjson" % idx)
    tp = os.path.join(work, "wtrace_%d.ndjson" % idx)
    with open(sp, "w") as fh:
        for s in scenarios:
            fh.write(json.dumps(s) + "\n")
    if os.path.exists(tp):
        os.remove(tp)
    skip = 0
    crashes = []
    while skip < len(scenarios):
        rc, out = vlib.run_test_binary(binp, "TestVerifAlphWatcher$", os.path.join(vlib.REPO, "node", "pkg", "alephium"),
                                       env={"VERIF_SCENARIOS": sp, "VERIF_TRACE": tp, "VERIF_SKIP": skip}, timeout=1500)
        if "VERIF-ALPH-DONE" in out:
            break
        lines = vlib.read_ndjson(tp) if os.path.exists(tp) else []
        open_t = None
        for ln in lines:
            if ln["ev"] == "Reset":
                open_t = ln["t"]
            elif ln["ev"] in ("End", "Crash"):
                open_t = None
        if open_t is None:
            raise vlib.Broken("watcher harness died outside a scenario (rc=%d):\n%s" % (rc, out[-3000:]))
        head, funcs = _crash_where(out)
        if not funcs and "panic" not in out and "fatal error" not in out and "SIGSEGV" not in out:
            raise vlib.Broken("watcher harness stopped without a Go crash dump (rc=%d):\n%s" % (rc, out[-3000:]))
        with open(tp, "a") as fh:
            fh.write(json.dumps({"t": open_t, "n": 0, "ev": "Crash", "a": {"what": head, "where": funcs}, "clk": 0}) + "\n")
        crashes.append({"scenario": open_t, "what": head, "where": funcs, "dump": out[-2500:]})
        pos = [i for i, s in enumerate(scenarios) if s["id"] == open_t]
        skip = pos[0] + 1
    return vlib.read_ndjson(tp), crashes


def watch_run(work, scenarios, jobs=4):
    """Runs every scenario on the real Watcher.Run (child test processes, `jobs` in parallel). Returns (lines, crashes, wall)."""
    from concurrent.futures import ThreadPoolExecutor
    binp = build_binary(work)
    for i, s in enumerate(scenarios):
        s["id"] = i + 1
    shards = [scenarios[i::jobs] for i in range(jobs)]
    t0 = time.time()
    with ThreadPoolExecutor(max_workers=jobs) as ex:
        futs = [ex.submit(_run_shard, binp, work, i, sh) for i, sh in enumerate(shards) if sh]
        res = [f.result() for f in futs]
    by_t = {}
    crashes = []
    for lines, cr in res:
        crashes += cr
        for ln in lines:
            by_t.setdefault(ln["t"], []).append(ln)
    out = []
    for t in sorted(by_t):
        for ln in by_t[t]:
            ln["n"] = len(out) + 1
            out.append(ln)
    return out, crashes, time.time() - t0


def compress(lines):
    """Drops idle polling that cannot change the specification state: the third and later of consecutive count requests
    with the same answer, with nothing but height polls / handler rounds in between, are stuttering steps of F_PollCount
    (the first two are kept: TLC decides whether polling again without paging was allowed)."""
    out = []
    last_count, same = None, 0
    for ln in lines:
        if ln["ev"] == "Req" and ln["a"]["route"] == "count" and not ln["a"]["fail"]:
            if last_count == ln["a"]["c"]:
                same += 1
            else:
                last_count, same = ln["a"]["c"], 1
            if same > 2:
                continue
            out.append(ln)
            continue
        if ln["ev"] in ("Env", "RunStart", "RunExit", "Crash", "Reset") or (
                ln["ev"] == "Req" and ln["a"]["route"] in ("page", "version", "clique", "multicall")):
            last_count, same = None, 0
        out.append(ln)
    return out


def watch_validate(work, lines, tag="w"):
    """TLC decides every recorded scenario (Trace_AlphWatcher). Returns (rejections, tlc result, per-scenario summary)."""
    sdir = spec_dir(work)
    cfgp = os.path.join(sdir, "Trace_AlphWatcher.cfg")
    floor, secs = constants_from_source()
    cfg = open(os.path.join(vlib.SPEC, "Trace_AlphWatcher.cfg")).read()
    cfg = re.sub(r"Floor = \d+", "Floor = %d" % floor, cfg)
    cfg = re.sub(r"BlockSecs = \d+", "BlockSecs = %d" % secs, cfg)
    open(cfgp, "w").write(cfg)
    with open(os.path.join(sdir, "trace.ndjson"), "w") as fh:
        for ln in lines:
            fh.write(json.dumps(ln) + "\n")
    with open(os.path.join(sdir, "diag.ndjson"), "w") as fh:
        fh.write('{"k":0,"l":0}\n')
    r = vlib.tlc(work, "Trace_AlphWatcher", "Trace_AlphWatcher.cfg", workers=1, timeout=2400, heap="12g")
    hw = dict((int(a), int(b)) for a, b in re.findall(r'<<"HWM", (\d+), (\d+)>>', r["out"]))
    fin = vlib.tlc_prints(r["out"], "FINISHED")
    if not hw or not fin or fin[-1]["lines"] != len(lines):
        raise vlib.Broken("watcher trace validation did not finish:\n" + r["out"][-3000:])
    hwm = [hw.get(i + 1, 0) for i in range(len(hw))]
    # messages forwarded by the re-observation path in the accepted scenarios (per scenario: the explanation with most)
    ro = {}
    for a, b in re.findall(r'<<"REOBS", (\d+), (\d+)>>', r["out"]):
        ro[int(a)] = max(ro.get(int(a), 0), int(b))
    r["reobs_forwards"] = sum(ro.values())
    resets = [i for i, ln in enumerate(lines) if ln["ev"] == "Reset"]
    if len(hwm) != len(resets):
        raise vlib.Broken("trace validation reported %d scenarios, %d recorded" % (len(hwm), len(resets)))
    rej = []
    for k, start in enumerate(resets):
        end = resets[k + 1] if k + 1 < len(resets) else len(lines)      # 0-based index one past the scenario
        reached = hwm[k]                                                 # 1-based index of the first unexplained line
        if reached <= end:
            rej.append({"k": k + 1, "t": lines[start]["t"], "l": reached, "line": lines[reached - 1]})
    if rej:
        with open(os.path.join(sdir, "diag.ndjson"), "w") as fh:
            for x in rej:
                fh.write(json.dumps({"k": x["k"], "l": x["l"]}) + "\n")
        r2 = vlib.tlc(work, "Trace_AlphWatcher", "Trace_AlphWatcher.cfg", workers=1, timeout=1200, heap="12g")
        fr = vlib.tlc_prints(r2["out"], "FRONTIER")
        for x in rej:
            x["frontier"] = [f["s"] for f in fr if f["k"] == x["k"]][:6]
    return rej, r


def _event_table(lines):
    ev, blocks = {}, {}
    for ln in lines:
        if ln["ev"] == "Env":
            a = ln["a"]
            if a["op"] in ("emit", "foreign"):
                ev[a["e"]["id"]] = dict(a["e"], bad=a.get("bad", ""))
            elif a["op"] == "block":
                blocks[a["b"]] = {"h": a["h"], "ts": a["ts"], "main": True}
            elif a["op"] == "reorg" and a["b"] in blocks:
                blocks[a["b"]]["main"] = False
    return ev, blocks


def classify(rj, scen_lines, mainnet):
    """(property, signature) of a rejected scenario.  Attribution only: the verdict is TLC's."""
    ln = rj["line"]
    upto = [x for x in scen_lines if x["n"] < ln["n"]]
    ev, blocks = _event_table(upto)
    fr = rj.get("frontier") or [{}]
    if ln["ev"] == "Crash":
        where = (ln["a"].get("where") or ["?"])[0]
        where = re.sub(r"[^A-Za-z0-9.]+", "", where)
        shape = next((x["a"]["ans"] for x in reversed(upto) if x["ev"] == "Req" and x["a"]["route"] == "multicall"), "none")
        what = "nil-deref" if "nil pointer" in ln["a"].get("what", "") else re.sub(r"[^A-Za-z0-9]+", "-", ln["a"].get("what", ""))[:40]
        # the process died: whatever the scenario was about, neither safety nor delivery can be claimed for it
        frames = " ".join(ln["a"].get("where") or [])
        if re.search(r"handleObsvRequest|getGovernanceEventsByTxId|handleGovernanceMessages", frames):
            # on the re-observation route: was the transaction one with a malformed event of the core contract?
            last = next((x for x in reversed(upto) if x["ev"] == "Req" and x["a"]["route"] == "events-tx" and not x["a"].get("fail")), None)
            bad = last is not None and any(e["gov"] and e["ei"] == 0 and not e["ok"] for e in last["a"]["evs"])
            return "C08+C09", "crash/reobservation/%s/%s/%s" % ("malformed-event" if bad else "no-malformed-event", where, what)
        return "C08+C09", "crash/%s/%s/last-multicall=%s" % (where, what, shape)
    # Run ended although no API error was served: whichever line of that episode TLC could not explain first (the
    # fetcher goes on for a moment after reporting the error), it is the same event
    later_exit = next((x for x in scen_lines if x["n"] >= ln["n"] and x["ev"] == "RunExit"), None)
    api_fail = any(x["ev"] == "Req" and x["a"].get("fail") for x in scen_lines if later_exit and x["n"] < later_exit["n"])
    if later_exit is not None and not api_fail and ln["ev"] in ("RunExit", "Req"):
        since = []
        for x in scen_lines:
            if x["n"] > later_exit["n"]:
                break
            if x["ev"] == "RunStart":
                since = []
            if x["ev"] == "Req" and x["a"]["route"] == "page":
                since += x["a"]["evs"]
        if any(e["ei"] != 0 for e in since):
            cause = "wrong-event-index"
        elif any(not e["ok"] for e in since):
            cause = "malformed-event"
        elif any(e["cl"] == 255 for e in since):
            cause = "wellformed-event-cl=255"
        elif any(x["ev"] == "Req" and x["a"]["route"] == "multicall" and x["a"].get("ans") == "fail"
                 for x in scen_lines if x["n"] < later_exit["n"]):
            cause = "metadata-request-error"      # the HTTP error of a metadata multi-call is not an API error that may end Run
        else:
            cause = "unknown"
        return "C09", "run-exit/event-content/%s" % cause
    if ln["ev"] == "Out":
        e = ev.get(ln["a"]["id"])
        path = "reobs" if any(ln["a"]["id"] in (f.get("reo", {}).get("all") or []) and f.get("reo", {}).get("st") != "idle"
                              for f in fr) else "poll"
        already = any(x["ev"] == "Out" and x["a"]["id"] == ln["a"]["id"] for x in upto)
        since = upto
        if path == "reobs":      # evidence of this re-observation only
            st = [i for i, x in enumerate(upto) if x["ev"] == "Req" and x["a"]["route"] == "status"]
            since = upto[st[-1]:] if st else upto
        if e is None:
            return "C08", "forward/unknown-message"
        b = blocks.get(e["blk"], {})
        if not ln["a"].get("exact"):
            why = "message-differs-from-event"
        elif not e["gov"]:
            why = "event-of-another-contract"
        elif e["ei"] != 0 or not e["ok"]:
            why = "malformed-event"
        elif not e["tb"]:
            why = "sender-not-token-bridge"
        elif not b.get("main", True) and not next((x["a"]["r"] for x in reversed(since) if x["ev"] == "Req" and x["a"]["route"] == "is-main"
                                                    and x["a"].get("b") == e["blk"] and not x["a"].get("fail")), False):
            why = "orphaned-block"      # the node never said "main chain" for this block after it was orphaned
        elif b and b["ts"] + dur(e, mainnet) > 0:
            why = "before-wall-clock-floor"
        elif e["kind"] == "attest":
            why = "attestation-not-validated"
        elif already and path == "poll":
            why = "second-forward"
        else:
            hs = [x["a"]["h"] for x in upto if x["ev"] == "Req" and x["a"]["route"] == "chain-info" and not x["a"].get("fail")]
            if b and hs and b["h"] + e["cl"] <= hs[-1]:
                # every condition of C08 holds on the ground truth; what TLC could not explain is the order of the
                # watcher's steps (e.g. a pending block that was not visited in this round)
                return "C08+C09", "forward/%s/outside-the-round-structure" % path
            why = "confirmations-missing"
        return "C08", "forward/%s/%s" % (path, why)
    if ln["ev"] == "End":
        if ln["a"].get("spin"):
            return "C09", "liveness/spin"
        if ln["a"].get("untaken") and not ln["a"].get("missing"):
            # requests were put on the re-observer's channel and never taken: it is stalled (or gone)
            reqs = [x["a"]["tx"] for x in scen_lines if x["ev"] == "Env" and x["a"]["op"] == "req"]
            ev_all, _ = _event_table(scen_lines)
            bad = any(e["tx"] in reqs and e["gov"] and (not e["ok"] or e["ei"] != 0) for e in ev_all.values())
            return "C09", "liveness/reobserver-stalled/%s" % ("after-malformed-event" if bad else "no-malformed-event")
        ev_all, _ = _event_table(scen_lines)
        miss = [ev_all.get(i, {}) for i in ln["a"].get("missing", [])]
        if miss and all(m.get("cl") == 255 for m in miss):
            return "C09", "liveness/final-message-not-forwarded/cl=255"
        if not miss:
            # every expected message did reach the output, but (according to TLC) not through the polling path
            return "C09", "liveness/final-message-not-forwarded/only-by-re-observation"
        return "C09", "liveness/final-message-not-forwarded"
    if ln["ev"] == "Req":
        a = ln["a"]
        if a["route"] == "page":
            f = fr[0].get("fet", {})
            prev = next((x for x in reversed(upto) if x["ev"] == "Req" and x["a"]["route"] == "page"), None)
            if prev and prev["a"]["start"] == a["start"] and not prev["a"]["evs"]:
                return "C09", "spin/page-repeated-after-empty-page"
            if prev and a["start"] < prev["a"]["next"]:
                return "C08+C09", "page/refetch-of-fetched-index"
            return "C08+C09", "page/not-allowed/fet=%s" % f.get("st")
        return "C08+C09", "request/%s%s/not-allowed/fet=%s,han=%s,reo=%s" % (a["route"], "-failed" if a.get("fail") else "", fr[0].get("fet", {}).get("st"),
                                                                          fr[0].get("han", {}).get("st"), fr[0].get("reo", {}).get("st"))
    return "C08+C09", "%s/not-allowed" % ln["ev"]


# =============================================================================== fixed scenarios (independent of VERIF_SEED)

def pinned(prop):
    """A few hand-written scripts that every run includes, so that the history classes of DESIGN.md section 7 are exercised
    whatever the seed: the seeded and TLC-generated scenarios vary around them."""
    res = []

    def start(mainnet=False, page=2):
        g = WGen(random.Random(0)).new(mainnet=mainnet, page=page)
        g.w.height = g.base_h = 100
        g.sc["pollMs"] = 3
        g.op(op="tok", id="t1", shape="m1")
        g.op(op="tok", id="t2", shape="failed1")
        g.op(op="tok", id="t3", shape="failed2")
        g.step("count", 1)
        return g

    def done(g, name):
        sc = finish_scenario(g.sc, "pinned", "pinned:" + name)
        if sc is None:
            raise vlib.Broken("pinned scenario %s violates the time margins" % name)
        res.append(sc)

    # a one-shot API error on every route of the re-observation path (both plans)
    for route in ("status", "events-tx", "headers", "is-main", "chain-info", "multicall"):
        g = WGen(random.Random("apifail-reobs-" + route))
        sc = g.apifail_reobs(route=route, settle=400)
        if sc is None:
            raise vlib.Broken("pinned scenario apifail-reobs-%s violates the time margins" % route)
        sc["src"], sc["family"] = "pinned", "pinned:apifail-reobs-" + route
        res.append(sc)
    # re-observation of transactions with a malformed core-contract event: every malformation kind (C09), three of them (C08)
    shapes = ["alone", "before-good", "after-good", "two-bad", "attest-shaped"]
    for k, bad in enumerate(BAD_KINDS if prop == "C09" else BAD_KINDS[:3]):
        g = WGen(random.Random("reobs-malformed-" + bad))
        sc = g.reobs_malformed(bad=bad, shape=shapes[k % len(shapes)], pre=(k % 2 == 0))
        if sc is None:
            raise vlib.Broken("pinned scenario reobs-malformed-%s violates the time margins" % bad)
        sc["src"], sc["family"] = "pinned", "pinned:reobs-malformed-" + bad
        res.append(sc)
    if prop == "C08":
        # mainnet token transfers of every recipient size, cl below the floor: held in a 1000-s-old block (polling path and
        # re-observation), forwarded from a 5000-s-old block
        for mode in ("poll", "reobs-only"):
            g = WGen(random.Random(0)).new(mainnet=True, page=3)
            g.w.height = g.base_h = 100
            g.sc["pollMs"] = 3
            if mode == "poll":
                g.step("count", 1)
            young, old_ = g.block(ts=-1000), g.block(ts=-5000)
            held = [g.transfer(young, size=sz, cl=k % 3) for k, sz in enumerate(WGen.RECIPIENT_SIZES)]
            held.append(g.odd_payload(young, "1b-transfer", tb=True, cl=1))
            for sz in WGen.RECIPIENT_SIZES:
                g.transfer(old_, size=sz, cl=1)
            g.raise_height(10)
            if mode != "poll":
                g.step("count", 1)
            for e in held:
                g.step(None); g.op(op="req", tx=e["tx"])
            done(g, "mainnet-transfer-recipient-sizes-" + mode)
        # the core contract emits another event index in the re-observed tx: only WormholeMessage events count
        g = start()
        b = g.block(ts=-5000)
        e = g.good(b, cl=0)
        g.emit(b, ei=1, tx=e["tx"])
        b2 = g.block(ts=-5000)
        x = g.emit(b2, ei=1)
        g.step(None); g.raise_height(2)
        g.step(None); g.op(op="req", tx=e["tx"])
        g.step(None); g.op(op="req", tx=x["tx"])
        done(g, "reobs-other-event-index")
        # a look-alike event of another contract in the tx of a token-bridge message, then a re-observation request
        g = start()
        b = g.block(ts=-5000)
        e = g.good(b, cl=1)
        g.foreign(e, cl=0)
        g.step(None); g.raise_height(3)
        g.step(None); g.op(op="req", tx=e["tx"])
        done(g, "reobs-lookalike")
        # requests that are not the Alephium watcher's (other chain ids, truncation alias of 255, short / long tx hash),
        # then the genuine one
        g = start()
        b = g.block(ts=-5000)
        e = g.good(b, cl=0)
        g.step(None); g.raise_height(2)
        g.step(None)
        for ch in (2, 254, 256, 65791):
            g.op(op="req", tx=e["tx"], chain=ch)
        for ln in (31, 33):
            g.op(op="req", tx=e["tx"], len=ln)
        g.step(None); g.op(op="req", tx=e["tx"])
        done(g, "reobs-foreign-requests")
        # mainnet transfer in a 100-s-old block: held by the polling path, re-observation requested
        g = start(mainnet=True)
        b = g.block(ts=-100)
        e = g.good(b, cl=1)
        g.step(None); g.raise_height(3)
        g.step(None); g.op(op="req", tx=e["tx"])
        done(g, "reobs-young-mainnet-transfer")
        # the tx is orphaned and mined again: events/tx-id returns both blocks' events
        g = start()
        b = g.block(ts=-5000)
        e = g.good(b, cl=0)
        g.step(None); g.op(op="reorg", b=b)
        nb = g.block(ts=-4300, h=g.w.blocks[b]["h"])
        g.good(nb, cl=0, tx=e["tx"])
        g.step(None); g.raise_height(2)
        g.step(None); g.op(op="req", tx=e["tx"])
        done(g, "reobs-reincluded-tx")
        # a re-observed tx with several messages of different consistency levels: only the deep-enough ones may come out
        for name, order, fpos in (("low-high", [1, 50], -1), ("high-low", [50, 1], -1), ("three", [50, 1, 2], -1),
                                  ("foreign-low", [0, 50, 1], 0)):
            g = WGen(random.Random(0))
            sc = None
            g.r = random.Random("multi-" + name)
            sc = g.reobs_multi(order=order, foreign=fpos, young=False)
            if sc is None:
                raise vlib.Broken("pinned scenario reobs-multi-%s violates the time margins" % name)
            sc["src"], sc["family"] = "pinned", "pinned:reobs-multi-" + name
            res.append(sc)
        # count / page race on the polling path: the surplus events must not be fetched (and forwarded) twice
        for page, extra in ((2, 1), (1, 2), (3, 2)):
            g = start(page=page)
            b = g.block(ts=-5000)
            g.good(b, cl=0); g.good(b, cl=1)
            g.step("count", 2)
            for _ in range(extra):
                g.good(b, cl=0)
            g.step(None); g.raise_height(2)
            g.step(None); g.raise_height(1)
            done(g, "append-after-count-p%d" % page)
        # metadata answers of another value type than the method returns (one per position, arrays included): no usable contract
        # answer, so the attestation is not forwarded, on the polling path and on re-observation
        for shape in ("val0:array", "val1:bool", "val2:array-nested", "val2:bytevec", "val2:u256big", "val0:address"):
            g = start()
            g.op(op="tok", id="t5", shape=shape)
            b = g.block(ts=-5000)
            g.good(b, cl=0)
            e = g.good(b, kind="attest", tok="t5", claim="m1", cl=0)
            g.step(None); g.raise_height(2)
            g.step(None); g.op(op="req", tx=e["tx"])
            done(g, "metadata-answer-" + shape.replace(":", "-"))
        # stale / lagging height: the events of block h are served while the node still reports h-1 (and later falls back to it)
        for mode in ("poll", "reobs"):
            g = start()
            b = g.block(ts=-5000)
            bh = g.w.blocks[b]["h"]
            e = g.good(b, cl=10)
            g.good(b, cl=0)
            g.op(op="lagheight", h=bh - 1)
            if mode == "reobs":
                g.step(None); g.op(op="req", tx=e["tx"])
            g.step(None); g.op(op="lagheight", h=bh)
            g.step(None); g.op(op="lagheight", h=bh - 1)
            if mode == "reobs":
                g.op(op="req", tx=e["tx"])
            g.step(None); g.op(op="height", h=bh + 10)
            done(g, "stale-height-" + mode)
        g = WGen(random.Random("lag-reobs-only"))
        sc = g.lag_reobs(back=1, cl=10)
        if sc is None:
            raise vlib.Broken("pinned scenario stale-height-reobs-only violates the time margins")
        sc["src"], sc["family"] = "pinned", "pinned:stale-height-reobs-only"
        res.append(sc)
        # attestations that differ from what the token contract reports in exactly one field (each alone), on both paths
        for tok, claim in ATTEST_PAIRS + [("alph", "malphd"), ("alph", "malphn")]:
            g = start()
            g.op(op="tok", id="t3", shape="m2")
            g.op(op="tok", id="t4", shape="m1d")
            b = g.block(ts=-5000)
            g.good(b, cl=0)
            e = g.good(b, kind="attest", tok=tok, claim=claim, cl=0)
            ok = g.good(b, kind="attest", tok="t4", claim="m1d", cl=0)      # matching metadata with the other decimals: must come out
            g.step(None); g.raise_height(2)
            g.step(None); g.op(op="req", tx=e["tx"])
            g.step(None); g.op(op="req", tx=ok["tx"])
            done(g, "attest-mismatch-%s-%s" % (tok, claim))
        # polling path: orphaned before confirmation, foreign sender, mismatching attestation, cl not reached
        g = start()
        b = g.block(ts=-5000)
        g.good(b, cl=0); g.good(b, cl=0, tb=False); g.good(b, kind="attest", tok="t1", claim="m2", cl=0); g.good(b, cl=9)
        b2 = g.block(ts=-5000)
        g.good(b2, cl=2)
        g.step("is-main", 1); g.op(op="reorg", b=b2)
        g.step(None); g.raise_height(3)
        done(g, "poll-mixed")
    if prop == "C09":
        # events appended between the count request and the first page request
        g = start(page=2)
        b = g.block(ts=-5000)
        g.good(b, cl=0); g.good(b, cl=0)
        g.step("count", 2)
        g.good(b, cl=0)
        g.step(None); g.raise_height(2)
        done(g, "append-after-count")
        # re-observation requests while the polling path is at work (confirmed tx, unknown tx, another chain's request):
        # whatever the re-observer does, the watcher must stay up and every final message must still come out
        g = start(page=2)
        b = g.block(ts=-5000)
        e1 = g.good(b, cl=0); e2 = g.good(b, cl=2)
        g.step(None); g.op(op="req", tx=e1["tx"]); g.op(op="req", tx=4242); g.op(op="req", tx=e2["tx"], chain=2)
        g.step(None); g.raise_height(1)
        g.step(None); g.op(op="req", tx=e2["tx"])
        b2 = g.block(ts=-5000)
        g.good(b2, cl=0)
        g.step(None); g.raise_height(2)
        g.step(None); g.op(op="req", tx=e2["tx"])
        g.step(None)
        b3 = g.block(ts=-5000)
        g.good(b3, cl=0)
        g.step(None); g.raise_height(1)
        done(g, "reobservation-during-polling")
        # decodable events with an EMPTY payload or a single payload byte (every payload id), from a foreign sender and from
        # the token bridge, alone on the page and between well-formed token-bridge messages
        for k, what in enumerate(["empty", "empty", "1b-transfer", "1b-attest", "1b-0", "1b-3", "1b-255"]):
            tbs = (k % 2 == 1)
            for alone in (True, False):
                g = start(page=1 if alone else 3)
                b = g.block(ts=-5000)
                if not alone:
                    g.good(b, cl=0)
                g.odd_payload(b, what, tb=tbs)
                if not alone:
                    g.good(b, cl=0)
                g.step(None); g.raise_height(2)
                g.step(None)
                b2 = g.block(ts=-5000)
                g.good(b2, cl=0)
                g.step(None); g.raise_height(1)
                done(g, "payload-%s-%s-%s" % (what, "tb" if tbs else "foreign", "alone" if alone else "between"))
        # same target chain, increasing sequences, decreasing confirmation delays: the later sequences are final first
        for name, step_by_one in (("stepwise", True), ("same-round", False)):
            g = start(page=3)
            b = g.block(ts=-5000)
            g.good(b, cl=3, tgt=2)
            b2 = g.block(ts=-5000)
            g.good(b2, cl=1, tgt=2); g.good(b2, cl=0, tgt=2)
            top = g.w.height
            if step_by_one:
                for _ in range(4):
                    g.step(None); g.raise_height(1)
            else:
                g.step(None); g.op(op="height", h=top + 1)
                g.step(None); g.op(op="height", h=top + 5)
            done(g, "out-of-order-finality-" + name)
        # schedule control: the page answer of the poll that finds the first new event is held for 60 ms while nothing is pending
        for route in ("page", "multicall"):
            g = start(page=2)
            g.op(op="hold", route=route, ms=60)
            b = g.block(ts=-5000)
            if route == "multicall":
                g.good(b, kind="attest", tok="t1", claim="m1", cl=0)
            g.good(b, cl=0)
            g.step(None); g.raise_height(2)
            done(g, "held-" + route + "-while-idle")
        # one malformed event between two good ones
        for bad in ("chain70000", "fields5"):
            g = start(page=3)
            b = g.block(ts=-5000)
            g.good(b, cl=0); g.emit(b, ok=False, tb=False, bad=bad); g.good(b, cl=0)
            g.step(None); g.raise_height(2)
            done(g, "malformed-" + bad)
        # another event index on the stream
        g = start(page=3)
        b = g.block(ts=-5000)
        g.good(b, cl=0); g.emit(b, ei=1); g.good(b, cl=0)
        g.step(None); g.raise_height(2)
        done(g, "wrong-event-index")
        # attestation-shaped events (foreign caller / token bridge alternating) naming a contract whose metadata multi-call
        # answers in EVERY failure shape: HTTP error, 2 or 4 results, a failed call or no return value in each position,
        # wrong value type, decimals out of range.  The neighbours must come out; the watcher must stay up.
        for k, shape in enumerate(TOK_SHAPES):
            g = start(page=3)
            g.op(op="tok", id="t5", shape=shape)
            b = g.block(ts=-5000)
            g.good(b, cl=0); g.good(b, kind="attest", tok="t5", claim="m1", cl=0, tb=(k % 2 == 1)); g.good(b, cl=0)
            g.step(None); g.raise_height(2)
            g.step(None)
            b2 = g.block(ts=-5000)
            g.good(b2, cl=0)
            g.step(None); g.raise_height(1)
            done(g, "metadata-call-" + shape)
    return res
