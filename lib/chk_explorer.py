"""Check C19 (DESIGN.md section 6): exhaustive TLC runs of the bounded Explorer model with the intended synchronisation,
TLC behaviours and seeded scenarios replayed on the real GuardianSets / vaaGossipConsumer.Push of module explorer-backend
under the race detector, a concurrent lookup/append hammer, recorded traces validated against Explorer.tla."""
import json
import os
import random
import time
from collections import Counter

import fam_explorer as fe
import vlib

PROPS = ["C19"]

NOTE = ("Trusted: TLC, the Go toolchain and race detector, ECDSA/Keccak, the fake JSON-RPC endpoint that plays the core contract "
        "(getGuardianSet of an index that does not exist returns the zero struct, as Getters.sol does). The explorer module links "
        "node@v0.0.0-20240818215257-cb0667c4f6c1 from the module cache, as the product does. Exhaustive runs: 2 readers x 1 updater x 3 sets, "
        "7 VAA classes, queue capacity 1; real domain: sets of 1..19 keys, universes of up to 9 sets, queue capacity 1..3.")

MANIFEST = {
    "C19": dict(text="Explorer.tla models the guardian-set list (index, slice, lock; lookups and appends as the memory accesses and critical "
                     "sections the code has) and Push (lookup, verify against the named set, dedup, non-blocking enqueue, mark) with the "
                     "intended synchronisation; TLC checks RightSet, NoTornRead, OnlyVerifiedQueued, FailedHandoffNotMarked exhaustively. "
                     "The real code is driven under -race with real keys through VAA classes and lookup/append histories, and a hammer of "
                     "concurrent lookups against the append path; TLC validates every call/return against the specification "
                     "(linearizability of the concurrent log), and every race-detector report or panic is a violation.",
                ref="6/C19", note=NOTE,
                technique="TLA+ model checking (TLC) + trace validation with inferred internal steps + race detector on a concurrent hammer"),
}

PLAN = {
    # tier: (mc cfgs, tlc scenarios per kind, generated per kind, hammer (readers, logged ops, appends, free ops))
    # ... , append hammers (count, rounds, max concurrent appenders), held-fetch scenarios per kind, updater scenarios)
    "quick": (["MC_Explorer_sets_quick.cfg", "MC_Explorer_appenders_quick.cfg", "MC_Explorer_push_quick.cfg"], 25, 60, (4, 40, 6, 1500), (2, 25, 8), 8, 16),
    "thorough": (["MC_Explorer_sets_thorough.cfg", "MC_Explorer_push_thorough.cfg", "MC_Explorer_push2_thorough.cfg"], 150, 1200, (6, 120, 12, 20000), (8, 60, 8), 60, 150),
}

ASSUME = [
    "the chain endpoint is simulated: eth_call of getGuardianSet / getCurrentGuardianSetIndex answered like the core contract, "
    "or a closed local port (every fetch fails at once)",
    "guardian sets have pairwise distinct keys; a VAA's message id is a function of its body",
    "the deduplicator is the real one on the go-cache store its own tests use (synchronous); cache expiry (30 s) does not occur "
    "within a scenario and is an explicit environment action in the model",
    "the persistence queue has the capacity the scenario states (1..3); the consumer drains only when the scenario says so",
    "ECDSA/Keccak are trusted; signatures are real secp256k1 signatures made by the harness",
]


def run(prop, tier, replay=None):
    t0 = time.time()
    work = vlib.scratch(prop)
    mcs, ntlc, ngen, ham, aham, nheld, nupd = PLAN[tier]
    seed = vlib.seed()
    mc_states = mc_trans = 0
    mc_info = {}
    if replay:
        rp = json.load(open(replay))
        scs = [v["detail"]["scenario"] for v in rp.get("violations", []) if v.get("detail", {}).get("scenario")]
        if not scs:
            raise vlib.Broken("replay file has no scenario")
        sets = [s for s in scs if not any(st["ev"] == "Push" for st in s["steps"])]
        push = [s for s in scs if any(st["ev"] == "Push" for st in s["steps"])]
    else:
        for cfg in mcs:
            r = vlib.tlc_must_pass(work, "MC_Explorer", cfg, workers=vlib.NCPU, timeout=3000, heap="24g")
            mc_states += r["distinct"]
            mc_trans += r["generated"]
            mc_info[cfg] = [r["distinct"], r["generated"], round(r["wall_s"], 1)]
            print("TLC %s: %d distinct states, %d transitions, depth %d, %.0fs" % (cfg, r["distinct"], r["generated"], r["depth"], r["wall_s"]))
        r = vlib.tlc(work, "MC_Explorer", "MC_Explorer_unlocked_control.cfg", workers=4, timeout=300)
        if "Invariant NoTornRead is violated" not in r["out"]:
            raise vlib.Broken("negative control failed: unsynchronised readers do not violate NoTornRead in the model:\n" + r["out"][-1500:])
        mc_info["MC_Explorer_unlocked_control.cfg"] = "NoTornRead violated, as it must be"
        print("TLC negative control: readers that do not take the lock violate NoTornRead in the model (expected)")
        r = vlib.tlc(work, "MC_Explorer", "MC_Explorer_checkthenact_control.cfg", workers=4, timeout=300)
        if "Invariant ListIsChainPrefix is violated" not in r["out"]:
            raise vlib.Broken("negative control failed: two appenders that decide what is new before taking the lock do not violate "
                              "ListIsChainPrefix in the model:\n" + r["out"][-1500:])
        mc_info["MC_Explorer_checkthenact_control.cfg"] = "ListIsChainPrefix violated, as it must be"
        print("TLC negative control: appenders that check before they lock violate ListIsChainPrefix in the model (expected)")
        rnd = random.Random("explorer-hammer-%d" % seed)
        sets = fe.tlc_scenarios(work, ntlc, seed, "sets") + fe.gen_scenarios(seed, ngen, "sets") + [fe.hammer_scenario(rnd, *ham, mode=m) for m in ("lookup", "current")] + [fe.append_hammer_scenario(rnd, aham[1], aham[2]) for _ in range(aham[0])]
        sets += fe.held_scenarios(seed, nheld, "sets") + fe.updater_scenarios(seed, nupd)
        push = fe.tlc_scenarios(work, ntlc, seed, "push") + fe.gen_scenarios(seed, ngen, "push") + fe.held_scenarios(seed, nheld, "push")
        push += fe.tlc_scenarios(work, max(8, ntlc // 2), seed, "push-unknown") + fe.gen_scenarios(seed, max(20, ngen // 3), "push-unknown")
    for i, s in enumerate(sets + push):
        s["tid"] = i + 1
    by_tid = {s["tid"]: s for s in sets + push}
    lines, races, wall, crashes = [], [], 0.0, []
    for kind, scs in (("sets", sets), ("push", push)):
        if scs:
            ls, rc_, w, crash = fe.replay(work, scs, kind, prop)
            lines += ls
            races += rc_
            wall += w
            if crash:
                crashes.append((kind,) + crash)
                print("the %s harness process was killed by a crash in the code under test: %s" % (kind, crash[0]))
    print("replayed %d scenarios on the real explorer code under -race (%d logged lines, %d race reports) in %.1fs" % (
        len(by_tid), len(lines), len(races), wall))
    first_bad, r = fe.validate(work, lines)
    nrej = sum(1 for v in first_bad.values() if v is not None)
    print("trace validation: %d states, %.1fs, %d of %d traces with a line the specification cannot explain" % (
        r["distinct"], r["wall_s"], nrej, len(first_bad)))
    by_t = {}
    for ln in lines:
        by_t.setdefault(ln["t"], []).append(ln)

    verdict = vlib.Verdict(prop)
    racesigs = Counter()
    for sig, text in races:
        if sig == "race/unattributed" or "zz_verif" in sig:
            raise vlib.Broken("a race report could not be attributed to the code under test (harness race?):\n" + text)
        if racesigs[sig] == 0:
            verdict.add(sig, {"kind": "race detector report", "report": text})
        racesigs[sig] += 1
    for kind, sig, text, pending in crashes:
        sc = by_tid.get(pending[0]) if pending else None
        verdict.add(sig, {"kind": "crash of the code under test outside any call the harness makes (the test process died)",
                          "harness": kind, "output": text,
                          "scenario_running": None if sc is None else {"src": sc.get("src"), "init": {k: v for k, v in sc["init"].items() if k != "chain"},
                                                                       "steps": sc["steps"][:12]}})
    panics = Counter()
    for ln in lines:
        if ln["ev"] == "Panic":      # a call into the code under test panicked (recovered by the harness)
            sig = fe.panic_signature(ln)
            if panics[sig] < 5:
                verdict.add(sig, {"kind": "panic in the code under test", "call": ln["a"].get("call"), "value": ln["a"].get("value"),
                                  "scenario_init": {k: v for k, v in (by_tid.get(ln["t"]) or {}).get("init", {}).items() if k != "chain"}})
            panics[sig] += 1
    rejects = Counter()
    for t, bad in sorted(first_bad.items()):
        if bad is None or bad["ev"] == "Panic":
            continue
        sig = fe.classify_reject(by_t[t], bad, by_tid.get(t))
        rejects[sig] += 1
        sc = by_tid.get(t)
        detail = {"kind": "trace line rejected by TLC", "line": {"ev": bad["ev"], "a": bad["a"], "s": bad.get("s"), "n": bad["n"]},
                  "history": [[x["ev"], x["a"], x.get("s")] for x in by_t[t] if x["n"] <= bad["n"]][-30:]}
        if sc is not None and sc.get("src") not in ("hammer",):
            detail["scenario"] = sc
        verdict.add(sig, detail)
    rc = verdict.finish()

    acts = Counter(ln["ev"] for ln in lines)
    classes = set()
    outs = Counter()
    for t, tl in by_t.items():
        lastpush = None
        for ln in tl:
            a = ln.get("a", {})
            if ln["ev"] == "PushCall":
                lastpush = a["v"].get("cls", a["v"]["id"])
            elif ln["ev"] == "PushRet":
                classes.add(("push", lastpush, a["out"], len((ln.get("s") or {}).get("queue", []))))
                outs["%s:%s" % (lastpush, a["out"])] += 1
            elif ln["ev"] in ("LookupRet", "CurrentRet"):
                res = a["res"]
                s = ln.get("s") or {}
                rel = None
                if "cur" in s and "i" in a:
                    rel = "known" if a["i"] <= s["cur"] else "beyond"
                classes.add((ln["ev"], res["tag"], rel, len(res.get("set", {}).get("keys", [])) if res["tag"] == "set" else None))
            elif ln["ev"] == "AppendRet":
                s = ln.get("s") or {}
                classes.add(("append", s.get("n")))
    sizes = Counter()
    for s in by_tid.values():
        for ks in s["init"]["chain"]:
            sizes[len(ks)] += 1
    sample = [{"source": s.get("src"), "init": {k: v for k, v in s["init"].items() if k != "chain"}, "steps": s["steps"][:6]}
              for s in (sets[:1] + push[:1])]
    cov = {
        "states": mc_states if not replay else max(r["distinct"], 1),
        "transitions": mc_trans if not replay else max(r["generated"], 1),
        "traces_validated_against_impl": len(first_bad),
        "samples": sample,
        "evaluations": len(lines),
        "distinct_nontrivial": len(classes),
        "rule": "one evaluation = one logged call/return of the real code that TLC had to explain; distinct = distinct (call kind, VAA class "
                "or index relative to the list, outcome, queue fill / list length) classes",
        "mc_configs": mc_info, "trace_spec_states": r["distinct"], "events": dict(acts),
        "push_outcomes_by_class": dict(outs), "guardian_set_sizes": {str(k): v for k, v in sorted(sizes.items())},
        "race_reports": dict(racesigs), "process_crashes": [c[1] for c in crashes], "panics_recovered": dict(panics),
        "updater_ticks": {"went_through": sum(1 for ln in lines if ln["ev"] == "AppendCall" and ln["a"].get("tick")),
                          "fetch_failed": sum(1 for ln in lines if ln["ev"] == "TickFailed"),
                          "startup_from_chain": sum(1 for s in by_tid.values() if s["init"].get("startup"))}, "rejected_lines": dict(rejects), "traces_fully_explained": len(first_bad) - nrej,
        "hammer": dict(zip(("readers", "logged_ops_per_reader", "appends", "free_ops_per_reader"), ham)),
        "append_hammer": dict(zip(("instances", "rounds", "max_concurrent_appenders"), aham),
                              concurrent_append_calls=sum(1 for t, tl in by_t.items() if by_tid.get(t, {}).get("src") == "append-hammer"
                                                          for x in tl if x["ev"] == "AppendCall"),
                              widest_history=max([fe._width(tl) for tl in by_t.values()] or [0])),
        "validation_passes": r.get("passes"),
        "scenario_sources": dict(Counter(s.get("src") for s in by_tid.values())),
        "known_findings_matched": getattr(verdict, "n_known", 0),
        "exhaustive": False,
    }
    vlib.write_evidence(prop, tier, "model_checking", cov, ASSUME, time.time() - t0, getattr(verdict, "n_unknown", 0))
    return rc
