"""Checks C04 C05 C06 C07 (DESIGN.md section 6): the "format / pure function" properties in the model-based-testing
form of the technique.  TLC checks the lemmas on a boundary-value domain and exports its enumeration; every exported
case and seeded cases from a much wider concrete domain are evaluated on the real code; the verdict of every
evaluation is the specification's (exported table and TLC trace validation).  The contract side ("programs"
quantifier of C04 / C07) is compared by source extraction with the tables TLC prints."""
import json
import os
import time
from collections import Counter

import extract_contracts as ec
import fam_format as ff
import vlib

PROPS = ["C04", "C05", "C06", "C07"]

NOTE = ("Trusted: TLC, the Go toolchain, Keccak-256 / secp256k1 (go-ethereum), JSON transport. Exhaustive over the model's "
        "boundary-value domain, sampling over the real 2^N domain (model-based testing, not a proof over all inputs). "
        "The Solidity / Ralph sides are compared by source extraction, not by executing the contracts (no compilers offline).")

MANIFEST = {
    "C04": dict(text="VAAWire.tla (layout tables -> Body, Digest) is model-checked: offsets 0,4,8,10,12,44,52,53, Body has a left inverse "
                     "and is pairwise injective on ~10^3 boundary values, header/sub-second independence. Every enumerated value (under "
                     "every header) and seeded random values run through the real SerializeBody / SigningMsg / Marshal and through the "
                     "processor's handleMessage with two different guardians, plus two-step histories on one VAA value (digest taken, any one "
                     "field changed in place or on a struct copy, digest / body / encoding taken again); TLC validates every recorded output. "
                     "Offsets/widths/hash/body-start expression "
                     "extracted from Messages.sol parseVM and governance.ral parseAndVerifyVAA are compared with the tables TLC prints.",
                ref="6/C04", note=NOTE, technique="TLA+ model checking (TLC) of the layout lemmas + model-based testing: TLC-enumerated cases and "
                                                  "TLC-validated traces of the real serializer; contract source extraction"),
    "C05": dict(text="VAAWire.tla Encode/Decode: RoundTrip, Canonical, Total, ShapeSound model-checked on values with payloads "
                     "1..2000(4097) / 0..3(255) signatures and on every truncation, extension, count and version rewrite of three seed "
                     "encodings. Every case, a shape lattice around every acceptance boundary, seeded byte strings, every single-bit flip "
                     "of a valid encoding, payload lengths 1..5000 and (thorough) a coverage-guided fuzz corpus run through the real "
                     "Unmarshal/Marshal under recover; TLC computes the required outcome of every recorded evaluation.",
                ref="6/C05", note=NOTE, technique="TLA+ model checking (TLC) of the codec lemmas + model-based testing with TLC as the oracle of every "
                                                  "decoder evaluation (+ Go native fuzzing in the thorough tier)"),
    "C06": dict(text="SigVerify.tla: iff-table of Verify over address lists of length <= 4 (5) with and without repeats (up to key renaming), every "
                     "signer subset and order, every single-step corruption; lemmas VerifyImpliesDistinct, CorruptionFails, oracle shape. Every "
                     "case with real secp256k1 keys, plus seeded lists of up to 256 addresses (index 255, repeats, malformed r/s/v, malleated "
                     "signatures), on the real VerifySignatures of /repo/node and of the node version the explorer links (+ the explorer's "
                     "gate driven through the exported Push path), incl. index orders across 127/128/255, non-adjacent repeated addresses and "
                     "two-step histories (verify, change a body field of the same value, verify again); TLC computes the single expected verdict "
                     "(Verify and no guardian counted twice) for every recorded evaluation from its abstract [idx, signer] description. The two "
                     "verification sites of observation.go (single gossiped signature, inbound signed VAA) are driven with the same corruption "
                     "classes on the real processor and validated by TLC against Processor.tla. A concurrent leg verifies a valid and a corrupted list "
                     "over twelve different messages at once (one goroutine each), every distinct outcome being judged by TLC like a sequential one.",
                ref="6/C06", note=NOTE, technique="TLA+ model checking (TLC) of the verification lemmas + model-based testing / trace validation of "
                                                  "the real VerifySignatures (node and explorer link)"),
    "C07": dict(text="Quorum.tla: Q(n) = floor(2n/3)+1, the three BFT lemmas and minimality for n = 1..255 (thorough: ..20000), agreement with the "
                     "Go fixed-point formula; the table n -> Q(n) printed by TLC is compared with CalculateQuorum as built from /repo/node and "
                     "as linked by the explorer (n = 0..255 and seeded n up to 10^5, validated by TLC), with the explorer's Push gate for VAAs naming a "
                     "non-current guardian set of another size (quorum-1 rejected, quorum accepted), and with the values of the quorum "
                     "expressions and acceptance comparisons extracted from Messages.sol and governance.ral. The node's use sites of the "
                     "threshold (inbound signed VAAs with q-1, q, floor(2n/3), n-floor(n/3) signatures; the own publication decision, one "
                     "observation at a time) are driven on the real processor for n = 1..19 and validated by TLC against Processor.tla.",
                ref="6/C07", note=NOTE, technique="TLA+ model checking (TLC) of the BFT arithmetic + exhaustive comparison over the wire range with the "
                                                  "Go function (two link targets) and the extracted contract formulas + trace validation of the "
                                                  "node's use sites against Processor.tla"),
}

ASSUME = [
    "Keccak-256 and secp256k1 recovery (go-ethereum) are trusted; digests and abstract signers are computed by the harness's own calls",
    "a fixed-width field of the specification is the big-endian representation of the corresponding Go field",
    "contract sources are compared by extraction of offsets / widths / formulas, not by executing them",
    "exhaustive only over the model's boundary-value domain; the real 2^N domain is sampled (seeded generators, fuzzing in the thorough tier)",
]


def B(xs):
    return bytes(xs)


# ------------------------------------------------------------------ per-property plans

def plan(prop, tier):
    q = tier == "quick"
    return {
        "C04": dict(mc=[("MC_VAAWire", "MC_VAAWire_c04_%s.cfg" % tier, "C04")], gen_n=300 if q else 4000),
        "C05": dict(mc=[("MC_VAAWire", "MC_VAAWire_c05v_%s.cfg" % tier, "C05V"), ("MC_VAAWire", "MC_VAAWire_c05b.cfg", "C05B"),
                        ("MC_VAAWire", "MC_VAAWire_c05s.cfg", "C05S")],
                    gens=[("encode", 150 if q else 1500), ("bytes", 1500 if q else 20000), ("bitflip", 100 if q else 1000),
                          ("shape", 1500 if q else 5000)],
                    fuzztime=0 if q else 240),
        "C06": dict(mc=[("MC_SigVerify", "MC_SigVerify_%s.cfg" % tier, "C06")], gen_n=400 if q else 5000),
        "C07": dict(mc=[("MC_Quorum", "MC_Quorum_%s.cfg" % tier, "C07")], gen_n=600 if q else 20000),
    }[prop]


# ------------------------------------------------------------------ comparison with the exported table (R)

def compare_exported(prop, lines, byid):
    """Differences between the real output of a line and the value TLC exported for its case: [(line, [failed names])]."""
    out = []
    for ln in lines:
        a, s = ln["a"], ln["s"]
        vec = byid.get((a.get("kind"), a.get("id")))
        if vec is None:
            continue
        failed = []
        if "panic" in s or s.get("res") == "panic":
            failed.append("nopanic")
        elif "malformed" in s:
            failed.append("completeResult")
        elif ln["ev"] == "Encode":
            if vec["kind"] == "C04":
                if s["body"] != vec["body"]:
                    failed.append("body")
                if s.get("distinctBodies") != 1 or s.get("distinctDigests") != 1 or not s.get("tailIsBody"):
                    failed.append("headerIndependent")
            else:
                if s["marshal"] != vec["enc"]:
                    failed.append("marshal")
            if not s["digestH2"]:
                failed.append("digestH2")
        elif ln["ev"] == "ProcBody":
            if not s["present"]:
                failed.append("present")
            elif s["body"] != vec["body"]:
                failed.append("body")
            if s["present"] and not s["keyH2"]:
                failed.append("keyH2")
            if s["present"] and (s["distinctBodies"] != 1 or s["distinctKeys"] != 1):
                failed.append("agree")
        elif ln["ev"] == "Decode":
            want = vec["dec"]
            if s["ok"] != want["ok"]:
                failed.append("verdict")
            elif want["ok"]:
                if s["vaa"] != want["vaa"]:
                    failed.append("fields")
                if s["reenc"] != vec["bytes"]:
                    failed.append("reencode")
                if not s["digestH2"]:
                    failed.append("digestH2")
            elif s.get("partial"):
                failed.append("partial")
        elif ln["ev"] == "DecodeShape":
            if s["ok"] != vec["accept"]:
                failed.append("verdict")
            elif s["ok"]:
                if s["plen"] != vec["plen"]:
                    failed.append("plen")
                if s["nsig"] != vec["n"]:
                    failed.append("nsig")
                for k, nm in (("fieldsAt", "fieldsAt"), ("reencEq", "reencode"), ("digestH2Tail", "digestH2")):
                    if not s[k]:
                        failed.append(nm)
            elif s.get("partial"):
                failed.append("partial")
        elif ln["ev"] in ("Verify", "ExplorerVerify"):
            allowed = vec["allowed"] if ln["ev"] == "Verify" else vec["explorer"]
            if s["res"] not in [("true" if b else "false") for b in allowed]:
                failed.append("verdict")
            # the abstraction the harness measured must be the case TLC prescribed (else the harness is wrong, not the code)
            if a["sigs"] != vec["sigs"] or a["addrs"] != vec["addrs"]:
                raise vlib.Broken("C06 concretisation does not have the prescribed abstraction: %s vs %s" % (a["sigs"], vec["sigs"]))
        elif ln["ev"] == "Quorum":
            if s["q"] != vec["q"]:
                failed.append("q")
        if failed:
            out.append((ln, failed))
    return out


# ------------------------------------------------------------------ signatures and classes

def expected_of(ln, rej=None):
    if rej and isinstance(rej.get("spec"), dict):
        return rej["spec"]
    return {}


def signature(prop, ln, failed, spec):
    ev, a, s = ln["ev"], ln["a"], ln["s"]
    tgt = ln.get("target", "?")
    real = ff.real_outcome(s)
    f = "+".join(sorted(failed))
    if ev in ("Decode", "DecodeShape"):
        acc = spec.get("accept")
        if acc is None:
            acc = s.get("ok")
        plen = spec.get("plen")
        if plen is None and acc:
            plen = s.get("plen")
        if ev == "Decode" and acc and "bytes" in a:
            # expected payload length for byte-level lines: what is left after header, signatures and fixed body
            plen = spec.get("plen", plen)
        return "Unmarshal/%s/%s/%s/%s" % ("accept" if acc else "reject", ff.plen_bucket(plen) if acc else "-", real, f)
    if ev == "Encode" and "mode" in a:      # several values in flight: results looked at late / nested / concurrently
        return "SerializeBody/%s/%s/%s" % (a["mode"], real, f)
    if ev == "Encode":
        return "Marshal-SerializeBody/%s/%s" % (real, f)
    if ev == "DataRace":
        return "SerializeBody/concurrent/data-race"
    if ev == "ProcBody":
        return "handleMessage-body/%s%s/%s" % ("stored=%s/" % a["stored"] if "stored" in a else "", real, f)
    if ev == "Redigest":
        return "SigningMsg-after-change/%s/%s/%s/%s" % (a.get("field"), a.get("mode"), real, f)
    if ev in ("Verify", "ExplorerVerify"):
        kind = a.get("kind") and a.get("vkind") or a.get("src", "case")
        if "field" in a:
            kind += ":after-change:%s:%s" % (a["field"], a.get("mode"))
        if "sets" in a:
            kind += ":sets=%s:named=%s:sigs=%d" % ("-".join(str(x) for x in a["sets"]), a.get("named"), len(a["sigs"]))
        allowed = spec.get("allowed")
        return "%s/%s/%s/allowed=%s/real=%s" % (ev, tgt, kind, "|".join(sorted(allowed)) if allowed else "?", s.get("res"))
    if ev == "Quorum":
        return "CalculateQuorum/%s/n=%s/real=%s/spec=%s" % (tgt, a.get("n"), s.get("q"), spec.get("q", "?"))
    return "%s/%s/%s" % (ev, real, f)


def line_class(ln):
    """Abstract class of an evaluation, for the distinct_nontrivial count."""
    ev, a, s = ln["ev"], ln["a"], ln["s"]
    if ev == "DataRace":
        return (ev,)
    if ev == "Encode":
        v = a["v"]
        return (ev, a.get("mode"), tuple(tuple(v[k]) for k in ("timestamp", "nonce", "emitterChain", "targetChain", "emitterAddress", "sequence",
                                                "consistencyLevel")), len(v["payload"]), len(v["sigs"]), tuple(v["version"]))
    if ev == "ProcBody":
        v = a["v"]
        return (ev, a.get("stored"), json.dumps({k: v[k] for k in v if k not in ("version", "guardianSetIndex", "sigs")}, sort_keys=True))
    if ev in ("Decode", "DecodeShape"):
        L = a["L"]
        if ev == "Decode":
            b = a["bytes"]
            ver = b[0] if L > 0 else 0
            cnt = b[5] if L > 5 else 0
        else:
            ver, cnt = a["ver"], a["cnt"]
        floor = 6 + 66 * cnt + 53
        return ("Unmarshal", min(ver, 3), cnt, max(-70, min(L - floor, 5001)), s.get("ok"), "panic" in s)
    if ev == "Redigest":
        return (ev, a.get("field"), a.get("mode"), json.dumps(a.get("v1"), sort_keys=True))
    if ev in ("Verify", "ExplorerVerify"):
        return (ev, ln.get("target"), tuple(a["addrs"]), tuple((x["idx"], x["signer"]) for x in a["sigs"]), a.get("field"), a.get("mode"),
                tuple(a.get("sets", ())), a.get("named"))
    if ev == "Quorum":
        return (ev, ln.get("target"), a["n"])
    return (ev,)


# ------------------------------------------------------------------ negative self-test of the trace specifications

def selftest_lines(lines, byid):
    """One corrupted copy per event kind of a line that the specification accepts as recorded."""
    import copy
    out, done = [], set()
    for ln in lines:
        ev, s = ln["ev"], ln["s"]
        if ev in done or "panic" in s:
            continue
        c = copy.deepcopy(ln)
        c["a"]["selftest"] = True
        if ev == "Encode" and s.get("body"):
            c["s"]["body"][0] ^= 1
        elif ev == "ProcBody" and s.get("present") and s.get("body"):
            c["s"]["body"][-1] ^= 1
        elif ev == "Decode" and s.get("ok") and s.get("reenc"):
            c["s"]["reenc"][-1] ^= 1
        elif ev == "DecodeShape" and s.get("ok"):
            c["s"]["plen"] += 1
        elif ev == "DecodeShape" and not s.get("ok") and ln["a"]["L"] < 6:
            c["s"] = {"ok": True, "partial": False, "nsig": 0, "plen": 1, "bodyStart": 6, "fieldsAt": True, "reencEq": True, "digestH2Tail": True}
        elif ev in ("Verify", "ExplorerVerify") and len(byid.get((ln["a"].get("kind"), ln["a"].get("id")), {}).get(
                "allowed" if ev == "Verify" else "explorer", [])) == 1 and s["res"] in ("true", "false"):
            c["s"]["res"] = "false" if s["res"] == "true" else "true"
        elif ev == "Quorum":
            c["s"]["q"] += 1
        else:
            continue
        done.add(ev)
        out.append(c)
    return out


# ------------------------------------------------------------------ replay support

def vector_from_line(ln, i):
    ev, a = ln["ev"], ln["a"]
    if ev == "Decode":
        return dict(id=i, kind="C05B", bytes=a["bytes"])
    if ev == "DecodeShape":
        return dict(id=i, kind="C05S", L=a["L"], ver=a["ver"], n=a["cnt"])
    if ev == "Encode" and "mode" in a:
        return dict(id=i, kind="C04B", v=dict(a["v"], subsec=a.get("subsec", 0)), mode=a["mode"])
    if ev == "Encode":
        v = dict(a["v"], subsec=a.get("subsec", 0))
        return dict(id=i, kind="C05V", v=v)
    if ev == "ProcBody":
        v = dict(a["v"], subsec=0)
        return dict(id=i, kind="C04", v=v)
    if ev == "Redigest":
        return dict(id=i, kind="C04R", v=dict(a["v1"], subsec=0), field=a["field"], mode=a["mode"])
    if ev in ("Verify", "ExplorerVerify") and "field" in a:      # two-step history: valid signatures, then a field changes
        return dict(id=i, kind="C06R", addrs=a["addrs"], idx=[x["idx"] for x in a["sigs"]], field=a["field"], mode=a["mode"])
    if ev == "ExplorerVerify" and "sets" in a:
        return dict(id=i, kind="C07X", sets=a["sets"], named=a["named"], idx=[x["idx"] for x in a["sigs"]])
    if ev in ("Verify", "ExplorerVerify"):
        return dict(id=i, kind="C06", addrs=a["addrs"], sigs=a["sigs"])
    if ev == "Quorum":
        return dict(id=i, kind="C07", n=a["n"])
    return None


# ------------------------------------------------------------------ the check

def tlaps_quorum(work):
    """Thorough tier extra: the BFT lemmas for ALL n (not only the wire range), discharged by TLAPS (spec/QuorumProofs.tla)."""
    import re
    import shutil
    import subprocess
    d = os.path.join(work, "tlaps")
    os.makedirs(d, exist_ok=True)
    shutil.copy(os.path.join(vlib.SPEC, "QuorumProofs.tla"), d)
    try:
        p = subprocess.run(["tlapm", "--threads", "8", "QuorumProofs.tla"], cwd=d, stdout=subprocess.PIPE, stderr=subprocess.STDOUT, timeout=600)
    except (OSError, subprocess.TimeoutExpired) as e:
        return {"status": "not run: %s" % e}
    out = p.stdout.decode("utf-8", "replace")
    m = re.search(r"All (\d+) obligations? proved", out)
    if not m:
        raise vlib.Broken("TLAPS did not prove the unbounded quorum lemmas (spec-level problem):\n" + out[-1500:])
    return {"status": "proved", "obligations": int(m.group(1)), "theorems": ["ExceedsTwoThirdsAll", "AtMostAllAll", "IntersectAll", "MinimalAll"]}


def run(prop, tier, replay=None):
    t0 = time.time()
    work = vlib.scratch(prop)
    pl = plan(prop, tier)
    verdict = vlib.Verdict(prop)
    mc_states = mc_trans = 0
    mc_info = []
    byid = {}
    vectors = []
    tables = None
    lines = []
    walls = {}
    extra_cov = {}

    # tables are needed by every harness run
    if replay or prop in ("C06", "C07"):
        _, r0 = ff.mc(work, "MC_VAAWire", "MC_VAAWire_c05s.cfg", "C05S", workers=2)
        tables = r0["tables"]

    if replay:
        rp = json.load(open(replay))
        rl = [v["detail"]["line"] for v in rp.get("violations", []) if isinstance(v.get("detail"), dict) and v["detail"].get("line")]
        for i, ln in enumerate(rl):
            vc = vector_from_line(ln, i + 1)
            if vc:
                vc["target"] = ln.get("target", "vaa")
                vectors.append(vc)
        if not vectors and not any("contract" in v.get("signature", "") for v in rp.get("violations", [])):
            raise vlib.Broken("replay file has no replayable evaluation")
    else:
        # 1. the design: TLC checks the lemmas and exports its enumeration
        nid = 0
        for module, cfg, tag in pl["mc"]:
            rows, r = ff.mc(work, module, cfg, tag, workers=min(vlib.NCPU, 8), timeout=1500)
            mc_states += r["distinct"]
            mc_trans += r["generated"]
            mc_info.append("%s: %d cases" % (cfg, r["distinct"]))
            print("TLC %s: lemmas hold on %d cases (%d exported), %.0fs" % (cfg, r["distinct"], len(rows), r["wall_s"]))
            if r["tables"]["layout"]:
                tables = r["tables"]
            for row in rows:
                if tag == "C06" and row["kind"] == "root":
                    continue
                nid += 1
                vc = dict(row, id=nid, kind=tag)
                if tag == "C06":
                    vc["vkind"] = row["kind"]
                vectors.append(vc)
                if tag == "C05V":
                    # the specification's encoding of the value, fed to the real decoder (RoundTrip)
                    nid += 1
                    vectors.append(dict(id=nid, kind="C05E", bytes=row["enc"], dec={"ok": True, "vaa": {k: row["v"][k] for k in row["v"]}}, of=nid - 1))
        byid = {(v["kind"], v["id"]): v for v in vectors}
    tpath = ff.write_tables(work, tables)

    # 2./3. the real code: TLC's cases, and seeded cases from the wide concrete domain (independent `go test` runs, in parallel)
    tasks = []       # (label, target, callable returning (lines, wall))
    nsub = [0]

    def subdir():
        nsub[0] += 1
        d = os.path.join(work, "run%d" % nsub[0])
        os.makedirs(d)
        return d

    def add_vectors(target, vs, tag):
        if vs:
            sub = subdir()
            tasks.append(("vectors/" + target, target, lambda: ff.run_vectors(sub, target, vs, tpath, tag)))

    def add_gen(target, gens, n, tag, env=None, race=False):
        sub = subdir()
        tasks.append(("gen/%s/%s%s" % (target, "+".join(gens), "(-race)" if race else ""), target,
                      lambda: ff.run_generators(sub, target, gens, n, tpath, tag, env, race)))

    def run_tasks():
        from concurrent.futures import ThreadPoolExecutor
        with ThreadPoolExecutor(max_workers=4) as ex:
            futs = [ex.submit(t[2]) for t in tasks]
            for (label, target, _), fu in zip(tasks, futs):
                ls, w = fu.result()
                for ln in ls:
                    ln["target"] = target
                    if ln["a"].get("kind") == "C06":
                        ln["a"]["vkind"] = byid.get(("C06", ln["a"]["id"]), {}).get("vkind", "replay")
                walls[label] = round(w, 1)
                lines.extend(ls)
        del tasks[:]

    if replay:
        for tgt in sorted({v["target"] for v in vectors}):
            vs = [v for v in vectors if v["target"] == tgt]
            if tgt == "vaa" and any(v["kind"] in ("C07", "C04") for v in vs):
                tgt = "proc"
            add_vectors(tgt, vs, "replay")
    elif prop == "C04":
        add_vectors("proc", vectors, "c04")
        add_gen("vaa", ["encode", "redigest"], pl["gen_n"], "c04")
        add_gen("proc", ["procbody"], pl["gen_n"] // 2, "c04")
        add_gen("vaa", ["concurrent"], pl["gen_n"], "c04conc", race=True)
    elif prop == "C05":
        add_vectors("vaa", vectors, "c05")
        for g, n in pl["gens"]:
            add_gen("vaa", [g], n, "c05" + g)
    elif prop == "C06":
        add_vectors("vaa", vectors, "c06")
        add_vectors("explorer", vectors, "c06")
        add_gen("vaa", ["verify"], pl["gen_n"], "c06")
        add_gen("vaa", ["verifyconc"], pl["gen_n"], "c06conc")
        add_gen("explorer", ["verify"], pl["gen_n"], "c06")
    elif prop == "C07":
        add_vectors("proc", vectors, "c07")
        add_vectors("explorer", vectors, "c07")
        add_gen("proc", ["quorum"], pl["gen_n"], "c07")
        add_gen("explorer", ["quorum", "explorerquorum"], pl["gen_n"], "c07")
    run_tasks()
    if prop == "C05" and not replay and pl["fuzztime"]:
        seeds = [B(v["bytes"]).hex() for v in vectors if v["kind"] in ("C05B", "C05E")][::7]
        cdir, finfo = ff.fuzz(work, tpath, seeds, pl["fuzztime"], min(vlib.NCPU, 12))
        print("fuzzing: %s" % finfo)
        extra_cov["fuzz"] = finfo
        add_gen("vaa", ["corpus"], 1, "c05corpus", {"VERIF_FUZZ_CORPUS": cdir})
        run_tasks()
    wanted = {"C04": ("Encode", "ProcBody", "Redigest", "DataRace"), "C05": ("Encode", "Decode", "DecodeShape"), "C06": ("Verify", "ExplorerVerify"),
              "C07": ("Quorum", "ExplorerVerify")}[prop]
    lines = [ln for ln in lines if ln["ev"] in wanted]     # e.g. the round-trip decodes of the encode generator speak to C05 only
    nreal = len(lines)
    print("evaluated the real code %d times (%s)" % (nreal, ", ".join("%s %.1fs" % kv for kv in sorted(walls.items()))))

    # 4. verdicts: (a) against the exported table, (b) by TLC on every recorded evaluation
    found = {}       # (t-less) line key -> (line, failed set, spec)

    def note(ln, failed, spec, how):
        k = id(ln)
        if k in found:
            found[k][1].update(failed)
            found[k][2].update(spec)
            found[k][3].add(how)
        else:
            found[k] = (ln, set(failed), dict(spec), {how})

    for ln, failed in compare_exported(prop, lines, byid):
        vec = byid.get((ln["a"].get("kind"), ln["a"].get("id")), {})
        spec = {}
        if "accept" in vec:
            spec = {"accept": vec["accept"], "plen": vec.get("plen")}
        elif "dec" in vec:
            spec = {"accept": vec["dec"]["ok"]}
            if vec["dec"]["ok"]:
                spec["plen"] = len(vec["dec"]["vaa"]["payload"])
        elif "allowed" in vec:
            al = vec["allowed"] if ln["ev"] == "Verify" else vec["explorer"]
            spec = {"allowed": ["true" if b else "false" for b in al]}
        elif "q" in vec:
            spec = {"q": vec["q"]}
        note(ln, failed, spec, "exported-table")

    tmod = "Trace_VAAWire" if prop in ("C04", "C05") else "Trace_SigVerify"
    tlines = lines
    tstates = 0
    vacuous = None
    if tlines:
        # negative self-test of the trace specification: corrupted copies of recorded lines MUST be rejected
        # (copies of lines that already agreed with the exported table, so that the corruption is what gets rejected)
        probes = selftest_lines([ln for ln in tlines if (ln["a"].get("kind"), ln["a"].get("id")) in byid and id(ln) not in found], byid)
        rejs, tr, numbered = ff.validate(work, tmod, tlines + probes, prop)
        tstates = tr["distinct"]
        rejected_n = {rj["n"] for rj in rejs}
        missed = [i for i in range(len(tlines) + 1, len(tlines) + len(probes) + 1) if i not in rejected_n]
        if missed or (not probes and not replay and not found):
            # reported only if the run has no violation to report (violations are printed first, see below)
            vacuous = "trace specification %s did not reject %d of %d corrupted line(s): the binding is vacuous" % (tmod, len(missed), len(probes))
        rejs = [rj for rj in rejs if rj["n"] <= len(tlines)]
        extra_cov["selftest_corrupted_lines_rejected"] = len(probes)
        print("trace validation (%s): %d evaluations, %d states, %.1fs, %d rejected" % (tmod, len(tlines), tr["distinct"], tr["wall_s"], len(rejs)))
        for rj in rejs:
            ln = tlines[rj["n"] - 1]
            why = rj.get("why")
            failed = why if isinstance(why, list) else ["verdict"] if ln["ev"] in ("Verify", "ExplorerVerify") else ["q"] if ln["ev"] == "Quorum" else [str(why)]
            spec = dict(rj.get("spec") or {})
            if ln["ev"] == "Decode" and spec.get("accept") and "bytes" in ln["a"]:
                b = ln["a"]["bytes"]
                spec["plen"] = len(b) - (tables["layout"]["headerLen"] + tables["layout"]["sigWidth"] * b[5] + tables["layout"]["bodyFixed"])
            note(ln, failed, spec, "tlc-trace")

    for ln, failed, spec, how in found.values():
        sig = signature(prop, ln, failed, spec)
        detail = {"line": {k: ln[k] for k in ("ev", "a", "s", "target") if k in ln}, "failed_checks": sorted(failed),
                  "specification_requires": spec, "decided_by": sorted(how)}
        # keep replay files small
        for big in ("bytes",):
            if big in detail["line"]["a"] and len(detail["line"]["a"][big]) > 6000:
                detail["line"]["a"] = dict(detail["line"]["a"], bytes_truncated=True)
        verdict.add(sig, detail)

    # 5. the other programs: contract sources vs the tables TLC printed
    programs = 1
    contract = {}
    if prop in ("C04", "C07"):
        try:
            sol = ec.extract_sol(os.path.join(vlib.REPO, "ethereum/contracts/Messages.sol"))
            ral = ec.extract_ral(os.path.join(vlib.REPO, "alephium/contracts/governance.ral"))
        except ec.ExtractError as e:
            raise vlib.Broken("contract source extraction failed (source restructured?): %s" % e)
        programs = 3
        if prop == "C04":
            for ext in (sol, ral):
                ds = ec.compare_layout(ext, tables["layout"])
                contract[ext["program"]] = {"fields_compared": len(ext["header"]) + len(ext["sig"]) + len(ext["body"]) + 5, "differences": len(ds)}
                for sig, det in ds:
                    verdict.add(sig, det)
        else:
            if replay:
                rows, _ = ff.mc(work, "MC_Quorum", "MC_Quorum_quick.cfg", "C07", workers=2)
                qt = {r["n"]: r["q"] for r in rows}
            else:
                qt = {v["n"]: v["q"] for v in vectors if v["kind"] == "C07"}
            for ext in (sol, ral):
                ds = ec.compare_quorum(ext, qt)
                contract[ext["program"]] = {"expr": ext["quorumExpr"], "use": ext["quorumUse"], "values_compared": 256 + 255 * 256, "differences": len(ds)}
                for sig, det in ds:
                    verdict.add(sig, det)
        print("contract extraction: %s" % json.dumps(contract))
    if prop == "C06" and not replay:
        # 6. the two verification sites of observation.go (anchored there too), decided by Trace_Processor
        import chk_processor
        extra_cov["node_use_sites"] = chk_processor.verify_use_sites(work, tier, int(vlib.seed()), verdict)
    if prop == "C07" and not replay:
        # 6. the threshold at its use sites in the node ("a VAA the node considers complete ... and an incomplete one is
        #    not"): inbound signed VAAs and the node's own publication decision, set sizes 1..19, decided by
        #    Trace_Processor on the real handlers
        import chk_processor
        extra_cov["node_use_sites"] = chk_processor.quorum_use_sites(work, tier, vlib.seed(), verdict)

    sigc = Counter(sg for sg, _ in verdict.items)
    if sigc:
        print("%d evaluation(s)/table entries disagree with the specification, in %d signature class(es):" % (len(verdict.items), len(sigc)))
        for sg, n in sigc.most_common(12):
            print("  %6d x %s" % (n, sg))
    # one representative per signature first, so that the replay file shows every class
    seen_sig = set()
    verdict.items.sort(key=lambda it: (it[0] in seen_sig, seen_sig.add(it[0]))[0])
    rc = verdict.finish()
    if vacuous and rc == 0:
        raise vlib.Broken(vacuous)

    # 6. evidence
    classes = {line_class(ln) for ln in lines}
    evs = Counter("%s/%s" % (ln["ev"], ln.get("target")) for ln in lines)
    srcs = Counter(ln["a"].get("kind") or ln["a"].get("src") or "?" for ln in lines)
    outcomes = Counter("%s:%s" % (ln["ev"], ff.real_outcome(ln["s"])) for ln in lines)
    sample = []
    for ln in lines[:1] + lines[len(lines) // 2:len(lines) // 2 + 1] + lines[-1:]:
        sm = {"ev": ln["ev"], "a": ln["a"], "s": ln["s"]}
        txt = json.dumps(sm)
        sample.append(sm if len(txt) < 3000 else {"ev": ln["ev"], "abridged": txt[:3000]})
    cov = {
        "states": max(mc_states, 1) if not replay else max(tstates, 1),
        "transitions": max(mc_trans, 1) if not replay else max(tstates, 1),
        "traces_validated_against_impl": len(tlines),
        "samples": sample,
        "evaluations": nreal + sum(c.get("values_compared", c.get("fields_compared", 0)) for c in contract.values()),
        "distinct_nontrivial": len(classes),
        "rule": "one evaluation = one call of the real function on one input, recorded with its abstract description and decided by TLC "
                "(one-step traces: the functions are pure); distinct = distinct abstract inputs: body-field tuples + payload/signature counts "
                "(Encode), (version class, count byte, length relative to the acceptance boundary, outcome) (Unmarshal), "
                "(address list, [idx, signer] list, target) (Verify), (n, target) (Quorum); contract table entries are added to evaluations only",
        "mc_configs": mc_info, "trace_spec": tmod, "trace_spec_states": tstates,
        "real_calls_by_event_and_target": dict(evs), "case_sources": dict(srcs), "real_outcomes": dict(outcomes),
        "programs": programs, "contract_extraction": contract,
        "harness_wall_s": walls,
        "rejected_or_mismatching_evaluations": len(found),
        "known_findings_matched": getattr(verdict, "n_known", 0),
        "exhaustive": False,
    }
    if prop == "C05":
        pls = [ln["s"]["plen"] for ln in lines if ln["ev"] in ("Decode", "DecodeShape") and ln["s"].get("ok")]
        cov["accepted_payload_lengths"] = {"count": len(pls), "distinct": len(set(pls)), "max": max(pls) if pls else 0}
        cov["max_input_length"] = max([ln["a"]["L"] for ln in lines if "L" in ln["a"]] or [0])
    if prop == "C06":
        cov["max_address_list"] = max([len(ln["a"]["addrs"]) for ln in lines if "addrs" in ln["a"]] or [0])
        cov["max_index"] = max([x["idx"] for ln in lines if "sigs" in ln["a"] for x in ln["a"]["sigs"]] or [0])
        cov["lists_with_repeats"] = sum(1 for ln in lines if "addrs" in ln["a"] and len(set(ln["a"]["addrs"])) < len(ln["a"]["addrs"]))
        # cases where the three positional conditions hold but one guardian signs at two of its positions: must be rejected
        cov["double_count_cases_expected_rejected"] = sum(1 for v in vectors if v.get("kind") == "C06" and v.get("verify") and v.get("allowed") == [False])
        cov["two_step_histories"] = sum(1 for ln in lines if "field" in ln["a"])
        cov["order_cases_across_index_128"] = sum(1 for ln in lines if ln["a"].get("src") == "gen-verify-order128")
    if prop == "C04":
        st = [ln for ln in lines if ln["ev"] == "ProcBody" and "stored" in ln["a"]]
        cov["observations_with_prestored_vaa"] = dict(Counter("%s:%s" % (ln["a"]["stored"], "signed" if ln["s"].get("storeGuardianSigned") else "ignored") for ln in st))
        cov["two_step_histories"] = sum(1 for ln in lines if ln["ev"] == "Redigest")
        cov["values_in_flight"] = dict(Counter("%s%s" % (ln["a"]["mode"], "(-race)" if ln.get("race_detector") else "")
                                               for ln in lines if ln["ev"] == "Encode" and "mode" in ln["a"]))
    if prop == "C07":
        if tier == "thorough" and not replay:
            cov["tlaps_unbounded_lemmas"] = tlaps_quorum(work)
        cov["explorer_pushes_with_two_sets"] = sum(1 for ln in lines if "sets" in ln["a"])
        cov["exhaustive"] = not replay          # the wire range n = 0..255 is enumerated completely for all programs
    cov.update(extra_cov)
    vlib.write_evidence(prop, tier, "model_checking", cov, ASSUME, time.time() - t0, getattr(verdict, "n_unknown", 0))
    return rc
