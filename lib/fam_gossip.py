"""Gossip verifiers (C03, heartbeat / observation-request part): Gossip.tla + harness/p2p."""
import json
import os
import random
import re
import shutil

import vlib

PKG = "./pkg/p2p"
INJECT = {"pkg/p2p": [(os.path.join(vlib.HARNESS, "common", "vh.go"), "p2p"),
                      (os.path.join(vlib.HARNESS, "p2p", "gossip_harness.go"), "p2p")]}


def tlc_scenarios(work, n, depth, seed_):
    cfg = open(os.path.join(vlib.SPEC, "Gen_Gossip.cfg")).read().replace("GenDepth = 12", "GenDepth = %d" % depth)
    sdir = os.path.join(work, "spec")
    if not os.path.isdir(sdir):
        shutil.copytree(vlib.SPEC, sdir)
    name = "Gen_Gossip_%d.cfg" % seed_
    open(os.path.join(sdir, name), "w").write(cfg)
    r = vlib.tlc(work, "Gen_Gossip", name, workers=1, args=["-simulate", "num=%d" % n, "-depth", str(depth + 2), "-seed", str(seed_)], timeout=600)
    hs = vlib.tlc_prints(r["out"], "SCN")
    if not hs:
        raise vlib.Broken("TLC simulation produced no gossip scenarios:\n" + r["out"][-2000:])
    return [{"steps": h, "src": "tlc"} for h in hs]


def env(kind, claimed, peer, **kw):
    """A valid envelope; keyword arguments apply one mutation."""
    e = {"kind": kind, "claimed": claimed, "signer": claimed, "dom": kind, "same": True,
         "plen": 40, "parses": True, "peer": peer, "req": {"chain": 2, "tx": "t1"}}
    e.update(kw)
    return {"ev": "Heartbeat" if kind == "hb" else "ObsReq", "a": {"e": e}}


def gen_scenarios(seed_, n):
    r = random.Random("gossip-%d" % seed_)
    res = []
    for i in range(n):
        size = r.choice([1, 2, 3, 7, 19])
        A = {"idx": r.randrange(4), "keys": ["g%d" % k for k in range(1, size + 1)]}
        r.shuffle(A["keys"])
        keysB = [k for k in A["keys"] if r.random() < 0.6] + ["h1"]
        B = {"idx": A["idx"] + 1, "keys": keysB}
        everyone = sorted(set(A["keys"] + keysB + ["x1"]))
        steps = []
        if r.random() < 0.9:
            steps.append({"ev": "GSetUpdate", "a": {"set": A}})
        changed = False
        for _ in range(r.randrange(8, 30)):
            if not changed and r.random() < 0.08:
                steps.append({"ev": "GSetUpdate", "a": {"set": B}})
                changed = True
                continue
            kind = r.choice(["hb", "req"])
            c = r.choice(everyone)
            peer = "p%d" % r.randrange(1, 4)
            floor_len = 24 if kind == "hb" else 7
            mut = r.choice(["valid", "valid", "sigflip", "payloadflip", "addrflip", "outsider", "wrongmember", "otherprefix",
                            "noprefix", "below", "at", "crosstype", "noparse", "err", "shape", "inner", "inner"])
            if mut == "valid":
                steps.append(env(kind, c, peer, plen=r.choice([floor_len, floor_len + 1, 40, 100])))
            elif mut == "sigflip":
                steps.append(env(kind, c, peer, signer="ERR", shape=r.choice(["badv", "shortsig", "nilsig"])))
            elif mut == "payloadflip":
                steps.append(env(kind, c, peer, same=False))
            elif mut == "addrflip":
                steps.append(env(kind, r.choice(everyone), peer, signer=c))
            elif mut == "outsider":
                steps.append(env(kind, "x1", peer))
            elif mut == "wrongmember":
                steps.append(env(kind, c, peer, signer=r.choice(everyone)))
            elif mut in ("otherprefix", "crosstype"):
                steps.append(env(kind, c, peer, dom="req" if kind == "hb" else "hb"))
            elif mut == "noprefix":
                steps.append(env(kind, c, peer, dom="raw", plen=r.choice([32, 40])))
            elif mut == "below":
                steps.append(env(kind, c, peer, plen=floor_len - 1 if kind == "hb" else r.choice([0, 2, 5, 6])))
            elif mut == "at":
                steps.append(env(kind, c, peer, plen=floor_len))
            elif mut == "noparse":
                steps.append(env(kind, c, peer, parses=False, plen=r.choice([floor_len, 40])))
            elif mut == "err":
                steps.append(env(kind, c, peer, signer="ERR"))
            elif mut == "inner":
                # a genuine heartbeat of c whose body names somebody else (another member, an outsider, c itself)
                steps.append(env("hb", c, peer, inner=r.choice(everyone), plen=r.choice([60, 100])))
            else:
                e = env(kind, c, peer, shape=r.choice(["niladdr", "shortaddr"]))
                e["a"]["e"]["claimed"] = "JUNKADDR"
                steps.append(e)
        # the cap: 15 distinct peers for one guardian, a 16th, an update from a known peer, another guardian
        if r.random() < 0.4 and A["keys"]:
            g = r.choice(A["keys"] if not changed else keysB)
            for k in range(1, 18):
                steps.append(env("hb", g, "q%d" % k))
            steps.append(env("hb", g, "q3"))
            steps.append(env("hb", r.choice(A["keys"] if not changed else keysB), "q20"))
        # concurrent writers at the cap: the table is filled to just below it one call at a time, then several new
        # peers' heartbeats are verified at once (receive loop + own-heartbeat goroutine in the node), then one more
        if r.random() < 0.5 and (A["keys"] if not changed else keysB):
            g = r.choice(A["keys"] if not changed else keysB)
            if any(st["ev"] == "GSetUpdate" for st in steps):
                for k in range(1, r.choice([12, 13, 14, 15]) + 1):
                    steps.append(env("hb", g, "b%d" % k))
                steps.append({"ev": "HeartbeatBurst", "a": {"g": g, "peers": ["c%d" % k for k in range(1, r.choice([2, 3, 5]) + 1)] + ["b1"]}})
                steps.append(env("hb", g, "b99"))
        # one member signs heartbeats that name another member in the body, from many peers: the other member's
        # share of the table must stay untouched and its own heartbeat must still be taken
        if r.random() < 0.3 and len(A["keys"]) >= 2 and not changed:
            a, b = r.sample(A["keys"], 2)
            for k in range(1, 17):
                steps.append(env("hb", a, "z%d" % k, inner=b, plen=100))
            steps.append(env("hb", b, "z40"))
        res.append({"steps": steps, "src": "gen-gossip"})
    return res


def replay(work, scenarios):
    scp = os.path.join(work, "scenarios_g.ndjson")
    trp = os.path.join(work, "trace_g.ndjson")
    with open(scp, "w") as fh:
        for i, s in enumerate(scenarios):
            fh.write(json.dumps({"id": i + 1, "steps": s["steps"]}) + "\n")
    rc, out, wall = vlib.go_test(work, "node", PKG, "TestVerifGossipReplay", INJECT,
                                 env={"VERIF_SCENARIOS": scp, "VERIF_TRACE": trp, "VERIF_SEED": vlib.seed()}, timeout=1200)
    m = re.search(r"VERIF-REPLAYED scenarios=(\d+) lines=(\d+) skipped=(\d+)", out)
    if not m:
        raise vlib.Broken("gossip harness did not complete (rc=%d):\n%s" % (rc, out[-4000:]))
    return vlib.read_ndjson(trp), wall, int(m.group(3))


def validate(work, lines):
    sdir = os.path.join(work, "spec")
    if not os.path.isdir(sdir):
        shutil.copytree(vlib.SPEC, sdir)
    with open(os.path.join(sdir, "trace.ndjson"), "w") as fh:
        for ln in lines:
            fh.write(json.dumps(ln) + "\n")
    r = vlib.tlc(work, "Trace_Gossip", "Trace_Gossip.cfg", workers=1, timeout=1200, heap="8g")
    fin = vlib.tlc_prints(r["out"], "FINISHED")
    if r["violated"]:
        return [{"t": -1, "n": -1, "ev": "INVARIANT", "why": "invariant violated on the recorded behaviour", "tlc": r["out"][-3000:]}], r
    if not fin:
        raise vlib.Broken("gossip trace validation did not finish:\n" + r["out"][-3000:])
    return vlib.tlc_prints(r["out"], "REJECT"), r


def signature(rej, line):
    if line.get("ev") == "Stall":
        import re
        fns = [f for f in re.findall(r"(node/pkg/(?:p2p|common)[\w/]*\.[\w.()*]+)\(", line.get("s", {}).get("stacks", ""))
               if "TestVerif" not in f and "zz_verif" not in f]
        return "gossip-stall/%s" % (fns[0].split("/")[-1] if fns else "verifier-never-returned")
    if "panic" in line.get("s", {}):
        return "gossip-panic/%s" % line["ev"]
    if line.get("ev") == "HeartbeatBurst":
        n = max([len(v) for v in (line.get("s", {}).get("hb") or {}).values()] or [0])
        return "gossip/HeartbeatBurst/%s" % ("more-than-15-nodes-for-one-guardian" if n > 15 else "table-not-a-sequential-outcome")
    e = line.get("a", {}).get("e", {})
    cls = "valid" if (e.get("signer") == e.get("claimed") and e.get("dom") == e.get("kind") and e.get("same") and e.get("parses")) else "mutated"
    return "gossip/%s/%s/%s" % (line.get("ev"), cls, line.get("s", {}).get("verdict"))
