"""Check C18 (DESIGN.md section 6, Appendix A.7): exhaustive TLC runs of the bounded Supervisor model (safety on every
tree shape, liveness under the fairness written in the module), REAL supervision trees built from instrumented services
under the race detector, their recorded service-level traces validated by TLC against Supervisor.tla with the
supervisor's internal steps inferred as silent actions, and bounded-liveness observation of every restart / the kill."""
import json
import os
import re
import time
from collections import Counter

import fam_supervisor as fs
import vlib

PROPS = ["C18"]

MANIFEST = {
    "C18": dict(
        text="Supervisor.tla (node states, contexts, request channel, restart scan with back-off, kill) is model-checked on every "
             "tree shape with <= 5 nodes / depth <= 3 / groups of 1-2 with nondeterministic failure kinds, failure times and exit "
             "latencies: AtMostOneInstance, DoneLeftAlone, RestartOnlyDead, NoStartAfterKill and the recovery invariant of quiescent "
             "states on all shapes, RestartAfterFailure / KillStopsAll as temporal formulas under weak fairness on the smaller ones. "
             "Real supervision trees (supervisor.New / Run / RunGroup) of scripted, instrumented services run under -race; the logged "
             "service-level steps with snapshots of the supervisor's tree are validated by TLC against the same actions, the "
             "supervisor-internal steps being inferred as silent actions (high-water-mark acceptance); every restart and the kill are "
             "awaited with a >= 10 s no-progress deadline and a goroutine dump on expiry.",
        ref="6/C18",
        note="Trusted: TLC, the Go toolchain and race detector. Exhaustiveness is at the bounded model (<= 5 nodes, <= 2 failures per "
             "behaviour, <= 1 Done); the real runs sample interleavings (goroutine scheduling is real), they do not enumerate them. "
             "Assumption: a service that signals Done returns nil by itself after a finite linger (not necessarily at once). Back-off is real time (0.25-0.75 s first, x1.5).",
        technique="TLA+ model checking (TLC, safety + liveness) + trace validation with inferred silent steps + bounded-liveness replay under -race"),
}

PLAN = {
    # tier: (mc configs [(cfg, timeout, share of the cores)], tlc scenarios, generated scenarios, done-race trees, stall deadline s);
    # the number of second-life-linger trees is LINGER[tier]
    "quick": ([("MC_Supervisor_live_quick.cfg", 600, 0.4), ("MC_Supervisor_safety_quick.cfg", 600, 0.6)], 12, 28, 40, 12),
    "thorough": ([("MC_Supervisor_live_thorough.cfg", 2400, 0.15), ("MC_Supervisor_safety4_thorough.cfg", 2400, 0.2),
                  ("MC_Supervisor_safety5_thorough.cfg", 3600, 0.65)], 150, 450, 80, 15),
}

LINGER = {"quick": 8, "thorough": 24}

ASSUME = [
    "a service that signals Done returns nil by itself after a finite, scripted number of work units (0 .. 3 s of lingering) without waiting "
    "for its context; it need NOT return immediately: AtMostOneInstance and the restart rules are checked unconditionally, in the model "
    "(any number of steps between Done and the return) and on the real supervisor (scripted lingering, also in a later life of a node "
    "that was restarted in place, with the parent failing inside the linger)",
    "services honour their context: after noticing a cancelled context they return within a scripted, finite number of work units",
    "the recorded order of service-side steps is the order of their critical sections under the supervisor's lock: API calls are made "
    "while holding the harness mutex; supervisor-internal steps are not logged and are inferred by TLC",
    "goroutine interleavings of the real runs are sampled, not enumerated; exhaustiveness is at the bounded TLA+ model",
    "liveness on the real code is bounded-time observation: a stall is reported only after >= 12 s without any logged step and with a goroutine dump",
]


# ------------------------------------------------------------------ classification of what went wrong

def _done_member_cancelled(snap):
    """A completed service whose own context is cancelled although its parent's is live: nothing below it can be restarted."""
    for dn, v in (snap or {}).items():
        if v.get("st") == "DONE" and not v.get("live"):
            par = dn.rsplit(".", 1)[0] if "." in dn else None
            if par is None or (snap.get(par) or {}).get("live"):
                return dn
    return None


def _depth(dn):
    return dn.count(".") + 1 if dn else 0


def classify_reject(lines, idx):
    """lines: sorted lines of one tree; idx: index of the first line no inferred behaviour explains."""
    ln = lines[idx]
    killed = any(x["ev"] == "Kill" for x in lines[:idx])
    dm = None if killed else _done_member_cancelled(ln.get("s"))
    if dm:
        return "reject/done-member-cancelled"
    # a non-root service signalled Done and an ancestor was restarted afterwards: the death notice of the completed
    # runnable may have been overtaken by the restart (same root cause as crash/processDied/nodeByDN-could-not-find)
    for i, x in enumerate(lines[:idx]):
        if x["ev"] == "Done" and "." in x["a"]["dn"]:
            d = x["a"]["dn"]
            ancs = {d.rsplit(".", k)[0] for k in range(1, d.count(".") + 1)}
            if any(y["ev"] == "Enter" and y["a"]["dn"] in ancs and y["a"].get("inst", 1) > 1 for y in lines[i:idx + 1]):
                return "reject/done-notice-vs-ancestor-restart"
    # one restart scan re-initialised some but not all of the subtrees that were restartable in the previous snapshot
    if idx > 0 and not killed:
        ps, cs = lines[idx - 1].get("s") or {}, ln.get("s") or {}

        def restartable(d):
            par = d.rsplit(".", 1)[0] if "." in d else None
            return ps[d]["st"] in ("DEAD", "CANCELED") and (par is None or (ps.get(par) or {}).get("live")) and \
                not any(k.startswith(d + ".") for k in ps)
        cands = [d for d in ps if restartable(d)]
        again = [d for d in cands if (cs.get(d) or {}).get("st") == "NEW"]
        if len(cands) >= 2 and 0 < len(again) < len(cands):
            return "reject/%s/partial-restart-scan" % ln["ev"]
    dn = ln.get("a", {}).get("dn", "")
    return "reject/%s/depth%d%s%s" % (ln["ev"], _depth(dn), "/" + ln["a"]["kind"] if "kind" in ln.get("a", {}) else "", "/after-kill" if killed else "")


def classify_stall(ln):
    dm = _done_member_cancelled(ln.get("s")) if ln["a"].get("phase") == "settle" else None
    if dm:
        return "stall/settle/done-member-cancelled"
    why = re.sub(r"\d+", "N", ln["a"].get("why", ""))
    why = re.sub(r"root(\.[a-z])*", lambda m: "depth%d" % _depth(m.group(0)), why)
    return "stall/%s/%s" % (ln["a"].get("phase"), why)


def parse_crash(out):
    """Unrecovered panic / fatal error of the test binary -> (signature, tree id | None, excerpt)."""
    m = re.search(r"^(panic: .*|fatal error: .*)$", out, re.M)
    if not m:
        return None
    msg = m.group(1)
    tid = None
    mt = re.search(r"[a-z]x(\d+)", msg)
    if mt:
        tid = int(mt.group(1))
    frames = re.findall(r"pkg/supervisor\.\(\*supervisor\)\.(\w+)\(", out[m.start():m.start() + 4000])
    if "could not find" in msg:
        sig = "crash/%s/nodeByDN-could-not-find" % (frames[1] if len(frames) > 1 else "processor")
    else:
        norm = re.sub(r"[a-z]x\d+", "N", msg)
        norm = re.sub(r"0x[0-9a-f]+|\d+", "N", norm)
        sig = "crash/%s/%s" % (frames[0] if frames else "unknown", re.sub(r"[^A-Za-z]+", "-", norm)[:80].strip("-"))
    return sig, tid, out[m.start():m.start() + 2500]


def parse_hang(out):
    """The watchdog of the harness saw no logged step of any tree for stall + 10 s: the supervisor (its lock) is wedged."""
    m = re.search(r"VERIF-SUPERVISOR-HUNG dump=(\S+)", out)
    if not m:
        return None
    dump = ""
    try:
        dump = open(m.group(1)).read()
    except OSError:
        pass
    where = "unknown"
    for g in dump.split("\n\n"):
        # a goroutine of the package itself (not of the harness) that waits for the supervisor's lock
        ls = g.split("\n")
        if not re.match(r"goroutine \d+ \[sync\.(RW)?Mutex\.R?Lock", ls[0]):
            continue
        for i, l in enumerate(ls[:-1]):
            m2 = re.search(r"pkg/supervisor\.(?:\(\*\w+\)\.)?(\w+)\(", l)
            if m2 and not l.startswith("\t"):
                if re.search(r"/supervisor\w*\.go:", ls[i + 1]):
                    where = "lock-never-released/%s" % m2.group(1)
                break
        if where != "unknown":
            break
    return "hang/" + where, dump[:20000]


def parse_races(out):
    res = []
    for blk in re.findall(r"WARNING: DATA RACE\n(.*?)\n==================", out, re.S):
        fns = re.findall(r"^\s+(?:github\.com/alephium/wormhole-fork/node/pkg/)?(\S+?)\(\)?\n\s+(\S+?):(\d+)", blk, re.M)
        top = [re.sub(r"\.func\d+(\.\d+)*", "", f[0]) for f in fns if "supervisor" in f[0]][:2]
        res.append(("race/" + "+".join(top or ["unknown"]), blk[:2500]))
    return res


# ------------------------------------------------------------------ coverage bookkeeping

def pre_class(prev, ln):
    a = ln.get("a", {})
    dn = a.get("dn")
    s = prev or {}
    me = s.get(dn) or {}
    par = dn.rsplit(".", 1)[0] if dn and "." in dn else None
    p = s.get(par) or {}
    sibs = [k for k in s if par and k != dn and k.rsplit(".", 1)[0] == par]
    return (ln["ev"], _depth(dn), me.get("st"), me.get("live"), a.get("kind"), min(a.get("inst", 0), 3),
            p.get("st"), p.get("live"), tuple(sorted((s[k]["st"], s[k]["live"]) for k in sibs))[:3])


def effects(lines_by_tree, scen):
    eff = Counter()
    for t, ls in lines_by_tree.items():
        killed = False
        prev = {}
        for ln in ls:
            ev, a, s = ln["ev"], ln.get("a", {}), ln.get("s", {})
            if ev == "Kill":
                killed = True
                if any(v["st"] == "NEW" and v["live"] for v in s.values()):
                    eff["kill-while-restart-pending"] += 1
            if ev == "Enter" and a.get("inst", 1) > 1:
                eff["restart-after-kill-signal" if killed else "restart"] += 1
            if ev == "Enter" and killed:
                eff["enter-after-kill"] += 1
            if ev == "Exit":
                eff["exit-" + a["kind"]] += 1
            if ev == "BadSignal":
                eff["refused-signal-" + a["sig"]] += 1
            if ev == "SawCancel" and not killed:
                eff["cancel-observed-before-kill"] += 1
            for dn, v in s.items():
                pv = prev.get(dn)
                if pv and pv["st"] != v["st"]:
                    eff["%s->%s" % (pv["st"], v["st"])] += 1
                if pv and pv["st"] == "DONE" and v["st"] == "DONE" and ev == "Enter":
                    eff["done-left-alone-while-others-restart"] += 1
            for dn in prev:
                if dn not in s:
                    eff["node-discarded-by-parent-restart"] += 1
            if ev == "Settled":
                eff["settled"] += 1
            prev = s
    return eff


# ------------------------------------------------------------------ the check

def run(prop, tier, replay=None):
    t0 = time.time()
    work = vlib.scratch(prop)
    mcs, ntlc, ngen, nrace, stall_s = PLAN[tier]
    seed = vlib.seed()
    fs.check_shapes_in_sync()

    mc_states = mc_trans = 0
    mc_info = []
    model_events = Counter()
    batches = []
    if replay:
        rp = json.load(open(replay))
        scs = [v["detail"]["scenario"] for v in rp.get("violations", []) if v.get("detail", {}).get("scenario")]
        if not scs:
            raise vlib.Broken("replay file has no scenario")
        # a recorded interleaving cannot be forced on real goroutines: the scenario is repeated to give the schedule a chance
        batches = [("replay", [dict(s) for s in scs for _ in range(10)])]
    else:
        # 1. the design (the configs run side by side, and beside the harness build)
        import concurrent.futures as cf
        pool = cf.ThreadPoolExecutor(max_workers=len(mcs) + 1)
        futs = [(cfg, pool.submit(vlib.tlc_must_pass, vlib.scratch("%s-mc%d" % (prop, i)), "MC_Supervisor", cfg,
                             workers=max(2, int(min(vlib.NCPU, 16) * share)), timeout=to, heap="12g"))
                for i, (cfg, to, share) in enumerate(mcs)]
        fbuild = pool.submit(fs.build_harness, work)
        for cfg, f in futs:
            r = f.result()
            mc_states += r["distinct"]
            mc_trans += r["generated"]
            mc_info.append({"cfg": cfg, "distinct": r["distinct"], "generated": r["generated"], "depth": r["depth"], "wall_s": round(r["wall_s"], 1)})
            print("TLC %s: %d distinct states, %d transitions, depth %d, %.0fs" % (cfg, r["distinct"], r["generated"], r["depth"], r["wall_s"]))
        # 2. scenarios
        tlc_scs = fs.tlc_scenarios(work, ntlc, seed)
        # vacuity guard for the model: the simulated behaviours exercise every kind of service step, restarts and the kill
        model_events = Counter(x for sc in tlc_scs for x in sc.pop("model_events"))
        model_events["Fault"] = sum(model_events["Exit:" + k] for k in fs.FAULTS + ["badhealthy", "baddone"])
        for need in ("Enter", "Restart", "Healthy", "Done", "SawCancel", "Fault", "Exit:ctxErr", "Kill"):
            if model_events[need] == 0:
                raise vlib.Broken("vacuous model simulation: no %s in %d TLC behaviours" % (need, len(tlc_scs)))
        scs = fs.fixed_scenarios() + fs.orphan_scenarios() + fs.linger_scenarios(seed, LINGER[tier]) + fs.done_linger_sibling_scenarios(seed, LINGER[tier]) + fs.simultaneous_scenarios(seed, 2 * LINGER[tier]) + tlc_scs + fs.gen_scenarios(seed, ngen)
        scs += fs.badsignal_scenarios()
        # scenarios with lifecycle mistakes run in a process of their own: a supervisor that keeps its lock after the
        # refused signal wedges everything that shares the process
        bad = [s for s in scs if fs.has_badsignal(s)]
        scs = [s for s in scs if not fs.has_badsignal(s)]
        batches = [("main", [s for s in scs if not fs.risky(s)]), ("risky", [s for s in scs if fs.risky(s)]), ("badsig", bad),
                   ("race", fs.done_race_scenarios(nrace))]
    nid = 0
    allsc = {}
    for _, b in batches:
        for s in b:
            nid += 1
            s["id"] = nid
            allsc[nid] = s

    # 3. the real supervisor, under the race detector
    binp = fbuild.result() if not replay else fs.build_harness(work)
    verdict = vlib.Verdict(prop)
    lines = []
    crashes = 0
    run_wall = 0.0
    # Verdict order: whatever the real code did wrong (crash, hang, stall, double instance, API error, rejected step)
    # is reported first (exit 1).  Problems of the check itself that show up AFTER the real code ran - a batch that
    # ended unrecognisably, a trace validation that did not finish, the negative self-test, the vacuity guards - are
    # collected here and become Broken (exit 2) only when no violation was found.
    deferred = []
    for name, b in batches:
        todo = list(b)
        for attempt in range(1 if name == "race" else 4):
            if not todo:
                break
            if attempt > 0:          # trees that had not finished when the process died run again under fresh ids
                fresh = []
                for sc in todo:
                    nid += 1
                    sc = dict(sc, id=nid)
                    allsc[nid] = sc
                    fresh.append(sc)
                todo = fresh
            t1 = time.time()
            try:
                ls, out, completed = fs.run_batch(work, binp, todo, "%s%d" % (name, attempt), stall_s=stall_s,
                                                  par=64 if tier == "quick" else 128, timeout=1500)
            except vlib.Broken as e:
                deferred.append("batch %s: %s" % (name, e))
                break
            run_wall += time.time() - t1
            lines += ls
            for sig, blk in parse_races(out):
                verdict.add(sig, {"report": blk, "batch": name})
            if completed:
                todo = []
                break
            lk = re.search(r"VERIF-SUPERVISOR-LOCKLEAK tree=(\d+) dn=(\S+) sig=(\S+) panicked=(\S+) dump=(\S+)", out)
            if lk:
                dump = ""
                try:
                    dump = open(lk.group(5)).read()
                except OSError:
                    pass
                blocked = re.findall(r"\[sync\.(?:RW)?Mutex\.R?Lock[^\]]*\]:\n(?:.*\n)*?\S*pkg/supervisor\.(?:\(\*\w+\)\.)?(\w+)\(", dump)
                verdict.add("lock-leak/Signal-%s/supervisor-lock-still-held-after-refused-signal" % lk.group(3),
                            {"batch": name, "tree": int(lk.group(1)), "dn": lk.group(2), "panicked": lk.group(4),
                             "scenario": allsc.get(int(lk.group(1))), "waiting_for_the_lock": sorted(set(blocked))[:8],
                             "why": "supervisor.Signal refused the signal but the tree lock could not be read-locked for 3 s afterwards: "
                                    "the processor can record no death, restart nothing and cannot even cancel the tree",
                             "dump_excerpt": dump[:6000]})
                crashes += 1
                break
            hg = parse_hang(out)
            if hg:
                verdict.add(hg[0], {"batch": name, "goroutine_dump": hg[1], "scenarios": [x["src"] for x in todo][:20]})
                crashes += 1
                break
            cr = parse_crash(out)
            if not cr:
                deferred.append("supervisor harness did not complete and did not crash recognisably (batch %s):\n%s" % (name, out[-4000:]))
                break
            sig, tid, excerpt = cr
            crashes += 1
            verdict.add(sig, {"batch": name, "tree": tid, "scenario": allsc.get(tid), "output": excerpt})
            ended = {ln["t"] for ln in ls if ln["ev"] == "End"}
            todo = [s for s in todo if s["id"] not in ended and s["id"] != tid]
            if tid is None:
                break
    by_tree = {}
    for ln in sorted(lines, key=lambda x: (x["t"], x["n"])):
        by_tree.setdefault(ln["t"], []).append(ln)
    print("ran %d trees (%d logged steps) on the real supervisor under -race in %.1fs; %d process crash(es)"
          % (len(by_tree), len(lines), run_wall, crashes))

    # 4. direct oracles of the L part
    for t, ls in by_tree.items():
        for ln in ls:
            if ln["ev"] == "Double":
                verdict.add("double-instance/depth%d" % _depth(ln["a"]["dn"]), {"line": ln, "scenario": allsc.get(t)})
            if ln["ev"] == "HarnessError":      # RunGroup refused to start the children of a freshly entered runnable
                verdict.add("api-error/RunGroup/" + re.sub(r"[^A-Za-z]+", "-", ln["a"].get("err", ""))[:60], {"line": ln, "scenario": allsc.get(t)})
            if ln["ev"] == "WaitSettled" and not ln["a"].get("ok"):
                verdict.add("stall/waitSettle/never-clean", {"line": ln, "scenario": allsc.get(t)})
            if ln["ev"] == "Runaway":
                verdict.add("runaway/restart-loop", {"line": ln, "scenario": allsc.get(t)})
            if ln["ev"] == "Stall":
                dump = ""
                try:
                    dump = open(ln["a"]["dump"]).read()
                except OSError:
                    pass
                blocked = Counter(re.findall(r"^goroutine \d+ \[([^\],]+)", dump, re.M))
                verdict.add(classify_stall(ln), {"line": ln, "scenario": allsc.get(t), "goroutines": dict(blocked),
                                                 "dump_excerpt": dump[:6000]})

    # 5. TLC decides conformance of every recorded step
    res, r = {}, {"distinct": 0, "generated": 0, "wall_s": 0.0}
    if not any(ln["ev"] == "Reset" for ln in lines):
        deferred.append("no tree was started at all")
    else:
        try:
            res, r = fs.validate(work, lines)
        except vlib.Broken as e:
            deferred.append(str(e))
    rejected = {t: v for t, v in res.items() if v["hw"] != v["end"]}
    print("trace validation: %d trees, %d inferred states, %.1fs, %d tree(s) with a step the specification cannot explain"
          % (len(res), r["distinct"], r["wall_s"], len(rejected)))
    dbg_budget = 3
    for t, v in sorted(rejected.items()):
        ls = by_tree[t]
        idx = v["hw"] - v["first"]          # index (within the tree) of the first unexplained line
        idx = max(0, min(idx, len(ls) - 1))
        detail = {"line": ls[idx], "before": ls[max(0, idx - 6):idx], "scenario": allsc.get(t),
                  "why": "no behaviour of Supervisor.tla (with any silent supervisor steps) explains this logged step / snapshot"}
        if dbg_budget > 0:
            dbg_budget -= 1
            try:
                _, rd = fs.validate(work, ls, dbg=(t, v["hw"] - v["first"] + 1))
                detail["spec_states_before_the_step"] = rd["atline"][:6]
            except vlib.Broken:
                pass
        verdict.add(classify_reject(ls, idx), detail)
    rc = verdict.finish()

    # 6. evidence
    classes = set()
    acts = Counter()
    for t, ls in by_tree.items():
        if t in rejected:
            ls = ls[:rejected[t]["hw"] - rejected[t]["first"]]
        prev = {}
        for ln in ls:
            acts[ln["ev"]] += 1
            if ln["ev"] in ("Enter", "RunGroup", "Healthy", "Done", "SawCancel", "Exit", "BadSignal"):
                classes.add(pre_class(prev, ln))
            prev = ln.get("s", {})
    eff = effects(by_tree, allsc)
    shapes_seen = Counter(json.dumps(allsc[t]["shape"]["kids"], sort_keys=True) for t in by_tree if t in allsc)
    kinds = Counter(b["end"] for t in by_tree if t in allsc for bs in allsc[t]["scripts"].values() for b in bs)
    anysc = next(iter(allsc.values()))
    t_ok = [t for t in by_tree if t in res and t not in rejected and any(ln["ev"] == "End" for ln in by_tree[t])]
    sample_trace = [{k: ln[k] for k in ("n", "ev", "a", "s")} for ln in (by_tree[t_ok[0]][:12] if t_ok else [])]
    nneg = 0
    if not replay:
        cands = [t for t in t_ok if sum(1 for ln in by_tree[t] if ln["ev"] == "Enter") >= 4 and len(by_tree[t]) < 120]
        if not cands:
            deferred.append("no accepted trace with a restart for the negative self-test")
        else:
            try:
                nneg = fs.selftest(work, by_tree[cands[0]])
            except vlib.Broken as e:
                deferred.append(str(e))
    cov = {
        "states": mc_states if not replay else max(r["distinct"], 1),
        "transitions": mc_trans if not replay else max(r["generated"], 1),
        "traces_validated_against_impl": len(t_ok),
        "samples": [{"scenario": {k: anysc[k] for k in ("shape", "scripts", "killAfter", "src")}}, {"trace_prefix": sample_trace}],
        "evaluations": sum(acts[e] for e in ("Enter", "RunGroup", "Healthy", "Done", "SawCancel", "Exit", "BadSignal", "Kill", "ObsKilled")),
        "distinct_nontrivial": len(classes),
        "rule": "one evaluation = one logged service-side step of a real tree (with its snapshot of the supervisor's tree) that TLC explained "
                "with Supervisor.tla; distinct = distinct (step kind, node depth, node state and context liveness before the step, exit kind, "
                "instance number capped at 3, parent state/liveness, sibling states) tuples; Reset/Settled/End lines are not counted",
        "mc_configs": mc_info, "model_simulation_events": dict(model_events) if not replay else {}, "trace_spec_states": r["distinct"],
        "trees_run": len(by_tree), "trees_rejected": len(rejected), "process_crashes": crashes,
        "logged_steps": dict(acts), "effects_observed": dict(eff), "distinct_tree_shapes_run": len(shapes_seen),
        "script_endings": dict(kinds), "scenario_sources": dict(Counter(allsc[t]["src"].split(":")[0] for t in by_tree if t in allsc)),
        "stall_deadline_s": stall_s, "negative_selftests_rejected": nneg, "race_detector": True,
        "known_findings_matched": getattr(verdict, "n_known", 0),
        "exhaustive": False,
    }
    for need in ("restart", "cancel-observed-before-kill", "exit-ctxErr"):
        if not replay and eff.get(need, 0) == 0:
            deferred.append("vacuous run: effect %r never observed" % need)
    if deferred and rc == 0:
        raise vlib.Broken(deferred[0])
    for d in deferred:
        print("note (not a verdict): %s" % d.splitlines()[0][:200])
    vlib.write_evidence(prop, tier, "model_checking", cov, ASSUME, time.time() - t0, getattr(verdict, "n_unknown", 0))
    return rc
