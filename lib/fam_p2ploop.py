"""The gossip loop of p2p.Run (C03, routing part): P2PLoop.tla + harness/p2p/loop_harness.go.

The real p2p.Run (libp2p host, DHT, GossipSub, receive loop, send loop) runs under a real supervisor; harness peers talk
to it over the simulated transport of harness/stubs.  Every line is one delivered message / one item handed to the send
loop, with what the node put on its three output channels, its heartbeat table, and what it published."""
import json
import os
import random
import re
import shutil

import vlib

PKG = "./pkg/p2p"
INJECT = {"pkg/p2p": [(os.path.join(vlib.HARNESS, "common", "vh.go"), "p2p"),
                      (os.path.join(vlib.HARNESS, "p2p", "gossip_harness.go"), "p2p"),
                      (os.path.join(vlib.HARNESS, "p2p", "loop_harness.go"), "p2p")]}

FLOOR = 34
PREFIX = {"hb": 10, "req": 27}


def env(kind, claimed, peer, **kw):
    e = {"kind": kind, "claimed": claimed, "signer": claimed, "dom": kind, "same": True, "plen": 0,
         "parses": True, "peer": peer, "short": False, "req": {"chain": 2, "tx": "t1"}}
    e.update(kw)
    return e


def acceptable(e, gs):
    """Wait hint only (never a verdict): does the model expect an effect?"""
    if gs is None or e["claimed"] not in gs["keys"]:
        return False
    return e["signer"] == e["claimed"] and e["dom"] == e["kind"] and e["same"] and e["parses"] and not e["short"]


def recv(frm, kind, gs, tag="m", decodes=True, e=None):
    m = {"from": frm, "decodes": decodes, "kind": kind, "tag": tag}
    if e is not None:
        m["e"] = e
    else:
        m["e"] = {"kind": "none"}
    if not decodes or frm == "self" or kind == "none":
        m["hint"] = False
    elif kind in ("obs", "vaa"):
        m["hint"] = True
    else:
        m["hint"] = acceptable(e, gs)
    return {"ev": "NetRecv", "a": {"m": m}}


def gen_scenarios(seed_, n, own_hb=0):
    r = random.Random("p2ploop-%d" % seed_)
    res = []
    for i in range(n):
        size = r.choice([1, 2, 3, 4, 7, 19])
        A = {"idx": r.randrange(4), "keys": ["g%d" % k for k in range(1, size + 1)]}
        r.shuffle(A["keys"])
        keysB = [k for k in A["keys"] if r.random() < 0.6] + ["h1"]
        B = {"idx": A["idx"] + 1, "keys": keysB}
        everyone = sorted(set(A["keys"] + keysB + ["x1"]))
        self_ = r.choice(A["keys"] + ["x9"])
        want_hb = i < own_hb
        steps = [{"ev": "Config", "a": {"self": self_, "own_hb": want_hb}}]
        gs = None
        if r.random() < 0.7:
            steps.append({"ev": "GSetUpdate", "a": {"set": A}})
            gs = A
        changed = False
        for _ in range(r.randrange(10, 28)):
            if not changed and r.random() < 0.08:
                nxt = B if gs is not None else A
                steps.append({"ev": "GSetUpdate", "a": {"set": nxt}})
                gs, changed = nxt, True
                continue
            frm = r.choice(["p1", "p1", "p1", "p2", "self"])
            c = r.choice(everyone)
            what = r.choice(["obs", "vaa", "none", "undec", "hb", "hb", "req", "req", "req", "lreq", "badreq", "badreq", "badhb"])
            peer = frm
            if what == "obs":
                steps.append(recv(frm, "obs", gs, tag="o"))
            elif what == "vaa":
                steps.append(recv(frm, "vaa", gs, tag="v"))
            elif what == "none":
                steps.append(recv(frm, "none", gs))
            elif what == "undec":
                k = r.choice(["obs", "vaa", "req"])
                steps.append(recv(frm, k, gs, decodes=False, e=env("req", c, peer) if k == "req" else None))
            elif what == "hb":
                steps.append(recv(frm, "hb", gs, e=env("hb", c, peer)))
            elif what == "req":
                # a genuine request of a member (or of an outsider / departed member), also published by the node itself
                steps.append(recv(frm, "req", gs, e=env("req", c, peer, req={"chain": r.choice([2, 3, 255]), "tx": "t%d" % r.randrange(1, 4)})))
            elif what == "lreq":
                steps.append({"ev": "LocalReq", "a": {"req": {"chain": r.choice([2, 3, 255]), "tx": "t%d" % r.randrange(1, 4)}, "txlen": r.choice([32, 32, 1, 64])}})
            else:
                kind = "req" if what == "badreq" else "hb"
                mut = r.choice(["sig", "payload", "wrongmember", "outsider", "otherprefix", "noprefix", "short", "noparse"])
                if mut == "sig":
                    e = env(kind, c, peer, signer="ERR")
                elif mut == "payload":
                    e = env(kind, c, peer, same=False)
                elif mut == "wrongmember":
                    e = env(kind, c, peer, signer=r.choice([k for k in everyone if k != c]))
                elif mut == "outsider":
                    e = env(kind, "x1", peer)
                elif mut == "otherprefix":
                    e = env(kind, c, peer, dom="hb" if kind == "req" else "req")
                elif mut == "noprefix":
                    e = env(kind, c, peer, dom="raw")
                elif mut == "short":
                    e = env(kind, c, peer, short=True)
                else:
                    e = env(kind, c, peer, parses=False)
                steps.append(recv(frm, kind, gs, e=e))
        if want_hb:
            steps.append({"ev": "OwnHeartbeat", "a": {}})
        res.append({"steps": steps, "src": "gen-p2ploop"})
    return res


def tlc_scenarios(work, n, depth, seed_):
    """Behaviours of the model itself (Gen_P2PLoop under tlc -simulate), mapped to harness steps."""
    cfg = open(os.path.join(vlib.SPEC, "Gen_P2PLoop.cfg")).read().replace("GenDepth = 12", "GenDepth = %d" % depth)
    sdir = os.path.join(work, "spec")
    if not os.path.isdir(sdir):
        shutil.copytree(vlib.SPEC, sdir)
    name = "Gen_P2PLoop_%d.cfg" % seed_
    open(os.path.join(sdir, name), "w").write(cfg)
    r = vlib.tlc(work, "Gen_P2PLoop", name, workers=1, args=["-simulate", "num=%d" % n, "-depth", str(depth + 2), "-seed", str(seed_)], timeout=600)
    hs = vlib.tlc_prints(r["out"], "SCN")
    if not hs:
        raise vlib.Broken("TLC simulation produced no p2p loop scenarios:\n" + r["out"][-2000:])
    res = []
    for h in hs:
        steps = [{"ev": "Config", "a": {"self": "g1", "own_hb": False}}]
        gs = None
        for st in h:
            if st["ev"] == "GSetUpdate":
                gs = st["a"]["set"]
                steps.append(st)
            elif st["ev"] == "LocalReq":
                steps.append({"ev": "LocalReq", "a": {"req": st["a"]["req"], "txlen": 32}})
            else:
                m = st["a"]["m"]
                e = m.get("e") or {"kind": "none"}
                if e.get("kind") in ("hb", "req"):
                    e = dict(e)
                    e["short"] = PREFIX[e["kind"]] + e["plen"] < FLOOR
                    e["peer"] = m["from"]
                    steps.append(recv(m["from"], m["kind"], gs, tag="m", decodes=m["decodes"], e=e))
                else:
                    steps.append(recv(m["from"], m["kind"], gs, tag=m.get("tag") or "m", decodes=m["decodes"]))
        res.append({"steps": steps, "src": "tlc-p2ploop"})
    return res


def replay(work, scenarios):
    scp = os.path.join(work, "scenarios_l.ndjson")
    trp = os.path.join(work, "trace_l.ndjson")
    with open(scp, "w") as fh:
        for i, s in enumerate(scenarios):
            fh.write(json.dumps({"id": i + 1, "steps": s["steps"]}) + "\n")
    rc, out, wall = vlib.go_test(work, "node", PKG, "TestVerifP2PLoop", INJECT,
                                 env={"VERIF_SCENARIOS": scp, "VERIF_TRACE": trp, "VERIF_SEED": vlib.seed()}, timeout=900)
    m = re.search(r"VERIF-REPLAYED scenarios=(\d+) lines=(\d+) broken=(\d+)", out)
    if not m:
        crash = re.search(r"(?s)(panic: .*?|fatal error: .*?)\n\ngoroutine \d+ \[[^\]]*\]:\n(.*?)\n\n", out)
        if crash and "pkg/p2p" in crash.group(2) and "zz_verif" not in crash.group(2).split("\n")[0]:
            return None, wall, {"crash": crash.group(1)[:300], "stack": crash.group(2)[:3000]}
        raise vlib.Broken("p2p loop harness did not complete (rc=%d):\n%s" % (rc, out[-4000:]))
    errs = re.findall(r"VERIF-LOOP-ERROR (.*)", out)
    return vlib.read_ndjson(trp), wall, {"broken": int(m.group(3)), "errors": errs}


def validate(work, lines):
    sdir = os.path.join(work, "spec")
    if not os.path.isdir(sdir):
        shutil.copytree(vlib.SPEC, sdir)
    with open(os.path.join(sdir, "trace.ndjson"), "w") as fh:
        for ln in lines:
            fh.write(json.dumps(ln) + "\n")
    r = vlib.tlc(work, "Trace_P2PLoop", "Trace_P2PLoop.cfg", workers=1, timeout=900, heap="4g")
    fin = vlib.tlc_prints(r["out"], "FINISHED")
    if r["violated"]:
        return [{"t": -1, "n": -1, "ev": "INVARIANT", "why": "invariant violated on the recorded behaviour", "tlc": r["out"][-3000:]}], r
    if not fin:
        raise vlib.Broken("p2p loop trace validation did not finish:\n" + r["out"][-3000:])
    return vlib.tlc_prints(r["out"], "REJECT"), r


def signature(rej, line):
    ev = line.get("ev")
    s = line.get("s", {})
    if ev == "RunExit":
        why = s.get("why", "")
        fns = [f for f in re.findall(r"(node/pkg/(?:p2p|common)[\w/]*\.[\w.()*]+)\(", why) if "zz_verif" not in f and "TestVerif" not in f]
        return "loop/run-exit/%s" % ("panic@" + fns[0].split("/")[-1] if fns else re.sub(r"[^a-z]+", "-", why.lower())[:60])
    if ev == "Broken":
        return "loop/" + ("stall" if "stall" in s.get("why", "") else "broken")
    if ev == "End":
        return "loop/End/" + ("stray-output" if s.get("stray") else "state")
    m = line.get("a", {}).get("m", {})
    if ev == "NetRecv":
        e = m.get("e", {})
        cls = "valid"
        if not m.get("decodes"):
            cls = "undecodable"
        elif m.get("from") == "self":
            cls = "own-publication"
        elif m.get("kind") in ("hb", "req") and not (e.get("signer") == e.get("claimed") and e.get("dom") == e.get("kind") and e.get("same") and e.get("parses") and not e.get("short")):
            cls = "mutated"
        got = "+".join(k for k in ("obs", "vaa", "fwd", "pub") if s.get(k)) or "nothing"
        return "loop/NetRecv/%s/%s/%s" % (m.get("kind"), cls, got)
    return "loop/%s/%s" % (ev, "+".join(k for k in ("obs", "vaa", "fwd", "pub") if s.get(k)) or "nothing")
