"""Format family (C04 C05 C06 C07): VAAWire.tla / SigVerify.tla / Quorum.tla + harness/vaa + harness/explorerfmt.

Model-based-testing form of the technique (DESIGN.md section 1, "pure function / format" properties):
  * TLC checks the lemmas of the property on a boundary-value domain (MC_VAAWire / MC_SigVerify / MC_Quorum)
    and EXPORTS every enumerated case together with the value the specification gives it;
  * the Go harness evaluates the REAL code on every exported case and on seeded cases from a much wider
    concrete domain, one NDJSON line per evaluation (abstract input description + real output);
  * the verdict of every line is the specification's: exported-table comparison for TLC's cases (`compare_*`),
    and TLC itself (Trace_VAAWire / Trace_SigVerify) for every line.
"""
import json
import os
import shutil

import vlib

VH = os.path.join(vlib.HARNESS, "common", "vh.go")
CORE = os.path.join(vlib.HARNESS, "vaa", "fmt_core.go")
FUZZ = os.path.join(vlib.HARNESS, "vaa", "fmt_fuzz.go")
PROC = os.path.join(vlib.HARNESS, "vaa", "fmt_proc.go")
EXPL = os.path.join(vlib.HARNESS, "explorerfmt", "explorer_fmt.go")

TARGETS = {
    # name: (module, package path, inject)
    "vaa": ("node", "./pkg/vaa", {"pkg/vaa": [(VH, "vaa_test"), (CORE, "vaa_test"), (FUZZ, "vaa_test")]}),
    "proc": ("node", "./pkg/processor", {"pkg/processor": [(VH, "processor"), (CORE, "processor"), (PROC, "processor")]}),
    "explorer": ("explorer-backend", "./processor", {"processor": [(VH, "processor"), (CORE, "processor"), (EXPL, "processor")]}),
}


# ------------------------------------------------------------------ TLC: lemmas + exported enumeration

def mc(work, module, cfg, tag, workers=4, timeout=900, heap="8g"):
    """Exhaustive TLC run of a bounded instance; returns (rows exported under `tag`, tlc result)."""
    r = vlib.tlc_must_pass(work, module, cfg, workers=workers, timeout=timeout, heap=heap)
    rows = vlib.tlc_prints(r["out"], tag)
    if not rows:
        raise vlib.Broken("TLC exported no %s cases from %s/%s" % (tag, module, cfg))
    # large cases are exported through files in TLC's working directory
    rows = [json.load(open(os.path.join(work, "spec", x["file"]))) if set(x) == {"file"} else x for x in rows]
    if len(rows) != r["distinct"]:
        raise vlib.Broken("TLC exported %d %s cases but found %d states (%s/%s)" % (len(rows), tag, r["distinct"], module, cfg))
    rows.sort(key=lambda x: json.dumps(x, sort_keys=True))      # deterministic order whatever the worker interleaving
    r["tables"] = {"layout": (vlib.tlc_prints(r["out"], "LAYOUT") or [None])[0],
                   "headers": (vlib.tlc_prints(r["out"], "HEADERS") or [None])[0]}
    return rows, r


def write_tables(work, tables):
    if not tables.get("layout") or tables.get("headers") is None:
        raise vlib.Broken("TLC did not print the layout tables")
    p = os.path.join(work, "tables.json")
    with open(p, "w") as fh:
        json.dump(tables, fh)
    return p


def write_vectors(work, name, vectors):
    p = os.path.join(work, "vectors_%s.ndjson" % name)
    with open(p, "w") as fh:
        for v in vectors:
            fh.write(json.dumps(v) + "\n")
    return p


# ------------------------------------------------------------------ the real code

def run_vectors(work, target, vectors, tables_path, tag):
    module, pkg, inject = TARGETS[target]
    vp = write_vectors(work, "%s_%s" % (tag, target), vectors)
    trp = os.path.join(work, "trace_%s_%s_vec.ndjson" % (tag, target))
    rc, out, wall = vlib.go_test(work, module, pkg, "^TestVerifFmtVectors$", inject,
                                 env={"VERIF_FMT_IN": vp, "VERIF_TRACE": trp, "VERIF_FMT_TABLES": tables_path,
                                      "VERIF_SEED": vlib.seed()}, timeout=1500)
    if "VERIF-FMT vectors=" not in out or rc != 0:
        raise vlib.Broken("format harness (%s, vectors) did not complete (rc=%d):\n%s" % (target, rc, out[-4000:]))
    return vlib.read_ndjson(trp), wall


def run_generators(work, target, gens, n, tables_path, tag, extra_env=None, race=False):
    """race=True: build and run with the Go race detector when the toolchain can (falls back to a normal build).
    A data race reported by the detector is returned as a pseudo trace line (ev "DataRace"), never as Broken."""
    module, pkg, inject = TARGETS[target]
    trp = os.path.join(work, "trace_%s_%s_gen.ndjson" % (tag, target))
    env = {"VERIF_FMT_GEN": ",".join(gens), "VERIF_FMT_N": n, "VERIF_TRACE": trp, "VERIF_FMT_TABLES": tables_path,
           "VERIF_SEED": vlib.seed()}
    env.update(extra_env or {})
    raced = False
    rc, out, wall = vlib.go_test(work, module, pkg, "^TestVerifFmtTrace$", inject, env=env, timeout=1500, race=race)
    if race and "VERIF-FMT generators=" not in out and "DATA RACE" not in out:
        # the race build is not available here: run the same generators without it
        race = False
        rc, out, wall2 = vlib.go_test(work, module, pkg, "^TestVerifFmtTrace$", inject, env=env, timeout=1500)
        wall += wall2
    lines = vlib.read_ndjson(trp)
    if race and "WARNING: DATA RACE" in out:
        raced = True
        m = out[out.index("WARNING: DATA RACE"):]
        lines.append({"t": 2, "n": 0, "ev": "DataRace", "a": {"src": "go-race-detector", "gens": list(gens)},
                      "s": {"report": m[:2500]}})
    if "VERIF-FMT generators=" not in out or (rc != 0 and not raced):
        raise vlib.Broken("format harness (%s, generators %s) did not complete (rc=%d):\n%s" % (target, gens, rc, out[-4000:]))
    for ln in lines:
        ln["race_detector"] = race
    return lines, wall


def fuzz(work, tables_path, seeds_hex, fuzztime, workers):
    """Go native fuzzing of vaa.Unmarshal through the injected FuzzVerifUnmarshal.  The instrumented test binary is
    run from a scratch directory (a crasher file could only ever be written there, never into /repo) with its own
    corpus cache; returns the directory holding the corpus and the inputs the online oracle flagged."""
    module, pkg, inject = TARGETS["vaa"]
    fdir = os.path.join(work, "fuzz")
    os.makedirs(os.path.join(fdir, "cache"), exist_ok=True)
    os.makedirs(os.path.join(fdir, "flag"), exist_ok=True)
    seeds = os.path.join(fdir, "seeds.hex")
    with open(seeds, "w") as fh:
        for h in seeds_hex:
            fh.write(h + "\n")
    binary = os.path.join(fdir, "vaa.fuzz.test")
    rc, out, _ = vlib.go_test(work, module, pkg, "^$", inject, binary_only=binary, extra_args=["-fuzz", "FuzzVerifUnmarshal"],
                              timeout=900)
    if rc != 0 or not os.path.exists(binary):
        raise vlib.Broken("could not build the fuzz binary:\n" + out[-3000:])
    rc, out = vlib.run_test_binary(binary, "^$", fdir, env={"VERIF_FMT_TABLES": tables_path, "VERIF_FUZZ_SEEDS": seeds,
                                                            "VERIF_FUZZ_OUT": os.path.join(fdir, "flag")},
                                   timeout=fuzztime + 300,
                                   extra_args=["-test.fuzz", "^FuzzVerifUnmarshal$", "-test.fuzztime", "%ds" % fuzztime,
                                               "-test.fuzzcachedir", os.path.join(fdir, "cache"), "-test.parallel", str(workers)])
    if rc != 0 or "PASS" not in out:
        raise vlib.Broken("fuzzing run did not complete (rc=%d):\n%s" % (rc, out[-3000:]))
    execs = 0
    import re
    for m in re.finditer(r"execs: (\d+)", out):
        execs = max(execs, int(m.group(1)))
    flagged = 0
    for f in os.listdir(os.path.join(fdir, "flag")):
        flagged += sum(1 for ln in open(os.path.join(fdir, "flag", f)) if ln.strip())
    ncorpus = sum(len(fs) for _, _, fs in os.walk(os.path.join(fdir, "cache")))
    # one directory for the "corpus" generator: cache + flagged
    shutil.copytree(os.path.join(fdir, "flag"), os.path.join(fdir, "cache", "flagged"))
    return os.path.join(fdir, "cache"), {"execs": execs, "corpus_files": ncorpus, "flagged_inputs": flagged}


# ------------------------------------------------------------------ TLC decides every recorded evaluation

def validate(work, trace_module, lines, tag):
    """Trace validation: TLC computes the specification's value for every line.  Returns (rejections, tlc result)."""
    sdir = os.path.join(work, "spec")
    if not os.path.isdir(sdir):
        shutil.copytree(vlib.SPEC, sdir)
    lines = [dict(ln, n=i + 1) for i, ln in enumerate(lines)]
    with open(os.path.join(sdir, "trace.ndjson"), "w") as fh:
        for ln in lines:
            fh.write(json.dumps(ln) + "\n")
    if not lines:
        raise vlib.Broken("no evaluations were recorded (%s)" % tag)
    r = vlib.tlc(work, trace_module, trace_module + ".cfg", workers=1, timeout=1800, heap="12g")
    fin = vlib.tlc_prints(r["out"], "FINISHED")
    if not fin or fin[-1].get("lines") != len(lines):
        raise vlib.Broken("trace validation (%s) did not finish:\n%s" % (trace_module, r["out"][-3000:]))
    rejs = vlib.tlc_prints(r["out"], "REJECT")
    if len(rejs) != len(fin[-1].get("rejected", [])):
        raise vlib.Broken("trace validation (%s): %d REJECT lines but %d rejected pairs" % (trace_module, len(rejs), len(fin[-1]["rejected"])))
    return rejs, r, lines


# ------------------------------------------------------------------ signatures

def plen_bucket(n):
    if n is None:
        return "-"
    if n <= 0:
        return "plen=0"
    if n <= 1000:
        return "plen<=1000"
    return "plen>1000"


def real_outcome(s):
    if "panic" in s or s.get("res") == "panic":
        return "panic"
    if "malformed" in s:
        return "partial-vaa"
    if "ok" in s:
        return "ok" if s["ok"] else "err"
    if "res" in s:
        return "res=" + str(s["res"])
    return "out"
