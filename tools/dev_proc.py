#!/usr/bin/env python3
import sys, os, json
sys.path.insert(0, os.path.join(os.path.dirname(os.path.abspath(__file__)), '..', 'lib'))
import vlib, fam_processor as fp
os.environ.setdefault("VERIF_KEEP", "1")
w = vlib.scratch('devproc')
prof = sys.argv[1]; n = int(sys.argv[2])
if prof == 'tlc':
    scs = fp.tlc_scenarios(w, n, 14, vlib.seed())
else:
    scs = fp.gen_scenarios(vlib.seed(), n, prof)
lines, wall = fp.replay(w, scs, runloop=bool(os.environ.get('RUNLOOP')))
print("replayed", len(scs), "scenarios", len(lines), "lines in %.1fs" % wall)
rejs, r = fp.validate(w, lines)
print("tlc wall %.1fs states %d" % (r['wall_s'], r['distinct']))
byn = {(l['t'], l['n']): l for l in lines}
from collections import Counter
c = Counter()
for rj in rejs:
    ln = byn.get((rj['t'], rj['n']), {})
    props, comps = fp.attribute(rj, ln)
    sig = fp.signature(rj, ln, comps)
    c[(tuple(sorted(props)), sig)] += 1
for k, v in c.most_common():
    print(v, k)
if rejs and len(sys.argv) > 3:
    rj = rejs[int(sys.argv[3])]
    print(json.dumps(rj, indent=1)[:3000]); print(json.dumps(byn.get((rj['t'], rj['n'])), indent=1)[:3000])
print("work dir", w)
