#!/usr/bin/env python3
"""Developer helper: tlcrun.py MODULE CFG [workers] [extra tlc args...]"""
import sys, os
sys.path.insert(0, os.path.join(os.path.dirname(os.path.abspath(__file__)), '..', 'lib'))
import vlib
w = vlib.scratch('tlcrun')
r = vlib.tlc(w, sys.argv[1], sys.argv[2], workers=int(sys.argv[3]) if len(sys.argv) > 3 else 16,
             args=sys.argv[4:], timeout=int(os.environ.get('TLC_TIMEOUT', '1800')), deque=bool(os.environ.get('DEQUE')))
lines = [l for l in r['out'].splitlines() if not l.startswith(('Parsing file', 'Semantic processing'))]
print("\n".join(lines[-int(os.environ.get('TAIL', '60')):]))
print({k: v for k, v in r.items() if k != 'out'})
