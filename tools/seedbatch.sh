#!/bin/sh
# tools/seedbatch.sh <seeded dir>... : confirm each seeded change and run its property's check against it (sequentially)
cd /verif; mkdir -p .build/seedlogs
for d in "$@"; do
  p=$(basename $d | cut -d- -f1)
  python3 tools/seedtest.py $d --confirm --check $p --fast > .build/seedlogs/$(basename $d).log 2>&1
  echo "$d done: $(tail -1 .build/seedlogs/$(basename $d).log)"
done
