#!/usr/bin/env python3
"""tools/seed_import.py <ID> [<worktree>] : copy <worktree>/OUT/<k>/ (default /tmp/mut-<ID>) into seeded/<ID>-<n> with the
next free numbers; prints the new directories."""
import glob
import os
import shutil
import sys

HERE = os.path.dirname(os.path.dirname(os.path.abspath(__file__)))
pid = sys.argv[1]
wt = sys.argv[2] if len(sys.argv) > 2 else "/tmp/mut-" + pid
have = [int(os.path.basename(d).split("-")[1]) for d in glob.glob(os.path.join(HERE, "seeded", pid + "-*"))]
n = max(have + [0])
for d in sorted(glob.glob(os.path.join(wt, "OUT", "[0-9]*"))):
    need = ["patch.diff", "demo.txt", "meta.json"]
    if not all(os.path.exists(os.path.join(d, f)) for f in need):
        print("incomplete:", d)
        continue
    n += 1
    dst = os.path.join(HERE, "seeded", "%s-%d" % (pid, n))
    shutil.copytree(d, dst)
    if not os.path.exists(os.path.join(dst, "demo_test.go")):
        c = [f for f in os.listdir(dst) if f.endswith("_test.go")]
        if c:
            os.rename(os.path.join(dst, c[0]), os.path.join(dst, "demo_test.go"))
    print(dst)
