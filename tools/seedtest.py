#!/usr/bin/env python3
"""tools/seedtest.py <seeded dir> [--confirm] [--check PROP[,PROP..]] [--tier quick]

--confirm : in a scratch worktree of /repo (under /tmp, removed afterwards) verify that the patch applies, builds,
            the existing tests of the touched packages pass, the demo FAILS with the patch and PASSES without it.
--check   : apply the patch to /repo, run ./check for the given properties, undo the patch (git checkout -- .).
Results are merged into <seeded dir>/meta.json under "confirmed" / "checks"."""
import argparse
import json
import os
import re
import subprocess
import sys
import time

HERE = os.path.dirname(os.path.dirname(os.path.abspath(__file__)))
sys.path.insert(0, os.path.join(HERE, "lib"))
import vlib  # noqa: E402


def sh(cmd, cwd=None, env=None, timeout=1800):
    p = subprocess.run(cmd, shell=True, cwd=cwd, env=env, stdout=subprocess.PIPE, stderr=subprocess.STDOUT, timeout=timeout)
    return p.returncode, p.stdout.decode("utf-8", "replace")


def demo_info(d):
    txt = open(os.path.join(d, "demo.txt")).read()
    m = re.search(r"at:\s*(\S+)", txt) or re.search(r"(node/\S+_test\.go|explorer-backend/\S+_test\.go)", txt)
    place = m.group(1)
    m = re.search(r"-run\s+'?([^'\s]+)'?", txt)
    run = m.group(1)
    if " -race" in txt:
        run = run + "' -race -run '" + run  # the demonstration needs the race detector (spliced into the quoted -run argument)
    return place, run


def touched_pkgs(d):
    pk = set()
    for line in open(os.path.join(d, "patch.diff")):
        m = re.match(r"\+\+\+ b/(\S+)", line)
        if m and m.group(1).endswith(".go"):
            pk.add(os.path.dirname(m.group(1)))
    return sorted(pk)


def confirm(d):
    wt = "/tmp/seedconfirm-%d" % os.getpid()
    sh("git -C /repo worktree add -q --detach %s HEAD" % wt)
    res = {}
    try:
        place, run = demo_info(d)
        module = place.split("/")[0]
        pkgrel = "./" + os.path.dirname(place)[len(module) + 1:]
        env = vlib.go_env()
        ovf = "/tmp/quic-overlay.json"
        if "quic-overlay-sim" in open(os.path.join(d, "demo.txt")).read():
            ovf = "/tmp/quic-overlay-sim.json"  # the demonstration runs p2p.Run over the simulated transport
        ov = "-overlay %s" % ovf if (module == "node" and os.path.exists(ovf)) else ""
        sh("cp %s %s" % (os.path.join(d, "demo_test.go"), os.path.join(wt, place)))
        rc, out = sh("go test %s -vet=off -count=1 -run '%s' %s" % (ov, run, pkgrel), cwd=os.path.join(wt, module), env=env)
        res["demo_without_patch"] = "PASS" if rc == 0 else "FAIL"
        rc, out = sh("git apply %s" % os.path.join(d, "patch.diff"), cwd=wt)
        res["applies"] = rc == 0
        pk = touched_pkgs(d)
        ok = True
        outs = []
        for p in pk:
            mod = p.split("/")[0]
            rel = "./" + p[len(mod) + 1:]
            os.rename(os.path.join(wt, place), os.path.join(wt, place + ".off"))
            for attempt in range(3):  # pkg/alephium's TestDisableBlockPoller is flaky under load on the unchanged tree
                rc, out = sh("go build %s %s && go test %s -vet=off -count=1 %s" % (ov, rel, ov, rel), cwd=os.path.join(wt, mod), env=env)
                if rc == 0:
                    break
            os.rename(os.path.join(wt, place + ".off"), os.path.join(wt, place))
            ok = ok and rc == 0
            outs.append(out[-300:])
        res["existing_tests_with_patch"] = "PASS" if ok else "FAIL: " + " | ".join(outs)
        rc, out = sh("go test %s -vet=off -count=1 -run '%s' %s" % (ov, run, pkgrel), cwd=os.path.join(wt, module), env=env)
        res["demo_with_patch"] = "PASS" if rc == 0 else "FAIL"
        res["ok"] = (res["demo_without_patch"] == "PASS" and res["applies"] and ok and res["demo_with_patch"] == "FAIL")
    finally:
        sh("git -C /repo worktree remove --force %s" % wt)
    return res


def run_checks(d, props, tier, inplace=False, fast=False):
    """inplace: apply to /repo itself (and undo); otherwise use a scratch worktree + VERIF_REPO so that other
    work reading /repo is not disturbed."""
    res = {}
    if inplace:
        rc, out = sh("git -C /repo status --porcelain")
        if out.strip():
            raise SystemExit("/repo is not clean: " + out)
        root = "/repo"
    else:
        root = "/tmp/seedrun-%d" % os.getpid()
        sh("git -C /repo worktree add -q --detach %s HEAD" % root)
    try:
        rc, out = sh("git -C %s apply %s" % (root, os.path.join(d, "patch.diff")))
        if rc != 0:
            raise SystemExit("patch does not apply: " + out)
        env = dict(os.environ)
        env["VERIF_REPO"] = root
        env["VERIF_OUT"] = os.path.join(HERE, ".build", "seedout")  # keep evidence/ and replays/ of the unchanged tree intact
        if fast:
            env["VERIF_SKIP_MC"] = "1"  # the exhaustive TLC run of the processor model does not depend on the code
        for p in props:
            t0 = time.time()
            rc, out = sh("./check %s --tier %s" % (p, tier), cwd=HERE, env=env, timeout=7200)
            sigs = sorted(set(re.findall(r"violation signature: (.*)", out)))
            res[p] = {"exit": rc, "tier": tier, "wall_s": round(time.time() - t0), "signatures": sigs[:8],
                      "tail": out.strip().splitlines()[-3:], "on": "repo" if inplace else "worktree"}
            print(p, "exit", rc, sigs[:4])
    finally:
        if inplace:
            sh("git -C /repo checkout -- .")
        else:
            sh("git -C /repo worktree remove --force %s" % root)
    return res


def main():
    ap = argparse.ArgumentParser()
    ap.add_argument("dir")
    ap.add_argument("--confirm", action="store_true")
    ap.add_argument("--check", default="")
    ap.add_argument("--tier", default="quick")
    ap.add_argument("--inplace", action="store_true")
    ap.add_argument("--fast", action="store_true")
    a = ap.parse_args()
    d = os.path.abspath(a.dir)
    mp = os.path.join(d, "meta.json")
    meta = json.load(open(mp))
    if a.confirm:
        meta["confirmed"] = confirm(d)
        print("confirm:", meta["confirmed"])
    if a.check:
        meta.setdefault("checks", {}).update(run_checks(d, a.check.split(","), a.tier, a.inplace, a.fast))
    json.dump(meta, open(mp, "w"), indent=1)


if __name__ == "__main__":
    main()
