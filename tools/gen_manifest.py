#!/usr/bin/env python3
"""Regenerates /verif/MANIFEST.json from the table below (single source of truth for the interface)."""
import json
import os

HERE = os.path.dirname(os.path.dirname(os.path.abspath(__file__)))

BASELINE_OFF = ("for m in clients/eth explorer-api-server explorer-backend node; do (cd /repo/$m && "
                "GOFLAGS=-mod=mod go test -json -vet=off -count=1 -timeout 25m ./...); done")

PROC_NOTE = ("Trusted: TLC, the Go toolchain, ECDSA/Keccak. The exhaustive run is at scaled constants (3-4 keys, 2 digests); "
             "the bridge to real sizes (sets of 1..19, real keys, real Badger store) is trace validation of replayed TLC "
             "behaviours and seeded adversarial histories. Time is simulated by shifting recorded instants in-package.")

CHECKS = {
    "C01": dict(text="Processor.tla is model-checked exhaustively (StoredValid, BroadcastValid, NoPeerOverwrite) and every handler call "
                     "of replayed/generated histories on the real processor is validated by TLC against the same actions, with the "
                     "stored and broadcast VAAs decoded and their signers recovered independently of the code under test.",
                ref="6/C01", note=PROC_NOTE, technique="TLA+ model checking (TLC) + trace validation of the real handlers against Processor.tla"),
    "C02": dict(text="Same specification; PublishAsSoonAs, NoPublishWithoutObservation, AtMostOncePerLifetime checked exhaustively; "
                     "conformance of the real handlers on TLC behaviours, random histories and all orders of fixed event multisets.",
                ref="6/C02", note=PROC_NOTE, technique="TLA+ model checking (TLC) + trace validation incl. permutation (confluence) histories"),
    "C03": dict(text="InvalidObservationNoEffect is model-checked; the real observation handler is driven with every single-mutation class of "
                     "valid observations before/after set changes and TLC validates that the projected state is unchanged.",
                ref="6/C03", note=PROC_NOTE, technique="TLA+ model checking (TLC) + trace validation of gossip verifiers"),
    "C13": dict(text="The specification is total over the adversarial input alphabet; histories over that alphabet (TLC behaviours and seeded "
                     "generators) run on the real handlers under recover(); a panic is a trace line no specification action matches.",
                ref="6/C13", note=PROC_NOTE, technique="TLA+ specification as generator/oracle (TLC) + trace validation; panic = rejected line"),
    "C14": dict(text="Cleanup decision table model-checked with scaled thresholds (NoEarlyDiscard, RetryCadence, RetryOnlyWhenDue); the real "
                     "handleCleanup is validated on histories of ticks and elapsed durations from 1 s to 120 h.",
                ref="6/C14", note=PROC_NOTE, technique="TLA+ model checking (TLC) + trace validation of handleCleanup with simulated time"),
}

NOT_YET = {
}


def main():
    props = [json.loads(l)["id"] for l in open(os.path.join(HERE, "properties.jsonl"))]
    checks = []
    for pid in props:
        if pid not in CHECKS:
            continue
        c = CHECKS[pid]
        checks.append({
            "property_id": pid,
            "quick_cmd": "./check %s --tier quick" % pid,
            "thorough_cmd": "./check %s --tier thorough" % pid,
            "evidence_file": "/verif/evidence/%s.json" % pid,
            "replay_cmd_template": "./check %s --replay {path}" % pid,
            "engine": "tlc+go-harness",
            "level_claimed": {"category": c.get("category", "model_checking"), "text": c["text"], "design_ref": c["ref"]},
            "level_note": c["note"],
            "technique": c["technique"],
        })
    na = [{"property_id": p, "reason": NOT_YET.get(p, "check not built yet in this round (planned in DESIGN.md section 6); not claimed")}
          for p in props if p not in CHECKS]
    m = {
        "version": 1,
        "setup_cmd": "./setup.sh",
        "hooks": {"guard": "verif", "enable": "go test -tags verif (no source hooks are needed so far: harness files are injected with go -overlay)",
                  "baseline_off_cmd": BASELINE_OFF, "source_commits": [], "add_only": True},
        "engines": [{"name": "tlc+go-harness", "path": "/verif/check", "serves_properties": [c["property_id"] for c in checks],
                     "kind_free_text": "TLA+ specifications under /verif/spec checked with TLC; Go conformance harnesses under /verif/harness "
                                       "injected into the packages of /repo with `go test -overlay`; traces validated by TLC"}],
        "checks": checks,
        "not_applicable": na,
        "notes": "See DESIGN.md. known_findings.txt lists recorded findings and repaired defects.",
    }
    with open(os.path.join(HERE, "MANIFEST.json"), "w") as fh:
        json.dump(m, fh, indent=1)
        fh.write("\n")


if __name__ == "__main__":
    main()
