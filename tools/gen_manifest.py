#!/usr/bin/env python3
"""Regenerates /verif/MANIFEST.json from the table below (single source of truth for the interface)."""
import json
import os

HERE = os.path.dirname(os.path.dirname(os.path.abspath(__file__)))

BASELINE_OFF = ("for m in clients/eth explorer-api-server explorer-backend node; do (cd /repo/$m && "
                "GOFLAGS=-mod=mod go test -json -vet=off -count=1 -timeout 25m ./...); done")

import importlib
import sys
sys.path.insert(0, os.path.join(HERE, "lib"))
CHECKS = {}
for _f in sorted(os.listdir(os.path.join(HERE, "lib"))):
    if _f.startswith("chk_") and _f.endswith(".py"):
        try:
            _m = importlib.import_module(_f[:-3])
        except Exception as _e:
            sys.stderr.write("note: cannot load %s: %s\n" % (_f, _e))
            continue
        if os.environ.get("MANIFEST_ONLY") and _f[4:-3] not in os.environ["MANIFEST_ONLY"].split(","):
            continue
        for _pid in getattr(_m, "PROPS", []):
            CHECKS[_pid] = _m.MANIFEST[_pid]

NOT_YET = {
}


def main():
    props = [json.loads(l)["id"] for l in open(os.path.join(HERE, "properties.jsonl"))]
    checks = []
    for pid in props:
        if pid not in CHECKS:
            continue
        c = CHECKS[pid]
        checks.append({
            "property_id": pid,
            "quick_cmd": "./check %s --tier quick" % pid,
            "thorough_cmd": "./check %s --tier thorough" % pid,
            "evidence_file": "/verif/evidence/%s.json" % pid,
            "replay_cmd_template": "./check %s --replay {path}" % pid,
            "engine": "tlc+go-harness",
            "level_claimed": {"category": c.get("category", "model_checking"), "text": c["text"], "design_ref": c["ref"]},
            "level_note": c["note"],
            "technique": c["technique"],
        })
    na = [{"property_id": p, "reason": NOT_YET.get(p, "check not built yet in this round (planned in DESIGN.md section 6); not claimed")}
          for p in props if p not in CHECKS]
    m = {
        "version": 1,
        "setup_cmd": "./setup.sh",
        "hooks": {"guard": "verif", "enable": "go test -tags verif (no source hooks are needed so far: harness files are injected with go -overlay)",
                  "baseline_off_cmd": BASELINE_OFF, "source_commits": [], "add_only": True},
        "engines": [{"name": "tlc+go-harness", "path": "/verif/check", "serves_properties": [c["property_id"] for c in checks],
                     "kind_free_text": "TLA+ specifications under /verif/spec checked with TLC; Go conformance harnesses under /verif/harness "
                                       "injected into the packages of /repo with `go test -overlay`; traces validated by TLC"}],
        "checks": checks,
        "not_applicable": na,
        "notes": "See DESIGN.md. known_findings.txt lists recorded findings and repaired defects.",
    }
    with open(os.path.join(HERE, "MANIFEST.json"), "w") as fh:
        json.dump(m, fh, indent=1)
        fh.write("\n")


if __name__ == "__main__":
    main()
