#!/usr/bin/env python3
import sys, os, json
sys.path.insert(0, os.path.join(os.path.dirname(os.path.abspath(__file__)), '..', 'lib'))
import vlib, fam_gossip as fg
os.environ.setdefault("VERIF_KEEP", "1")
w = vlib.scratch('devgossip')
scs = fg.tlc_scenarios(w, 50, 12, vlib.seed()) + fg.gen_scenarios(vlib.seed(), int(sys.argv[1]))
lines, wall, skipped = fg.replay(w, scs)
print("replayed", len(scs), len(lines), "skipped", skipped, "%.1fs" % wall)
rejs, r = fg.validate(w, lines)
print("tlc", r['wall_s'], r['distinct'], len(rejs))
byn = {(l['t'], l['n']): l for l in lines}
for rj in rejs[:5]:
    ln = byn.get((rj['t'], rj['n']), {})
    print(fg.signature(rj, ln)); print(json.dumps(rj)[:800]); print(json.dumps(ln)[:1200])
from collections import Counter
print(Counter((l['ev'], l['s'].get('verdict')) for l in lines))
