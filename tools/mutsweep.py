#!/usr/bin/env python3
"""tools/mutsweep.py [--per-file N] [--workers W] [--seed S] [--only substr]

Classic operator-mutation sweep over the anchored Go files as a self-test of the checks: each mutant is a
one-token change (comparison / boolean operator flip, negation dropped, +-1, continue<->break, true<->false) on a
non-logging line.  A mutant that does not compile or that the repository's own tests of that package already kill
is skipped; for the others the checks of the properties the file is anchored in are run (quick tier) against a
scratch worktree (VERIF_REPO) until one reports a violation.  Results: /verif/mutsweep/results.jsonl
(one line per mutant: file, line, before/after, outcome killed-by-<ID> | survived | skipped-<why>)."""
import argparse
import concurrent.futures
import json
import os
import random
import re
import subprocess
import sys
import threading

HERE = os.path.dirname(os.path.dirname(os.path.abspath(__file__)))
sys.path.insert(0, os.path.join(HERE, "lib"))
import vlib  # noqa: E402

OVERLAY = "/tmp/quic-overlay.json"

# file -> (module, package dir relative to module, needs quic overlay, properties to try in order)
TARGETS = {
    "node/pkg/processor/observation.go": ("node", "./pkg/processor", False, ["C01", "C02", "C03"]),
    "node/pkg/processor/message.go": ("node", "./pkg/processor", False, ["C02", "C13", "C04"]),
    "node/pkg/processor/broadcast.go": ("node", "./pkg/processor", False, ["C02", "C01", "C13"]),
    "node/pkg/processor/cleanup.go": ("node", "./pkg/processor", False, ["C14", "C13"]),
    "node/pkg/processor/injection.go": ("node", "./pkg/processor", False, ["C02", "C13"]),
    "node/pkg/processor/processor.go": ("node", "./pkg/processor", False, ["C01", "C03"]),
    "node/pkg/processor/quorum.go": ("node", "./pkg/processor", False, ["C07", "C01"]),
    "node/pkg/vaa/structs.go": ("node", "./pkg/vaa", False, ["C05", "C06", "C04", "C12"]),
    "node/pkg/vaa/payloads.go": ("node", "./pkg/vaa", False, ["C15"]),
    "node/pkg/db/db.go": ("node", "./pkg/db", False, ["C12", "C16"]),
    "node/pkg/publicrpc/publicrpcserver.go": ("node", "./pkg/publicrpc", False, ["C12"]),
    "node/pkg/common/guardianset.go": ("node", "./pkg/common", False, ["C03"]),
    "node/pkg/common/obsvReqSendC.go": ("node", "./pkg/common", False, ["C17", "C14"]),
    "node/pkg/p2p/p2p.go": ("node", "./pkg/p2p", True, ["C03"]),
    "node/cmd/guardiand/reobserve.go": ("node", "./cmd/guardiand", True, ["C17"]),
    "node/cmd/guardiand/adminserver.go": ("node", "./cmd/guardiand", True, ["C15", "C12"]),
    "node/pkg/alephium/watcher.go": ("node", "./pkg/alephium", True, ["C08", "C09"]),
    "node/pkg/alephium/reobserve.go": ("node", "./pkg/alephium", True, ["C08"]),
    "node/pkg/alephium/utils.go": ("node", "./pkg/alephium", True, ["C11", "C08"]),
    "node/pkg/alephium/client.go": ("node", "./pkg/alephium", True, ["C09", "C08"]),
    "node/pkg/ethereum/watcher.go": ("node", "./pkg/ethereum", True, ["C10"]),
    "node/pkg/ethereum/by_transaction.go": ("node", "./pkg/ethereum", True, ["C10"]),
    "node/pkg/supervisor/supervisor_processor.go": ("node", "./pkg/supervisor", False, ["C18"]),
    "node/pkg/supervisor/supervisor_node.go": ("node", "./pkg/supervisor", False, ["C18"]),
    "node/cmd/spy/spy.go": ("node", "./cmd/spy", True, ["C20"]),
    "explorer-backend/guardiansets/gst_data.go": ("explorer-backend", "./guardiansets", False, ["C19"]),
    "explorer-backend/processor/vaa_gossip_consumer.go": ("explorer-backend", "./processor", False, ["C19", "C07"]),
    "explorer-backend/deduplicator/deduplicator.go": ("explorer-backend", "./deduplicator", False, ["C19"]),
}

# only these functions of large files are in scope (None = whole file)
SCOPE = {
    "node/pkg/p2p/p2p.go": ("heartbeatDigest", "signedObservationRequestDigest", "processSignedHeartbeat", "processSignedObservationRequest"),
    "node/cmd/guardiand/adminserver.go": ("adminGuardianSetUpgradeToVAA", "adminContractUpgradeToVAA", "tokenBridge", "InjectGovernanceVAA",
                                          "FindMissingMessages", "fetchMissing", "GovMsgToVaa"),
}

OPS = [
    (r"<=", "<"), (r">=", ">"), (r"(?<![<>=!])<(?![<=-])", "<="), (r"(?<![<>=!-])>(?![>=])", ">="),
    (r"==", "!="), (r"!=", "=="), (r"&&", "||"), (r"\|\|", "&&"),
    (r"\bif !", "if "), (r"\+ 1\b", "+ 2"), (r"\+ 1\b", ""), (r"- 1\b", ""), (r"\bcontinue\b", "break"), (r"\bbreak\b", "continue"),
    (r"\btrue\b", "false"), (r"\bfalse\b", "true"),
]
SKIP = re.compile(r"zap\.|logger\.|Logger\(|Errorf\(|errors\.New|fmt\.|prometheus|\.Inc\(\)|WithLabelValues|^\s*//|^\s*\*|panic\(|^import|^\s*\"|:= range|case <-|make\(chan|for \{|func\(")


def func_ranges(lines):
    """(name, start, end) of top-level functions by brace counting."""
    res = []
    i = 0
    while i < len(lines):
        m = re.match(r"func (?:\([^)]*\) )?(\w+)", lines[i])
        if m:
            depth = 0
            j = i
            started = False
            while j < len(lines):
                depth += lines[j].count("{") - lines[j].count("}")
                if "{" in lines[j]:
                    started = True
                if started and depth == 0:
                    break
                j += 1
            res.append((m.group(1), i, j))
            i = j
        i += 1
    return res


def mutants_of(path, rel):
    lines = open(path).read().split("\n")
    fr = func_ranges(lines)
    scope = SCOPE.get(rel)
    out = []
    for name, a, b in fr:
        if scope and not any(name.startswith(s) for s in scope):
            continue
        for ln in range(a + 1, b):
            line = lines[ln]
            if SKIP.search(line) or not line.strip():
                continue
            code = line.split("//")[0]
            for pat, rep in OPS:
                for m in re.finditer(pat, code):
                    # do not touch string literals
                    if code[:m.start()].count('"') % 2 == 1:
                        continue
                    new = code[:m.start()] + rep + code[m.end():]
                    if new != code:
                        out.append({"file": rel, "line": ln + 1, "func": name, "before": line.strip(), "after": new.strip(), "_new": new + line[len(code):]})
    return out


lock = threading.Lock()


def sh(cmd, cwd=None, env=None, timeout=1800):
    try:
        p = subprocess.run(cmd, shell=True, cwd=cwd, env=env, stdout=subprocess.PIPE, stderr=subprocess.STDOUT, timeout=timeout)
        return p.returncode, p.stdout.decode("utf-8", "replace")
    except subprocess.TimeoutExpired:
        return 124, "timeout"


def run_mutant(mu, wt, outfh):
    rel = mu["file"]
    module, pkg, ov, props = TARGETS[rel]
    path = os.path.join(wt, rel)
    orig = open(path).read()
    lines = orig.split("\n")
    lines[mu["line"] - 1] = mu["_new"]
    res = {k: v for k, v in mu.items() if not k.startswith("_")}
    try:
        open(path, "w").write("\n".join(lines))
        env = vlib.go_env()
        ovs = ("-overlay %s" % OVERLAY) if (ov or module == "node") and os.path.exists(OVERLAY) else ""
        rc, out = sh("go build %s %s" % (ovs, pkg), cwd=os.path.join(wt, module), env=env, timeout=600)
        if rc != 0:
            res["outcome"] = "skipped-does-not-compile"
            return res
        rc, out = sh("go test %s -vet=off -count=1 %s" % (ovs, pkg), cwd=os.path.join(wt, module), env=env, timeout=900)
        if rc != 0:
            res["outcome"] = "skipped-killed-by-existing-tests"
            return res
        env2 = dict(os.environ)
        env2["VERIF_REPO"] = wt
        env2["VERIF_OUT"] = os.path.join(HERE, ".build", "mutout-%s" % os.path.basename(wt))
        res["tried"] = []
        for p in props:
            rc, out = sh("./check %s --tier quick" % p, cwd=HERE, env=env2, timeout=2400)
            res["tried"].append({"prop": p, "exit": rc})
            if rc == 1:
                res["outcome"] = "killed-by-" + p
                res["signatures"] = sorted(set(re.findall(r"violation signature: (.*)", out)))[:4]
                return res
            if rc == 2:
                res.setdefault("broken", []).append({"prop": p, "tail": out.strip().splitlines()[-3:]})
        res["outcome"] = "survived" if not res.get("broken") else "survived-with-broken-check"
        return res
    finally:
        open(path, "w").write(orig)
        with lock:
            outfh.write(json.dumps(res) + "\n")
            outfh.flush()
            print(res["file"], res["line"], res.get("outcome"), flush=True)


def main():
    ap = argparse.ArgumentParser()
    ap.add_argument("--per-file", type=int, default=8)
    ap.add_argument("--workers", type=int, default=3)
    ap.add_argument("--seed", type=int, default=1)
    ap.add_argument("--only", default="")
    ap.add_argument("--rerun", default="", help="results file: run again the mutants that survived there")
    a = ap.parse_args()
    rnd = random.Random(a.seed)
    allm = []
    for rel in TARGETS:
        if a.only and a.only not in rel:
            continue
        ms = mutants_of(os.path.join("/repo", rel), rel)
        rnd.shuffle(ms)
        # spread over functions
        seen, pick = {}, []
        for m in ms:
            if seen.get(m["func"], 0) < 2 or len(pick) < a.per_file // 2:
                pick.append(m)
                seen[m["func"]] = seen.get(m["func"], 0) + 1
            if len(pick) >= a.per_file:
                break
        allm += pick
    rnd.shuffle(allm)
    suffix = ""
    if a.rerun:
        want = set()
        for l in open(a.rerun):
            r = json.loads(l)
            if r["outcome"].startswith("surv"):
                want.add((r["file"], r["line"], r["after"]))
        allm = []
        for rel in TARGETS:
            for m in mutants_of(os.path.join("/repo", rel), rel):
                if (m["file"], m["line"], m["after"]) in want:
                    allm.append(m)
                    want.discard((m["file"], m["line"], m["after"]))
        suffix = "-rerun"
    print("mutants:", len(allm))
    os.makedirs(os.path.join(HERE, "mutsweep"), exist_ok=True)
    wts = []
    for i in range(a.workers):
        wt = "/tmp/mutsweep-%d-%d" % (os.getpid(), i)
        sh("git -C /repo worktree add -q --detach %s HEAD" % wt)
        wts.append(wt)
    free = list(wts)
    outfh = open(os.path.join(HERE, "mutsweep", "results-seed%d%s.jsonl" % (a.seed, suffix)), "a")

    def job(mu):
        with lock:
            wt = free.pop()
        try:
            return run_mutant(mu, wt, outfh)
        finally:
            with lock:
                free.append(wt)

    try:
        with concurrent.futures.ThreadPoolExecutor(a.workers) as ex:
            list(ex.map(job, allm))
    finally:
        for wt in wts:
            sh("git -C /repo worktree remove --force %s" % wt)


if __name__ == "__main__":
    main()
