#!/bin/sh
# Offline setup: nothing to fetch. Warm the Go build cache for the packages the harnesses compile and
# check that the tools the checks need are present.
set -e
cd "$(dirname "$0")"
command -v java >/dev/null
command -v go >/dev/null
test -f /opt/veriftools/tla/tla2tools.jar
mkdir -p evidence replays .build
python3 - <<'PY'
import sys
sys.path.insert(0, "lib")
import vlib, os
w = vlib.scratch("setup")
# compile (not run) the test binaries once so that quick checks start warm
import fam_processor as fp
try:
    vlib.go_test(w, "node", fp.PKG, "^$", fp.INJECT, timeout=1500)
except Exception as e:
    print("setup warm-up skipped:", e)
PY
echo setup ok
