------------------------------ MODULE Trace_Spy ------------------------------
(* Trace validation for C20: executions recorded from the real spyServer (harness/spy/spy_harness.go) are     *)
(* checked against the actions of Spy.tla.  The harness can only log what is visible at the service's         *)
(* boundary -- calls and returns of SubscribeSignedVAA / Publish, what the fake client streams see, and the   *)
(* faults it injects -- so the steps inside the server (registration, taking a message from the queue,        *)
(* the publisher's iteration, removal) are inferred: between two logged lines TLC may take any number of      *)
(* silent internal actions.  A trace is accepted iff some interleaving of silent steps explains every line.   *)
(*                                                                                                           *)
(* Traces are concatenated, each starts with a "Reset" line and is explored from its own initial state; the   *)
(* furthest line explained in each trace is kept in a TLC register (one worker) and reported at the end.      *)
EXTENDS Spy, Json

CONSTANT Canon   \* TRUE: canonical schedule of the silent steps only (see below)

VARIABLES l,     \* the next line to explain
          hint   \* what the rest of the trace shows about the Publish call in progress (see Resolve)

Trace == ndJsonDeserialize("trace.ndjson")
N     == Len(Trace)

tvars == <<vars, l, hint>>

Starts == {i \in 1..N : Trace[i].ev = "Reset"}
AtEnd  == l > N \/ Trace[l].ev = "Reset"
Tr     == Trace[l - 1].t          \* id of the trace being explained (l is never a trace's first line)

LEm(e)  == [c |-> e.c, a |-> e.a]
LVaa(v) == [id |-> v.id, em |-> LEm(v.em), ok |-> (IF "ok" \in DOMAIN v THEN v.ok ELSE TRUE)]
LFilters(f) == {LEm(f[i]) : i \in 1..Len(f)}

\* the handler reached its loop: it was registered (a refused request never gets there)
Registered(s) == s \in DOMAIN pc /\ pc[s] \notin {"start", "invalid", "refused"}
Sending(s, id) == s \in DOMAIN pc /\ pc[s] = "send" /\ cur[s] # Nil /\ cur[s].id = id

\* Nothing is in flight for any subscriber that is reading and has caught up; every cancelled stream has ended.
\* n = number of entries the real subscription map has at that moment: every subscriber that is owed messages must be
\* in it, and nothing but the subscriptions the specification still has (no leak after a handler returned).
Quiescent(n) ==
    /\ pub.pc = "idle"
    /\ Cardinality({s \in subs : ~CanDrop(s)}) <= n /\ n <= Cardinality(subs)
    /\ \A s \in DOMAIN pc :
          /\ pc[s] \notin {"start", "invalid"}
          /\ (Reading(s) /\ ~lag[s]) => (q[s] = <<>> /\ pc[s] = "loop")
          /\ cancelled[s] => pc[s] \in {"done", "refused"}

Same == UNCHANGED vars

ToSet(sq) == {sq[i] : i \in 1..Len(sq)}
NoHint == [sent |-> {}, kick |-> {}]

Logged(ln) ==
    CASE ln.ev = "SubscribeCalled" -> SubscribeCalled(ln.a.s, LFilters(ln.a.f), IF "valid" \in DOMAIN ln.a THEN ln.a.valid ELSE TRUE)
      [] ln.ev = "Subscribed"      -> Registered(ln.a.s) /\ Same
      [] ln.ev = "PublishCalled"   -> PublishCalled(LVaa(ln.a.v)) /\ hint' = [sent |-> ToSet(ln.a.h_sent), kick |-> ToSet(ln.a.h_kick)]
      \* (Publish may report an error for bytes that do not decode; for a VAA it must not)
      [] ln.ev = "PublishReturned" -> pub.v # Nil /\ pub.v.id = ln.a.v /\ (~ln.a.err \/ ~pub.v.ok) /\ PublishReturned
      [] ln.ev = "Received"        -> Sending(ln.a.s, ln.a.v) /\ StreamSend(ln.a.s)
      [] ln.ev = "SendBlocked"     -> Sending(ln.a.s, ln.a.v) /\ mode[ln.a.s] = "stall" /\ ~cancelled[ln.a.s] /\ Same
      [] ln.ev = "SendFailed"      -> Sending(ln.a.s, ln.a.v) /\ StreamFail(ln.a.s)
      [] ln.ev = "Stall"           -> Stall(ln.a.s)
      [] ln.ev = "Resume"          -> Resume(ln.a.s)
      [] ln.ev = "Fail"            -> Fail(ln.a.s)
      [] ln.ev = "Cancel"          -> Cancel(ln.a.s)
      [] ln.ev = "Removed"         -> ln.a.s \in DOMAIN pc /\ pc[ln.a.s] \in {"done", "refused"} /\ Same
      [] ln.ev = "FloodInfo"       -> Same      \* informational: the queue capacity the harness read from the code
      [] ln.ev = "End"             -> Quiescent(ln.a.nsubs) /\ Same
      [] OTHER                     -> FALSE     \* "Timeout" (a reproduced stall) is explained by nothing

\* ---- silent (unlogged) internal steps, and the order in which they are tried.
\* Always (these restrictions lose no explanation):
\*   * a subscriber takes a message only immediately before the logged Send event that shows it (nothing observes
\*     the time of the take, and a later take leaves the publisher more freedom, never less);
\*   * a subscriber leaves its loop and is removed only immediately before the logged return of its handler (a
\*     cancelled / kicked subscriber that is still registered may be skipped by the publisher anyway).
\* With Canon = TRUE, in addition, only one canonical schedule of the remaining silent steps is explored:
\*   * the publisher runs to completion as soon as Publish is called, visiting subscriptions in a fixed order
\*     (nothing the harness does overlaps a Publish call, and for a subscriber that is not served "at once" every
\*     later moment offers the publisher fewer choices, never more: lag can only be cleared in between);
\*   * a subscriber registers immediately before the logged event that shows it.
\* Every explanation found this way is an explanation in the unrestricted specification.  Traces that the canonical
\* schedule cannot explain are validated again with Canon = FALSE before anything is reported.
SendEvs == {"Received", "SendBlocked", "SendFailed"}
NextIs(s, evs) == Trace[l].ev \in evs /\ "s" \in DOMAIN Trace[l].a /\ Trace[l].a.s = s
May(c) == ~Canon \/ c

PubActive == pub.pc \in {"start", "locked"}

\* Whether the publisher queued, dropped or disconnected for a subscriber that is not reading is its own choice
\* and is not visible when it is made; it is resolved from the rest of the trace (fields h_sent / h_kick of the
\* PublishCalled line, derived from the recorded lines by lib/fam_spy.py): the message was queued iff a later Send
\* event of that subscriber shows it; the subscription can only have been closed if its handler returns later on.
\* (Queuing a message that is never taken would only keep `lag` set, i.e. make the specification more lenient.)
Resolve(s) ==
    IF ~Match(s, pub.v) THEN {"skip"}
    ELSE IF ~CanDrop(s) \/ s \in hint.sent THEN {"put"}
    ELSE {"drop"} \cup (IF s \in hint.kick THEN {"kick"} ELSE {})

PubSilent ==
    \/ PubLock
    \/ \E s \in pub.todo : May(s = CHOOSE t \in pub.todo : TRUE) /\ \E c \in Resolve(s) : PublishToChoice(s, c)
    \/ PubUnlock

SubSilent ==
    \E s \in DOMAIN pc :
        \/ May(NextIs(s, {"Subscribed"})) /\ SubRegister(s)
        \/ NextIs(s, SendEvs) /\ SubTake(s)
        \/ NextIs(s, {"Removed"}) /\ (SubscribeRefused(s) \/ SubCtxDone(s) \/ SubKicked(s) \/ Remove(s))

TraceInit == Init /\ hint = NoHint /\ \E i \in Starts : l = i + 1 /\ TLCSet(Trace[i].t, i + 1)

TraceNext ==
    /\ ~AtEnd
    /\ IF Canon /\ PubActive
       THEN PubSilent /\ UNCHANGED <<l, hint>>
       ELSE \/ Logged(Trace[l]) /\ l' = l + 1 /\ (Trace[l].ev = "PublishCalled" \/ UNCHANGED hint)
            \/ (PubSilent \/ SubSilent) /\ UNCHANGED <<l, hint>>

TraceSpec == TraceInit /\ [][TraceNext]_tvars

\* high-water mark per trace
Mark == (TLCGet(Tr) < l) => TLCSet(Tr, l)

Post ==
    /\ \A i \in Starts : PrintT(<<"HW", Trace[i].t, i, TLCGet(Trace[i].t)>>)
    /\ PrintT(<<"FINISHED", ToJson([lines |-> N, traces |-> Cardinality(Starts)])>>)
=============================================================================
