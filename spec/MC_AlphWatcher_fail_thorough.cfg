SPECIFICATION MCSpec
CONSTANTS
  Nil = Nil
  Floor = 1
  BlockSecs = 1
  MaxB = 2
  MaxEv = 2
  MaxPerBlock = 1
  MaxH = 2
  MaxClock = 0
  PageSize = 2
  MaxReorg = 0
  MaxFail = 1
  MaxReq = 1
  MaxLook = 0
  MaxLag = 1
  SharedTx = FALSE
  Boots = TRUE
  Profile = "poll"
  Mainnets = {FALSE}
INVARIANTS
  ForwardSound
  PollOnce
  NoSpin
  NoKill
  Conserved
  FetchedComplete
PROPERTIES
  NoOrphanForward

CHECK_DEADLOCK FALSE
