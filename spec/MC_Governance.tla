---------------------------- MODULE MC_Governance ----------------------------
(* Bounded instance for C15.  The "state" is one governance request of the   *)
(* boundary-value domain; a transition goes from any request to any other,   *)
(* so TLC's invariants range over all requests and its action properties     *)
(* over all PAIRS of requests:                                               *)
(*   SizeIsContractSize   every accepted payload has exactly the size the    *)
(*                        contract asserts (base + count * per of the table) *)
(*   PiecewiseAgrees      the element-wise comparison used for trace         *)
(*                        validation accepts exactly the built payload       *)
(*   FunctionOfRequest    the builder's result does not depend on anything   *)
(*                        but the request (environment = wall clock, what    *)
(*                        was built before, which operator)                  *)
(*   Injective            two accepted requests with the same payload ask    *)
(*                        for the same values                                *)
(* The same enumeration (plus classes with 65535 / 65536 list elements,      *)
(* which are too long to build as one string) is exported as JSON together   *)
(* with the expected outcome and replayed on the real conversion functions.  *)
EXTENDS Governance, Json

CONSTANTS Pairs       \* TRUE: also vary two header/body fields at once (thorough tier)

VARIABLES req, env

mcvars == <<req, env>>

B(h)        == [form |-> "ok", hex |-> h, n |-> Len(h) \div 2, chars |-> Len(h)]
Pre(h)      == [form |-> "prefixed", hex |-> h, n |-> Len(h) \div 2, chars |-> Len(h) + 2]
PreX(h)     == [form |-> "prefixedX", hex |-> h, n |-> Len(h) \div 2, chars |-> Len(h) + 2]
Sp(rec, c)  == [cs |-> c] @@ rec                                  \* the same value spelled in another letter case
Bad(f, c)   == [form |-> f, hex |-> "", n |-> 0, chars |-> c]
RECURSIVE Rep(_, _)
Rep(s, k)   == IF k = 0 THEN "" ELSE IF k % 2 = 0 THEN Rep(s \o s, k \div 2) ELSE s \o Rep(s \o s, k \div 2)   \* s repeated k times
Bytes(b, k) == Rep(b, k)                                          \* k bytes, all equal to b (2 hex digits)
Pat(k)      == IF k = 0 THEN "" ELSE Bytes("00", k - 1) \o "01"  \* 00..01, k bytes

Key(i)      == B(Zeros(36) \o HexN(i, 4))                         \* the i-th guardian address (20 bytes)
Keys(n)     == [i \in 1..n |-> Key(i)]
KeyA        == B("5aaeb6053f3e94c9b9a09f33669435e7ef1beaed")      \* keys with letters: their spelling can vary
KeyB        == B("fb6916095ca1df60bb79ce92ce3ea74c37c5d359")
KeyZ        == B(Zeros(40))
Spellings(k) == {k, Sp(k, "upper"), Sp(k, "mixed"), Pre(k.hex), Sp(Pre(k.hex), "upper"), Sp(Pre(k.hex), "mixed"),
                 PreX(k.hex), Sp(PreX(k.hex), "upper"), Sp(PreX(k.hex), "mixed")}
Xs(s)       == [n |-> Len(s), pat |-> "explicit", xs |-> s]
Gen(n, p)   == [n |-> n, pat |-> p, xs |-> <<>>]

Hdr == [tchain |-> "00000002", seq |-> "0000000000000007", nonce |-> "00000003", ts |-> "65a0f1c0", gsi |-> "00000001"]
With(k, body) == [kind |-> k] @@ body @@ Hdr

TokenBridge == B("546f6b656e427269646765")
Text32 == B("4d" \o Bytes("6f", 30) \o "64")                      \* a 32-byte module name without leading NUL

Base ==
    [ contract_upgrade        |-> With("contract_upgrade", [payload |-> B("0003aabbcc")]),
      guardian_set            |-> With("guardian_set", [guardians |-> Keys(2)]),
      update_message_fee      |-> With("update_message_fee", [fee |-> B(Pat(32))]),
      transfer_fee            |-> With("transfer_fee", [amount |-> B(Pat(32)), recipient |-> B(Bytes("ab", 32))]),
      bridge_register_chain   |-> With("bridge_register_chain", [module |-> TokenBridge, chain |-> "00000002", emitter |-> B(Bytes("cd", 32))]),
      bridge_contract_upgrade |-> With("bridge_contract_upgrade", [module |-> TokenBridge, payload |-> B("0003aabbcc")]),
      destroy_sequences       |-> With("destroy_sequences", [echain |-> "00000002", seqs |-> Xs(<<"0000000000000005">>)]),
      update_min_cl           |-> With("update_min_cl", [cl |-> "0000000a"]),
      update_refund_address   |-> With("update_refund_address", [refund |-> B("00" \o Bytes("bb", 32))]) ]

U32 == {"00000000", "00000001", "000000ff", "00000100", "0000ffff", "00010000", "00010002", "7fffffff", "ffffffff"}
U64 == {"0000000000000000", "0000000000000001", "00000000ffffffff", "0000000100000000", "7fffffffffffffff",
        "8000000000000000", "ffffffffffffffff"}

\* text fields that must decode to exactly w bytes
Fixed(w) == {B(Pat(w)), B(Bytes("00", w)), B(Bytes("ff", w)), B(Bytes("7f", w)), B("80" \o Bytes("00", w - 1)),
             B(Pat(w - 1)), B(Pat(w + 1)), B(""), Pre(Pat(w)),
             Bad("odd", 2 * w - 1), Bad("odd", 2 * w + 1), Bad("nonhex", 2 * w), Bad("nonhex", 2)}
Blob == {B(""), B("00"), B("0003aabbcc"), B(Bytes("ee", 33)), Pre("aabb"), Bad("odd", 3), Bad("nonhex", 4)}
Text31 == B("4d" \o Bytes("6f", 29) \o "64")
TB == TokenBridge.hex                                             \* 11 bytes
\* The module name is the request's byte string AS GIVEN: surrounding blanks (20), tabs (09), newlines (0a) and NULs
\* (00) are bytes of the name like any other.  Lengths 0, 1, 31, 32, 33, 64 from plain characters, and names whose
\* raw length exceeds 32 only because of such surroundings (trimmed length <= 32 < raw length), or is exactly 32 with them.
PlainModules == {TokenBridge, B("436f7265"), B(""), B("41"), Text31, Text32, B(Bytes("41", 33)), B(Bytes("41", 64))}
WsModules ==
    {B(TB \o Bytes("20", 21)), B(Bytes("20", 21) \o TB), B(Bytes("20", 10) \o TB \o Bytes("20", 11)),        \* 32 raw
     B(TB \o Bytes("20", 22)), B(Bytes("20", 22) \o TB), B(Bytes("20", 11) \o TB \o Bytes("20", 11)),        \* 33 raw, 11 trimmed
     B(Text31.hex \o "0a"), B("09" \o Text31.hex),                                                         \* 32 raw, 31 trimmed
     B(Text32.hex \o "0a"), B("20" \o Text32.hex), B("09" \o Text31.hex \o "0a"), B(Text32.hex \o "0d0a"),      \* 33 / 34 raw, <= 32 trimmed
     B(TB \o "0a"), B("20" \o TB), B(TB \o "00"), B("00" \o TB), B(TB \o Bytes("00", 22)), B(Bytes("00", 22) \o TB),
     B(Bytes("20", 26) \o TB \o Bytes("0a", 27)),                                                          \* 64 raw
     B("20"), B("0a"), B(Bytes("20", 31)), B(Bytes("20", 32)), B(Bytes("20", 33)), B(Bytes("09", 64))}       \* nothing but whitespace
Modules == PlainModules \cup WsModules
Guardians == {Keys(0), Keys(1), Keys(2), Keys(19), Keys(20), Keys(255), Keys(256),
              <<Key(1), Key(1)>>, <<Key(1), Pre(Key(2).hex)>>, <<Key(1), Bad("nonhex", 40)>>, <<Key(1), Bad("odd", 39)>>,
              <<Key(1), B(Pat(19))>>, <<Key(1), B(Pat(21))>>, <<Key(1), B(Pat(32))>>}
             \* one guardian spelled in every accepted way: alone (same 20 payload bytes), next to another guardian,
             \* and twice in two different spellings (a repeated guardian: must be rejected)
             \cup {<<x>> : x \in Spellings(KeyA)} \cup {<<KeyB, x>> : x \in Spellings(KeyA)}
             \cup {<<x, y>> : x \in {KeyA, Sp(KeyA, "mixed"), Pre(KeyA.hex)}, y \in Spellings(KeyA)}
             \* the all-zero key (what unfilled slots of a key array hold) alone, repeated, and next to another key
             \cup {<<KeyZ>>, <<KeyZ, KeyZ>>, <<KeyZ, Pre(KeyZ.hex)>>, <<Key(1), KeyZ>>, <<KeyZ, Key(1)>>, <<Key(1), KeyZ, KeyZ>>}
             \cup {<<x, KeyB, y>> : x \in {KeyA, Sp(Pre(KeyA.hex), "mixed")}, y \in {Sp(KeyA, "upper"), Pre(KeyA.hex), Sp(PreX(KeyA.hex), "mixed")}}
SeqLists == {Xs(<<>>), Xs(<<"0000000000000000">>), Xs(<<"ffffffffffffffff">>), Xs(<<"0000000000000001", "8000000000000000">>),
             Xs(<<"0000000000000001", "0000000000000001">>), Gen(3, "idx"), Gen(2, "ff")}
BigSeqLists == {Gen(255, "idx"), Gen(256, "idx"), Gen(65535, "idx"), Gen(65536, "idx"), Gen(65537, "ff")}
Refunds == {B(""), B("00"), B("00" \o Bytes("bb", 32)), B(Bytes("a1", 255)), B(Bytes("b1", 256)), B(Bytes("ab", 65535)),
            B(Bytes("cd", 65536)), B(Bytes("ef", 65537)), Pre("00bb"), Bad("odd", 5), Bad("nonhex", 66)}

Vary(b, f, S) == {[b EXCEPT ![f] = v] : v \in S}

BodyDomain ==
    Vary(Base.contract_upgrade, "payload", Blob)
    \cup Vary(Base.guardian_set, "guardians", Guardians)
    \cup Vary(Base.guardian_set, "gsi", {"00000000", "0000ffff", "7fffffff", "fffffffe", "ffffffff"})
    \cup Vary(Base.update_message_fee, "fee", Fixed(32))
    \cup Vary(Base.transfer_fee, "amount", Fixed(32)) \cup Vary(Base.transfer_fee, "recipient", Fixed(32))
    \cup Vary(Base.bridge_register_chain, "module", Modules) \cup Vary(Base.bridge_register_chain, "chain", U32)
    \cup Vary(Base.bridge_register_chain, "emitter", Fixed(32))
    \cup Vary(Base.bridge_contract_upgrade, "module", Modules) \cup Vary(Base.bridge_contract_upgrade, "payload", Blob)
    \cup Vary(Base.destroy_sequences, "echain", U32) \cup Vary(Base.destroy_sequences, "seqs", SeqLists)
    \cup Vary(Base.update_min_cl, "cl", U32)
    \cup Vary(Base.update_refund_address, "refund", Refunds)

HeaderDomain ==
    UNION {Vary(Base[k], "tchain", U32) : k \in Kinds}
    \cup Vary(Base.update_min_cl, "seq", U64) \cup Vary(Base.update_min_cl, "nonce", U32)
    \cup Vary(Base.update_min_cl, "ts", U32) \cup Vary(Base.update_min_cl, "gsi", U32)
    \cup {[kind |-> "none"] @@ Hdr}

PairDomain ==
    IF ~Pairs THEN {}
    ELSE UNION {Vary(r, "tchain", {"0000ffff", "00010000"}) : r \in BodyDomain}
         \cup UNION {Vary(r, "cl", {"000000ff", "00000100"}) : r \in Vary(Base.update_min_cl, "seq", U64)}
         \cup UNION {Vary(r, "echain", {"0000ffff", "00010002"}) : r \in Vary(Base.destroy_sequences, "seqs", SeqLists)}
         \cup UNION {Vary(r, "module", Modules) : r \in Vary(Base.bridge_register_chain, "chain", U32)}
         \cup UNION {Vary(r, "module", Modules) : r \in Vary(Base.bridge_contract_upgrade, "payload", Blob)}
         \cup UNION {Vary(r, "recipient", Fixed(32)) : r \in Vary(Base.transfer_fee, "amount", Fixed(32))}

Domain == BodyDomain \cup HeaderDomain \cup PairDomain
\* (long runs of decimal digits are avoided in exported strings: the shared TLC output parser scans them quadratically)
BigDomain == Vary(Base.destroy_sequences, "seqs", BigSeqLists)
ExportDomain == Domain \cup BigDomain

Envs == {[clock |-> c, before |-> b, operator |-> o] : c \in {0, 1}, b \in {"nothing", "another request"}, o \in {1, 2}}

\* the builder as the specification defines it: its result in environment e
Build(r, e) == IF Representable(r) THEN [class |-> "vaa", payload |-> PayloadHex(r), size |-> Size(r)] ELSE [class |-> "reject"]
PayOf == [r \in Domain |-> Build(r, CHOOSE e \in Envs : TRUE)]       \* evaluated once (constant)

MCInit == req \in Domain /\ env \in Envs
MCNext == req' \in Domain /\ env' = env
MCSpec == MCInit /\ [][MCNext]_mcvars

SizeIsContractSize ==
    PayOf[req].class = "vaa" =>
        /\ Len(PayOf[req].payload) = 2 * PayOf[req].size
        /\ PayOf[req].size = LayoutTable[req.kind].base + TailCount(req) * LayoutTable[req.kind].per
PiecewiseAgrees ==
    PayOf[req].class = "vaa" => PayloadOK(req, PayOf[req].payload)
FunctionOfRequest == \A e \in Envs : Build(req, e) = Build(req, env)

CanonicalModule(r) == Layout[r.kind].module = "request" => r.module = TokenBridge
NoLeadingNul(r) == Layout[r.kind].module = "request" => (r.module.n = 0 \/ SubSeq(r.module.hex, 1, 2) # "00")
InjectiveStep ==
    (PayOf[req].class = "vaa" /\ PayOf[req'].class = "vaa" /\ PayOf[req].payload = PayOf[req'].payload
        /\ (req.kind = req'.kind \/ (CanonicalModule(req) /\ CanonicalModule(req')))
        /\ NoLeadingNul(req) /\ NoLeadingNul(req'))
    => PayloadValue(req) = PayloadValue(req')
Injective == [][InjectiveStep]_mcvars

\* ---- requests carrying several messages.  The specification of a multi-message request is the per-message
\* specification applied to every message: the VAA of message i depends on message i only (FunctionOfRequest with
\* env.before = "another request"), whatever was built before or is built after it.  The replay therefore needs
\* histories in which a construction is FOLLOWED by others of the same / another kind whose payload is shorter,
\* equal or longer: all ordered pairs (and some triples) over the nominal request of every kind plus short and long
\* variants of the kinds with a variable tail.  They share the header (timestamp and set index belong to the request).
Seq3(a, b, c) == Xs(<<a, b, c>>)
TailVariants ==
    {[Base.destroy_sequences EXCEPT !.echain = "00000002", !.seqs = Seq3("000000000000000b", "000000000000000c", "000000000000000d")],
     [Base.destroy_sequences EXCEPT !.echain = "00000004", !.seqs = Xs(<<"0000000000000063">>)],
     [Base.destroy_sequences EXCEPT !.seqs = Gen(40, "idx")],
     [Base.contract_upgrade EXCEPT !.payload = B("00")], [Base.contract_upgrade EXCEPT !.payload = B(Bytes("ee", 200))],
     [Base.bridge_contract_upgrade EXCEPT !.payload = B("01")], [Base.bridge_contract_upgrade EXCEPT !.payload = B(Bytes("ed", 200))],
     [Base.guardian_set EXCEPT !.guardians = Keys(1)], [Base.guardian_set EXCEPT !.guardians = Keys(19)],
     [Base.update_refund_address EXCEPT !.refund = B("00")], [Base.update_refund_address EXCEPT !.refund = B(Bytes("a1", 255))]}
BatchElems == {Base[k] : k \in Kinds} \cup TailVariants
Batches == {<<a, b>> : a, b \in BatchElems}
           \cup {<<a, b, c>> : a, b, c \in {r \in TailVariants : r.kind = "destroy_sequences"}}
           \cup {<<a, b, a, b>> : a \in {r \in TailVariants : r.kind # "destroy_sequences"}, b \in {Base.update_min_cl, Base.transfer_fee}}
ASSUME \A b \in Batches : PrintT(<<"BATCH", ToJson(b)>>)

\* ---- export for the replay on the real code and for the source extractor
Expect(r) == IF Representable(r) THEN [class |-> "vaa", size |-> Size(r)] ELSE [class |-> "reject"]
ASSUME \A r \in ExportDomain : PrintT(<<"REQ", ToJson([req |-> r, expect |-> Expect(r)])>>)
ASSUME PrintT(<<"LAYOUT", ToJson(LayoutTable)>>)
ASSUME PrintT(<<"CONSTS", ToJson([module_width |-> ModuleWidth, action_offset |-> ActionOffset, modules |-> ModuleName])>>)
=============================================================================
