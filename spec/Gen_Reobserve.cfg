SPECIFICATION GenSpec
CONSTANTS
  Nil = Nil
  W = 11
  P = 7
  Chains = {"2", "4"}
  Unknown = {"9"}
  Txs = {"07", "0007"}
  Cap = 1
  OutCap = 1
  TimeSteps = {1, 4, 7, 11, 12}
  MaxFwd = 1000
  WithPost = TRUE
  GenDepth = 16
CONSTRAINT Emit
CHECK_DEADLOCK FALSE
