----------------------------- MODULE Trace_Store -----------------------------
(* Trace validation for Store.tla (C12, C16).  Executions recorded from the   *)
(* real db.Database, publicrpc.PublicrpcServer and                            *)
(* nodePrivilegedService.FindMissingMessages on a real Badger directory       *)
(* (harness/store/*.go) are checked line by line: each line names the call,   *)
(* its arguments and what it returned; the named action of Store.tla runs in  *)
(* the specification (phase 0) and the result the specification requires is   *)
(* compared with the logged one (phase 1).  Traces are concatenated; "Reset"  *)
(* starts each (a fresh directory).  A rejected query is recorded and the     *)
(* trace goes on (queries do not change the store); a rejected state change   *)
(* (Store error, content after a kill that Crash does not allow, failed       *)
(* reopen) skips to the next trace.                                           *)
EXTENDS Store, Json

VARIABLES l,     \* current line
          ph,    \* 0: about to apply line l; 1: applied, about to compare the result
          rej    \* rejected <<trace, line>> pairs

Trace == ndJsonDeserialize("trace.ndjson")

tvars == <<vars, l, ph, rej>>

ToSet(s) == {s[i] : i \in 1..Len(s)}

\* ---- logged (JSON) values -> specification values
LId(x) == [ec |-> x.ec, em |-> x.em, tc |-> x.tc, seq |-> x.seq]
LSt(x) == [ec |-> x.ec, em |-> x.em, tc |-> x.tc]
LVal(x) == [id |-> LId(x.id), tag |-> x.tag]
RangeSet(rs) == UNION {rs[i][1]..rs[i][2] : i \in 1..Len(rs)}      \* [[lo, hi], ...] -> set of sequences
LVals(q) == {LVal(q[i]) : i \in 1..Len(q)}
LOptVal(q) == IF Len(q) = 0 THEN Nil ELSE LVal(q[1])
LGovEntry(e) == [tc |-> e.tc, seq |-> e.seq, val |-> LVal(e)]
LNonGovEntry(e) == [seq |-> e.seq, val |-> LVal(e)]

\* ---- the identifier table of a trace (C16: packed lines refer to identifiers by index); line of the last Reset
ResetLine(i) == CHOOSE j \in 1..i : Trace[j].ev = "Reset" /\ \A k \in (j + 1)..i : Trace[k].ev # "Reset"
PackedVaa(tab, p) == [id |-> LId(tab[p[1] + 1]), tag |-> p[2]]

\* StoreAcked: a run of Store(v); Ack(v.id) pairs - the composition of the two actions of Store.tla.
RECURSIVE StoreAckRun(_, _, _, _)
StoreAckRun(S, tab, vs, n) ==
    IF n > Len(vs) THEN S
    ELSE LET v == PackedVaa(tab, vs[n]) IN StoreAckRun(AckF(StoreF(S, v), v.id), tab, vs, n + 1)
StoreAcked(tab, vs) ==
    /\ up
    /\ Becomes(StoreAckRun(Cur, tab, vs, 1))
    /\ ret' = [op |-> "StoreAcked"]
    /\ UNCHANGED ctl

\* Kill: the content found afterwards is what the lookups after the following Reopen returned - those of the first,
\* sequential pass over all identifiers (each identified right after the call); the harness then repeats the lookups
\* concurrently (pass 2), and every lookup line also says what the slice it returned holds after all later lookups
\* ("held"): all of them must still be the stored bytes.
FirstPass(ln) == IF "pass" \in DOMAIN ln.a THEN ln.a.pass = 1 ELSE TRUE
GetRunEnd(i) ==
    LET stop == {j \in (i + 2)..(Len(Trace) + 1) : j = Len(Trace) + 1 \/ Trace[j].ev # "Get"}
    IN CHOOSE j \in stop : \A k \in stop : j <= k
FoundAfter(i) ==
    IF i + 1 <= Len(Trace) /\ Trace[i + 1].ev = "Reopen" /\ Trace[i + 1].s.ok
    THEN LET gets == {j \in (i + 2)..(GetRunEnd(i) - 1) : FirstPass(Trace[j]) /\ Len(Trace[j].s.res) > 0}
             ids == {LId(Trace[j].a.id) : j \in gets}
         IN [x \in ids |-> LET j == CHOOSE k \in gets : LId(Trace[k].a.id) = x
                           IN IF LId(Trace[j].s.res[1].id) = x THEN Trace[j].s.res[1].tag ELSE "?foreign-id"]
    ELSE [x \in DOMAIN acked |-> acked[x]]     \* no successful reopen follows: the Reopen line is the one rejected

ResetState ==
    /\ vaas' = <<>> /\ up' = TRUE /\ opening' = FALSE /\ acked' = <<>> /\ pending' = <<>> /\ written' = <<>>
    /\ ret' = [op |-> "Init"]

Apply(ln) ==
    CASE ln.ev = "Reset"       -> ResetState
      [] ln.ev = "Store"       -> Store(LVal(ln.a.v))
      [] ln.ev = "StoreRun"    -> StoreRun(LSt(ln.a.st), RangeSet(ln.a.ranges), ln.a.tag)
      [] ln.ev = "StoreClosed" -> StoreWhileClosed(LVal(ln.a.v), ln.s.err = "")     \* the logged reply decides
      [] ln.ev = "Ack"         -> Ack(LId(ln.a.id))
      [] ln.ev = "StoreAcked"  -> StoreAcked(Trace[ResetLine(l)].a.ids, ln.a.vs)
      [] ln.ev = "Get"         -> Get(LId(ln.a.id))
      [] ln.ev = "Gap"         -> Gap(LSt(ln.a.st))
      [] ln.ev = "GapBackfill" -> /\ OnlyThroughProcessor(LVals(ln.a.fills), LVals(ln.a.injected))
                                  /\ GapBackfill(LSt(ln.a.st), LVals(ln.a.fills), LVals(ln.a.served), ln.s.err # "")
      [] ln.ev = "GovBatch"    -> GovBatch(ToSet(ln.a.seqs))
      [] ln.ev = "NonGovBatch" -> NonGovBatch(LSt(ln.a.st), ToSet(ln.a.seqs))
      [] ln.ev = "Kill"        -> CrashTo(FoundAfter(l))
      [] ln.ev = "Close"       -> Close
      [] ln.ev = "OpenBegin"   -> OpenBegin                              \* a process entered db.Open (and may be killed in it)
      [] ln.ev = "Reopen"      -> IF ~ln.s.ok THEN FALSE                 \* ReopenAlways: a failed reopen matches nothing
                                  ELSE IF opening THEN OpenEnd ELSE Reopen
      [] OTHER                 -> FALSE

\* Returned bytes stay what they were: s.held (when logged) identifies the slices the call returned once more, after
\* every later call of the trace / lookup pass has run.  kind 1: s.res, kind 2: s.entries.
HeldOK(s, kind) ==
    IF "held" \notin DOMAIN s THEN TRUE
    ELSE LET now == IF kind = 1 THEN s.res ELSE s.entries
         IN /\ Len(s.held) = Len(now)
            /\ \A i \in 1..Len(now) : LVal(s.held[i]) = LVal(now[i])

\* The result the code reported must be the one the specification requires (ret, set by the action).
Matches(ln) ==
    CASE ln.ev = "Store"       -> ln.s.err = ""
      [] ln.ev = "StoreRun"    -> ln.s.err = ""
      [] ln.ev = "Get"         -> /\ ln.s.err = ""
                                  /\ ret.res = LOptVal(ln.s.res)
                                  /\ ln.s.code = (IF ret.res = Nil THEN "NotFound" ELSE "OK")
                                  /\ HeldOK(ln.s, 1)
      [] ln.ev = "Gap"         -> /\ ln.s.err = "" /\ ~ln.s.badid
                                  /\ Len(ln.s.missing) = Cardinality(ToSet(ln.s.missing))
                                  /\ GapReportOK(ret.res, [missing |-> ToSet(ln.s.missing), first |-> ln.s.first, last |-> ln.s.last])
      [] ln.ev = "GapBackfill" -> \/ ln.s.err # ""             \* the call may fail as a whole
                                  \/ /\ ~ln.s.badid
                                     /\ Len(ln.s.missing) = Cardinality(ToSet(ln.s.missing))
                                     /\ BackfillReportOK(ret.pre, ret.filled,
                                                         [missing |-> ToSet(ln.s.missing), first |-> ln.s.first, last |-> ln.s.last])
      [] ln.ev = "GovBatch"    -> /\ ln.s.err = ""
                                  /\ {LGovEntry(ln.s.entries[i]) : i \in 1..Len(ln.s.entries)} = ret.res
                                  /\ Len(ln.s.entries) = Cardinality(ret.res)
                                  /\ HeldOK(ln.s, 2)
      [] ln.ev = "NonGovBatch" -> /\ ln.s.err = ""
                                  /\ {LNonGovEntry(ln.s.entries[i]) : i \in 1..Len(ln.s.entries)} = ret.res
                                  /\ Len(ln.s.entries) = Cardinality(ret.res)
                                  /\ HeldOK(ln.s, 2)
      [] OTHER                 -> TRUE

\* after a mismatch the trace goes on: queries change nothing, and a backfill call's effect on the store was taken from
\* what the store really holds afterwards
IsQuery(ln) == ln.ev \in {"Get", "Gap", "GovBatch", "NonGovBatch", "GapBackfill"}

NextReset(i) ==
    LET later == {j \in (i + 1)..Len(Trace) : Trace[j].ev = "Reset"}
    IN IF later = {} THEN Len(Trace) + 1 ELSE CHOOSE j \in later : \A k \in later : j <= k

\* ---- what is printed with a rejection (JSON cannot carry the model value Nil)
Show(x) == IF x = Nil THEN "nil" ELSE x
ShowVal(v) == IF v = Nil THEN [nil |-> TRUE] ELSE v
ShowSet(S) == {Show(x) : x \in S}
Required ==
    CASE ret.op = "Get" -> [res |-> ShowVal(ret.res)]
      [] ret.op \in {"Gap", "GovBatch", "NonGovBatch"} -> [res |-> ret.res]
      [] ret.op = "GapBackfill" -> [pre |-> ret.pre, filled |-> ret.filled]
      [] OTHER -> [op |-> ret.op]
KillInfo(i) ==
    LET f == FoundAfter(i)
        bad == {x \in DOMAIN written \cup DOMAIN f : At(f, x) \notin AllowedAfterCrash(x)}
    IN [bad |-> {[id |-> x, found |-> Show(At(f, x)), acked |-> Show(At(acked, x)), pending |-> ShowSet(SetAt(pending, x)),
                  everstored |-> x \in DOMAIN written] : x \in bad}]

Reject(why, info, next) ==
    /\ PrintT(<<"REJECT", ToJson([t |-> Trace[l].t, n |-> Trace[l].n, ev |-> Trace[l].ev, why |-> why, spec |-> info])>>)
    /\ rej' = Append(rej, <<Trace[l].t, Trace[l].n>>)
    /\ l' = next
    /\ ph' = 0

\* Phase 0: the call named by the line runs in the specification (deterministic given the line).
DoApply ==
    /\ ph = 0 /\ l <= Len(Trace)
    /\ Apply(Trace[l])
    /\ ph' = 1 /\ UNCHANGED <<l, rej>>

NotEnabled ==
    /\ ph = 0 /\ l <= Len(Trace)
    /\ ~ENABLED Apply(Trace[l])
    /\ Reject("the specification does not allow this step here",
              IF Trace[l].ev = "Kill" THEN KillInfo(l)
              ELSE IF Trace[l].ev = "GapBackfill" THEN [up |-> up, pre |-> SpecGap(LSt(Trace[l].a.st))]
              ELSE [up |-> up], NextReset(l))
    /\ UNCHANGED vars

LineOK == IF Trace[l].ev = "Reset" THEN TRUE ELSE Matches(Trace[l])

\* Phase 1: compare.
DoMatch ==
    /\ ph = 1
    /\ LineOK
    /\ l' = l + 1 /\ ph' = 0
    /\ UNCHANGED <<vars, rej>>

Mismatch ==
    /\ ph = 1
    /\ ~LineOK
    /\ Reject("result differs from the one the specification requires (spec = required result)", Required,
              IF IsQuery(Trace[l]) THEN l + 1 ELSE NextReset(l))
    /\ UNCHANGED vars

TraceInit == Init /\ l = 1 /\ ph = 0 /\ rej = <<>>
TraceNext == DoApply \/ NotEnabled \/ DoMatch \/ Mismatch
TraceSpec == TraceInit /\ [][TraceNext]_tvars

\* The action properties of Store, exempting the artificial Reset step and the compare-only phase.
IsReset == ph = 1 \/ (l <= Len(Trace) /\ Trace[l].ev = "Reset")
T_AckedReadBack == [][IsReset \/ AckedReadBackStep]_tvars
T_NeverForeignRead == [][IsReset \/ NeverForeignReadStep]_tvars
\* (Trace_Store.cfg checks ViewsAgreeOnRet as a state invariant instead of T_ViewsAgree: there is no VIEW here, so every
\* state is checked, and TLC caches LET definitions only in unprimed evaluation - the primed form re-renders every key
\* per use and takes minutes once a backfill has put a hundred VAAs into the store.)
T_ViewsAgree == [][IsReset \/ ViewsAgreeStep]_tvars
T_QueriesReadOnly == [][IsReset \/ QueriesReadOnlyStep]_tvars
T_BackfillReportsPostGaps == [][IsReset \/ BackfillReportsPostGapsStep]_tvars

Finished == (l = Len(Trace) + 1 /\ ph = 0) => PrintT(<<"FINISHED", ToJson([lines |-> Len(Trace), rejected |-> rej])>>)
=============================================================================
