SPECIFICATION MCSpec
CONSTANTS
  Nil = Nil
  Floor = 1
  BlockSecs = 1
  MaxB = 2
  MaxEv = 3
  MaxPerBlock = 2
  MaxH = 3
  MaxClock = 0
  PageSize = 2
  MaxReorg = 0
  MaxFail = 0
  MaxReq = 0
  MaxLook = 0
  MaxLag = 1
  SharedTx = FALSE
  Boots = TRUE
  Profile = "attest"
  Mainnets = {FALSE}
INVARIANTS
  ForwardSound
  PollOnce
  NoSpin
  NoKill
  Conserved
  FetchedComplete
PROPERTIES
  NoOrphanForward

CHECK_DEADLOCK FALSE
