----------------------------- MODULE Governance -----------------------------
(* Governance request -> VAA payload (property C15).                          *)
(*                                                                            *)
(* node/cmd/guardiand/adminserver.go turns each of the nine governance        *)
(* message kinds of an InjectGovernanceVAA request into a VAA whose payload   *)
(* the Alephium contracts (governance.ral, token_bridge_governance.ral)       *)
(* parse at fixed offsets with an exact size assertion.  The property: every  *)
(* request is either rejected, or becomes a VAA from the configured           *)
(* governance emitter whose payload is                                        *)
(*     module (32 bytes, left padded) | action (1) | fields ... | tail        *)
(* with every requested value represented without truncation or wrap-around;  *)
(* the construction is a function of the request only and never crashes.      *)
(*                                                                            *)
(* Representation (TLC integers are 32 bit, the fields are wider): every      *)
(* value is a lower-case hex STRING, i.e. a byte tuple.  A numeric request    *)
(* field is the hex rendering at the width of its protobuf type (uint32 ->    *)
(* 8 digits, uint64 -> 16 digits); it fits a w-byte wire field iff the        *)
(* leading digits are zero, and its wire form is the low w bytes.  A string   *)
(* request field (hex text typed by the operator) is a record                 *)
(*     [form, hex, n, chars]                                                  *)
(* form = "ok" (well-formed hex; hex = the decoded bytes, n = their number),  *)
(* "prefixed" / "prefixedX" (0x / 0X + well-formed hex), "odd" / "nonhex" (no *)
(* value: chars = length of the text); the optional field cs says how the     *)
(* letters are spelled (lower, upper, mixed = EIP-55 checksum case) and never *)
(* matters: two texts denote the same value iff they decode to the same bytes.*)
(* Two guardian keys are the same guardian iff they are the same 20 bytes; a  *)
(* guardian set that names a guardian twice is invalid (must be rejected).    *)
(*  A list of sequences is [n, pat, xs]: n elements,     *)
(* given explicitly (pat = "explicit", xs) or by a closed form (pat = "idx":  *)
(* element i is i; "ff": all ones) so that 65536-element lists stay cheap.    *)
(* The harness's abstract->concrete mapping (hex text upper/lower case, the   *)
(* numeric meaning of the tuples) is part of the oracle and is stated in      *)
(* harness/guardiand/gov_harness.go.                                          *)
EXTENDS Integers, Sequences, FiniteSets, TLC

Z64 == "0000000000000000000000000000000000000000000000000000000000000000"
Zeros(k) == SubSeq(Z64, 1, k)                                  \* k <= 64 hex digits
HexDigits == "0123456789abcdef"
Digit(v) == SubSeq(HexDigits, v + 1, v + 1)
RECURSIVE HexN(_, _)
HexN(n, d) == IF d = 0 THEN "" ELSE HexN(n \div 16, d - 1) \o Digit(n % 16)    \* n as d hex digits (low digits)
DigitVal(ch) == CHOOSE v \in 0..15 : Digit(v) = ch
RECURSIVE HexVal(_)
HexVal(h) == IF Len(h) = 0 THEN 0 ELSE 16 * HexVal(SubSeq(h, 1, Len(h) - 1)) + DigitVal(SubSeq(h, Len(h), Len(h)))

Fits(h, w)   == IF Len(h) < 2 * w THEN FALSE ELSE SubSeq(h, 1, Len(h) - 2 * w) = Zeros(Len(h) - 2 * w)
Narrow(h, w) == SubSeq(h, Len(h) - 2 * w + 1, Len(h))

\* successor of a 32-bit value given as 8 hex digits (defined below ffffffff)
Inc32(h) ==
    LET hi == SubSeq(h, 1, 4)  lo == SubSeq(h, 5, 8) IN
    IF lo # "ffff" THEN hi \o HexN(HexVal(lo) + 1, 4) ELSE HexN(HexVal(hi) + 1, 4) \o "0000"

OkForms == {"ok", "prefixed", "prefixedX"}       \* plain hex text, 0x + hex, 0X + hex (any letter case: field cs)
HasValue(s) == s.form \in OkForms

----------------------------------------------------------------------------
(* The layout table: what the contracts parse.  lib/extract_ralph_gov.py      *)
(* extracts the same numbers from the .ral sources and compares.              *)

Kinds == {"contract_upgrade", "guardian_set", "update_message_fee", "transfer_fee", "bridge_register_chain",
          "bridge_contract_upgrade", "destroy_sequences", "update_min_cl", "update_refund_address"}

F(name, w, src) == [name |-> name, w |-> w, src |-> src]
L(module, action, fixed, tail) == [module |-> module, action |-> action, fixed |-> fixed, tail |-> tail]
T(type, cw, ew, from) == [type |-> type, cw |-> cw, ew |-> ew, from |-> from]
NoTail == T("none", 0, 0, "")

\* src: "num"   numeric request field (hex at request width) narrowed to w bytes
\*      "bytes" string request field that must decode to exactly w bytes
\*      "succ"  current guardian set index + 1 (the index of the new set)
\* tail: "blob" raw bytes to the end; "lenblob" cw-byte length then the bytes;
\*       "list" cw-byte count then count elements of ew bytes (string records);
\*       "list64" the same with 8-byte numbers given as a sequence description
Layout ==
    [ contract_upgrade        |-> L("Core", "01", <<>>, T("blob", 0, 1, "payload")),
      guardian_set            |-> L("Core", "02", <<F("new_index", 4, "succ")>>, T("list", 1, 20, "guardians")),
      update_message_fee      |-> L("Core", "03", <<F("fee", 32, "bytes")>>, NoTail),
      transfer_fee            |-> L("Core", "04", <<F("amount", 32, "bytes"), F("recipient", 32, "bytes")>>, NoTail),
      bridge_register_chain   |-> L("request", "01", <<F("chain", 2, "num"), F("emitter", 32, "bytes")>>, NoTail),
      bridge_contract_upgrade |-> L("request", "02", <<>>, T("blob", 0, 1, "payload")),
      destroy_sequences       |-> L("TokenBridge", "f0", <<F("echain", 2, "num")>>, T("list64", 2, 8, "seqs")),
      update_min_cl           |-> L("TokenBridge", "f1", <<F("cl", 1, "num")>>, NoTail),
      update_refund_address   |-> L("TokenBridge", "f2", <<>>, T("lenblob", 2, 1, "refund")) ]

ModuleName == [Core |-> "436f7265", TokenBridge |-> "546f6b656e427269646765"]   \* ASCII of the module identifiers
ModuleWidth == 32
ActionOffset == 32

RECURSIVE SumW(_)
SumW(fs) == IF fs = <<>> THEN 0 ELSE Head(fs).w + SumW(Tail(fs))
BaseSize(k) == ModuleWidth + 1 + SumW(Layout[k].fixed) + Layout[k].tail.cw     \* bytes before the tail elements

\* offsets of the fixed fields and of the count field, as the contracts slice them
RECURSIVE Offsets(_, _)
Offsets(fs, at) == IF fs = <<>> THEN <<>> ELSE <<[name |-> Head(fs).name, from |-> at, to |-> at + Head(fs).w]>> \o Offsets(Tail(fs), at + Head(fs).w)
LayoutTable ==
    [k \in Kinds |->
        [module |-> Layout[k].module,
         module_hex |-> IF Layout[k].module = "request" THEN "" ELSE ModuleName[Layout[k].module],
         action |-> Layout[k].action,
         fixed |-> Offsets(Layout[k].fixed, ModuleWidth + 1),
         count |-> IF Layout[k].tail.cw = 0 THEN <<>> ELSE <<[from |-> BaseSize(k) - Layout[k].tail.cw, to |-> BaseSize(k)]>>,
         tail |-> Layout[k].tail.type, base |-> BaseSize(k), per |-> Layout[k].tail.ew]]

----------------------------------------------------------------------------
(* The builder: request -> Reject | payload.                                  *)

ModuleHex(r) ==
    LET m == Layout[r.kind].module IN IF m = "request" THEN r.module.hex ELSE ModuleName[m]
ModuleOK(r) == Layout[r.kind].module = "request" => (HasValue(r.module) /\ r.module.n <= ModuleWidth)

FieldOK(r, f) ==
    CASE f.src = "num"   -> Fits(r[f.name], f.w)
      [] f.src = "bytes" -> HasValue(r[f.name]) /\ r[f.name].n = f.w
      [] f.src = "succ"  -> r.gsi # "ffffffff"
FieldWire(r, f) ==
    CASE f.src = "num"   -> Narrow(r[f.name], f.w)
      [] f.src = "bytes" -> r[f.name].hex
      [] f.src = "succ"  -> Inc32(r.gsi)

ElemAt(l, i) ==
    CASE l.pat = "explicit" -> l.xs[i]
      [] l.pat = "idx"      -> Zeros(8) \o HexN(i, 8)
      [] l.pat = "ff"       -> "ffffffffffffffff"

Pow256(w) == IF w = 1 THEN 256 ELSE 65536                       \* count fields are 1 or 2 bytes wide

TailCount(r) ==
    LET t == Layout[r.kind].tail  v == r[t.from] IN
    CASE t.type = "none"    -> 0
      [] t.type = "blob"    -> v.n
      [] t.type = "lenblob" -> v.n
      [] t.type = "list"    -> Len(v)
      [] t.type = "list64"  -> v.n
\* a list of keys: every text decodes to exactly ew bytes, the count fits, and no key (= its bytes, however it is
\* spelled) occurs twice
ListShapeOK(r) ==
    LET t == Layout[r.kind].tail  v == r[t.from] IN
    Len(v) < Pow256(t.cw) /\ \A i \in 1..Len(v) : HasValue(v[i]) /\ v[i].n = t.ew
ListDistinct(r) ==
    LET t == Layout[r.kind].tail  v == r[t.from] IN
    \A i, j \in 1..Len(v) : (i # j /\ HasValue(v[i]) /\ HasValue(v[j])) => v[i].hex # v[j].hex
TailOK(r) ==
    LET t == Layout[r.kind].tail  v == r[t.from] IN
    CASE t.type = "none"    -> TRUE
      [] t.type = "blob"    -> HasValue(v)
      [] t.type = "lenblob" -> HasValue(v) /\ v.n < Pow256(t.cw)
      [] t.type = "list"    -> ListShapeOK(r) /\ ListDistinct(r)
      [] t.type = "list64"  -> v.n < Pow256(t.cw)
TailElem(r, i) ==
    LET t == Layout[r.kind].tail  v == r[t.from] IN
    IF t.type = "list" THEN v[i].hex ELSE ElemAt(v, i)

\* The request has a faithful wire form: nothing would have to be truncated, wrapped or invented.
Representable(r) ==
    /\ r.kind \in Kinds
    /\ Fits(r.tchain, 2)
    /\ ModuleOK(r)
    /\ \A i \in 1..Len(Layout[r.kind].fixed) : FieldOK(r, Layout[r.kind].fixed[i])
    /\ TailOK(r)

\* why a request is not representable (names of the offending parts; used to label rejections)
Unfit(r) ==
    IF r.kind \notin Kinds THEN {"payload-unset"}
    ELSE (IF Fits(r.tchain, 2) THEN {} ELSE {"tchain"})
         \cup (IF ModuleOK(r) THEN {} ELSE {"module"})
         \cup {Layout[r.kind].fixed[i].name : i \in {j \in 1..Len(Layout[r.kind].fixed) : ~FieldOK(r, Layout[r.kind].fixed[j])}}
         \cup (IF TailOK(r) THEN {}
               ELSE IF Layout[r.kind].tail.type = "list" /\ ListShapeOK(r) THEN {Layout[r.kind].tail.from \o "-repeated"}
               ELSE {Layout[r.kind].tail.from})

Size(r) == BaseSize(r.kind) + TailCount(r) * Layout[r.kind].tail.ew          \* bytes

RECURSIVE Wires(_, _)
Wires(r, fs) == IF fs = <<>> THEN "" ELSE FieldWire(r, Head(fs)) \o Wires(r, Tail(fs))
CountHex(r) == LET t == Layout[r.kind].tail IN IF t.cw = 0 THEN "" ELSE HexN(TailCount(r), 2 * t.cw)
Prefix(r) ==
    Zeros(2 * ModuleWidth - Len(ModuleHex(r))) \o ModuleHex(r) \o Layout[r.kind].action \o Wires(r, Layout[r.kind].fixed) \o CountHex(r)

\* p (hex) is exactly the payload the layout prescribes for the representable request r.  Piecewise, so that
\* long lists are compared element by element without building one huge string.
PayloadOK(r, p) ==
    LET t == Layout[r.kind].tail  pre == Prefix(r)  off == Len(pre) IN
    IF Len(p) # 2 * Size(r) THEN FALSE
    ELSE /\ SubSeq(p, 1, off) = pre
         /\ CASE t.type = "none" -> TRUE
              [] t.type \in {"blob", "lenblob"} -> SubSeq(p, off + 1, Len(p)) = r[t.from].hex
              [] OTHER -> \A i \in 1..TailCount(r) : SubSeq(p, off + 2 * t.ew * (i - 1) + 1, off + 2 * t.ew * i) = TailElem(r, i)

\* The payload as one string (only for requests with short tails; used by the lemmas).
RECURSIVE Elems(_, _)
Elems(r, i) == IF i > TailCount(r) THEN "" ELSE TailElem(r, i) \o Elems(r, i + 1)
PayloadHex(r) ==
    LET t == Layout[r.kind].tail IN
    Prefix(r) \o (CASE t.type = "none" -> ""
                    [] t.type \in {"blob", "lenblob"} -> r[t.from].hex
                    [] OTHER -> Elems(r, 1))

\* What the payload must determine: the requested values themselves (not their text form).
RECURSIVE FixedVals(_, _)
FixedVals(r, fs) ==
    IF fs = <<>> THEN <<>>
    ELSE <<(CASE Head(fs).src = "num" -> r[Head(fs).name] [] Head(fs).src = "bytes" -> r[Head(fs).name].hex [] OTHER -> r.gsi)>> \o FixedVals(r, Tail(fs))
PayloadValue(r) ==
    LET t == Layout[r.kind].tail IN
    [kind |-> r.kind, module |-> ModuleHex(r), fixed |-> FixedVals(r, Layout[r.kind].fixed),
     tail |-> CASE t.type = "none" -> <<>>
                [] t.type \in {"blob", "lenblob"} -> <<r[t.from].hex>>
                [] OTHER -> [i \in 1..TailCount(r) |-> TailElem(r, i)]]

\* The VAA around the payload (cfg = the node's configured governance emitter).
HeaderOK(r, cfg, v) ==
    /\ v.echain = cfg.gchain /\ v.eaddr = cfg.gaddr
    /\ v.tchain = Narrow(r.tchain, 2)
    /\ v.seq = r.seq /\ v.nonce = r.nonce /\ v.ts = r.ts /\ v.gsi = r.gsi
    /\ v.nsigs = 0

\* The outcomes the property allows for request r: rejection always; a VAA only when the request is
\* representable, and then exactly this one.
VaaOK(r, cfg, v) == Representable(r) /\ HeaderOK(r, cfg, v) /\ PayloadOK(r, v.payload)
=============================================================================
