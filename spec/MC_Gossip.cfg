SPECIFICATION MGSpec
CONSTANTS
  Nil = Nil
  Cap = 2
  MaxSteps = 5
INVARIANTS
  CapHolds
  TableOnlyMembers
  DomainSeparation
  FloorSeparatesFromVAADigest
PROPERTIES
  OnlyGuardiansChangeState
VIEW View
CHECK_DEADLOCK FALSE
