\* Quick tier, part 2: re-observation requests (head read, receipt, block time, forwards) against a changing chain.
SPECIFICATION MCSpec
CONSTANTS
  Nil = Nil
  WScaled = 3
  Jumps = {1, 2, 3, 4}
  Lag = 2
  Modes = {TRUE, FALSE}
  CLs = {0, 1}
  MineBack = 0
  ArmKinds = {"rhead", "rreceipt", "rtime"}
  RemineStatus = {0, 1}
  MidScanHeads = FALSE
  HeldIntake = FALSE
  MaxHeads = 2
  MaxMine = 1
  MaxPush = 0
  MaxReorg = 1
  MaxRemine = 1
  MaxDrop = 0
  MaxFail = 0
  MaxArm = 1
  MaxReq = 2
  MaxRestart = 0
INVARIANTS
  TypeOK
  ForwardSound
  AtMostOnce
  ExactlyOnce
PROPERTIES
  AbandonOnlyAfterWindow
  DropOrphans
  NoForwardOfOrphan
CHECK_DEADLOCK FALSE
