--------------------------------- MODULE Spy ---------------------------------
(***************************************************************************)
(* The spy service's fan-out (node/cmd/spy/spy.go): spyServer.subs under   *)
(* subsMu, Publish, the SubscribeSignedVAA loop and its deferred removal.  *)
(* Property C20.                                                           *)
(*                                                                         *)
(* Grain.  One action per critical section / blocking point of the code:   *)
(*   subscriber goroutine   SubRegister  (Lock; insert; Unlock)            *)
(*                          SubTake      (select case msg := <-sub.ch)     *)
(*                          SubCtxDone   (select case <-ctx.Done())        *)
(*                          StreamSend / StreamFail  (resp.Send returns)   *)
(*                          Remove       (deferred Lock; delete; Unlock)   *)
(*   publisher              PubLock, PublishTo(s) per visited subscription,*)
(*                          PubUnlock, PublishReturned                     *)
(*   environment (client)   SubscribeCalled, PublishCalled, Stall, Resume, *)
(*                          Fail (disconnect), Cancel (context)            *)
(*                                                                         *)
(* Semantics = what the property requires, not what the code does today:   *)
(* Publish(v) hands v to the queue of every live subscriber whose filter    *)
(* set is empty or contains v's emitter (chain, address), once, in publish  *)
(* order, and never waits for a subscriber that is not reading.             *)
(*                                                                         *)
(* Freedom left by the property (delivery policy for a slow subscriber).    *)
(* A subscriber is Reading when its stream accepts messages (not stalled,   *)
(* not failed, context alive) and its goroutine is in the loop.  `lag[s]`   *)
(* is set when the client stalls and cleared only when the subscriber has   *)
(* caught up: reading again, back in the select, queue empty.  For a        *)
(* subscriber that is not reading or still lagging, PublishTo may put the   *)
(* message (buffer), drop it, or disconnect the subscriber (kick); for a    *)
(* subscriber that is reading and has caught up it must put it -- it may    *)
(* wait for room in a bounded queue (Cap), because a reading subscriber     *)
(* frees room by itself.  Hence, explicitly: a subscriber that reads again  *)
(* after a stall is owed every matching VAA published after it caught up;   *)
(* VAAs published between the stall and the catch-up may be missing, but    *)
(* whatever it receives is matching, duplicate-free and in publish order.   *)
(***************************************************************************)
EXTENDS Naturals, Sequences, FiniteSets, TLC

CONSTANTS Nil,   \* model value: "absent"
          Cap    \* capacity of a subscriber queue under the bounded policies (1 in the code)

VARIABLES
  mu,         \* Nil | "pub"            holder of subsMu across a multi-step critical section
  subs,       \* set of subscriber ids  keys of spyServer.subs
  filt,       \* [s -> set of emitters] filters of the request        (domain = subscribers created so far)
  q,          \* [s -> Seq(vaa)]        sub.ch
  pc,         \* [s -> "start" | "invalid" | "loop" | "send" | "exit" | "done" | "refused"]
  cur,        \* [s -> Nil | vaa]       message taken from the queue, being sent on the stream
  mode,       \* [s -> "ok" | "stall" | "fail"]   what the client's stream does with a Send
  cancelled,  \* [s -> BOOLEAN]         stream context cancelled
  lag,        \* [s -> BOOLEAN]         stalled at some time since it last caught up
  kicked,     \* [s -> BOOLEAN]         disconnected by the publisher (policy "disconnect")
  pub,        \* [pc : "idle"|"start"|"locked"|"fin", v : Nil|vaa, todo : subscriptions still to visit]
  published,  \* history: VAAs in the order Publish was called
  recv        \* history: [s -> Seq(vaa)] messages the client received

vars == <<mu, subs, filt, q, pc, cur, mode, cancelled, lag, kicked, pub, published, recv>>

Put(f, k, v) == [x \in DOMAIN f \cup {k} |-> IF x = k THEN v ELSE f[x]]
Range(sq)    == {sq[i] : i \in 1..Len(sq)}

\* A published message is [id, em, ok]: ok = the bytes decode as a VAA, em = [c, a] its (emitter chain, emitter address)
\* pair (meaningless when ~ok).  A filter is such a pair.  Bytes that do not decode have no emitter, so no filter
\* matches them; a subscriber without filters is owed every published byte string.
Match(s, v) == filt[s] = {} \/ (v.ok /\ v.em \in filt[s])

Reading(s) == mode[s] = "ok" /\ ~cancelled[s] /\ ~kicked[s] /\ pc[s] \in {"loop", "send"}
CanDrop(s) == ~Reading(s) \/ lag[s]

IdlePub == [pc |-> "idle", v |-> Nil, todo |-> {}]

Init ==
    /\ mu = Nil /\ subs = {} /\ filt = <<>> /\ q = <<>> /\ pc = <<>> /\ cur = <<>> /\ mode = <<>>
    /\ cancelled = <<>> /\ lag = <<>> /\ kicked = <<>> /\ pub = IdlePub /\ published = <<>> /\ recv = <<>>

---------------------------------------------------------------------------
(* Environment: the gRPC clients, the gossip side calling Publish *)

\* A client opens a stream; the handler goroutine starts.  valid = every filter entry of the request is of a kind the
\* server knows; F = the emitter filters of the request.  (Which connection the stream came over is no parameter:
\* subscriptions are independent of it.)
SubscribeCalled(s, F, valid) ==
    /\ s \notin DOMAIN pc
    /\ pc' = Put(pc, s, IF valid THEN "start" ELSE "invalid") /\ filt' = Put(filt, s, F) /\ q' = Put(q, s, <<>>) /\ cur' = Put(cur, s, Nil)
    /\ mode' = Put(mode, s, "ok") /\ cancelled' = Put(cancelled, s, FALSE) /\ lag' = Put(lag, s, FALSE)
    /\ kicked' = Put(kicked, s, FALSE) /\ recv' = Put(recv, s, <<>>)
    /\ UNCHANGED <<mu, subs, pub, published>>

PublishCalled(v) ==
    /\ pub.pc = "idle"
    /\ pub' = [pc |-> "start", v |-> v, todo |-> {}]
    /\ published' = Append(published, v)
    /\ UNCHANGED <<mu, subs, filt, q, pc, cur, mode, cancelled, lag, kicked, recv>>

\* The client stops reading: a Send on its stream blocks from now on.
Stall(s) ==
    /\ s \in DOMAIN pc /\ mode[s] = "ok"
    /\ mode' = [mode EXCEPT ![s] = "stall"] /\ lag' = [lag EXCEPT ![s] = TRUE]
    /\ UNCHANGED <<mu, subs, filt, q, pc, cur, cancelled, kicked, pub, published, recv>>

\* The client reads again.  It has caught up at once if nothing is pending for it.
Resume(s) ==
    /\ s \in DOMAIN pc /\ mode[s] = "stall"
    /\ mode' = [mode EXCEPT ![s] = "ok"]
    /\ lag' = [lag EXCEPT ![s] = @ /\ ~(pc[s] = "loop" /\ q[s] = <<>>)]
    /\ UNCHANGED <<mu, subs, filt, q, pc, cur, cancelled, kicked, pub, published, recv>>

\* The client's connection breaks: every Send returns an error from now on.
Fail(s) ==
    /\ s \in DOMAIN pc /\ mode[s] # "fail"
    /\ mode' = [mode EXCEPT ![s] = "fail"]
    /\ UNCHANGED <<mu, subs, filt, q, pc, cur, cancelled, lag, kicked, pub, published, recv>>

\* The stream's context is cancelled (client went away / server shutting the stream down).
Cancel(s) ==
    /\ s \in DOMAIN pc /\ ~cancelled[s]
    /\ cancelled' = [cancelled EXCEPT ![s] = TRUE]
    /\ UNCHANGED <<mu, subs, filt, q, pc, cur, mode, lag, kicked, pub, published, recv>>

---------------------------------------------------------------------------
(* Subscriber goroutine: SubscribeSignedVAA *)

\* A request with a filter entry of an unknown kind is refused (InvalidArgument) before anything is registered: the
\* client asked for a restriction the server cannot apply, and serving it as if the entry were absent would send it
\* VAAs none of its filters matches.
SubscribeRefused(s) ==
    /\ s \in DOMAIN pc /\ pc[s] = "invalid"
    /\ pc' = [pc EXCEPT ![s] = "refused"]
    /\ UNCHANGED <<mu, subs, filt, q, cur, mode, cancelled, lag, kicked, pub, published, recv>>

\* s.subsMu.Lock(); s.subs[id] = sub; s.subsMu.Unlock()
SubRegister(s) ==
    /\ s \in DOMAIN pc /\ pc[s] = "start" /\ mu = Nil
    /\ subs' = subs \cup {s}
    /\ pc' = [pc EXCEPT ![s] = "loop"]
    /\ UNCHANGED <<mu, filt, q, cur, mode, cancelled, lag, kicked, pub, published, recv>>

\* case msg := <-sub.ch
SubTake(s) ==
    /\ s \in DOMAIN pc /\ pc[s] = "loop" /\ q[s] # <<>>
    /\ cur' = [cur EXCEPT ![s] = Head(q[s])]
    /\ q' = [q EXCEPT ![s] = Tail(@)]
    /\ pc' = [pc EXCEPT ![s] = "send"]
    /\ UNCHANGED <<mu, subs, filt, mode, cancelled, lag, kicked, pub, published, recv>>

\* case <-resp.Context().Done()
SubCtxDone(s) ==
    /\ s \in DOMAIN pc /\ pc[s] = "loop" /\ cancelled[s]
    /\ pc' = [pc EXCEPT ![s] = "exit"]
    /\ UNCHANGED <<mu, subs, filt, q, cur, mode, cancelled, lag, kicked, pub, published, recv>>

\* policy "disconnect": the loop learns that the publisher closed the subscription
SubKicked(s) ==
    /\ s \in DOMAIN pc /\ pc[s] = "loop" /\ kicked[s]
    /\ pc' = [pc EXCEPT ![s] = "exit"]
    /\ UNCHANGED <<mu, subs, filt, q, cur, mode, cancelled, lag, kicked, pub, published, recv>>

\* resp.Send returned nil: the client has the message.
StreamSend(s) ==
    /\ s \in DOMAIN pc /\ pc[s] = "send" /\ mode[s] = "ok" /\ ~cancelled[s]
    /\ recv' = [recv EXCEPT ![s] = Append(@, cur[s])]
    /\ cur' = [cur EXCEPT ![s] = Nil]
    /\ pc' = [pc EXCEPT ![s] = "loop"]
    /\ lag' = [lag EXCEPT ![s] = @ /\ q[s] # <<>>]
    /\ UNCHANGED <<mu, subs, filt, q, mode, cancelled, kicked, pub, published>>

\* resp.Send returned an error (broken connection or cancelled context): the handler returns.
StreamFail(s) ==
    /\ s \in DOMAIN pc /\ pc[s] = "send" /\ (mode[s] = "fail" \/ cancelled[s])
    /\ cur' = [cur EXCEPT ![s] = Nil]
    /\ pc' = [pc EXCEPT ![s] = "exit"]
    /\ UNCHANGED <<mu, subs, filt, q, mode, cancelled, lag, kicked, pub, published, recv>>

\* (a Send with mode "stall" and a live context does not return: no action)

\* deferred: s.subsMu.Lock(); delete(s.subs, id); s.subsMu.Unlock()
Remove(s) ==
    /\ s \in DOMAIN pc /\ pc[s] = "exit" /\ mu = Nil
    /\ subs' = subs \ {s}
    /\ pc' = [pc EXCEPT ![s] = "done"]
    /\ UNCHANGED <<mu, filt, q, cur, mode, cancelled, lag, kicked, pub, published, recv>>

---------------------------------------------------------------------------
(* Publisher: spyServer.Publish *)

PubLock ==
    /\ pub.pc = "start" /\ mu = Nil
    /\ mu' = "pub"
    /\ pub' = [pub EXCEPT !.pc = "locked", !.todo = subs]
    /\ UNCHANGED <<subs, filt, q, pc, cur, mode, cancelled, lag, kicked, published, recv>>

\* One iteration of `for _, sub := range s.subs` (map order: any).  c is the outcome:
\*   "skip"  the subscription's filters do not match
\*   "put"   the message enters the subscriber's queue (needs room)
\*   "drop"  the subscriber is not reading / has not caught up: the message is not queued for it
\*   "kick"  ... or the subscription is closed
PublishToChoice(s, c) ==
    /\ pub.pc = "locked" /\ s \in pub.todo
    /\ pub' = [pub EXCEPT !.todo = @ \ {s}]
    /\ CASE c = "skip" -> ~Match(s, pub.v) /\ UNCHANGED <<q, subs, kicked>>
         [] c = "put"  -> /\ Match(s, pub.v) /\ Len(q[s]) < Cap
                          /\ q' = [q EXCEPT ![s] = Append(@, pub.v)]
                          /\ UNCHANGED <<subs, kicked>>
         [] c = "drop" -> Match(s, pub.v) /\ CanDrop(s) /\ UNCHANGED <<q, subs, kicked>>
         [] c = "kick" -> /\ Match(s, pub.v) /\ CanDrop(s)
                          /\ subs' = subs \ {s} /\ kicked' = [kicked EXCEPT ![s] = TRUE]
                          /\ UNCHANGED q
         [] OTHER -> FALSE
    /\ UNCHANGED <<mu, filt, pc, cur, mode, cancelled, lag, published, recv>>

Choices == {"skip", "put", "drop", "kick"}
PublishTo(s) == \E c \in Choices : PublishToChoice(s, c)

PubUnlock ==
    /\ pub.pc = "locked" /\ pub.todo = {}
    /\ mu' = Nil
    /\ pub' = [pub EXCEPT !.pc = "fin"]
    /\ UNCHANGED <<subs, filt, q, pc, cur, mode, cancelled, lag, kicked, published, recv>>

PublishReturned ==
    /\ pub.pc = "fin"
    /\ pub' = IdlePub
    /\ UNCHANGED <<mu, subs, filt, q, pc, cur, mode, cancelled, lag, kicked, published, recv>>

---------------------------------------------------------------------------
(* Properties *)

\* Position of a VAA in the publish order (0 when it was never published).
Pos(v) == IF v \in Range(published) THEN CHOOSE i \in 1..Len(published) : published[i] = v ELSE 0

\* Everything on its way to, or already at, the client of s, oldest first.
Pipeline(s) == recv[s] \o (IF cur[s] = Nil THEN <<>> ELSE <<cur[s]>>) \o q[s]

\* C20 safety: a subscriber only ever gets published VAAs that match its filters, each at most once, in
\* publish order (stated on the whole pipeline so that a violation shows at the step that causes it).
ExactDelivery ==
    \A s \in DOMAIN pc :
        LET p == Pipeline(s) IN
        /\ \A i \in 1..Len(p) : Pos(p[i]) > 0 /\ Match(s, p[i])
        /\ \A i \in 1..Len(p) : \A j \in 1..Len(p) : i < j => Pos(p[i]) < Pos(p[j])

\* The publisher holds the mutex exactly while it iterates.
MutexDiscipline == (mu = "pub") <=> (pub.pc = "locked")

\* A caught-up reading subscriber is served: stated on the step (tautological for PublishToChoice as written;
\* kept as a property so that an edit of the action that weakens it is caught by TLC).
ServeReadersStep ==
    \A s \in DOMAIN pc :
        (pub.pc = "locked" /\ s \in pub.todo /\ pub'.pc = "locked" /\ s \notin pub'.todo
           /\ Match(s, pub.v) /\ Reading(s) /\ ~lag[s])
        => (Len(q'[s]) = Len(q[s]) + 1 /\ q'[s][Len(q'[s])] = pub.v)
ServeReaders == [][ServeReadersStep]_vars

\* Nothing but the subscriber's own loop removes messages from its queue; only the client's receipt extends recv.
QueueFifoStep ==
    \A s \in DOMAIN pc : s \in DOMAIN pc' =>
        \/ q'[s] = q[s]
        \/ (Len(q'[s]) = Len(q[s]) + 1 /\ SubSeq(q'[s], 1, Len(q[s])) = q[s])
        \/ (q[s] # <<>> /\ q'[s] = Tail(q[s]) /\ cur'[s] = Head(q[s]))
QueueFifo == [][QueueFifoStep]_vars

\* ---- liveness (C20 independence half).  Fairness: the server's own goroutines are scheduled (weak
\* fairness per step; strong for steps that compete for the mutex).  No fairness for the clients: a stalled
\* subscriber may stay stalled for ever, nobody has to cancel, publish or subscribe.
SubStep(s) == SubscribeRefused(s) \/ SubTake(s) \/ SubCtxDone(s) \/ SubKicked(s) \/ StreamSend(s) \/ StreamFail(s)
PubStep(S, P) == (\E s \in S : \E c \in P : PublishToChoice(s, c)) \/ PubUnlock \/ PublishReturned

\* S: subscriber ids, P: the delivery policies the implementation uses (a subset of Choices)
Fairness(S, P) ==
    /\ SF_vars(PubLock)
    /\ WF_vars(PubStep(S, P))
    /\ \A s \in S :
          /\ SF_vars(SubRegister(s))
          /\ WF_vars(SubStep(s))
          /\ SF_vars(Remove(s))

Known(s) == s \in DOMAIN pc

PublishTerminates      == (pub.pc # "idle") ~> (pub.pc = "idle")
SubscribeTerminatesFor(s) == (Known(s) /\ pc[s] \in {"start", "invalid"}) ~> (Known(s) /\ pc[s] \notin {"start", "invalid"})
RemoveTerminatesFor(s)    == (Known(s) /\ (pc[s] = "exit" \/ cancelled[s])) ~> (Known(s) /\ pc[s] \in {"done", "refused"})
\* whatever is queued for a subscriber reaches its client unless the client stops reading (messages leave the
\* queue only through SubTake and leave `cur` only into recv, or by a failed Send of a client that is gone)
Pending(s) == q[s] # <<>> \/ cur[s] # Nil
MatchingDeliveredFor(s) == (Known(s) /\ Pending(s)) ~> (Known(s) /\ (~Pending(s) \/ ~Reading(s)))
=============================================================================
