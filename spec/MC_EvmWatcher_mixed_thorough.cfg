\* Thorough tier, part 3: scan and re-observation together, failed re-inclusion.
SPECIFICATION MCSpec
CONSTANTS
  Nil = Nil
  WScaled = 3
  Jumps = {1, 2, 3, 4}
  Lag = 2
  Modes = {TRUE, FALSE}
  CLs = {0, 1}
  MineBack = 0
  ArmKinds = {"hreceipt"}
  RemineStatus = {0, 1}
  MidScanHeads = FALSE
  HeldIntake = FALSE
  MaxHeads = 3
  MaxMine = 1
  MaxPush = 1
  MaxReorg = 1
  MaxRemine = 1
  MaxDrop = 0
  MaxFail = 1
  MaxArm = 1
  MaxReq = 1
  MaxRestart = 0
INVARIANTS
  TypeOK
  ForwardSound
  AtMostOnce
  ExactlyOnce
PROPERTIES
  AbandonOnlyAfterWindow
  DropOrphans
  NoForwardOfOrphan
CHECK_DEADLOCK FALSE
