---------------------------- MODULE Gen_Processor ----------------------------
(* Scenario generator: MC_Processor with a history variable, run under       *)
(* `tlc -simulate`; every behaviour that reaches depth GenDepth is printed   *)
(* as JSON and replayed on the real handlers.                                 *)
EXTENDS MC_Processor, Json

CONSTANT GenDepth
VARIABLES hist, done

gvars == <<mcvars, hist, done>>

Rec(ev, a) == hist' = Append(hist, [ev |-> ev, a |-> a])

GenInit == MCInit /\ hist = <<>> /\ done = FALSE

GenStep ==
  /\ Len(hist) < GenDepth /\ UNCHANGED done
  /\
    \/ \E S \in SetUniverse : cnt.upd < MaxUpd /\ SetUpdate(S) /\ Bump("upd") /\ Rec("SetUpdate", [set |-> S])
    \/ \E m \in MsgUniverse : cnt.loc < MaxLocal /\ LocalMessage(m) /\ Bump("loc") /\ Rec("LocalMessage", [m |-> m])
    \/ \E v \in InjectUniverse : cnt.loc < MaxLocal /\ Inject(v) /\ Bump("loc") /\ Rec("Inject", [v |-> v])
    \/ \E d \in DOMAIN loop : Loopback(d) /\ UNCHANGED cnt /\ Rec("Loopback", [d |-> d])
    \/ \E o \in GoodObs : Observation(o) /\ UNCHANGED cnt /\ Rec("Observation", [o |-> o])
    \/ \E o \in BadObs : cnt.bad < MaxBad /\ Observation(o) /\ Bump("bad") /\ Rec("Observation", [o |-> o])
    \/ \E w \in VaaUniverse : cnt.inb < MaxInbound /\ InboundVAA(w) /\ Bump("inb") /\ Rec("InboundVAA", [w |-> w])
    \/ \E k \in TimeSteps : DOMAIN agg # {} /\ Advance(k) /\ UNCHANGED cnt /\ Rec("Advance", [k |-> k])
    \/ \E L \in SUBSET LateSet : CleanupTick(L) /\ UNCHANGED cnt /\ Rec("CleanupTick", [x |-> 0])
    \/ Faults /\ DOMAIN agg # {} /\ StoreDown /\ UNCHANGED cnt /\ Rec("StoreDown", [x |-> 0])
    \/ cnt.rst < MaxRestart /\ (DOMAIN agg # {} \/ DOMAIN db # {}) /\ Restart /\ Bump("rst") /\ Rec("Restart", [x |-> 0])

\* One successor only, so that the behaviour is printed once (TLC's simulator evaluates every successor).
GenFinish == Len(hist) = GenDepth /\ ~done /\ done' = TRUE /\ PrintT(<<"SCN", ToJson(hist)>>) /\ UNCHANGED <<mcvars, hist>>
GenNext == GenStep \/ GenFinish
GenSpec == GenInit /\ [][GenNext]_gvars
=============================================================================
