------------------------------ MODULE AlphChain ------------------------------
(* The simulated Alephium full node the watcher talks to (C08, C09).         *)
(*                                                                           *)
(* ASSUMPTIONS about the node API, written down here because the real node   *)
(* is not available offline (DESIGN.md section 8):                           *)
(*  - the events of one contract form an append-only stream; a page request  *)
(*    (start, limit) returns stream[start .. start+limit) and                *)
(*    nextStart = start + number of returned events; current-count = length  *)
(*  - events stay in the stream when their block is orphaned                 *)
(*  - events-by-tx-id returns the events of ALL contracts emitted by that    *)
(*    transaction, in every block that contains it                           *)
(*  - is-block-in-main-chain / headers / chain-info answer the current state *)
(*  - anyone can call publishWormholeMessage (checkExternalCaller = false),  *)
(*    so the stream carries events with arbitrary sender and field values    *)
(*                                                                           *)
(* An EVENT is a record                                                      *)
(*   [id, blk, tx, gov, ei, ok, tb, cl, kind, tok, claim]                    *)
(*   id    unique name of this event instance (the harness puts it in the    *)
(*         nonce so that outputs can be identified)                          *)
(*   blk   block that contains it;  tx  transaction that emitted it          *)
(*   gov   emitted by the configured core (governance) contract              *)
(*   ei    event index inside its contract (0 = WormholeMessage)             *)
(*   ok    the six fields fit the VAA format (AlphDecode.Accepted)           *)
(*   tb    the sender field is the token-bridge contract id                  *)
(*   cl    consistency level (meaningful when ok)                            *)
(*   kind  "transfer" | "attest" | "other" (first payload byte 1 / 2 / else) *)
(*   tok   attestation: the token contract named ("alph" = the native token, *)
(*         which needs no call), claim: the metadata the payload claims      *)
EXTENDS Integers, Sequences, FiniteSets

CONSTANT Nil

VARIABLES blocks,    \* block id -> [height, ts, main]
          height,    \* chain height the node reports
          stream,    \* event stream of the core contract
          foreign,   \* events of other contracts (visible only through events-by-tx-id)
          tokans     \* token id -> answer shape of the metadata multi-call

cvars == <<blocks, height, stream, foreign, tokans>>

ChainInit ==
    /\ blocks = <<>> /\ height = 0 /\ stream = <<>> /\ foreign = {} /\ tokans = <<>>

Put(f, k, v) == [x \in DOMAIN f \cup {k} |-> IF x = k THEN v ELSE f[x]]

\* ---- environment actions (logged by the fake node when it applies them)
NewBlock(b, h, ts) ==
    /\ b \notin DOMAIN blocks
    /\ blocks' = Put(blocks, b, [height |-> h, ts |-> ts, main |-> TRUE])
    /\ height' = IF h > height THEN h ELSE height
    /\ UNCHANGED <<stream, foreign, tokans>>

Emit(e) ==
    /\ e.blk \in DOMAIN blocks
    /\ stream' = Append(stream, e)
    /\ UNCHANGED <<blocks, height, foreign, tokans>>

EmitForeign(e) ==
    /\ e.blk \in DOMAIN blocks
    /\ foreign' = foreign \cup {e}
    /\ UNCHANGED <<blocks, height, stream, tokans>>

Reorg(b) ==
    /\ b \in DOMAIN blocks /\ blocks[b].main
    /\ blocks' = [blocks EXCEPT ![b].main = FALSE]
    /\ UNCHANGED <<height, stream, foreign, tokans>>

SetHeight(h) ==
    /\ h >= height
    /\ height' = h
    /\ UNCHANGED <<blocks, stream, foreign, tokans>>

\* the node's view lags: it reports a height BELOW what it reported before (and possibly below blocks whose events it has
\* already served); the event stream and the height come from independent requests
ReportHeight(h) ==
    /\ h >= 0
    /\ height' = h
    /\ UNCHANGED <<blocks, stream, foreign, tokans>>

SetTok(id, shape) ==
    /\ tokans' = Put(tokans, id, shape)
    /\ UNCHANGED <<blocks, height, stream, foreign>>

\* ---- answers
CountAns == Len(stream)
Min(a, b) == IF a <= b THEN a ELSE b
PageAns(start, size) ==
    LET last == Min(start + size, Len(stream))
        evs  == IF start >= Len(stream) THEN <<>> ELSE SubSeq(stream, start + 1, last)
    IN [evs |-> evs, next |-> start + Len(evs)]
IsMainAns(b) == b \in DOMAIN blocks /\ blocks[b].main
HeaderAns(b) == [height |-> blocks[b].height, ts |-> blocks[b].ts]
HeightAns == height
StreamSet == {stream[i] : i \in 1..Len(stream)}
TxEvents(tx) == {e \in StreamSet \cup foreign : e.tx = tx}
\* the node reports the transaction as confirmed in a main-chain block that contains it (if any)
StatusAns(tx) ==
    LET bs == {e.blk : e \in TxEvents(tx)}
        mb == {b \in bs : blocks[b].main}
    IN IF mb # {} THEN [conf |-> TRUE, blk |-> CHOOSE b \in mb : TRUE]
       ELSE [conf |-> FALSE, blk |-> Nil]
TokAns(id) == IF id \in DOMAIN tokans THEN tokans[id] ELSE "fail"
=============================================================================
