INIT InitC07
NEXT NoNext
CONSTANTS
  MaxN = 255
INVARIANTS
  C07_ExceedsTwoThirds
  C07_AtMostAll
  C07_Intersect
  C07_Minimal
  C07_IsFloorForm
  C07_GoFormula
  C07_Quantified
  C07_Emit
CHECK_DEADLOCK FALSE
