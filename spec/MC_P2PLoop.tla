----------------------------- MODULE MC_P2PLoop -----------------------------
EXTENDS P2PLoop

CONSTANT MaxSteps
VARIABLES steps, msg, local      \* msg: the delivered message of the last step (Nil otherwise); local: last step was LocalReq
mlvars == <<lvars, steps, msg, local>>

GA == [idx |-> 0, keys |-> <<"g1", "g2">>]
GB == [idx |-> 1, keys |-> <<"g2", "g3">>]
AllSets == {GA, GB}
R1 == [chain |-> 2, tx |-> "t1"]
R2 == [chain |-> 3, tx |-> "t2"]

Envs ==
    {[kind |-> k, claimed |-> c, signer |-> s, dom |-> d, same |-> sm, plen |-> pl, parses |-> pr, peer |-> p, req |-> R1] :
        k \in {"hb", "req"}, c \in {"g1", "g2", "x1"}, s \in {"g1", "x1", ERR},
        d \in {"hb", "req", "raw"}, sm \in BOOLEAN, pl \in {6, 7, 24, 40}, pr \in BOOLEAN, p \in {"p1", "p2", "p3"}}
NoEnv == [kind |-> "none"]
Msgs ==
    {[from |-> f, decodes |-> d, kind |-> k, tag |-> t, e |-> NoEnv] :
        f \in {"self", "p1"}, d \in BOOLEAN, k \in {"obs", "vaa", "none"}, t \in {"a", "b"}}
    \cup {[from |-> f, decodes |-> d, kind |-> e.kind, tag |-> "", e |-> e] : f \in {"self", "p1"}, d \in BOOLEAN, e \in Envs}

MLInit == LInit /\ steps = 0 /\ msg = Nil /\ local = FALSE
MLNext ==
    /\ steps < MaxSteps /\ steps' = steps + 1
    /\ \/ \E S \in AllSets : LSetUpdate(S) /\ msg' = Nil /\ local' = FALSE
       \/ \E m \in Msgs : \E st \in BOOLEAN : NetRecv(m, st) /\ msg' = m /\ local' = FALSE
       \/ \E t \in {"a", "b"} : LocalSend(t) /\ msg' = Nil /\ local' = FALSE
       \/ \E r \in {R1, R2} : \E pl \in {0, 6, 7, 40} : LocalReq(r, pl) /\ msg' = Nil /\ local' = TRUE
MLSpec == MLInit /\ [][MLNext]_mlvars

NoMsg == [from |-> "self", decodes |-> FALSE, kind |-> "none", tag |-> "", e |-> NoEnv]
M == IF msg' = Nil THEN NoMsg ELSE msg'
RouterInputVerified == [][RouterInputVerifiedStep(M, local')]_mlvars
KindRouting == [][KindRoutingStep(M)]_mlvars
RecvNeverPublishes == [][msg' # Nil => RecvNeverPublishesStep]_mlvars
OwnRequestsAcceptable == \A r \in {R1, R2} : \A pl \in {0, 6, 7, 40} : \A S \in AllSets \cup {[idx |-> 2, keys |-> <<"g1">>]} : OwnRequestAcceptable(r, pl, S)
TableOnlyMembers == TableOnlyMembersEver(AllSets)
View == <<gs, hb, steps>>
=============================================================================
