SPECIFICATION MCFairSpec
CONSTANTS
  Nil = Nil
  Cap = 1
  NSubs = 1
  NVaas = 3
  MaxFaults = 1
  MaxStall = 1
  MaxResume = 1
  MaxFail = 1
  MaxCancel = 1
  Policies = {"skip", "put"}
  BadAt = 0
  AllowInvalid = FALSE
PROPERTIES
  PublishTerminatesP
CHECK_DEADLOCK FALSE
