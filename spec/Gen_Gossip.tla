----------------------------- MODULE Gen_Gossip -----------------------------
EXTENDS MC_Gossip, Json
CONSTANT GenDepth
VARIABLES hist, done
ggvars == <<mgvars, hist, done>>
GGInit == MGInit /\ hist = <<>> /\ done = FALSE
GGStep ==
    /\ Len(hist) < GenDepth /\ UNCHANGED done
    /\ steps' = steps + 1
    /\ \/ \E S \in AllSets : GSetUpdate(S) /\ msg' = Nil /\ hist' = Append(hist, [ev |-> "GSetUpdate", a |-> [set |-> S]])
       \/ \E e \in Envelopes : \E st \in BOOLEAN : Heartbeat(e, st) /\ msg' = e /\ hist' = Append(hist, [ev |-> "Heartbeat", a |-> [e |-> e]])
       \/ \E e \in Envelopes : ObsReq(e) /\ msg' = e /\ hist' = Append(hist, [ev |-> "ObsReq", a |-> [e |-> e]])
\* One successor only, so that the behaviour is printed once (TLC's simulator evaluates every successor).
GGFinish == Len(hist) = GenDepth /\ ~done /\ done' = TRUE /\ PrintT(<<"SCN", ToJson(hist)>>) /\ UNCHANGED <<mgvars, hist>>
GGNext == GGStep \/ GGFinish
GGSpec == GGInit /\ [][GGNext]_ggvars
=============================================================================
