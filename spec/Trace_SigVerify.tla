--------------------------- MODULE Trace_SigVerify ---------------------------
(* Trace validation for signature verification and quorum (C06, C07).  Every  *)
(* line of trace.ndjson is ONE evaluation of the real code, recorded with the *)
(* abstract description of its input:                                          *)
(*                                                                            *)
(*  ev = "Verify"         a.addrs = address list as key names, a.sigs =       *)
(*                        [idx, signer] with signer = the key the signature   *)
(*                        recovers to over the VAA's digest (harness's own    *)
(*                        ecrecover; JUNK = no known key, ERR = no recovery); *)
(*                        s.res = "true" | "false" | "panic"                  *)
(*                        (the real VAA.VerifySignatures)                  *)
(*  ev = "ExplorerVerify" same input; s.res of explorer-backend's verifyVAA   *)
(*  ev = "Quorum"         a.n; s.q = the real CalculateQuorum(n)              *)
(*                                                                            *)
(* TLC computes the verdicts SigVerify.tla / Quorum.tla allow and rejects     *)
(* the line if the real one is not among them.                                *)
EXTENDS SigVerify, Quorum, TLC, Json

VARIABLES l, rej

Trace == ndJsonDeserialize("trace.ndjson")
tvars == <<l, rej>>

Short == 8     \* up to this length the defining (quadratic) forms are evaluated, beyond it the linear ones

\* the single expected verdict: the three conditions of the statement and no guardian counted twice
ExpectedVerdict(sigs, addrs) == IF Len(sigs) <= Short THEN VerifyStrict(sigs, addrs) ELSE VerifyStrictFast(sigs, addrs)
Allowed(sigs, addrs) == {ExpectedVerdict(sigs, addrs)}

\* the explorer's gate (Push): at least one signature, a quorum OF THE SET THE VAA NAMES (a.addrs), verification
ExplorerAllowed(sigs, addrs) == {Len(sigs) > 0 /\ Len(sigs) >= Q(Len(addrs)) /\ ExpectedVerdict(sigs, addrs)}

Str(b) == IF b THEN "true" ELSE "false"

AllowedRes(ln) ==
    CASE ln.ev = "Verify"         -> {Str(b) : b \in Allowed(ln.a.sigs, ln.a.addrs)}
      [] ln.ev = "ExplorerVerify" -> {Str(b) : b \in ExplorerAllowed(ln.a.sigs, ln.a.addrs)}
      [] OTHER                    -> {}

LineOK(ln) ==
    CASE ln.ev = "Quorum" -> ln.s.q = Q(ln.a.n)
      [] OTHER            -> ln.s.res \in AllowedRes(ln)

Expected(ln) ==
    CASE ln.ev = "Quorum" -> [q |-> Q(ln.a.n)]
      [] OTHER            -> [allowed |-> AllowedRes(ln)]

TraceInit == l = 1 /\ rej = <<>>

Step ==
    /\ l <= Len(Trace)
    /\ l' = l + 1
    /\ IF LineOK(Trace[l]) THEN UNCHANGED rej
       ELSE /\ PrintT(<<"REJECT", ToJson([t |-> Trace[l].t, n |-> Trace[l].n, ev |-> Trace[l].ev,
                                          why |-> "the real verdict is not one the specification allows",
                                          spec |-> Expected(Trace[l])])>>)
            /\ rej' = Append(rej, <<Trace[l].t, Trace[l].n>>)

TraceSpec == TraceInit /\ [][Step]_tvars

Finished == (l = Len(Trace) + 1) => PrintT(<<"FINISHED", ToJson([lines |-> Len(Trace), rejected |-> rej])>>)
=============================================================================
