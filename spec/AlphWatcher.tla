----------------------------- MODULE AlphWatcher -----------------------------
(* The Alephium watcher (node/pkg/alephium/watcher.go, reobserve.go) at the  *)
(* code's grain: ONE ACTION PER SERVED NODE-API REQUEST, plus the channel    *)
(* hand-offs between its goroutines (C08, C09).  The answers of the node are *)
(* PARAMETERS of the actions: MC_AlphWatcher binds them to AlphChain,        *)
(* Trace_AlphWatcher binds them to what the scripted fake node really        *)
(* answered.  This is the behaviour the properties REQUIRE, not a copy of    *)
(* the code: where the code deviates no action matches the recorded line.    *)
(*                                                                           *)
(* Processes (goroutines started by Run):                                    *)
(*   fetcher   F_InitCount, F_PollCount, F_Page, F_Tok, F_SkipForeign,       *)
(*             F_Deliver (hand-off to the handler)                           *)
(*   poller    P_Height                                                      *)
(*   handler   H_Start (takes a height), H_IsMain, H_Header, H_Forward       *)
(*   reobserver R_Status, R_Events, R_Header, R_Tok, R_IsMain, R_Height,     *)
(*             R_Forward                                                     *)
(*   Run       RunStart, S_Version, S_Clique, RunExit;  Fail(route)          *)
(*                                                                           *)
(* Freedom left by the properties (nondeterministic here, resolved from the  *)
(* trace): the poller may poll at any time; after the page that reaches the  *)
(* polled count the fetcher may ask for further pages as long as the last    *)
(* one was not empty; a foreign-sender attestation may be validated or       *)
(* skipped without a call; the order in which pending blocks are visited and *)
(* confirmed messages are forwarded; the re-observer may abandon a request   *)
(* at any point and may gather more evidence than it needs.  The clock is    *)
(* owned by the environment (variable `clock`, never changed here).          *)
EXTENDS AlphChain      \* Nil, Put, the chain variables (never changed by the actions of this module)

CONSTANTS Floor,       \* minimal consistency level of mainnet transfers (205 in the code: MinimalConsistencyLevel)
          BlockSecs    \* block interval in clock units (16 s in the code: BlockTimeMs = 16000)

VARIABLES cfg,     \* [mainnet : BOOLEAN]
          run,     \* "down" | "ver" | "clique" | "up"
          failed,  \* an answer that legitimately ends Run has been served (API error / node not synced)
          fet, pol, han, reo,
          reqQ,    \* re-observation requests not yet taken
          outs,    \* history (a set): messages handed to the signing pipeline, with the evidence they were forwarded on
          aux,     \* history: [seen, dropped, tokval, initFrom, starts, apifail, dup]
          clock    \* wall clock (environment)

wvars == <<cfg, run, failed, fet, pol, han, reo, reqQ, outs, aux>>

Max(a, b) == IF a >= b THEN a ELSE b
Drop(f, k) == [x \in DOMAIN f \ {k} |-> f[x]]
SeqSet(s) == {s[i] : i \in 1..Len(s)}
Ids(S) == {e.id : e \in S}

\* ---------------------------------------------------------------- confirmation rule (both paths)
\* kind "transfer" = payload id 1 WHATEVER the payload length (the contract emits 101 + size(recipient) bytes for any
\* recipient size); kind "other" includes the empty payload, which has no payload id at all
Dur(e) == IF cfg.mainnet /\ e.kind = "transfer" THEN Max(e.cl, Floor) * BlockSecs ELSE e.cl * BlockSecs
IsConfirmed(e, hd, h, now) == hd.height + e.cl <= h /\ hd.ts + Dur(e) <= now

AlphInfo == "malph"      \* the constant metadata of the native token
NeedsTok(e) == e.ei = 0 /\ e.ok /\ e.kind = "attest" /\ e.tok # "alph"
\* decidable without a call
Acceptable(e) == e.ei = 0 /\ e.ok /\ (e.kind = "attest" => (e.tok = "alph" /\ e.claim = AlphInfo))

PollOuts == {o.e.id : o \in {x \in outs : x.path = "poll"}}

\* ---------------------------------------------------------------- initial process states
FetInit == [st |-> "off", from |-> 0, target |-> 0, batch |-> <<>>, q |-> <<>>, lastN |-> 0, rep |-> 0, last |-> Nil]
PolInit == [st |-> "off", h |-> 0]
HanInit == [st |-> "idle", h |-> 0, now |-> 0, todo |-> {}, cur |-> Nil, pend |-> <<>>, conf |-> {}, fwd |-> {}, mains |-> {}]
ReoInit == [st |-> "idle", tx |-> Nil, sb |-> Nil, all |-> {}, evs |-> {}, hdr |-> <<>>, tokok |-> {}, mains |-> {},
            h |-> Nil, done |-> {}]
AuxInit == [seen |-> {}, dropped |-> {}, tokval |-> {}, initFrom |-> Nil, starts |-> 0, apifail |-> FALSE, dup |-> FALSE]

WInit ==
    /\ cfg \in [mainnet : BOOLEAN]
    /\ run = "down" /\ failed = FALSE
    /\ fet = FetInit /\ pol = PolInit /\ han = HanInit /\ reo = ReoInit
    /\ reqQ = <<>> /\ outs = {} /\ aux = AuxInit

\* ---------------------------------------------------------------- Run
RunStart ==
    /\ run = "down"
    /\ run' = "ver" /\ failed' = FALSE
    /\ fet' = FetInit /\ pol' = PolInit /\ han' = HanInit /\ reo' = ReoInit
    /\ aux' = [aux EXCEPT !.starts = @ + 1, !.initFrom = Nil]
    /\ UNCHANGED <<cfg, reqQ, outs>>

S_Version ==
    /\ run = "ver" /\ run' = "clique"
    /\ UNCHANGED <<cfg, failed, fet, pol, han, reo, reqQ, outs, aux>>

S_Clique(synced) ==
    /\ run = "clique"
    /\ IF synced
       THEN /\ run' = "up" /\ fet' = [fet EXCEPT !.st = "init"] /\ pol' = [pol EXCEPT !.st = "idle"]
            /\ UNCHANGED <<failed, aux>>
       ELSE /\ failed' = TRUE /\ aux' = [aux EXCEPT !.apifail = TRUE] /\ UNCHANGED <<run, fet, pol>>
    /\ UNCHANGED <<cfg, han, reo, reqQ, outs>>

\* Run returns an error: only after an answer that justifies it.  The goroutines of the ended Run may go on until
\* their context is cancelled, so the process states stay; RunStart resets them.
RunExit ==
    /\ failed /\ run # "down"
    /\ run' = "down"
    /\ UNCHANGED <<cfg, failed, fet, pol, han, reo, reqQ, outs, aux>>

\* ---------------------------------------------------------------- fetcher
RECURSIVE Drain(_, _)
Drain(q, batch) ==
    IF q = <<>> THEN [q |-> q, batch |-> batch]
    ELSE LET e == Head(q) IN
         IF NeedsTok(e) THEN [q |-> q, batch |-> batch]
         ELSE Drain(Tail(q), IF Acceptable(e) THEN Append(batch, e) ELSE batch)

\* examine the queue up to the next event that needs a metadata call; all fetched and examined and the polled count
\* reached => the batch is ready for the handler
Settle(f) ==
    LET d == Drain(f.q, f.batch)
        g == [f EXCEPT !.q = d.q, !.batch = d.batch]
    IN IF g.q = <<>> /\ g.st = "paging" /\ g.from >= g.target THEN [g EXCEPT !.st = "deliver"] ELSE g

\* history bookkeeping for a fetcher step from f (queue before examination) to g
AuxFet(f, g, tokAccepted) ==
    LET examined == SeqSet(f.q) \ SeqSet(g.q)
        accepted == examined \cap SeqSet(g.batch)
    IN [aux EXCEPT !.seen = @ \cup Ids(accepted), !.dropped = @ \cup Ids(examined \ accepted),
                   !.tokval = @ \cup tokAccepted]

F_InitCount(c) ==
    /\ fet.st = "init"
    /\ fet' = [fet EXCEPT !.st = "idle", !.from = c]
    /\ aux' = [aux EXCEPT !.initFrom = c]
    /\ UNCHANGED <<cfg, run, failed, pol, han, reo, reqQ, outs>>

F_PollCount(c) ==
    /\ fet.st = "idle"
    /\ c >= fet.from
    /\ fet' = IF c = fet.from THEN [fet EXCEPT !.rep = 0, !.last = Nil]
              ELSE [fet EXCEPT !.st = "paging", !.target = c, !.batch = <<>>, !.q = <<>>, !.lastN = 0, !.rep = 0, !.last = Nil]
    /\ UNCHANGED <<cfg, run, failed, pol, han, reo, reqQ, outs, aux>>

\* one page.  `start` must be the next unfetched index (each stream index is fetched exactly once); a further page after
\* the polled count was reached is allowed only while pages keep returning events (no spinning on an empty page).
F_Page(start, evs, next) ==
    /\ fet.st = "paging" \/ (fet.st = "deliver" /\ fet.lastN > 0)
    /\ fet.q = <<>>
    /\ start = fet.from
    /\ LET f == [fet EXCEPT !.st = "paging", !.q = evs, !.from = next, !.lastN = Len(evs),
                            !.rep = IF fet.last = start THEN @ + 1 ELSE 1, !.last = start]
           g == Settle(f)
       IN fet' = g /\ aux' = AuxFet(f, g, {})
    /\ UNCHANGED <<cfg, run, failed, pol, han, reo, reqQ, outs>>

\* metadata multi-call for the attestation at the head of the queue: accepted iff the answer is the claimed metadata;
\* any other answer (HTTP error, wrong number of results, a failed call in any position, other metadata) skips this
\* event ALONE
F_Tok(id, ans) ==
    /\ fet.q # <<>> /\ NeedsTok(Head(fet.q)) /\ Head(fet.q).tok = id
    /\ LET e == Head(fet.q)
           acc == ans = e.claim
           f == [fet EXCEPT !.q = <<e>> \o Tail(fet.q)]
           g0 == [fet EXCEPT !.q = Tail(fet.q), !.batch = IF acc THEN Append(fet.batch, e) ELSE fet.batch]
           g == Settle(g0)
       IN fet' = g /\ aux' = AuxFet(f, g, IF ans = e.claim THEN {e.id} ELSE {})    \* the evidence is the answer, not the decision
    /\ UNCHANGED <<cfg, run, failed, pol, han, reo, reqQ, outs>>

\* an attestation-shaped event that does not come from the token bridge, or whose payload names another token chain than
\* Alephium or that has not the length of an attestation (claims "badchain" / "badlen": they equal no answer of any
\* contract), can never be forwarded: no call is required
F_SkipForeign ==
    /\ fet.q # <<>> /\ NeedsTok(Head(fet.q)) /\ (~Head(fet.q).tb \/ Head(fet.q).claim \in {"badchain", "badlen"})
    /\ LET g == Settle([fet EXCEPT !.q = Tail(fet.q)])
       IN fet' = g /\ aux' = AuxFet(fet, g, {})
    /\ UNCHANGED <<cfg, run, failed, pol, han, reo, reqQ, outs>>

RECURSIVE AddAll(_, _)
AddAll(pend, batch) ==
    IF batch = <<>> THEN pend
    ELSE LET e == Head(batch)
             p == IF e.blk \in DOMAIN pend THEN [pend EXCEPT ![e.blk].evs = Append(@, e)]
                  ELSE Put(pend, e.blk, [hdr |-> Nil, evs |-> <<e>>])
         IN AddAll(p, Tail(batch))

\* hand-off fetcher -> handler (unbuffered channel: both must be ready)
F_Deliver ==
    /\ fet.st = "deliver" /\ han.st = "idle"
    /\ han' = [han EXCEPT !.pend = AddAll(han.pend, fet.batch)]
    /\ fet' = [fet EXCEPT !.st = "idle", !.batch = <<>>, !.lastN = 0, !.target = 0, !.rep = 0, !.last = Nil]
    /\ UNCHANGED <<cfg, run, failed, pol, reo, reqQ, outs, aux>>

\* ---------------------------------------------------------------- poller
P_Height(h) ==
    /\ pol.st = "idle"
    /\ pol' = [st |-> "send", h |-> h]
    /\ UNCHANGED <<cfg, run, failed, fet, han, reo, reqQ, outs, aux>>

\* ---------------------------------------------------------------- handler
\* hand-off poller -> handler: a processing round starts; `now` is read once per round
H_Start ==
    /\ han.st = "idle" /\ pol.st = "send"
    /\ pol' = [st |-> "idle", h |-> 0]
    /\ han' = IF DOMAIN han.pend = {} THEN han
              ELSE [han EXCEPT !.st = "round", !.h = pol.h, !.now = clock, !.todo = DOMAIN han.pend, !.cur = Nil,
                               !.conf = {}, !.mains = {}]
    /\ UNCHANGED <<cfg, run, failed, fet, reo, reqQ, outs, aux>>

\* back to the select loop: nothing of the finished round is kept
Rest(hn) == [hn EXCEPT !.st = "idle", !.h = 0, !.now = 0, !.todo = {}, !.cur = Nil, !.conf = {}, !.fwd = {}, !.mains = {}]

\* decision for one pending block once its main-chain answer and header are known
Decided(hn, b, main, hd) ==
    LET evs == hn.pend[b].evs
        isC(e) == IsConfirmed(e, hd, hn.h, hn.now)
        remain == SelectSeq(evs, LAMBDA e : ~isC(e))
        doneS == {e \in SeqSet(evs) : isC(e)}
        conf2 == hn.conf \cup (IF main THEN {[e |-> e, hd |-> hd] : e \in doneS} ELSE {})
        pend2 == IF remain = <<>> THEN Drop(hn.pend, b) ELSE [hn.pend EXCEPT ![b] = [hdr |-> hd, evs |-> remain]]
        todo2 == hn.todo \ {b}
        mains2 == IF main THEN hn.mains \cup {b} ELSE hn.mains
        fw == {c \in conf2 : c.e.tb}
        nh == IF todo2 = {}
              THEN IF fw = {} THEN Rest([hn EXCEPT !.pend = pend2])
                   ELSE [hn EXCEPT !.pend = pend2, !.todo = {}, !.cur = Nil, !.conf = {}, !.fwd = fw, !.mains = mains2, !.st = "fwd"]
              ELSE [hn EXCEPT !.pend = pend2, !.todo = todo2, !.cur = Nil, !.conf = conf2, !.mains = mains2]
        dropNow == (IF main THEN {} ELSE Ids(doneS)) \cup (IF todo2 = {} THEN Ids({c.e : c \in conf2 \ fw}) ELSE {})
    IN [han |-> nh, dropped |-> dropNow]

H_IsMain(b, r) ==
    /\ han.st = "round" /\ han.cur = Nil /\ b \in han.todo
    /\ IF han.pend[b].hdr = Nil
       THEN han' = [han EXCEPT !.cur = [b |-> b, main |-> r]] /\ aux' = aux
       ELSE LET d == Decided(han, b, r, han.pend[b].hdr)
            IN han' = d.han /\ aux' = [aux EXCEPT !.dropped = @ \cup d.dropped]
    /\ UNCHANGED <<cfg, run, failed, fet, pol, reo, reqQ, outs>>

H_Header(b, hd) ==
    /\ han.st = "round" /\ han.cur # Nil /\ han.cur.b = b
    /\ LET d == Decided(han, b, han.cur.main, hd)
       IN han' = d.han /\ aux' = [aux EXCEPT !.dropped = @ \cup d.dropped]
    /\ UNCHANGED <<cfg, run, failed, fet, pol, reo, reqQ, outs>>

H_Forward(id) ==
    /\ han.st = "fwd"
    /\ \E c \in han.fwd :
         /\ c.e.id = id
         /\ outs' = outs \cup {[path |-> "poll", e |-> c.e, hd |-> c.hd, h |-> han.h, now |-> han.now,
                                  main |-> c.e.blk \in han.mains,
                                  att |-> (c.e.kind = "attest" => (Acceptable(c.e) \/ c.e.id \in aux.tokval))]}
         /\ aux' = [aux EXCEPT !.dup = @ \/ c.e.id \in PollOuts]
         /\ han' = IF han.fwd \ {c} = {} THEN Rest(han) ELSE [han EXCEPT !.fwd = @ \ {c}]
    /\ UNCHANGED <<cfg, run, failed, fet, pol, reo, reqQ>>

\* ---------------------------------------------------------------- re-observer
\* Safety automaton over the evidence gathered for ONE request, in the order the code gathers it:
\*   status -> events of the tx -> headers / metadata -> main-chain answers -> height -> forward
R_Req(tx) ==
    /\ reqQ' = Append(reqQ, tx)
    /\ UNCHANGED <<cfg, run, failed, fet, pol, han, reo, outs, aux>>

\* taking the next request abandons whatever was left of the previous one
R_Status(tx, ans) ==
    /\ reqQ # <<>> /\ Head(reqQ) = tx
    /\ reqQ' = Tail(reqQ)
    /\ reo' = IF ans.conf THEN [ReoInit EXCEPT !.st = "ev", !.tx = tx, !.sb = ans.blk] ELSE ReoInit
    /\ UNCHANGED <<cfg, run, failed, fet, pol, han, outs, aux>>

\* only events of the configured core contract with the WormholeMessage index count
R_Events(tx, evs) ==
    /\ reo.st = "ev" /\ reo.tx = tx
    /\ reo' = [reo EXCEPT !.st = "hdr", !.all = SeqSet(evs), !.evs = {e \in SeqSet(evs) : e.gov /\ e.ei = 0}]
    /\ UNCHANGED <<cfg, run, failed, fet, pol, han, reqQ, outs, aux>>

R_Header(b, hd) ==
    /\ reo.st = "hdr" /\ b \in {e.blk : e \in reo.all}
    /\ reo' = [reo EXCEPT !.hdr = Put(@, b, hd)]
    /\ UNCHANGED <<cfg, run, failed, fet, pol, han, reqQ, outs, aux>>

R_Tok(id, ans) ==
    /\ reo.st = "hdr" /\ \E e \in reo.all : e.kind = "attest" /\ e.tok = id
    /\ reo' = [reo EXCEPT !.tokok = @ \cup {e.id : e \in {x \in reo.evs : NeedsTok(x) /\ x.tok = id /\ x.claim = ans}}]
    /\ UNCHANGED <<cfg, run, failed, fet, pol, han, reqQ, outs, aux>>

R_IsMain(b, r) ==
    /\ reo.st \in {"hdr", "main"} /\ (b = reo.sb \/ b \in {e.blk : e \in reo.all})
    /\ reo' = [reo EXCEPT !.st = "main", !.mains = IF r THEN @ \cup {b} ELSE @ \ {b}]
    /\ UNCHANGED <<cfg, run, failed, fet, pol, han, reqQ, outs, aux>>

R_Height(h) ==
    /\ reo.st = "main"
    /\ reo' = [reo EXCEPT !.st = "h", !.h = h]
    /\ UNCHANGED <<cfg, run, failed, fet, pol, han, reqQ, outs, aux>>

ReoForwardable(e) ==
    /\ e \in reo.evs /\ e.id \notin reo.done
    /\ e.ok /\ e.tb
    /\ e.blk \in DOMAIN reo.hdr /\ e.blk \in reo.mains
    /\ reo.h # Nil /\ IsConfirmed(e, reo.hdr[e.blk], reo.h, clock)
    /\ e.kind = "attest" => (Acceptable(e) \/ e.id \in reo.tokok)

R_Forward(id) ==
    /\ reo.st = "h"
    /\ \E e \in reo.evs :
         /\ e.id = id /\ ReoForwardable(e)
         /\ outs' = outs \cup {[path |-> "reobs", e |-> e, hd |-> reo.hdr[e.blk], h |-> reo.h, now |-> clock,
                                  main |-> e.blk \in reo.mains,
                                  att |-> (e.kind = "attest" => (Acceptable(e) \/ e.id \in reo.tokok))]}
         /\ reo' = [reo EXCEPT !.done = @ \cup {id}]
    /\ UNCHANGED <<cfg, run, failed, fet, pol, han, reqQ, aux>>

\* ---------------------------------------------------------------- API errors
\* A request answered with an error.  Fetcher / poller / handler / start-up: the process stops and Run may end (the
\* round or batch is abandoned).  Re-observer: the request is abandoned.  Metadata calls are answers of F_Tok / R_Tok
\* ("fail"), never fatal.
Die(p) == [p EXCEPT !.st = "dead"]
FailFet == fet' = Die(fet) /\ failed' = TRUE /\ aux' = [aux EXCEPT !.apifail = TRUE] /\ UNCHANGED <<pol, han, reo>>
\* The property does not demand that the fetcher give up: an implementation may also log the error and ask again from
\* where it is (same cursor, pages read so far kept) - nothing is lost or handed over twice that way.
FetSurvives == UNCHANGED <<fet, failed, pol, han, reo>> /\ aux' = [aux EXCEPT !.apifail = TRUE]
FailPol == pol' = Die(pol) /\ failed' = TRUE /\ aux' = [aux EXCEPT !.apifail = TRUE] /\ UNCHANGED <<fet, han, reo>>
FailHan == han' = Die(han) /\ failed' = TRUE /\ aux' = [aux EXCEPT !.apifail = TRUE] /\ UNCHANGED <<fet, pol, reo>>
FailReo == reo' = ReoInit /\ UNCHANGED <<failed, aux, fet, pol, han>>

Fail(route) ==
    /\ CASE route = "version" -> run = "ver" /\ failed' = TRUE /\ aux' = [aux EXCEPT !.apifail = TRUE] /\ UNCHANGED <<fet, pol, han, reo>>
         [] route = "clique"  -> run = "clique" /\ failed' = TRUE /\ aux' = [aux EXCEPT !.apifail = TRUE] /\ UNCHANGED <<fet, pol, han, reo>>
         [] route = "count"   -> fet.st \in {"init", "idle"} /\ (FailFet \/ (fet.st = "idle" /\ FetSurvives))
         [] route = "page"    -> (fet.st = "paging" \/ (fet.st = "deliver" /\ fet.lastN > 0)) /\ fet.q = <<>> /\ (FailFet \/ FetSurvives)
         [] route = "chain-info" -> \/ pol.st = "idle" /\ FailPol
                                    \/ reo.st = "main" /\ FailReo
         [] route = "is-main" -> \/ han.st = "round" /\ han.cur = Nil /\ FailHan
                                 \/ reo.st \in {"hdr", "main"} /\ FailReo
         [] route = "headers" -> \/ han.st = "round" /\ han.cur # Nil /\ FailHan
                                 \/ reo.st = "hdr" /\ FailReo
         [] route = "events-tx" -> reo.st = "ev" /\ FailReo
         [] OTHER -> FALSE
    /\ UNCHANGED <<cfg, run, reqQ, outs>>

\* ---------------------------------------------------------------- C08: what every forwarded message rests on
ForwardSoundOne(o) ==
    /\ o.e.gov /\ o.e.ei = 0 /\ o.e.ok         \* (i)  a WormholeMessage event of the configured core contract
    /\ o.e.tb                                   \* (ii) published by the token bridge
    /\ o.main                                   \* (iii) the node said "main chain" for its block in this round
    /\ o.hd.height + o.e.cl <= o.h              \* (iv) reported height >= block height + consistency level
    /\ o.att                                    \* (v)  attested metadata = what the token contract reports
    /\ o.hd.ts + Dur(o.e) <= o.now              \* (vi) wall-clock floor (mainnet transfers: max(cl, Floor) intervals)
ForwardSound == \A o \in outs : ForwardSoundOne(o)

\* the polling path forwards each fetched event at most once
PollOnce == ~aux.dup

\* ---------------------------------------------------------------- C09 (safety halves)
\* identical page requests without an intervening count poll stay bounded
NoSpin == fet.rep <= 2
\* only an API answer can end Run: no event content does
NoKill == failed => aux.apifail
\* nothing that entered a batch disappears: it is in flight, pending, queued for forwarding, forwarded, or was dropped
\* for a reason the properties name (orphaned block, sender is not the token bridge)
PendIds == UNION {Ids(SeqSet(han.pend[b].evs)) : b \in DOMAIN han.pend}
Conserved ==
    (aux.starts = 1 /\ han.st # "dead" /\ fet.st # "dead") =>
        aux.seen \subseteq (Ids(SeqSet(fet.batch)) \cup PendIds \cup Ids({c.e : c \in han.conf \cup han.fwd})
                            \cup PollOuts \cup aux.dropped)
=============================================================================
