\* Thorough tier, part 5: Run returns (fatal RPC error) and is restarted on the same Watcher while messages are pending.
SPECIFICATION MCSpec
CONSTANTS
  Nil = Nil
  WScaled = 3
  Jumps = {1, 2, 3, 4}
  Lag = 2
  Modes = {TRUE, FALSE}
  CLs = {0, 1}
  MineBack = 0
  ArmKinds = {"hreceipt", "ltime"}
  RemineStatus = {1}
  MidScanHeads = FALSE
  HeldIntake = FALSE
  MaxHeads = 4
  MaxMine = 1
  MaxPush = 2
  MaxReorg = 1
  MaxRemine = 0
  MaxDrop = 0
  MaxFail = 0
  MaxArm = 1
  MaxReq = 0
  MaxRestart = 2
INVARIANTS
  TypeOK
  ForwardSound
  AtMostOnce
  ExactlyOnce
PROPERTIES
  AbandonOnlyAfterWindow
  DropOrphans
  NoForwardOfOrphan
CHECK_DEADLOCK FALSE
