SPECIFICATION MCSpec
CONSTANTS
  Nil = Nil
  Locked = FALSE
  MaxCallsR1 = 2
  MaxCallsR2 = 2
  KindsR1 = {"lookup", "current"}
  KindsR2 = {"lookup", "current"}
  MaxAppends = 1
  VaaNames = {}
INVARIANTS
  NoTornRead
CHECK_DEADLOCK FALSE
