----------------------------- MODULE Trace_P2PLoop -----------------------------
(* Trace validation of the real p2p.Run loop (harness/p2p/loop_harness.go) against P2PLoop.tla. *)
EXTENDS P2PLoop, Json

VARIABLES l, ph, rej
Trace == ndJsonDeserialize("trace.ndjson")
tlvars == <<lvars, l, ph, rej>>

ToSetL(s) == {s[i] : i \in 1..Len(s)}
LSetL(x) == IF Len(x) = 0 THEN Nil ELSE [idx |-> x[1].idx, keys |-> x[1].keys]
NoEnvL == [kind |-> "none"]
LEnvL(e) == IF e.kind = "none" THEN NoEnvL
            ELSE [kind |-> e.kind, claimed |-> e.claimed, signer |-> e.signer, dom |-> e.dom,
                  same |-> e.same,
                  plen |-> e.plen, parses |-> e.parses, peer |-> e.peer, req |-> [chain |-> e.req.chain, tx |-> e.req.tx]]
LMsg(m) == [from |-> IF m.from = "self" THEN "self" ELSE m.from, decodes |-> m.decodes, kind |-> m.kind, tag |-> m.tag,
            e |-> IF m.kind \in {"hb", "req"} THEN [LEnvL(m.e) EXCEPT !.peer = m.from] ELSE NoEnvL]

\* the node's own name is part of the recorded line (Config of the scenario); the constant Self is not used for traces
SelfOf(ln) == ln.a.self

PubMatches(s) ==
    /\ Len(pub) = Len(s.pub)
    /\ \A i \in 1..Len(pub) :
         IF pub[i].kind = "raw" THEN s.pub[i].kind = "raw" /\ s.pub[i].tag = pub[i].tag
         ELSE /\ s.pub[i].kind = pub[i].kind /\ s.pub[i].claimed = pub[i].claimed /\ s.pub[i].signer = pub[i].signer
              /\ s.pub[i].dom = pub[i].dom /\ s.pub[i].parses = pub[i].parses /\ s.pub[i].plen = pub[i].plen
              /\ (pub[i].kind = "req" => (s.pub[i].req.chain = pub[i].req.chain /\ s.pub[i].req.tx = pub[i].req.tx))

FwdMatchesL(s) ==
    /\ Len(fwd) = Len(s.fwd)
    /\ \A i \in 1..Len(fwd) : s.fwd[i].chain = fwd[i].chain /\ s.fwd[i].tx = fwd[i].tx

MatchesL(ln) ==
    /\ gs = LSetL(ln.s.gs)
    /\ DOMAIN hb = DOMAIN ln.s.hb
    /\ \A g \in DOMAIN hb : hb[g] = ToSetL(ln.s.hb[g])
    /\ PubMatches(ln.s)
    /\ IF ln.ev \in {"GSetUpdate", "End"} THEN TRUE
       ELSE /\ obsQ = ln.s.obs /\ vaaQ = ln.s.vaa /\ FwdMatchesL(ln.s)
    /\ ln.ev = "End" => Len(ln.s.stray) = 0

\* the own heartbeat: recorded in the node's own table under its own peer id, published signed under the heartbeat domain
OwnHeartbeatL(self, plen) ==
    /\ hb' = PutG(hb, self, Peers(self) \cup {"self"})
    /\ pub' = <<[kind |-> "hb", claimed |-> self, signer |-> self, dom |-> "hb", parses |-> TRUE, plen |-> plen]>>
    /\ obsQ' = <<>> /\ vaaQ' = <<>> /\ fwd' = <<>> /\ UNCHANGED gs

LocalReqL(self, r, plen) ==
    /\ pub' = <<[kind |-> "req", claimed |-> self, signer |-> self, dom |-> "req", parses |-> TRUE, plen |-> plen, req |-> r]>>
    /\ fwd' = <<r>>
    /\ obsQ' = <<>> /\ vaaQ' = <<>> /\ UNCHANGED <<gs, hb>>

ApplyL(ln) ==
    CASE ln.ev = "Reset"        -> gs' = Nil /\ hb' = <<>> /\ fwd' = <<>> /\ Quiet
      [] ln.ev = "GSetUpdate"   -> LSetUpdate([idx |-> ln.a.set.idx, keys |-> ln.a.set.keys])
      [] ln.ev = "NetRecv"      -> \E st \in BOOLEAN : NetRecv(LMsg(ln.a.m), st)
      [] ln.ev = "LocalSend"    -> LocalSend(ln.a.tag)
      [] ln.ev = "LocalReq"     -> LocalReqL(ln.a.self, [chain |-> ln.a.req.chain, tx |-> ln.a.req.tx], ln.a.plen)
      [] ln.ev = "OwnHeartbeat" -> OwnHeartbeatL(ln.a.self, ln.s.pub[1].plen)
      [] ln.ev = "End"          -> UNCHANGED <<gs, hb>> /\ fwd' = <<>> /\ Quiet
      [] OTHER                  -> FALSE

NextResetL(i) ==
    LET later == {j \in (i + 1)..Len(Trace) : Trace[j].ev = "Reset"}
    IN IF later = {} THEN Len(Trace) + 1 ELSE CHOOSE j \in later : \A k \in later : j <= k

PStateL == [gs |-> gs, hb |-> hb, fwd |-> fwd, obs |-> obsQ, vaa |-> vaaQ, pub |-> pub]

RejectL(why) ==
    /\ PrintT(<<"REJECT", ToJson([t |-> Trace[l].t, n |-> Trace[l].n, ev |-> Trace[l].ev, why |-> why, spec |-> PStateL])>>)
    /\ rej' = Append(rej, <<Trace[l].t, Trace[l].n>>)
    /\ l' = NextResetL(l) /\ ph' = 0

DoApplyL    == ph = 0 /\ l <= Len(Trace) /\ ApplyL(Trace[l]) /\ ph' = 1 /\ UNCHANGED <<l, rej>>
NotEnabledL == ph = 0 /\ l <= Len(Trace) /\ ~ENABLED ApplyL(Trace[l]) /\ RejectL("step not allowed here") /\ UNCHANGED lvars
LineOKL     == IF Trace[l].ev = "Reset" THEN TRUE ELSE MatchesL(Trace[l])
DoMatchL    == ph = 1 /\ LineOKL /\ l' = l + 1 /\ ph' = 0 /\ UNCHANGED <<lvars, rej>>
MismatchL   == ph = 1 /\ ~LineOKL /\ RejectL("post-state differs") /\ UNCHANGED lvars

TLInit == LInit /\ l = 1 /\ ph = 0 /\ rej = <<>>
TLNext == DoApplyL \/ NotEnabledL \/ DoMatchL \/ MismatchL
TLSpec == TLInit /\ [][TLNext]_tlvars

\* the properties of the module, on the recorded behaviour (receive steps only; compare / reset steps are exempt)
IsRecv == ph = 0 /\ ph' = 1 /\ Trace[l].ev = "NetRecv"
T_RouterInputVerified == [][IsRecv => RouterInputVerifiedStep(LMsg(Trace[l].a.m), FALSE)]_tlvars
T_KindRouting == [][IsRecv => KindRoutingStep(LMsg(Trace[l].a.m))]_tlvars
T_RecvNeverPublishes == [][IsRecv => RecvNeverPublishesStep]_tlvars

FinishedL == (l = Len(Trace) + 1 /\ ph = 0) => PrintT(<<"FINISHED", ToJson([lines |-> Len(Trace), rejected |-> rej])>>)
=============================================================================
