---------------------------- MODULE Gen_Explorer ----------------------------
(* Scenario generator (C19): MC_Explorer with a history of the calls made (lookups, current-set reads, pushes,  *)
(* appends), of the sets governance creates and of queue drains, run under `tlc -simulate`.  The harness makes   *)
(* the same calls one after the other on the real code.                                                          *)
EXTENDS MC_Explorer, Json

CONSTANT GenDepth
VARIABLES hist, fresh

gvars == <<mcvars, hist, fresh>>

Rec(ev, a) == hist' = Append(hist, [ev |-> ev, a |-> a]) /\ fresh' = TRUE
Quiet == UNCHANGED hist /\ fresh' = FALSE

GenInit == MCInit /\ hist = <<>> /\ fresh = FALSE

GenNext ==
    \/ \E r \in Readers : cnt[r] < MaxCalls(r) /\ Bump(r) /\
          \/ "lookup" \in Kinds(r) /\ \E i \in 0..2 : LookupCall(r, i) /\ Rec("Lookup", [i |-> i])
          \/ "current" \in Kinds(r) /\ CurrentCall(r) /\ Rec("Current", [x |-> 0])
          \/ "push" \in Kinds(r) /\ \E v \in Vaas : PushCall(r, v) /\ Rec("Push", [v |-> v])
    \/ \E u \in Updaters : \E lo \in {1, cur + 1} :
          /\ cnt[u] < MaxAppends /\ top > cur /\ Bump(u) /\ AppendCall(u, lo, top)
          /\ Rec("Append", [lo |-> lo, hi |-> top])
    \/ ChainGrow /\ UNCHANGED cnt /\ Rec("Grow", [x |-> 0])
    \/ \E p \in DOMAIN proc : (Internal(p) \/ LookupRet(p) \/ PushRet(p)) /\ UNCHANGED cnt /\ Quiet
    \/ Drain /\ UNCHANGED cnt /\ Rec("Drain", [x |-> 0])

GenSpec == GenInit /\ [][GenNext]_gvars

Emit == (fresh /\ Len(hist) = GenDepth) => PrintT(<<"SCN", ToJson(hist)>>)
=============================================================================
