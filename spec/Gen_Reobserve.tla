---------------------------- MODULE Gen_Reobserve ----------------------------
(* Scenario generator for C17: MC_Reobserve with a history variable, run     *)
(* under `tlc -simulate`.  Only the steps the harness drives are recorded    *)
(* (requests without their outcome, drains, posts, advances); the steps of   *)
(* the mock clock and the purge are internal.  Every behaviour that reaches  *)
(* GenDepth recorded steps is printed as JSON and replayed on the real       *)
(* router.                                                                   *)
EXTENDS MC_Reobserve, Json

CONSTANT GenDepth
VARIABLE hist

gvars == <<mcvars, hist>>

Rec(e, a) == hist' = Append(hist, [ev |-> e, a |-> a])

GenInit == MCInit /\ hist = <<>>

GenNext ==
    \/ \E c \in ReqChains, tx \in Txs : MCRequest(c, tx) /\ Rec("Request", [c |-> c, tx |-> tx])
    \/ \E c \in Chains : MCDrain(c) /\ Rec("Drain", [c |-> c])
    \/ MCPost /\ Rec("Post", [id |-> "r"])
    \/ MCDrainOut /\ Rec("DrainOut", [x |-> 0])
    \/ \E dt \in TimeSteps : StartAdd(dt) /\ Rec("Advance", [dt |-> dt])
    \/ ClockStep /\ UNCHANGED hist
    \/ PurgeStep /\ UNCHANGED hist

GenSpec == GenInit /\ [][GenNext]_gvars

Emit == (Len(hist) = GenDepth /\ Quiescent) => PrintT(<<"SCN", ToJson(hist)>>)
=============================================================================
