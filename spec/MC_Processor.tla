---------------------------- MODULE MC_Processor ----------------------------
(* Bounded instance of Processor for exhaustive checking (C01 C02 C03a C13 C14). *)
EXTENDS Processor

CONSTANTS MaxUpd, MaxBad, MaxLocal, MaxInbound, MaxTime, UseFourth, SetIdxs, TimeSteps, Faults, MaxRestart

VARIABLE cnt   \* [upd, bad, loc, inb] budgets used so far (bounding only)

mcvars == <<vars, cnt>>

G1 == Self
Members == IF UseFourth THEN {"g1", "g2", "g3", "g4"} ELSE {"g1", "g2", "g3"}
Outsider == "x1"
AllKeys == Members \cup {Outsider}

SA == [idx |-> 0, keys |-> <<"g1", "g2", "g3">>]
SB == IF UseFourth THEN [idx |-> 1, keys |-> <<"g3", "g1", "g4", "g2">>] ELSE [idx |-> 1, keys |-> <<"g3", "g1">>]
S1 == [idx |-> 2, keys |-> <<"g2">>]
SE == [idx |-> 3, keys |-> <<>>]
SetUniverse == {S \in {SA, SB, S1, SE} : S.idx \in SetIdxs}

Digests == {"d1", "d2"}              \* the two bodies share one message id (re-emitted message)
AllDigests == Digests \cup {"dg", "de"}

MsgUniverse ==
    {[d |-> d, id |-> "i1", gov |-> FALSE, chain |-> 2, tx |-> "t1", empty |-> FALSE] : d \in Digests}
    \cup {[d |-> "dg", id |-> "ig", gov |-> TRUE, chain |-> 1, tx |-> "t2", empty |-> FALSE]}
    \cup {[d |-> "de", id |-> "ie", gov |-> FALSE, chain |-> 2, tx |-> "t3", empty |-> TRUE]}

InjectUniverse == {[d |-> "d1", id |-> "i1", setIdx |-> 0, chain |-> 2],
                   [d |-> "d1", id |-> "i1", setIdx |-> 1, chain |-> 2]}

\* Gossiped observations: valid ones by members, plus the byzantine classes of the C01/C03 quantifier.
GoodObs == {[d |-> d, claimed |-> k, signer |-> k, over |-> d] : d \in Digests, k \in Members \ {Self}}
BadObs  ==
    {[d |-> d, claimed |-> k, signer |-> Outsider, over |-> d] : d \in {"d1"}, k \in {"g2"}}          \* forged: outsider signs, claims member
    \cup {[d |-> "d1", claimed |-> Outsider, signer |-> Outsider, over |-> "d1"]}                     \* non-member, correctly signed
    \cup {[d |-> "d1", claimed |-> "g2", signer |-> "g2", over |-> "d2"]}                             \* signature over another digest
    \cup {[d |-> "d1", claimed |-> "g2", signer |-> "g3", over |-> "d1"]}                             \* member signing with another member's address
    \cup {[d |-> "d1", claimed |-> "g2", signer |-> ERR, over |-> "d1"]}                              \* malformed signature
    \cup {[d |-> "d1", claimed |-> Self, signer |-> Self, over |-> "d1"]}                             \* replay of the node's own signature

\* Inbound signed VAAs: signer families around the quorum boundary.
SigSeqs(S) ==
    LET n == Len(S.keys)
        full == Assemble(KeySet(S), S)
        pref(k) == SubSeq(full, 1, k)
    IN {pref(k) : k \in 0..n}
       \cup (IF n >= 2 THEN {<<full[2], full[1]>>,                                   \* swapped order
                             <<full[1], full[1]>>,                                   \* duplicated
                             <<full[1], [idx |-> full[2].idx, signer |-> Outsider]>>,   \* outsider at a member's index
                             <<full[1], [idx |-> full[2].idx, signer |-> JUNK]>>,        \* signature over another body
                             <<[idx |-> 1, signer |-> full[1].signer], [idx |-> 2, signer |-> full[2].signer]>>}  \* re-indexed
             ELSE {})

VaaUniverse ==
    UNION {{[ok |-> TRUE, d |-> "d1", id |-> "i1", setIdx |-> S.idx, sigs |-> s] : s \in SigSeqs(S)} :
             S \in {SA, SB, S1}}
    \cup {[ok |-> FALSE, d |-> "d1", id |-> "i1", setIdx |-> 0, sigs |-> <<>>]}

MCInit == Init /\ cnt = [upd |-> 0, bad |-> 0, loc |-> 0, inb |-> 0, rst |-> 0]

Bump(f) == cnt' = [cnt EXCEPT ![f] = @ + 1]

MCNext ==
    \/ \E S \in SetUniverse : cnt.upd < MaxUpd /\ SetUpdate(S) /\ Bump("upd")
    \/ \E m \in MsgUniverse : cnt.loc < MaxLocal /\ LocalMessage(m) /\ Bump("loc")
    \/ \E v \in InjectUniverse : cnt.loc < MaxLocal /\ Inject(v) /\ Bump("loc")
    \/ \E d \in DOMAIN loop : Loopback(d) /\ UNCHANGED cnt
    \/ \E o \in GoodObs : Observation(o) /\ vars' # vars /\ UNCHANGED cnt
    \/ \E o \in BadObs : cnt.bad < MaxBad /\ Observation(o) /\ Bump("bad")
    \/ \E w \in VaaUniverse : cnt.inb < MaxInbound /\ InboundVAA(w) /\ Bump("inb")
    \/ \E k \in TimeSteps : (MaxTime = 0 \/ now + k <= MaxTime) /\ DOMAIN agg # {} /\ Advance(k) /\ UNCHANGED cnt
    \/ \E L \in SUBSET LateSet : CleanupTick(L) /\ <<agg, out>>' # <<agg, {}>> /\ UNCHANGED cnt
    \/ Faults /\ DOMAIN agg # {} /\ StoreDown /\ UNCHANGED cnt
    \/ cnt.rst < MaxRestart /\ (DOMAIN agg # {} \/ DOMAIN db # {}) /\ Restart /\ Bump("rst")

MCSpec == MCInit /\ [][MCNext]_mcvars

\* An entry is never immortal: under fair cleanup ticks and time, every entry disappears.
MCFairSpec == MCSpec /\ WF_mcvars(\E L \in SUBSET LateSet : CleanupTick(L) /\ UNCHANGED cnt)

\* Cleanup decisions depend on ages only up to the largest threshold: cap them in the view so that
\* the time dimension is finite without bounding `now`.
Min(a, b) == IF a < b THEN a ELSE b
AgedEntry(e) == [e EXCEPT !.first = Min(now - e.first, DoneT),
                          !.lastRetry = IF e.lastRetry = Nil THEN Nil ELSE Min(now - e.lastRetry, RetryT)]
View == <<gs, [d \in DOMAIN agg |-> AgedEntry(agg[d])], db, up, loop, learned, cnt>>

\* C03a as an action property: a gossip step whose message is not validly signed by a member of the
\* applicable set changes nothing.
InvalidObservationNoEffect ==
    [][\A o \in BadObs \cup GoodObs :
          (~ObsValid(o) /\ Observation(o)) => UNCHANGED <<gs, agg, db, up, loop, now>> /\ out' = {}]_mcvars

\* Every aggregation entry's recorded signers are keys that were members of a learned set.
SignersAreMembers ==
    \A d \in DOMAIN agg : \A k \in agg[d].sigs : \E S \in learned : k \in KeySet(S)

TypeOK ==
    /\ gs = Nil \/ gs \in SetUniverse
    /\ DOMAIN agg \subseteq AllDigests
    /\ DOMAIN db \subseteq {"i1", "ie"}
    /\ \A d \in DOMAIN agg : agg[d].retry <= RetryBudget
=============================================================================
