------------------------------- MODULE Quorum -------------------------------
(* Quorum arithmetic of the guardian network (property C07; used by every    *)
(* module that counts signatures).                                            *)
EXTENDS Naturals

\* The threshold the property states: floor(2n/3) + 1.
Q(n) == (2 * n) \div 3 + 1

\* Go's fixed-point formula (node/pkg/processor/quorum.go), transcribed.
QGo(n) == (((n * 10) \div 3) * 2) \div 10 + 1

\* Solidity (Messages.sol quorum) and Ralph (governance.ral) use the same
\* expression with unsigned truncating division.
QContract(n) == (((n * 10) \div 3) * 2) \div 10 + 1

WireSizes == 1..255

\* BFT lemmas, checked exhaustively over the one-byte wire range.
ExceedsTwoThirds == \A n \in WireSizes : 3 * Q(n) > 2 * n
AtMostAll        == \A n \in WireSizes : Q(n) <= n
Intersect        == \A n \in WireSizes : 3 * (2 * Q(n) - n) > n   \* two quorums share > n/3
FormulasAgree    == \A n \in 0..255 : Q(n) = QGo(n) /\ Q(n) = QContract(n)
=============================================================================
