SPECIFICATION MCSpec
CONSTANTS
  Nil = Nil
  ShapeSel = {6, 7, 8, 9, 10, 11}
  MaxFaults = 2
  MaxDone = 1
  AllowKill = TRUE
  BadSignals = {"healthy", "done"}
  FaultKinds = {"err", "nil", "canceled"}
INVARIANTS
  TypeOK
  AtMostOneInstance
  Coherent
  QuiescentOK
PROPERTIES
  DoneLeftAlone
  RestartOnlyDead
  NoStartAfterKill

CHECK_DEADLOCK FALSE
