SPECIFICATION MCSpec
CONSTANTS
  Pairs = FALSE
INVARIANTS
  SizeIsContractSize
  PiecewiseAgrees
  FunctionOfRequest
PROPERTIES
  Injective
CHECK_DEADLOCK FALSE
