-------------------------- MODULE Trace_EvmWatcher --------------------------
(* Trace validation for C10: executions of the real Watcher.Run against the   *)
(* fake JSON-RPC node (harness/ethereum/evm_harness.go) are checked line by   *)
(* line against EvmChain.tla (environment lines) and EvmWatcher.tla (served   *)
(* calls, outputs, scan boundaries).  Two phases per line: apply the named    *)
(* action (phase 0), compare the logged projection (phase 1).  A "Start"      *)
(* line begins each trace.                                                    *)
(*                                                                            *)
(* A scan's receipt lookup carries only the transaction hash; when several    *)
(* pending entries share it, the specification step is nondeterministic over  *)
(* the candidates and TLC follows every choice.  A branch that cannot take    *)
(* the next line prints DEAD (with the line and its state) and skips to the   *)
(* next trace; a branch that consumes the last line of a trace prints DONE.   *)
(* A trace is accepted iff some branch prints DONE for it; otherwise the      *)
(* deepest DEAD record says which line no specification behaviour explains.   *)
(* DEAD reasons starting with "node" mean the fake node or the harness        *)
(* disagrees with EvmChain.tla (a broken check, not a violation).             *)
(*                                                                            *)
(* When the END of a scan is what the specification does not allow (entries   *)
(* left pending or removed against the rules), the deviation is recorded      *)
(* (DEV, and in `rej`) and the specification re-synchronises with the pending *)
(* set the watcher really has, so that the rest of the trace is still checked *)
(* (a trace with deviations is rejected, but it is rejected for ALL of them). *)
EXTENDS EvmWatcher, Json

VARIABLES l, ph, rej

Trace == ndJsonDeserialize("trace.ndjson")

tvars == <<vars, l, ph, rej>>

Blk(x)    == <<x[1], x[2]>>
LLog(g)   == [core |-> g.core, topic |-> g.topic, sender |-> g.sender, seq |-> g.seq, cl |-> g.cl]
LLogs(q)  == [i \in 1..Len(q) |-> LLog(q[i])]
LKey(k)   == <<k.tx, Blk(k.blk), k.sender, k.seq>>
LKeys(q)  == {LKey(q[i]) : i \in 1..Len(q)}
LEntry(a) == [tx |-> a.tx, blk |-> Blk(a.blk), sender |-> a.sender, seq |-> a.seq, cl |-> a.cl]

ResetState(a) ==
    /\ a.tag = (IF a.fin THEN "finalized" ELSE "latest")
    /\ a.pl = (IF a.fin THEN a.final ELSE a.latest)
    /\ latest' = a.latest /\ final' = a.final
    /\ variant' = <<>> /\ txs' = <<>> /\ rcpt' = <<>> /\ armed' = {}
    /\ cfg' = [fin |-> a.fin, W |-> a.W] /\ pending' = {} /\ tried' = {} /\ pl' = a.pl /\ hq' = <<>>
    /\ hs' = Nil /\ lq' = Nil /\ rs' = Nil /\ pon' = FALSE /\ fwd' = {} /\ life' = <<>>

\* ---- is the node's answer the one EvmChain prescribes?  (checks the harness, not the watcher)
RcptAnswer(kind, tx) ==
    IF Fails(kind) THEN [kind |-> "error"]
    ELSE IF Mined(tx) THEN [kind |-> "found", status |-> rcpt[tx].status, blk |-> rcpt[tx].blk]
    ELSE [kind |-> "notfound"]

LResp(r) == IF r.kind = "found" THEN [kind |-> "found", status |-> r.status, blk |-> Blk(r.blk)] ELSE [kind |-> r.kind]

NodeOK(ln) ==
    LET a == ln.a IN
    CASE ln.ev = "B_Poll"      -> a.ok = ~Fails("poll") /\ (a.ok => a.n = HeadFor(a.tag))
      [] ln.ev = "R_Head"      -> a.ok = ~Fails("rhead") /\ (a.ok => a.n = HeadFor(a.tag))
      [] ln.ev = "H_Receipt"   -> LResp(a.resp) = RcptAnswer("hreceipt", a.tx)
      [] ln.ev = "R_Receipt"   -> LResp(a.resp) = RcptAnswer("rreceipt", a.tx)
      [] ln.ev = "L_BlockTime" -> a.ok = ~Fails("ltime")
      [] ln.ev = "R_BlockTime" -> a.ok = ~Fails("rtime")
      [] OTHER -> TRUE

IsEnv(ln) == ln.ev \in {"NewHead", "Mine", "Reorg", "Remine", "DropReceipt", "FailTx", "Arm", "Disarm"}

\* ---- a scan's receipt lookup: any deep, not yet looked-up entry of that transaction
Cands(tx) == {e \in pending : e.tx = tx /\ Key(e) \notin hs.seen /\ Deep(e, hs.h)}

HReceiptLine(a) ==
    IF hs = Nil THEN FALSE
    ELSE IF Cands(a.tx) # {} THEN \E e \in Cands(a.tx) : H_Receipt(e) ELSE H_ReceiptEarly(a.tx)

ForwardLine(a) ==
    IF ~a.intact THEN FALSE
    ELSE IF hs # Nil /\ (IF hs = Nil THEN FALSE ELSE hs.fwd # Nil) THEN H_Forward(LEntry(a))
    ELSE IF rs # Nil /\ (IF rs = Nil THEN FALSE ELSE rs.st = "fwd") THEN R_Forward(LEntry(a))
    ELSE FALSE

HDoneLine(ln) ==
    IF hs = Nil THEN FALSE
    ELSE ln.a.n = hs.h /\ H_Done({e \in pending : Key(e) \notin LKeys(ln.s.pending)})

Apply(ln) ==
    LET a == ln.a IN
    CASE ln.ev = "Start"       -> ResetState(a)
      [] ln.ev = "NewHead"     -> E_NewHead(a.latest, a.final)
      [] ln.ev = "Mine"        -> E_Mine(a.tx, a.n, a.status, LLogs(a.logs))
      [] ln.ev = "Reorg"       -> E_Reorg(a.n)
      [] ln.ev = "Remine"      -> E_Remine(a.tx, a.n, a.status)
      [] ln.ev = "DropReceipt" -> E_Drop(a.tx)
      [] ln.ev = "FailTx"      -> E_Fail(a.tx)
      [] ln.ev = "Arm"         -> E_Arm(a.kind)
      [] ln.ev = "Disarm"      -> E_Disarm(a.kind)
      [] ln.ev = "PushLog"     -> PushLog(a.tx, a.i, a.delivered)
      [] ln.ev = "L_BlockTime" -> IF a.ok THEN L_BlockTime(Blk(a.blk)) ELSE L_BlockTimeFail(Blk(a.blk))
      [] ln.ev = "RunRestart"  -> RunRestart(a.tag) /\ a.pl = HeadFor(a.tag)
      [] ln.ev = "Stall"       -> a.what = "poller" /\ ~PollDue /\ UNCHANGED vars   \* no poll although one is due: rejected
      [] ln.ev = "L_Insert"    -> L_Insert
      [] ln.ev = "B_Poll"      -> B_Poll(a.tag)
      [] ln.ev = "H_Head"      -> H_Head(a.n)
      [] ln.ev = "H_Receipt"   -> HReceiptLine(a)
      [] ln.ev = "Forward"     -> ForwardLine(a)
      [] ln.ev = "H_Done"      -> HDoneLine(ln)
      [] ln.ev = "R_Req"       -> R_Req(a.tx)
      [] ln.ev = "R_Head"      -> R_Head(a.tag)
      [] ln.ev = "R_Receipt"   -> R_Receipt(a.tx)
      [] ln.ev = "R_BlockTime" -> R_BlockTime(Blk(a.blk))
      [] ln.ev = "End"         -> UNCHANGED vars
      [] OTHER                 -> FALSE      \* Stall / Timeout / Slow lines match nothing

Matches(s) == ("pending" \in DOMAIN s) => Keys(pending) = LKeys(s.pending)

NextReset(i) ==
    LET later == {j \in (i + 1)..Len(Trace) : Trace[j].ev = "Start"}
    IN IF later = {} THEN Len(Trace) + 1 ELSE CHOOSE j \in later : \A k \in later : j <= k

POpt(x) == IF x = Nil THEN <<>> ELSE <<x>>
PState == [cfg |-> cfg, latest |-> latest, final |-> final, rcpt |-> rcpt, armed |-> armed,
           pending |-> pending, tried |-> tried, pon |-> pon, pl |-> pl, hq |-> hq, hs |-> POpt(hs), lq |-> POpt(lq), rs |-> POpt(rs)]

Dead(why) ==
    /\ PrintT(<<"DEAD", ToJson([t |-> Trace[l].t, n |-> Trace[l].n, ev |-> Trace[l].ev, why |-> why, spec |-> PState, devs |-> rej])>>)
    /\ l' = NextReset(l)
    /\ ph' = 0
    /\ rej' = <<>>

DoApply ==
    /\ ph = 0 /\ l <= Len(Trace)
    /\ NodeOK(Trace[l])
    /\ Apply(Trace[l])
    /\ ph' = 1 /\ UNCHANGED <<l, rej>>

NodeBad ==
    /\ ph = 0 /\ l <= Len(Trace)
    /\ ~NodeOK(Trace[l])
    /\ Dead("node: the answer logged by the fake node is not the one EvmChain prescribes")
    /\ UNCHANGED vars

CanResync == Trace[l].ev = "H_Done" /\ hs # Nil /\ (IF hs = Nil THEN FALSE ELSE Trace[l].a.n = hs.h)

Resync ==
    /\ ph = 0 /\ l <= Len(Trace)
    /\ NodeOK(Trace[l])
    /\ CanResync
    /\ ~ENABLED Apply(Trace[l])
    /\ PrintT(<<"DEV", ToJson([t |-> Trace[l].t, n |-> Trace[l].n, ev |-> Trace[l].ev,
                               why |-> "the specification does not allow this step here (spec = state before the step)", spec |-> PState])>>)
    /\ rej' = Append(rej, Trace[l].n)
    /\ pending' = {e \in pending : Key(e) \in LKeys(Trace[l].s.pending)}
    /\ tried' = tried \cap LKeys(Trace[l].s.pending)
    /\ hs' = Nil
    /\ pon' = IF LKeys(Trace[l].s.pending) = {} THEN FALSE ELSE pon
    /\ ph' = 1
    /\ UNCHANGED <<chain, cfg, pl, hq, lq, rs, fwd, life, l>>

NotEnabled ==
    /\ ph = 0 /\ l <= Len(Trace)
    /\ NodeOK(Trace[l])
    /\ ~CanResync
    /\ ~ENABLED Apply(Trace[l])
    /\ Dead(IF IsEnv(Trace[l]) THEN "node: environment step not enabled in EvmChain"
            ELSE "the specification does not allow this step here (spec = state before the step)")
    /\ UNCHANGED vars

LineOK == Matches(Trace[l].s)

LastOfTrace == l = Len(Trace) \/ (IF l < Len(Trace) THEN Trace[l + 1].ev = "Start" ELSE FALSE)

DoMatch ==
    /\ ph = 1 /\ LineOK
    /\ LastOfTrace => PrintT(<<"DONE", ToJson([t |-> Trace[l].t, devs |-> rej])>>)
    /\ l' = l + 1 /\ ph' = 0
    /\ rej' = IF LastOfTrace THEN <<>> ELSE rej
    /\ UNCHANGED vars

Mismatch ==
    /\ ph = 1 /\ ~LineOK
    /\ Dead("post-state differs (spec = state the specification requires after the step)")
    /\ UNCHANGED vars

TraceInit == ChainInit(0, 0) /\ WatcherInit([fin |-> FALSE, W |-> 0], 0) /\ l = 1 /\ ph = 0 /\ rej = <<>>
TraceNext == DoApply \/ NodeBad \/ Resync \/ NotEnabled \/ DoMatch \/ Mismatch
TraceSpec == TraceInit /\ [][TraceNext]_tvars

IsReset == ph = 1 \/ (l <= Len(Trace) /\ Trace[l].ev = "Start") \/ rej' # rej
T_AbandonOnlyAfterWindow == [][IsReset \/ AbandonOnlyAfterWindowStep]_tvars
T_DropOrphans            == [][IsReset \/ DropOrphansStep]_tvars
T_NoForwardOfOrphan      == [][IsReset \/ NoForwardOfOrphanStep]_tvars

Finished == (l = Len(Trace) + 1 /\ ph = 0) => PrintT(<<"FINISHED", ToJson([lines |-> Len(Trace)])>>)
=============================================================================
