--------------------------- MODULE Trace_Supervisor ---------------------------
(* Trace validation for C18: executions of REAL supervision trees, recorded by   *)
(* the instrumented services of harness/supervisor/sup_harness.go, are checked   *)
(* against the actions of Supervisor.tla.                                        *)
(*                                                                               *)
(* Only service-side steps are logged (Enter, RunGroup, Healthy, Done,           *)
(* SawCancel, Exit) plus the harness's own Kill / ObsKilled (it saw that the     *)
(* processor has cancelled every node and exited).  The supervisor's internal    *)
(* steps -- Schedule, ProcessDied, GC, BackoffElapsed, ProcessKill -- are silent *)
(* and inferred: between two lines TLC may take any number of them.  Each line   *)
(* carries a snapshot of the supervisor's tree (node state, ctx.Err() = nil)     *)
(* taken under the supervisor's lock after the logged step, and the inferred     *)
(* specification state must agree with it before the next line is read (two      *)
(* phases: 0 = the logged step is still to happen, 1 = it happened, snapshot     *)
(* still to be matched; silent steps may occur in both).                         *)
(*                                                                               *)
(* Every recorded trace (one per tree, starting at its Reset line which carries  *)
(* the tree shape) is an initial state, so one TLC run explores all traces       *)
(* independently.  A trace is accepted iff some inferred behaviour consumes all  *)
(* its lines: the furthest line reached by any branch is reported per trace with *)
(* "HW" prints (single worker), and a trace whose high-water mark is not its end *)
(* contains a step (the line after the mark) that the specification cannot       *)
(* explain, whatever the supervisor did silently.                                *)
EXTENDS Supervisor, Json

CONSTANTS DbgT, DbgL     \* debugging aid: print the inferred states stuck at line DbgL of trace DbgT (0 = off)

VARIABLES tid,   \* id of the trace being explored
          l,     \* next line
          ph     \* 0: logged step pending; 1: snapshot pending

Trace == ndJsonDeserialize("trace.ndjson")

tvars == <<vars, tid, l, ph>>

ToSet(s) == {s[i] : i \in 1..Len(s)}

LShape(x) ==
    [nodes |-> ToSet(x.nodes),
     par   |-> [n \in ToSet(x.nodes) |-> IF Len(x.par[n]) = 0 THEN Nil ELSE x.par[n][1]],
     grp   |-> [n \in ToSet(x.nodes) |-> ToSet(x.grp[n])],
     kids  |-> [n \in ToSet(x.nodes) |-> [i \in 1..Len(x.kids[n]) |-> ToSet(x.kids[n][i])]]]

Starts == {i \in 1..Len(Trace) : Trace[i].ev = "Reset"}
EndOf(i) == LET later == {j \in Starts : j > i} IN IF later = {} THEN Len(Trace) + 1 ELSE CHOOSE j \in later : \A k \in later : j <= k
\* end of the current trace: lines of one trace are contiguous and carry its id
MoreLines == l <= Len(Trace) /\ Trace[l].t = tid /\ Trace[l].ev # "Reset"

\* the supervisor's tree as the harness saw it
Matches(s) ==
    /\ \A n \in Nodes : Exists(n) <=> n \in DOMAIN s
    /\ \A n \in Nodes : Exists(n) =>
          /\ st[n] = s[n].st
          /\ Live(n) = s[n].live

Silent ==
    \/ \E n \in Nodes : Schedule(n) \/ BackoffElapsed(n) \/ ProcessDied(n)
    \/ GC
    \/ ProcessKill

Known(n) == n \in Nodes

Event(ln) ==
    CASE ln.ev = "Enter"     -> Known(ln.a.dn) /\ SvcEnter(ln.a.dn)
      [] ln.ev = "RunGroup"  -> Known(ln.a.dn) /\ SvcRunGroup(ln.a.dn, ToSet(ln.a.g))
      [] ln.ev = "Healthy"   -> Known(ln.a.dn) /\ SvcHealthy(ln.a.dn)
      [] ln.ev = "Done"      -> Known(ln.a.dn) /\ SvcDone(ln.a.dn)
      [] ln.ev = "SawCancel" -> Known(ln.a.dn) /\ SvcSawCancel(ln.a.dn)
      [] ln.ev = "Exit"      -> Known(ln.a.dn) /\ SvcExit(ln.a.dn, ln.a.kind)
      [] ln.ev = "BadSignal" -> Known(ln.a.dn) /\ ln.a.panicked /\ SvcBadSignal(ln.a.dn, ln.a.sig)   \* the refused signal must panic
      [] ln.ev = "Kill"      -> Kill
      [] ln.ev = "ObsKilled" -> ~procUp /\ UNCHANGED vars
      [] ln.ev \in {"Settled", "WaitSettled", "Obs", "AllUp", "End"} -> UNCHANGED vars     \* Obs: the driver sampled the tree between steps
      [] OTHER               -> FALSE         \* Double / Stall / HarnessError lines match nothing

TraceInit ==
    \E i \in Starts :
        /\ Init0(LShape(Trace[i].a.shape))
        /\ tid = Trace[i].t /\ l = i + 1 /\ ph = 0

TraceNext ==
    \/ MoreLines /\ Silent /\ UNCHANGED <<tid, l, ph>>
    \/ MoreLines /\ ph = 0 /\ Event(Trace[l]) /\ ph' = 1 /\ UNCHANGED <<tid, l>>
    \/ MoreLines /\ ph = 1 /\ Matches(Trace[l].s) /\ l' = l + 1 /\ ph' = 0 /\ UNCHANGED <<vars, tid>>

TraceSpec == TraceInit /\ [][TraceNext]_tvars

\* High-water mark per trace (TLC register tid; single worker): printed whenever a branch gets further.
HighWater ==
    IF ph = 0 /\ (l = 0 \/ TLCGet(tid) < l) THEN TLCSet(tid, l) /\ PrintT(<<"HW", tid, l>>) ELSE TRUE
InitRegs == \A i \in Starts : TLCSet(Trace[i].t, 0)
ASSUME InitRegs

PState == [st |-> st, live |-> [n \in Nodes |-> Live(n)], pc |-> pc, sched |-> sched, res |-> res, sawc |-> sawc,
           supLive |-> supLive, procUp |-> procUp, dirty |-> dirty]
Debug == (DbgT # 0 /\ tid = DbgT /\ l = DbgL) => PrintT(<<"ATLINE", ToJson([ph |-> ph, spec |-> PState])>>)
=============================================================================
