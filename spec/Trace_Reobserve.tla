--------------------------- MODULE Trace_Reobserve ---------------------------
(* Trace validation for C17: executions recorded from the real                *)
(* handleReobservationRequests goroutine on a mock clock and from the real    *)
(* PostObservationRequest (harness/guardiand/reobs_harness.go) are checked,   *)
(* line by line, against the actions of Reobserve.tla.  A line names the step *)
(* the harness drove, its arguments, and the observable state after the step  *)
(* (lengths of every watcher queue and of the outbound queue; the request a   *)
(* watcher actually took from its queue).  The router's cache is not visible: *)
(* the specification tracks what may/must be remembered and the logged        *)
(* outcome resolves the freedom inside the "about eleven minutes" window.     *)
(* Traces are concatenated; "Reset" starts each; a rejected line skips to the *)
(* next trace so one run reports all rejections.                              *)
EXTENDS Reobserve, Json

VARIABLES l, ph, rej

Trace == ndJsonDeserialize("trace.ndjson")

tvars == <<vars, l, ph, rej>>

Fill(a) == [c \in DOMAIN a.caps |-> [i \in 1..Len(a.fill[c]) |-> [chain |-> c, tx |-> a.fill[c][i]]]]

\* did the logged step put the request on the queue of the chain it names?
Grew(ln) == IF Known(ln.a.c) THEN ln.s.lens[ln.a.c] = Len(q[ln.a.c]) + 1 ELSE FALSE

Apply(ln) ==
    CASE ln.ev = "Reset"      -> Setup(ln.a.caps, Fill(ln.a), ln.a.outcap)
      [] ln.ev = "Request"    -> Request(ln.a.c, ln.a.tx, Grew(ln))
      [] ln.ev = "Drain"      -> /\ Known(ln.a.c)
                                 /\ IF Known(ln.a.c) THEN q[ln.a.c] # <<>> ELSE FALSE
                                 /\ q[ln.a.c][1] = [chain |-> ln.a.got.chain, tx |-> ln.a.got.tx]
                                 /\ Drain(ln.a.c)
      [] ln.ev = "DrainEmpty" -> /\ IF Known(ln.a.c) THEN q[ln.a.c] = <<>> ELSE FALSE
                                 /\ UNCHANGED vars
      [] ln.ev = "Advance"    -> Advance(ln.a.dt)
      [] ln.ev = "Post"       -> Post(ln.a.id, ln.a.ok)
      [] ln.ev = "DrainOut"   -> /\ outq # <<>>
                                 /\ IF outq # <<>> THEN outq[1] = ln.a.got ELSE FALSE
                                 /\ DrainOut
      [] OTHER                -> FALSE      \* Stall / Panic lines match nothing

Matches(s) ==
    /\ DOMAIN s.lens = DOMAIN cap
    /\ \A c \in DOMAIN cap : Len(q[c]) = s.lens[c]
    /\ Len(outq) = s.outlen

NextReset(i) ==
    LET later == {j \in (i + 1)..Len(Trace) : Trace[j].ev = "Reset"}
    IN IF later = {} THEN Len(Trace) + 1 ELSE CHOOSE j \in later : \A k \in later : j <= k

PState == [now |-> now, lens |-> [c \in DOMAIN cap |-> Len(q[c])], outlen |-> Len(outq),
           last |-> {[c |-> p[1], tx |-> p[2], age |-> now - last[p]] : p \in DOMAIN last}]

Reject(why) ==
    /\ PrintT(<<"REJECT", ToJson([t |-> Trace[l].t, n |-> Trace[l].n, ev |-> Trace[l].ev, why |-> why, spec |-> PState])>>)
    /\ rej' = Append(rej, <<Trace[l].t, Trace[l].n>>)
    /\ l' = NextReset(l)
    /\ ph' = 0

DoApply ==
    /\ ph = 0 /\ l <= Len(Trace)
    /\ Apply(Trace[l])
    /\ ph' = 1 /\ UNCHANGED <<l, rej>>

NotEnabled ==
    /\ ph = 0 /\ l <= Len(Trace)
    /\ ~ENABLED Apply(Trace[l])
    /\ Reject("the specification does not allow this step here (spec = state before the step)")
    /\ UNCHANGED vars

LineOK == Matches(Trace[l].s)

DoMatch ==
    /\ ph = 1
    /\ LineOK
    /\ l' = l + 1 /\ ph' = 0
    /\ UNCHANGED <<vars, rej>>

Mismatch ==
    /\ ph = 1
    /\ ~LineOK
    /\ Reject("post-state differs (spec = state the specification requires after the step)")
    /\ UNCHANGED vars

TraceInit ==
    /\ now = 0 /\ cap = <<>> /\ q = <<>> /\ last = <<>> /\ outcap = 0 /\ outq = <<>>
    /\ ev = [n |-> 0, kind |-> "Init", c |-> "", tx |-> "", fwd |-> FALSE, ok |-> FALSE]
    /\ l = 1 /\ ph = 0 /\ rej = <<>>
TraceNext == DoApply \/ NotEnabled \/ DoMatch \/ Mismatch
TraceSpec == TraceInit /\ [][TraceNext]_tvars

IsReset == ph = 1 \/ (l <= Len(Trace) /\ Trace[l].ev = "Reset")
T_OnlyNamedChain == [][IsReset \/ OnlyNamedChainStep]_tvars
T_AtMostOncePerWindow == [][IsReset \/ AtMostOncePerWindowStep]_tvars
T_ForwardAgain == [][IsReset \/ ForwardAgainStep]_tvars
T_NotRememberedIfNotSent == [][IsReset \/ NotRememberedIfNotSentStep]_tvars
T_MemoryOnlyByRequests == [][IsReset \/ MemoryOnlyByRequestsStep]_tvars

Finished == (l = Len(Trace) + 1 /\ ph = 0) => PrintT(<<"FINISHED", ToJson([lines |-> Len(Trace), rejected |-> rej])>>)
=============================================================================
