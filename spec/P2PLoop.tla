------------------------------- MODULE P2PLoop -------------------------------
(***************************************************************************)
(* The gossip loop of node/pkg/p2p.Run (property C03, and the hand-off     *)
(* interfaces of C01/C02/C14/C17): what the node does with each message    *)
(* that its pubsub subscription delivers, and with each item the rest of   *)
(* the node hands to it for publication.  It extends Gossip.tla (the two   *)
(* verifiers and the shared guardian-set state); one action per iteration  *)
(* of the receive loop and per case of the send loop's select.             *)
(*                                                                         *)
(* A delivered message is                                                  *)
(*   [from    "self" | peer name    pubsub author of the message           *)
(*    decodes BOOLEAN               the bytes are a GossipMessage          *)
(*    kind    "hb"|"obs"|"vaa"|"req"|"none"   which oneof member is set    *)
(*    tag     string                identity of an observation / VAA       *)
(*    e       envelope of Gossip.tla (kinds hb, req)]                      *)
(***************************************************************************)
EXTENDS Gossip

CONSTANT Self           \* the node's own guardian key name

VARIABLES obsQ,    \* observations put on the processor's observation channel by the last step
          vaaQ,    \* signed VAAs put on the processor's inbound channel by the last step
          pub      \* what the last step published to the network
\* fwd (of Gossip) = requests put on the re-observation router's channel by the last step

lvars == <<gvars, obsQ, vaaQ, pub>>

LInit == GInit /\ obsQ = <<>> /\ vaaQ = <<>> /\ pub = <<>>

Quiet == obsQ' = <<>> /\ vaaQ' = <<>> /\ pub' = <<>>

LSetUpdate(S) == GSetUpdate(S) /\ Quiet

\* One iteration of the receive loop.  `stores` resolves the one freedom of Heartbeat (an update of a
\* known peer at the cap).
NetRecv(m, stores) ==
    /\ pub' = <<>>
    /\ IF ~m.decodes \/ m.from = "self" \/ m.kind = "none"
       THEN obsQ' = <<>> /\ vaaQ' = <<>> /\ fwd' = <<>> /\ UNCHANGED <<gs, hb>> /\ ~stores
       ELSE CASE m.kind = "obs" -> obsQ' = <<m.tag>> /\ vaaQ' = <<>> /\ fwd' = <<>> /\ UNCHANGED <<gs, hb>> /\ ~stores
              [] m.kind = "vaa" -> vaaQ' = <<m.tag>> /\ obsQ' = <<>> /\ fwd' = <<>> /\ UNCHANGED <<gs, hb>> /\ ~stores
              [] m.kind = "hb"  -> /\ obsQ' = <<>> /\ vaaQ' = <<>>
                                   /\ IF gs = Nil THEN fwd' = <<>> /\ UNCHANGED <<gs, hb>> /\ ~stores
                                      ELSE Heartbeat(m.e, stores)
              [] m.kind = "req" -> /\ obsQ' = <<>> /\ vaaQ' = <<>> /\ ~stores
                                   /\ IF gs = Nil THEN fwd' = <<>> /\ UNCHANGED <<gs, hb>>
                                      ELSE ObsReq(m.e)

\* The send loop, case sendC: the bytes are published as they are; the node's own publication comes back
\* through its subscription (from = "self") and must not be processed.
LocalSend(tag) ==
    /\ pub' = <<[kind |-> "raw", tag |-> tag]>>
    /\ obsQ' = <<>> /\ vaaQ' = <<>> /\ fwd' = <<>> /\ UNCHANGED <<gs, hb>>

\* The send loop, case obsvReqSendC: the request is handed to the node's own router exactly once and
\* published signed with the node's guardian key under the request domain.
OwnReqEnv(r, plen) == [kind |-> "req", claimed |-> Self, signer |-> Self, dom |-> "req", same |-> TRUE,
                       plen |-> plen, parses |-> TRUE, peer |-> "self", req |-> r]
LocalReq(r, plen) ==
    /\ pub' = <<OwnReqEnv(r, plen)>>
    /\ fwd' = <<r>>
    /\ obsQ' = <<>> /\ vaaQ' = <<>> /\ UNCHANGED <<gs, hb>>

---------------------------------------------------------------------------
\* What reaches the router was sent by the node itself or verified against the current set.
RouterInputVerifiedStep(m, local) ==
    fwd' # <<>> => (local \/ (m.decodes /\ m.from # "self" /\ m.kind = "req" /\ Acceptable(m.e) /\ fwd' = <<m.e.req>>))
\* The loop routes by kind and never processes the node's own publications or undecodable bytes.
KindRoutingStep(m) ==
    /\ obsQ' # <<>> => (m.decodes /\ m.from # "self" /\ m.kind = "obs" /\ obsQ' = <<m.tag>>)
    /\ vaaQ' # <<>> => (m.decodes /\ m.from # "self" /\ m.kind = "vaa" /\ vaaQ' = <<m.tag>>)
    /\ hb' # hb     => (m.decodes /\ m.from # "self" /\ m.kind = "hb" /\ Acceptable(m.e))
\* A receive step never publishes.
RecvNeverPublishesStep == pub' = <<>>
\* What the node signs for the network is acceptable to every peer whose current set contains the node.
OwnRequestAcceptable(r, plen, S) ==
    LET e == OwnReqEnv(r, plen)
    IN (Self \in KeySetG(S) /\ PrefixLen("req") + plen >= Floor) =>
          (e.claimed \in KeySetG(S) /\ RecoverG(e) = e.claimed /\ e.parses)
=============================================================================
