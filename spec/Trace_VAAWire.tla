---------------------------- MODULE Trace_VAAWire ----------------------------
(* Trace validation for the wire format (C04, C05).  Every line of            *)
(* trace.ndjson is ONE evaluation of the real code (vaa.Unmarshal,            *)
(* VAA.Marshal / SerializeBody / SigningMsg, the processor's handleMessage)*)
(* recorded by harness/vaa/fmt_core.go with the abstract description of its   *)
(* input and the real output.  TLC computes the output the specification      *)
(* (VAAWire.tla) requires for that input and rejects the line if they differ. *)
(* The lines are independent evaluations (no state is carried), so a rejected *)
(* line does not stop the run.                                                 *)
(*                                                                            *)
(*  ev = "Encode"      a.v = VAA value (byte tuples), [a.mode = retained /      *)
(*                     nested / concurrent: several values in flight],          *)
(*                     s.body / s.marshal =                                    *)
(*                     real SerializeBody / Marshal bytes, s.digestH2 = real  *)
(*                     SigningMsg is Keccak256(Keccak256(s.body))             *)
(*  ev = "ProcBody"    a.v = body fields of a MessagePublication, s.body =    *)
(*                     SerializeBody of the processor's ourVAA, s.keyH2 = the *)
(*                     aggregation key is the double hash of s.body           *)
(*  ev = "Redigest"    a.v1 -> a.v2 by changing a.field in place / on a copy  *)
(*                     after the digest was taken once; s = second digest etc.*)
(*  ev = "Decode"      a.bytes = the input (short inputs), s = real decoder   *)
(*                     outcome incl. the decoded fields                        *)
(*  ev = "DecodeShape" a.L, a.ver, a.cnt = length, version byte, count byte;  *)
(*                     s = outcome summary (long inputs, fuzz corpus)         *)
EXTENDS VAAWire, TLC, Json

VARIABLES l, rej

Trace == ndJsonDeserialize("trace.ndjson")

tvars == <<l, rej>>

Has(r, f) == f \in DOMAIN r

\* ---- per-event checks: a record of named booleans, all of which must hold
EncodeChecks(a, s) ==
    [body     |-> s.body = Body(a.v),
     marshal  |-> s.marshal = Encode(a.v),
     digestH2 |-> s.digestH2,
     \* parameter a.mode of the action: WHEN the results were looked at.  Absent = right after the calls;
     \* "retained" = after the other values of a batch had been serialized too (the returned body was held, not
     \* copied); "nested" = the value's payload is the slice SerializeBody returned for another message;
     \* "concurrent" = other goroutines were serializing their own values meanwhile.  The required output is the
     \* same in every mode: the functions are deterministic in their argument alone.
     mode     |-> Has(a, "mode") => a.mode \in {"retained", "nested", "concurrent"},
     \* C04 cases carry the summary over every header (version, set index, signatures, sub-second time):
     \* one signing body, one digest, and the tail of Marshal is the signing body
     headerIndependent |-> Has(s, "distinctBodies") => (s.distinctBodies = 1 /\ s.distinctDigests = 1 /\ s.tailIsBody)]

ProcBodyChecks(a, s) ==
    [present |-> s.present,
     body    |-> s.present => s.body = Body(a.v),
     keyH2   |-> s.present => s.keyH2,
     \* every guardian (different key, set, set index, sub-second time) built the same body and signed the same 32 bytes
     agree   |-> s.present => (s.distinctBodies = 1 /\ s.distinctKeys = 1)]

\* Two-step history on ONE VAA value: the digest was taken, then field a.field was changed in place (or on a struct
\* copy), then digest / body / encoding were taken again.  a.v1, a.v2 = the value before / after the change.
RedigestChecks(a, s) ==
    [body2       |-> s.body2 = Body(a.v2),
     marshal2    |-> s.marshal2 = Encode(a.v2),
     digest2H2   |-> s.digest2H2,                                      \* digest = double hash of the CURRENT body
     distinct    |-> (Digest(a.v1) # Digest(a.v2)) => s.digestChanged, \* two different bodies never share a digest
     same        |-> (Digest(a.v1) = Digest(a.v2)) => ~s.digestChanged,\* header / sub-second changes do not move it
     bodyStart   |-> s.bodyStart = BodyStart(Len(a.v2.sigs)),
     fromMarshal |-> s.digestFromMarshal,                              \* = the digest recomputed from Marshal()
     original    |-> s.originalKept]                                   \* the value a copy was taken from keeps its digest

DecodeChecks(a, s) ==
    LET d == Decode(a.bytes) IN
    IF ~d.ok
    THEN [verdict |-> ~s.ok, partial |-> ~s.partial]
    ELSE [verdict  |-> s.ok,
          fields   |-> s.ok => s.vaa = d.vaa,
          reencode |-> s.ok => s.reenc = a.bytes,                  \* Canonical: Encode(Decode(b)) = b
          body     |-> s.ok => s.body = Body(d.vaa),
          digestH2 |-> s.ok => s.digestH2]

ShapeChecks(a, s) ==
    IF ~Accept(a.L, a.ver, a.cnt)
    THEN [verdict |-> ~s.ok, partial |-> ~s.partial]
    ELSE [verdict   |-> s.ok,
          nsig      |-> s.ok => s.nsig = a.cnt,
          plen      |-> s.ok => s.plen = PayloadLen(a.L, a.cnt),
          bodyStart |-> s.ok => s.bodyStart = BodyStart(a.cnt),    \* pins the offset the harness sliced at
          fieldsAt  |-> s.ok => s.fieldsAt,                        \* every decoded field = input slice at the layout offset
          reencode  |-> s.ok => s.reencEq,
          digestH2  |-> s.ok => s.digestH2Tail]

Checks(ln) ==
    IF Has(ln.s, "panic") THEN [nopanic |-> FALSE]
    ELSE IF Has(ln.s, "malformed") THEN [completeResult |-> FALSE]     \* success with a partially filled VAA
    ELSE CASE ln.ev = "Encode"      -> EncodeChecks(ln.a, ln.s)
           [] ln.ev = "ProcBody"    -> ProcBodyChecks(ln.a, ln.s)
           [] ln.ev = "Redigest"    -> RedigestChecks(ln.a, ln.s)
           [] ln.ev = "Decode"      -> DecodeChecks(ln.a, ln.s)
           [] ln.ev = "DecodeShape" -> ShapeChecks(ln.a, ln.s)
           [] ln.ev = "DataRace"    -> [noDataRace |-> FALSE]          \* the Go race detector reported a race in the real code
           [] OTHER                 -> [knownEvent |-> FALSE]

Failed(ck) == {f \in DOMAIN ck : ~ck[f]}

\* what the specification requires, for the replay file
Expected(ln) ==
    CASE ln.ev = "DecodeShape" -> [accept |-> Accept(ln.a.L, ln.a.ver, ln.a.cnt),
                                   plen |-> IF Accept(ln.a.L, ln.a.ver, ln.a.cnt) THEN PayloadLen(ln.a.L, ln.a.cnt) ELSE 0]
      [] ln.ev = "Decode"      -> [accept |-> Decode(ln.a.bytes).ok]
      [] OTHER                 -> [accept |-> TRUE]

TraceInit == l = 1 /\ rej = <<>>

Step ==
    /\ l <= Len(Trace)
    /\ l' = l + 1
    /\ LET ck == Checks(Trace[l]) IN
       IF Failed(ck) = {} THEN UNCHANGED rej
       ELSE /\ PrintT(<<"REJECT", ToJson([t |-> Trace[l].t, n |-> Trace[l].n, ev |-> Trace[l].ev,
                                          why |-> Failed(ck), spec |-> Expected(Trace[l])])>>)
            /\ rej' = Append(rej, <<Trace[l].t, Trace[l].n>>)

TraceSpec == TraceInit /\ [][Step]_tvars

Finished == (l = Len(Trace) + 1) => PrintT(<<"FINISHED", ToJson([lines |-> Len(Trace), rejected |-> rej])>>)
=============================================================================
