------------------------------- MODULE VAAWire -------------------------------
(* Wire format of a VAA (properties C04, C05).                                *)
(*                                                                            *)
(* Every fixed-width field is a tuple of bytes (TLC integers are 32 bit; the  *)
(* numeric meaning of a tuple - its big-endian value - lives in the harness's *)
(* abstract->concrete mapping).  A VAA value is the record                    *)
(*   [version, guardianSetIndex, sigs, timestamp, nonce, emitterChain,        *)
(*    targetChain, emitterAddress, sequence, consistencyLevel, payload]       *)
(* where sigs is a sequence of [index, r, s, v] records and payload a byte    *)
(* sequence.  The three layout tables below are the single source of the      *)
(* offsets: Body, Encode and Decode are all derived from them, and they are   *)
(* what the contract sources (Messages.sol parseVM, governance.ral             *)
(* parseAndVerifyVAA) are compared with.                                      *)
EXTENDS Integers, Sequences, FiniteSets

Byte == 0..255

HeaderLayout == << [name |-> "version",          width |-> 1],
                   [name |-> "guardianSetIndex", width |-> 4],
                   [name |-> "numSignatures",    width |-> 1] >>

SigLayout    == << [name |-> "index", width |-> 1],
                   [name |-> "r",     width |-> 32],
                   [name |-> "s",     width |-> 32],
                   [name |-> "v",     width |-> 1] >>

BodyLayout   == << [name |-> "timestamp",        width |-> 4],
                   [name |-> "nonce",            width |-> 4],
                   [name |-> "emitterChain",     width |-> 2],
                   [name |-> "targetChain",      width |-> 2],
                   [name |-> "emitterAddress",   width |-> 32],
                   [name |-> "sequence",         width |-> 8],
                   [name |-> "consistencyLevel", width |-> 1] >>

SupportedVersion == 1
MaxSignatures == 255          \* the count is one byte

RECURSIVE SumW(_, _)
SumW(lay, k) == IF k = 0 THEN 0 ELSE SumW(lay, k - 1) + lay[k].width

Offset(lay, i) == SumW(lay, i - 1)            \* 0-based byte offset of the i-th field
TotalWidth(lay) == SumW(lay, Len(lay))
Idx(lay, name) == CHOOSE i \in 1..Len(lay) : lay[i].name = name
Names(lay) == {lay[i].name : i \in 1..Len(lay)}

HeaderLen     == TotalWidth(HeaderLayout)     \* 6
SigWidth      == TotalWidth(SigLayout)        \* 66
BodyFixed     == TotalWidth(BodyLayout)       \* 53 = offset of the payload in the body
PayloadOffset == BodyFixed

BodyStart(n) == HeaderLen + SigWidth * n      \* offset of the body in the wire form with n signatures

\* The layout as a printable table (name, width, offset) - what the contract extractor is compared with.
Table(lay) == [i \in 1..Len(lay) |-> [name |-> lay[i].name, width |-> lay[i].width, offset |-> Offset(lay, i)]]

\* The offsets the property states: 0,4,8,10,12,44,52 and the payload at 53.
OffsetsAsStated ==
    /\ [i \in 1..Len(BodyLayout) |-> Offset(BodyLayout, i)] = <<0, 4, 8, 10, 12, 44, 52>>
    /\ PayloadOffset = 53
    /\ HeaderLen = 6 /\ SigWidth = 66

-----------------------------------------------------------------------------
\* Packing / unpacking driven by a layout table.

RECURSIVE PackUpTo(_, _, _)
PackUpTo(lay, rec, k) == IF k = 0 THEN <<>> ELSE PackUpTo(lay, rec, k - 1) \o rec[lay[k].name]
Pack(lay, rec) == PackUpTo(lay, rec, Len(lay))

\* field `name` of layout `lay` read from byte sequence b, the layout starting at 0-based offset base
Field(b, base, lay, name) ==
    LET i == Idx(lay, name) IN SubSeq(b, base + Offset(lay, i) + 1, base + Offset(lay, i) + lay[i].width)

Unpack(lay, b, base) == [nm \in Names(lay) |-> Field(b, base, lay, nm)]

WellFormed(lay, rec) == \A i \in 1..Len(lay) : Len(rec[lay[i].name]) = lay[i].width

-----------------------------------------------------------------------------
\* C04: the signing body and the digest.

\* The signing body: the fixed-width fields in layout order, then the raw payload.  Version, guardian-set
\* index, signatures (and any sub-second part of the observation time) are not arguments.
Body(v) == Pack(BodyLayout, v) \o v.payload

\* Keccak-256 is not interpreted; H2 is a free (hence injective) constructor: double hash of the body.
H(x)  == <<"keccak256", x>>
H2(x) == H(H(x))
Digest(v) == H2(Body(v))

\* The reader of a body: the left inverse of Body on well-formed values.
ParseBody(b) == [nm \in Names(BodyLayout) \cup {"payload"} |->
                    IF nm = "payload" THEN SubSeq(b, PayloadOffset + 1, Len(b)) ELSE Field(b, 0, BodyLayout, nm)]

BodyFieldsOf(v) == [nm \in Names(BodyLayout) \cup {"payload"} |-> v[nm]]

-----------------------------------------------------------------------------
\* C05: wire encoding and the total decoder.

RECURSIVE FlatSigs(_, _)
FlatSigs(sigs, k) == IF k = 0 THEN <<>> ELSE FlatSigs(sigs, k - 1) \o Pack(SigLayout, sigs[k])

\* Defined for Len(v.sigs) <= MaxSignatures.
Encode(v) == v.version \o v.guardianSetIndex \o <<Len(v.sigs)>> \o FlatSigs(v.sigs, Len(v.sigs)) \o Body(v)

Err == [ok |-> FALSE]
Ok(v) == [ok |-> TRUE, vaa |-> v]

\* The reader the format implies: version 1, a count byte n, n signatures of SigWidth bytes, the fixed
\* body fields, and the payload = the non-empty rest.  Total: every byte sequence yields Err or a VAA.
Decode(b) ==
    IF Len(b) < HeaderLen THEN Err
    ELSE IF Field(b, 0, HeaderLayout, "version") # <<SupportedVersion>> THEN Err
    ELSE LET n  == Field(b, 0, HeaderLayout, "numSignatures")[1]
             bs == BodyStart(n)
         IN IF Len(b) < bs + BodyFixed + 1 THEN Err
            ELSE Ok([nm \in {"version", "guardianSetIndex", "sigs", "payload"} \cup Names(BodyLayout) |->
                       CASE nm = "version"          -> Field(b, 0, HeaderLayout, "version")
                         [] nm = "guardianSetIndex" -> Field(b, 0, HeaderLayout, "guardianSetIndex")
                         [] nm = "sigs"             -> [k \in 1..n |-> Unpack(SigLayout, b, HeaderLen + (k - 1) * SigWidth)]
                         [] nm = "payload"          -> SubSeq(b, bs + BodyFixed + 1, Len(b))
                         [] OTHER                   -> Field(b, bs, BodyLayout, nm)])

\* Shape-level abstraction: acceptance and the payload length depend only on the length of the input,
\* its version byte and its count byte (lemma ShapeSound in MC_VAAWire).  For L < HeaderLen the two byte
\* arguments are irrelevant.
Accept(L, version, n) == version = SupportedVersion /\ L >= BodyStart(n) + BodyFixed + 1
PayloadLen(L, n) == L - (BodyStart(n) + BodyFixed)

IsVAA(v) ==
    /\ DOMAIN v = {"version", "guardianSetIndex", "sigs", "payload"} \cup Names(BodyLayout)
    /\ Len(v.version) = 1 /\ Len(v.guardianSetIndex) = 4
    /\ Len(v.sigs) <= MaxSignatures
    /\ \A k \in 1..Len(v.sigs) : WellFormed(SigLayout, v.sigs[k])
    /\ WellFormed(BodyLayout, v)
    /\ \A i \in 1..Len(v.payload) : v.payload[i] \in Byte
=============================================================================
