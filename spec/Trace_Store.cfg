SPECIFICATION TraceSpec
CONSTANTS
  Nil = Nil
  GovChain = 1
  GovEm = "g"
  Terminated = TRUE
INVARIANTS
  AckedSurvive
  NeverForeignBytes
  ReopenAlways
  ViewsAgreeOnRet
PROPERTIES
  T_AckedReadBack
  T_NeverForeignRead
  T_QueriesReadOnly
  T_BackfillReportsPostGaps
CONSTRAINT Finished
CHECK_DEADLOCK FALSE
