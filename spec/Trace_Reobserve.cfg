SPECIFICATION TraceSpec
CONSTANTS
  W = 660
  P = 420
INVARIANTS
  OnlyNamedChain
PROPERTIES
  T_OnlyNamedChain
  T_AtMostOncePerWindow
  T_ForwardAgain
  T_NotRememberedIfNotSent
  T_MemoryOnlyByRequests
CONSTRAINT Finished
CHECK_DEADLOCK FALSE
