SPECIFICATION MCSpec
CONSTANTS
  Nil = Nil
  Locked = TRUE
  CheckUnderLock = TRUE
  MaxCallsR1 = 3
  MaxCallsR2 = 0
  KindsR1 = {"push"}
  KindsR2 = {}
  MaxAppends = 1
  NUpdaters = 1
  VaaNames = {"A", "B", "C", "D", "E", "F", "G", "H", "I", "J"}
INVARIANTS
  TypeOK
  RightSet
  NoTornRead
  ConsistentSnapshot
  ListIsChainPrefix
  OnlyVerifiedQueued
  QueueFromEnq
  FailedHandoffNotMarked
  QueueBounded
  PushVerdictsOK
PROPERTIES
  FullLeavesNoTrace
CHECK_DEADLOCK FALSE
