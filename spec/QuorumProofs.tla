---------------------------- MODULE QuorumProofs ----------------------------
(* Unbounded versions of the BFT lemmas of Quorum.tla (C07), discharged by TLAPS (SMT back end). *)
EXTENDS Naturals, TLAPS

Q(n) == (2 * n) \div 3 + 1

THEOREM ExceedsTwoThirdsAll == \A n \in Nat : 3 * Q(n) > 2 * n
  BY SMT DEF Q

THEOREM AtMostAllAll == \A n \in Nat : n >= 1 => Q(n) <= n
  BY SMT DEF Q

THEOREM IntersectAll == \A n \in Nat : n >= 1 => 3 * (2 * Q(n) - n) > n
  BY SMT DEF Q

THEOREM MinimalAll == \A n \in Nat : n >= 1 => 3 * (Q(n) - 1) <= 2 * n
  BY SMT DEF Q
=============================================================================
