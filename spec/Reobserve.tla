----------------------------- MODULE Reobserve -----------------------------
(* The re-observation request router of the guardian node                    *)
(* (node/cmd/guardiand/reobserve.go: handleReobservationRequests) and the    *)
(* non-blocking post to the outbound request queue                           *)
(* (node/pkg/common/obsvReqSendC.go: PostObservationRequest).                *)
(*                                                                           *)
(* Property C17: a request is forwarded only to the watcher of the chain it  *)
(* names, at most once per (chain, tx) within the suppression window of      *)
(* "about eleven minutes", and again once the window has lapsed; requests    *)
(* for unknown chains or full watcher queues are dropped without being       *)
(* remembered and without blocking; posting to a full outbound queue fails   *)
(* immediately.                                                              *)
(*                                                                           *)
(* One action per iteration of the router's select loop / per API call.      *)
(* "About eleven minutes" is written as exactly the freedom it leaves:       *)
(*   age <  W        (W = 11 min)              -> certainly suppressed       *)
(*   age >= W + P    (P = 7 min purge period)  -> certainly forwarded again  *)
(*   W <= age < W+P                            -> either; the outcome that   *)
(*                                                was observed is an action  *)
(*                                                parameter (fwd)            *)
(* How the implementation realises this (a cache purged by a ticker) is in   *)
(* MC_Reobserve.tla, where TLC checks that the algorithm, with the mock      *)
(* clock's ticker semantics, stays inside this freedom at every phase.       *)
(*                                                                           *)
(* Chain ids, capacities and the outbound capacity arrive in Setup (data in  *)
(* the action, not in a constant) so that traces of different configurations *)
(* can be concatenated.  Chain ids are opaque values (the full 32-bit id of  *)
(* the request, never truncated); time is an integer number of time units.   *)
EXTENDS Integers, Sequences, FiniteSets, TLC

CONSTANTS W,      \* suppression window
          P       \* purge period

VARIABLES now,    \* mock time
          cap,    \* [known chain id -> capacity of its watcher queue]
          q,      \* [known chain id -> sequence of [chain, tx] waiting for the watcher]
          last,   \* [<<chain, tx>> -> time of the latest forward]  (pairs never forwarded are absent)
          outcap, \* capacity of the outbound request queue
          outq,   \* outbound queue: sequence of request ids
          ev      \* the step just taken: [n, kind, c, tx, fwd, ok] (history; n counts steps)

vars == <<now, cap, q, last, outcap, outq, ev>>

Known(c)  == c \in DOMAIN cap
Room(c)   == Len(q[c]) < cap[c]
Cached(p) == p \in DOMAIN last
Age(p)    == now - last[p]

MustSuppress(c, tx) == Cached(<<c, tx>>) /\ Age(<<c, tx>>) < W
MaySuppress(c, tx)  == Cached(<<c, tx>>) /\ Age(<<c, tx>>) < W + P

CanForward(c, tx) == IF Known(c) THEN Room(c) /\ ~MustSuppress(c, tx) ELSE FALSE
CanDrop(c, tx)    == IF Known(c) THEN ~Room(c) \/ MaySuppress(c, tx) ELSE TRUE

Note(kind, c, tx, fwd, ok) == ev' = [n |-> ev.n + 1, kind |-> kind, c |-> c, tx |-> tx, fwd |-> fwd, ok |-> ok]

Setup(caps, fill, oc) ==
    /\ now' = 0 /\ cap' = caps /\ q' = fill /\ last' = <<>> /\ outcap' = oc /\ outq' = <<>>
    /\ ev' = [n |-> 0, kind |-> "Setup", c |-> "", tx |-> "", fwd |-> FALSE, ok |-> FALSE]

\* One iteration of the router's select loop for a request naming chain c and transaction tx.
\* fwd = whether the request reached a watcher queue.
Request(c, tx, fwd) ==
    /\ IF fwd THEN CanForward(c, tx) ELSE CanDrop(c, tx)
    /\ IF fwd
         THEN /\ q' = [q EXCEPT ![c] = Append(@, [chain |-> c, tx |-> tx])]   \* only the named chain
              /\ last' = (<<c, tx>> :> now) @@ last                            \* remembered when sent
         ELSE UNCHANGED <<q, last>>                                            \* not remembered otherwise
    /\ Note("Request", c, tx, fwd, FALSE)
    /\ UNCHANGED <<now, cap, outcap, outq>>

\* The watcher of chain c takes the oldest request from its queue.
Drain(c) ==
    /\ Known(c) /\ q[c] # <<>>
    /\ q' = [q EXCEPT ![c] = Tail(@)]
    /\ Note("Drain", c, q[c][1].tx, FALSE, FALSE)
    /\ UNCHANGED <<now, cap, last, outcap, outq>>

\* PostObservationRequest on the outbound queue: succeeds iff there is room, never waits.
Post(id, ok) ==
    /\ ok = (Len(outq) < outcap)
    /\ outq' = IF ok THEN Append(outq, id) ELSE outq
    /\ Note("Post", "", id, FALSE, ok)
    /\ UNCHANGED <<now, cap, q, last, outcap>>

DrainOut ==
    /\ outq # <<>>
    /\ outq' = Tail(outq)
    /\ Note("DrainOut", "", outq[1], FALSE, FALSE)
    /\ UNCHANGED <<now, cap, q, last, outcap>>

Advance(dt) ==
    /\ dt >= 0
    /\ now' = now + dt
    /\ Note("Advance", "", "", FALSE, FALSE)
    /\ UNCHANGED <<cap, q, last, outcap, outq>>

----------------------------------------------------------------------------
(* Properties.  Action properties are written as XStep bodies so that the   *)
(* trace specification can exempt its artificial Setup/compare steps.       *)

TypeOK ==
    /\ now \in Nat
    /\ \A c \in DOMAIN cap : cap[c] \in Nat /\ Len(q[c]) <= cap[c]
    /\ DOMAIN q = DOMAIN cap
    /\ \A p \in DOMAIN last : last[p] \in Nat /\ last[p] <= now
    /\ Len(outq) <= outcap

\* A watcher queue only ever holds requests that name its chain.
OnlyNamedChain == \A c \in DOMAIN q : \A i \in 1..Len(q[c]) : q[c][i].chain = c

IsRequestStep == ev'.n # ev.n /\ ev'.kind = "Request"

\* A Request step changes at most the queue of the chain it names, by appending that very request.
OnlyNamedChainStep ==
    IsRequestStep =>
        /\ \A c \in DOMAIN q : c # ev'.c => q'[c] = q[c]
        /\ Known(ev'.c) => \/ q'[ev'.c] = q[ev'.c]
                           \/ q'[ev'.c] = Append(q[ev'.c], [chain |-> ev'.c, tx |-> ev'.tx])
OnlyNamedChainP == [][OnlyNamedChainStep]_vars

\* (The step properties below are written so that each costs at most one pass over `last` per step: traces with
\* thousands of remembered pairs are validated in time linear in their length times the size of `last`.)

\* Two forwards of the same (chain, tx) are at least W apart: a step that forwards a remembered pair does so only
\* when the previous forward is at least W old (that no other pair changes is NotRememberedIfNotSent).
AtMostOncePerWindowStep ==
    (IsRequestStep /\ ev'.fwd) =>
        LET p == <<ev'.c, ev'.tx>> IN (p \in DOMAIN last => now - last[p] >= W)
AtMostOncePerWindow == [][AtMostOncePerWindowStep]_vars

\* A request at least W + P after the latest forward of its pair (or never forwarded) is forwarded when
\* the chain is known and its queue has room.
ForwardAgainStep ==
    IsRequestStep =>
        LET c == ev'.c  tx == ev'.tx IN
        (Known(c) /\ Len(q[c]) < cap[c] /\ (~Cached(<<c, tx>>) \/ Age(<<c, tx>>) >= W + P)) => ev'.fwd
ForwardAgain == [][ForwardAgainStep]_vars

\* A request that did not reach a watcher queue leaves no memory; a forward remembers only its own pair, now.
NotRememberedIfNotSentStep ==
    IsRequestStep =>
        /\ ~ev'.fwd => last' = last
        /\ ev'.fwd => last' = (<<ev'.c, ev'.tx>> :> now) @@ last
        /\ (q' # q) <=> ev'.fwd
NotRememberedIfNotSent == [][NotRememberedIfNotSentStep]_vars

\* Memory changes in Request steps only (and is wiped by Setup).
MemoryOnlyByRequestsStep == (ev'.n # ev.n /\ ev'.kind \notin {"Request", "Setup"}) => last' = last
MemoryOnlyByRequests == [][MemoryOnlyByRequestsStep]_vars

\* No action waits: whatever the fill levels, a request has an outcome and a post has a result.
NeverBlocksFor(c, tx) == CanForward(c, tx) \/ CanDrop(c, tx)
PostTotal == (Len(outq) < outcap) \/ ~(Len(outq) < outcap)
=============================================================================
