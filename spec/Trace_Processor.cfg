SPECIFICATION TraceSpec
CONSTANTS
  Nil = Nil
  Self = "g1"
  RetryBudget = 14400
  SettleT = 30
  RetryT = 300
  DoneT = 3600
INVARIANTS
  StoredValid
  PublishAsSoonAs
  SubmittedMeansStored
PROPERTIES
  T_BroadcastValid
  T_NoPeerOverwrite
  T_NoPublishWithoutObservation
  T_AtMostOncePerLifetime
  T_SubmittedSticky
  T_NoEarlyDiscard
  T_RetryCadence
  T_BoundedLife
  T_RetryOnlyWhenDue
CONSTRAINT Finished
CHECK_DEADLOCK FALSE
