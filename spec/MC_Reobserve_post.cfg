SPECIFICATION MCSpec
CONSTANTS
  Nil = Nil
  W = 11
  P = 7
  Chains = {}
  Unknown = {"9"}
  Txs = {"aa", "bb"}
  Cap = 1
  OutCap = 2
  TimeSteps = {}
  MaxFwd = 0
  WithPost = TRUE
VIEW View
INVARIANTS
  MCTypeOK
  OnlyNamedChain
  ImplAllowed
  CacheIsMemoryOfForwards
  NeverBlocks
PROPERTIES
  OnlyNamedChainP
  AtMostOncePerWindow
  ForwardAgain
  NotRememberedIfNotSent
  MemoryOnlyByRequests
CHECK_DEADLOCK FALSE
