SPECIFICATION TraceSpec
CONSTRAINT Finished
CHECK_DEADLOCK FALSE
