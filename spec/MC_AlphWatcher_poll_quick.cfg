SPECIFICATION MCSpec
CONSTANTS
  Nil = Nil
  Floor = 1
  BlockSecs = 1
  MaxB = 2
  MaxEv = 2
  MaxPerBlock = 1
  MaxH = 3
  MaxClock = 1
  PageSize = 2
  MaxReorg = 1
  MaxFail = 0
  MaxReq = 0
  MaxLook = 0
  MaxLag = 0
  SharedTx = FALSE
  Boots = TRUE
  Profile = "poll"
  Mainnets = {TRUE, FALSE}
INVARIANTS
  ForwardSound
  PollOnce
  NoSpin
  NoKill
  Conserved
  FetchedComplete
PROPERTIES
  NoOrphanForward

CHECK_DEADLOCK FALSE
