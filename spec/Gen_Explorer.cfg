SPECIFICATION GenSpec
CONSTANTS
  Nil = Nil
  Locked = TRUE
  CheckUnderLock = TRUE
  MaxCallsR1 = 3
  MaxCallsR2 = 3
  KindsR1 = {"lookup", "current"}
  KindsR2 = {"lookup", "current"}
  MaxAppends = 2
  NUpdaters = 1
  VaaNames = {}
  GenDepth = 8
CONSTRAINT Emit
CHECK_DEADLOCK FALSE
