--------------------------- MODULE Trace_AlphDecode ---------------------------
(* C11 conformance: every evaluation of the real decoding functions logged by  *)
(* harness/alephium/alph_decode.go (abstract classes of the input + the real   *)
(* outcome) is decided against AlphDecode.tla.  One state per line; a line the *)
(* specification does not allow is printed with REJECT and the run goes on.    *)
EXTENDS AlphDecode, Json, TLC

VARIABLES l, rej

Trace == ndJsonDeserialize("trace.ndjson")

AllTrue(s) == \A i \in 1..Len(s) : s[i]

DecodeOK(ln) ==
    LET x == [n |-> ln.a.n, f |-> ln.a.f]
        s == ln.s
    IN IF s.out = "reject" THEN Reject \in Decode(x)
       ELSE IF s.out = "ok" THEN
          /\ Decode(x) # {Reject}
          /\ Len(s.eq) = 6 /\ AllTrue(s.eq) /\ s.tx
          /\ s.pub.same
          /\ [echain |-> s.pub.echain, sec |-> s.pub.sec, nsec |-> s.pub.nsec] = Pub(ln.a.ts)
       ELSE FALSE    \* panic

AttestOK(ln) ==
    LET a == [len |-> ln.a.len, chain |-> ln.a.chain, dec |-> ln.a.dec, sym |-> ln.a.sym, name |-> ln.a.name]
        s == ln.s
    IN IF s.out = "reject" THEN AttDecode(a) = Reject
       ELSE IF s.out = "ok" THEN AttDecode(a) # Reject /\ s.eq.tok /\ s.eq.dec /\ s.eq.sym /\ s.eq.name
       ELSE FALSE

IdOK(ln) == ln.s.a2i = RoundTrip(ln.a.c) /\ ln.s.hex = RoundTrip(ln.a.c)

LineOK(ln) ==
    CASE ln.ev = "Decode" -> DecodeOK(ln)
      [] ln.ev = "Attest" -> AttestOK(ln)
      [] ln.ev = "Id"     -> IdOK(ln)
      [] OTHER            -> FALSE

TraceInit == l = 1 /\ rej = <<>>
TraceNext ==
    /\ l <= Len(Trace)
    /\ l' = l + 1
    /\ IF LineOK(Trace[l]) THEN rej' = rej
       ELSE /\ PrintT(<<"REJECT", ToJson([t |-> Trace[l].t, n |-> Trace[l].n, ev |-> Trace[l].ev,
                                           why |-> "outcome not allowed by AlphDecode for these classes"])>>)
            /\ rej' = Append(rej, Trace[l].n)
TraceSpec == TraceInit /\ [][TraceNext]_<<l, rej>>

Finished == (l = Len(Trace) + 1) => PrintT(<<"FINISHED", ToJson([lines |-> Len(Trace), rejected |-> rej])>>)
=============================================================================
