SPECIFICATION TraceSpec
CONSTANTS
  Nil = Nil
  Locked = TRUE
  CheckUnderLock = TRUE
  Level = 3
INVARIANTS
  RightSet
  NoTornRead
  ConsistentSnapshot
  ListIsChainPrefix
  OnlyVerifiedQueued
  QueueFromEnq
  FailedHandoffNotMarked
  QueueBounded
PROPERTIES
  FullLeavesNoTrace
CONSTRAINT Mark
POSTCONDITION Post
CHECK_DEADLOCK FALSE
