SPECIFICATION MLSpec
CONSTANTS
  Nil = Nil
  Cap = 2
  MaxSteps = 4
  Self = "g1"
INVARIANTS
  CapHolds
  TableOnlyMembers
  OwnRequestsAcceptable
PROPERTIES
  RouterInputVerified
  KindRouting
  RecvNeverPublishes
VIEW View
CHECK_DEADLOCK FALSE
