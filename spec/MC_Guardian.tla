---------------------------- MODULE MC_Guardian ----------------------------
EXTENDS Guardian

CONSTANT MaxSteps
VARIABLE steps
mvars == <<allvars, steps>>

GA == [idx |-> 0, keys |-> <<"g1", "g2">>]
GB == [idx |-> 1, keys |-> <<"g2", "g3">>]
Reqs == {[chain |-> "2", tx |-> "aa"], [chain |-> "4", tx |-> "aa"], [chain |-> "9", tx |-> "bb"]}   \* chain 9 has no watcher
Envs == {[kind |-> "req", claimed |-> c, signer |-> s, dom |-> d, same |-> TRUE, plen |-> 40, parses |-> TRUE, peer |-> "p1", req |-> r] :
            c \in {"g1", "g3", "x1"}, s \in {"g1", "g3", "x1"}, d \in {"req", "hb"}, r \in Reqs}

NoEnvM == [kind |-> "none"]
NetMsgs == {[from |-> f, decodes |-> d, kind |-> "req", tag |-> "", e |-> e] : f \in {"self", "p1"}, d \in BOOLEAN, e \in Envs}
           \cup {[from |-> "p1", decodes |-> TRUE, kind |-> k, tag |-> "a", e |-> NoEnvM] : k \in {"obs", "vaa", "none"}}

MInit == GuardianInit([c \in {"2", "4"} |-> 1]) /\ steps = 0
MNext ==
    /\ steps < MaxSteps /\ steps' = steps + 1
    /\ \/ \E S \in {GA, GB} : SetUpdate(S)
       \/ \E e \in Envs : GossipRequest(e)
       \/ \E m \in NetMsgs : NetMessage(m)
       \/ \E r \in Reqs : OwnRequest(r, 40)
       \/ \E dt \in {4, 7, 12} : Tick(dt)
       \/ \E c \in {"2", "4"} : WatcherTakes(c)
MSpec == MInit /\ [][MNext]_mvars

AtMostOncePerWindow == R!AtMostOncePerWindow
OnlyNamedChain == R!OnlyNamedChain
MView == <<gs, q, last, now % 1000, steps>>
=============================================================================
