------------------------------- MODULE Store -------------------------------
(* The signed-VAA store of the guardian node (node/pkg/db/db.go), its key      *)
(* layout (node/pkg/vaa/structs.go VAAID.Bytes / EmitterPrefixBytes /          *)
(* GovernanceEmitterPrefixBytes), the public RPC lookups that delegate to it   *)
(* (node/pkg/publicrpc/publicrpcserver.go) and the find-missing-messages admin *)
(* call (node/cmd/guardiand/adminserver.go).  Properties C12 and C16.          *)
(*                                                                             *)
(* Two views of the same store:                                                *)
(*   * the SPECIFICATION view `vaas` : identifier -> bytes, where an           *)
(*     identifier is [ec, em, tc, seq] (emitter chain, emitter address, target *)
(*     chain, sequence) and a stream is [ec, em, tc].  Every action computes   *)
(*     its result from this view: it is the behaviour the properties require.  *)
(*   * the IMPLEMENTATION view KV : rendered key -> bytes, the ordered         *)
(*     key-value store Badger is, with keys                                    *)
(*     signed/<ec>/<address>/<tc>/<seq> rendered as digit strings, queried     *)
(*     with point lookups and lexicographic prefix scans.                      *)
(* GetExact / GapIsolated / BatchIsolated / ScanSelectsStream state that the   *)
(* implementation view, queried the way the code queries it, yields exactly    *)
(* the specification view's answers.  They hold when the scan prefix is        *)
(* properly terminated (Terminated = TRUE) and TLC refutes them for an         *)
(* unterminated prefix (Terminated = FALSE: target 2 also selects 25, 255).    *)
(*                                                                             *)
(* One action per API call: Store, Get, Gap, GapBackfill, GovBatch,            *)
(* NonGovBatch; and for                                                        *)
(* C16 StoreWhileClosed (a store the closed store refuses - or acknowledges),   *)
(* the environment steps Ack (the caller learned that Store succeeded),        *)
(* Crash (SIGKILL: acknowledged writes survive, writes not yet acknowledged    *)
(* may or may not) and Reopen.                                                 *)
EXTENDS Naturals, Sequences, FiniteSets, TLC

CONSTANTS Nil,          \* model value: "absent" / not-found
          GovChain,     \* governance emitter the RPC server is configured with: chain id ...
          GovEm,        \* ... and address
          Terminated    \* TRUE: stream scan prefixes end with the separator (required); FALSE: negative config

VARIABLES vaas,     \* specification view: stored identifier -> tag of the bytes stored last (the live content)
          up,       \* the store is open in a running process
          opening,  \* a process is inside db.Open (OpenBegin done, OpenEnd not yet): a kill may land here
          acked,    \* identifier -> tag of the last acknowledged write
          pending,  \* identifier -> tags written since the last acknowledgement of that identifier
          written,  \* identifier -> every tag ever stored under it (history, for NeverForeignBytes)
          ret       \* result of the last call (what the caller observed)

vars == <<vaas, up, opening, acked, pending, written, ret>>
ctl == <<up, opening>>

\* ------------------------------------------------------------------ identifiers
Stream(i) == [ec |-> i.ec, em |-> i.em, tc |-> i.tc]
IdOf(st, q) == [ec |-> st.ec, em |-> st.em, tc |-> st.tc, seq |-> q]
IsGov(i) == i.ec = GovChain /\ i.em = GovEm
MaxOf(S) == CHOOSE x \in S : \A y \in S : y <= x
At(f, i) == IF i \in DOMAIN f THEN f[i] ELSE Nil
SetAt(f, i) == IF i \in DOMAIN f THEN f[i] ELSE {}
Put(f, i, x) == IF i \in DOMAIN f THEN [f EXCEPT ![i] = x] ELSE (i :> x) @@ f

\* The bytes stored under identifier i: a VAA names its own identifier, `tag` stands for everything else in it.
ValIn(f, i) == [id |-> i, tag |-> f[i]]
Val(i) == ValIn(vaas, i)

\* ------------------------------------------------------------------ specification view
SpecGet(i) == IF i \in DOMAIN vaas THEN Val(i) ELSE Nil
PresentOf(f, st) == {i.seq : i \in {j \in DOMAIN f : Stream(j) = st}}
Present(st) == PresentOf(vaas, st)
\* Gap detection: everything missing between 0 and the highest stored sequence (node/pkg/db/db_test.go pins "from 0").
GapOf(S) == IF S = {} THEN [empty |-> TRUE, missing |-> {}, first |-> 0, last |-> 0]
            ELSE [empty |-> FALSE, missing |-> (0..MaxOf(S)) \ S, first |-> 0, last |-> MaxOf(S)]
SpecGap(st) == GapOf(Present(st))
SpecGov(seqs) == {[tc |-> i.tc, seq |-> i.seq, val |-> Val(i)] : i \in {j \in DOMAIN vaas : IsGov(j) /\ j.seq \in seqs}}
SpecNonGov(st, seqs) == {[seq |-> q, val |-> Val(IdOf(st, q))] : q \in {s \in seqs : IdOf(st, s) \in DOMAIN vaas}}

\* ------------------------------------------------------------------ implementation view
DigitChars == <<"0", "1", "2", "3", "4", "5", "6", "7", "8", "9">>
Sep == "/"
RECURSIVE Render(_)
Render(n) == IF n < 10 THEN <<DigitChars[n + 1]>> ELSE Append(Render(n \div 10), DigitChars[(n % 10) + 1])
DigitVal(c) == (CHOOSE d \in 1..10 : DigitChars[d] = c) - 1
RECURSIVE ParseNat(_)
ParseNat(s) == IF Len(s) = 0 THEN 0 ELSE ParseNat(SubSeq(s, 1, Len(s) - 1)) * 10 + DigitVal(s[Len(s)])

\* An address renders as 64 hex characters whatever its value: fixed width, modelled as one token.
Key(i) == <<"signed", Sep>> \o Render(i.ec) \o <<Sep, i.em, Sep>> \o Render(i.tc) \o <<Sep>> \o Render(i.seq)
\* The prefix a stream scan uses.  vaa.VAAID.EmitterPrefixBytes renders "signed/<ec>/<addr>/<tc>"; a scan that is
\* to select one stream has to continue with the separator.
EmitterPrefix(st) == <<"signed", Sep>> \o Render(st.ec) \o <<Sep, st.em, Sep>> \o Render(st.tc)
                     \o (IF Terminated THEN <<Sep>> ELSE <<>>)
\* vaa.VAAID.GovernanceEmitterPrefixBytes: "signed/<ec>/<addr>"; ends in a fixed-width token, so no separator is needed.
GovPrefix == <<"signed", Sep>> \o Render(GovChain) \o <<Sep, GovEm>>

IsPrefix(p, k) == Len(p) <= Len(k) /\ SubSeq(k, 1, Len(p)) = p

\* Badger's content given what was stored: the set of key/value entries (last writer wins per key; exact when Key is
\* injective, KeyInjectiveOn).  Every query below is linear in the size of the store.
KV == {[k |-> Key(i), v |-> Val(i)] : i \in DOMAIN vaas}
ScanIn(kv, p) == {e \in kv : IsPrefix(p, e.k)}

Slashes(k) == {n \in 1..Len(k) : k[n] = Sep}
LastSlash(k) == MaxOf(Slashes(k))
PrevSlash(k) == MaxOf(Slashes(k) \ {LastSlash(k)})
KeySeq(k) == ParseNat(SubSeq(k, LastSlash(k) + 1, Len(k)))                \* db.go parses both from the key
KeyTc(k) == ParseNat(SubSeq(k, PrevSlash(k) + 1, LastSlash(k) - 1))

\* The queries as the code runs them, against a given key-value content kv.
GetIn(kv, i) == LET key == Key(i)
                    hits == {e \in kv : e.k = key}
                IN IF hits = {} THEN Nil ELSE (CHOOSE e \in hits : TRUE).v
ScanIdsIn(kv, st) == {e.v.id : e \in ScanIn(kv, EmitterPrefix(st))}
GapIn(kv, st) == GapOf({i.seq : i \in ScanIdsIn(kv, st)})                 \* db.go reads the sequence from the value
GovIn(kv, seqs) ==
    {[tc |-> KeyTc(e.k), seq |-> KeySeq(e.k), val |-> e.v] : e \in {x \in ScanIn(kv, GovPrefix) : KeySeq(x.k) \in seqs}}
NonGovIn(kv, st, seqs) ==
    {[seq |-> q, val |-> GetIn(kv, IdOf(st, q))] : q \in {s \in seqs : GetIn(kv, IdOf(st, s)) # Nil}}

ImplGet(i) == LET kv == KV IN GetIn(kv, i)                        \* LET: the content is computed once per query
ImplScanIds(st) == LET kv == KV IN ScanIdsIn(kv, st)
ImplGap(st) == LET kv == KV IN GapIn(kv, st)
ImplGov(seqs) == LET kv == KV IN GovIn(kv, seqs)
ImplNonGov(st, seqs) == LET kv == KV IN NonGovIn(kv, st, seqs)

\* ------------------------------------------------------------------ refinement lemmas (C12), over given universes
KeyInjectiveOn(I) == Cardinality({Key(i) : i \in I}) = Cardinality(I)
GetExactOn(I) == LET kv == KV IN \A i \in I : GetIn(kv, i) = SpecGet(i)
ScanSelectsStreamOn(S) == LET kv == KV IN \A st \in S : ScanIdsIn(kv, st) = {i \in DOMAIN vaas : Stream(i) = st}
GovScanSelects == LET kv == KV IN {e.v.id : e \in ScanIn(kv, GovPrefix)} = {i \in DOMAIN vaas : IsGov(i)}
GapIsolatedOn(S) == LET kv == KV IN \A st \in S : GapIn(kv, st) = SpecGap(st)
BatchIsolatedOn(S, Q) == LET kv == KV IN
    \A q \in Q : /\ GovIn(kv, q) = SpecGov(q)
                 /\ \A st \in S : NonGovIn(kv, st, q) = SpecNonGov(st, q)

\* ------------------------------------------------------------------ actions
Init ==
    /\ vaas = <<>> /\ up = TRUE /\ opening = FALSE /\ acked = <<>> /\ pending = <<>> /\ written = <<>>
    /\ ret = [op |-> "Init"]

\* The effect of the two state-changing calls as functions of the state, so that a trace line that packs a run
\* of calls (Trace_Store: StoreAcked) applies literally the same definitions as the single-call actions.
Cur == [vaas |-> vaas, acked |-> acked, pending |-> pending, written |-> written]
StoreF(S, v) == [vaas |-> Put(S.vaas, v.id, v.tag), acked |-> S.acked,
                 pending |-> Put(S.pending, v.id, SetAt(S.pending, v.id) \cup {v.tag}),
                 written |-> Put(S.written, v.id, SetAt(S.written, v.id) \cup {v.tag})]
AckF(S, i) == [vaas |-> S.vaas, acked |-> Put(S.acked, i, S.vaas[i]), pending |-> Put(S.pending, i, {}),
               written |-> S.written]
Becomes(S) == vaas' = S.vaas /\ acked' = S.acked /\ pending' = S.pending /\ written' = S.written

\* db.StoreSignedVAA(v): one update transaction; an existing entry is overwritten.
Store(v) ==
    /\ up
    /\ Becomes(StoreF(Cur, v))
    /\ ret' = [op |-> "Store", id |-> v.id]
    /\ UNCHANGED ctl

\* A run of Store calls that put VAAs with one tag under the sequences seqs of one stream (a whole stream written at
\* once; the composition of Store(v) for these v - their identifiers differ, so the order does not matter).
StoreRun(st, seqs, tag) ==
    LET ids == {IdOf(st, q) : q \in seqs} IN
    /\ up
    /\ vaas' = [i \in DOMAIN vaas \cup ids |-> IF i \in ids THEN tag ELSE vaas[i]]
    /\ pending' = [i \in DOMAIN pending \cup ids |-> IF i \in ids THEN SetAt(pending, i) \cup {tag} ELSE pending[i]]
    /\ written' = [i \in DOMAIN written \cup ids |-> IF i \in ids THEN SetAt(written, i) \cup {tag} ELSE written[i]]
    /\ ret' = [op |-> "StoreRun", st |-> st]
    /\ UNCHANGED <<ctl, acked>>

\* db.StoreSignedVAA on a store that is not open (a store racing with shutdown: Close, then Store), or any other call
\* whose commit Badger refuses.  The reply decides: a call that returns nil has acknowledged the write - it is the
\* content from then on and every later lookup, before and after reopen or kill, must find it; a refused call (error)
\* may leave nothing behind (its bytes are tolerated, like those of any unacknowledged write, should they turn up).
StoreWhileClosed(v, acknowledged) ==
    /\ ~up
    /\ IF acknowledged THEN Becomes(AckF(StoreF(Cur, v), v.id))
       ELSE Becomes([StoreF(Cur, v) EXCEPT !.vaas = vaas])
    /\ ret' = [op |-> "StoreWhileClosed", id |-> v.id, acknowledged |-> acknowledged]
    /\ UNCHANGED ctl

\* The caller of Store saw it return success (C16: the child printed its acknowledgement line).
Ack(i) ==
    /\ up
    /\ i \in DOMAIN vaas
    /\ Becomes(AckF(Cur, i))
    /\ ret' = [op |-> "Ack", id |-> i]
    /\ UNCHANGED ctl

\* db.GetSignedVAABytes / PublicrpcServer.GetSignedVAA
Get(i) ==
    /\ up
    /\ ret' = [op |-> "Get", id |-> i, res |-> SpecGet(i)]
    /\ UNCHANGED <<vaas, ctl, acked, pending, written>>

\* db.FindEmitterSequenceGap / nodePrivilegedService.FindMissingMessages.
Gap(st) ==
    /\ up
    /\ ret' = [op |-> "Gap", st |-> st, res |-> SpecGap(st)]
    /\ UNCHANGED <<vaas, ctl, acked, pending, written>>

\* Is rep = [missing, first, last], what a Gap call reported, the required result res?  For a stream with a stored
\* VAA: exactly the gaps between 0 and the highest stored sequence.  For a stream without any the property only
\* demands that no sequence is reported present: nothing missing at all, or the whole reported range missing
\* (the code answers "0 missing, range 0..0").
GapReportOK(res, rep) ==
    IF res.empty THEN rep.missing = {} \/ rep.missing = rep.first..rep.last
    ELSE rep = [missing |-> res.missing, first |-> res.first, last |-> res.last]

\* nodePrivilegedService.FindMissingMessages with rpc_backfill: every gap is asked from other guardians' public API;
\* what they deliver is injected into the node, which stores it.  Whatever the backfill nodes do (deliver, answer
\* not-found, fail, reset the connection, send garbage), a gap is either really filled - the stream then holds, under
\* that identifier, exactly bytes a backfill node delivered - or reported missing.  The call may fail as a whole
\* (gaps filled before the failure stay filled).
\*   fills  : the VAAs [id, tag] the call made the store hold;  served : the VAAs the backfill nodes delivered.
BackfillOK(st, fills, served) ==
    LET pre == SpecGap(st) IN
    /\ fills \subseteq served
    /\ \A v \in fills : Stream(v.id) = st /\ (pre.empty \/ v.id.seq \in pre.missing)
    /\ \A v, w \in fills : v.id = w.id => v = w
\* Store(v) for every v of a set of VAAs with pairwise different identifiers (the order does not matter then).
StoreAll(S, vs) ==
    LET ids == {v.id : v \in vs}
        tagOf(i) == (CHOOSE v \in vs : v.id = i).tag
    IN [vaas |-> [i \in DOMAIN S.vaas \cup ids |-> IF i \in ids THEN tagOf(i) ELSE S.vaas[i]],
        acked |-> S.acked,
        pending |-> [i \in DOMAIN S.pending \cup ids |-> IF i \in ids THEN SetAt(S.pending, i) \cup {tagOf(i)} ELSE S.pending[i]],
        written |-> [i \in DOMAIN S.written \cup ids |-> IF i \in ids THEN SetAt(S.written, i) \cup {tagOf(i)} ELSE S.written[i]]]
\* The backfill RPC itself stores nothing: what it fetched reaches the store only through the processor's inbound
\* channel (where quorum and signatures are checked, C01).  injected: what the call put on that channel.
OnlyThroughProcessor(fills, injected) == fills \subseteq injected
GapBackfill(st, fills, served, failed) ==
    /\ up
    /\ BackfillOK(st, fills, served)
    /\ Becomes(StoreAll(Cur, fills))
    /\ ret' = [op |-> "GapBackfill", st |-> st, failed |-> failed, pre |-> SpecGap(st), filled |-> {v.id.seq : v \in fills}]
    /\ UNCHANGED ctl
\* Is rep = [missing, first, last] the report required after a backfill that filled the sequences `filled`, pre being
\* the gaps before the call?  (For a stream that held nothing see GapReportOK: no sequence may be reported present
\* that is not - here: that was not filled.)
BackfillReportOK(pre, filled, rep) ==
    IF pre.empty
    THEN /\ rep.missing \cap filled = {}
         /\ LET u == rep.missing \cup filled IN u = {} \/ u = rep.first..rep.last
    ELSE rep = [missing |-> pre.missing \ filled, first |-> pre.first, last |-> pre.last]
\* The gaps a successful backfill call has to report are exactly the gaps the stream has afterwards.
BackfillReportsPostGapsStep ==
    (ret'.op = "GapBackfill" /\ ~ret'.pre.empty)
        => GapOf(PresentOf(vaas', ret'.st)) = [empty |-> FALSE, missing |-> ret'.pre.missing \ ret'.filled, first |-> ret'.pre.first, last |-> ret'.pre.last]
BackfillReportsPostGaps == [][BackfillReportsPostGapsStep]_vars

\* db.GetGovernanceVAABatch / PublicrpcServer.GetGovernanceVAABatch
GovBatch(seqs) ==
    /\ up
    /\ ret' = [op |-> "GovBatch", seqs |-> seqs, res |-> SpecGov(seqs)]
    /\ UNCHANGED <<vaas, ctl, acked, pending, written>>

\* PublicrpcServer.GetNonGovernanceVAABatch
NonGovBatch(st, seqs) ==
    /\ up
    /\ ret' = [op |-> "NonGovBatch", st |-> st, seqs |-> seqs, res |-> SpecNonGov(st, seqs)]
    /\ UNCHANGED <<vaas, ctl, acked, pending, written>>

\* What a kill may leave under identifier i: the acknowledged bytes (nothing, if none was acknowledged) or any
\* write to i that was not acknowledged yet.
AllowedAfterCrash(i) == {At(acked, i)} \cup SetAt(pending, i)
CrashOK(f) ==
    /\ DOMAIN f \subseteq DOMAIN written
    /\ \A i \in DOMAIN written : At(f, i) \in AllowedAfterCrash(i)

\* SIGKILL of the process (also while it is still opening the store); f is the content found afterwards.
CrashTo(f) ==
    /\ CrashOK(f)
    /\ up' = FALSE /\ opening' = FALSE
    /\ vaas' = f
    /\ ret' = [op |-> "Crash"]
    /\ UNCHANGED <<acked, pending, written>>

\* Database.Close: a clean shutdown loses nothing.
Close ==
    /\ up
    /\ up' = FALSE
    /\ ret' = [op |-> "Close"]
    /\ UNCHANGED <<vaas, opening, acked, pending, written>>

\* db.Open on the same directory, in two steps: Open creates and writes files of its own (Badger's logs and
\* lock, whatever db.go adds), and a kill (CrashTo) may land between any two of these writes.  OpenBegin: the
\* process has entered Open; OpenEnd: Open has returned the handle.  Nothing stored is touched by either.
OpenBegin ==
    /\ ~up /\ ~opening
    /\ opening' = TRUE
    /\ ret' = [op |-> "OpenBegin"]
    /\ UNCHANGED <<vaas, up, acked, pending, written>>
OpenEnd ==
    /\ opening
    /\ up' = TRUE /\ opening' = FALSE
    /\ ret' = [op |-> "Reopen"]
    /\ UNCHANGED <<vaas, acked, pending, written>>
\* an Open that ran to completion (both steps)
Reopen ==
    /\ ~up /\ ~opening
    /\ up' = TRUE
    /\ ret' = [op |-> "Reopen"]
    /\ UNCHANGED <<vaas, opening, acked, pending, written>>

\* ------------------------------------------------------------------ properties (C16)
\* An acknowledged write is the live content until it is overwritten - across any number of kills.
AckedSurvive == \A i \in DOMAIN acked : i \in DOMAIN vaas /\ vaas[i] \in ({acked[i]} \cup SetAt(pending, i))
\* The store never holds, and a lookup never returns, bytes that were not stored under that identifier.
NeverForeignBytes == \A i \in DOMAIN vaas : vaas[i] \in SetAt(written, i)
NeverForeignReadStep ==
    (ret'.op = "Get" /\ ret'.res # Nil) => (ret'.res.id = ret'.id /\ ret'.res.tag \in SetAt(written, ret'.id))
NeverForeignRead == [][NeverForeignReadStep]_vars
\* The store always reopens - also after a kill inside an earlier Open: whenever no process has it open, Open can
\* begin, and an Open that has begun can end.
ReopenAlways == /\ (~up /\ ~opening) => ENABLED OpenBegin
                /\ opening => ENABLED OpenEnd
\* A lookup of an identifier whose last write was acknowledged returns exactly that write.
AckedReadBackStep ==
    (ret'.op = "Get" /\ ret'.id \in DOMAIN acked /\ SetAt(pending, ret'.id) = {})
        => ret'.res = ValIn(acked, ret'.id)
AckedReadBack == [][AckedReadBackStep]_vars

\* ------------------------------------------------------------------ properties (C12), on the observed results
\* Whatever a call returned is what the implementation view yields when queried the way the code queries it
\* with properly terminated prefixes: the refinement lemmas, at the parameters of the call.
ViewsAgreeOnRet ==
    CASE ret.op = "Get"         -> ret.res = ImplGet(ret.id)
      [] ret.op = "Gap"         -> ret.res = ImplGap(ret.st)
      [] ret.op = "GovBatch"    -> ret.res = ImplGov(ret.seqs)
      [] ret.op = "NonGovBatch" -> ret.res = ImplNonGov(ret.st, ret.seqs)
      [] OTHER                  -> TRUE
ViewsAgreeStep == ViewsAgreeOnRet'
ViewsAgree == [][ViewsAgreeStep]_vars

\* Queries do not change the store.
QueriesReadOnlyStep == ret'.op \in {"Get", "Gap", "GovBatch", "NonGovBatch"} => vaas' = vaas
QueriesReadOnly == [][QueriesReadOnlyStep]_vars
=============================================================================
