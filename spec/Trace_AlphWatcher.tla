-------------------------- MODULE Trace_AlphWatcher --------------------------
(* Trace validation for C08 / C09: the request / answer / output / environment*)
(* lines recorded by the scripted fake node (harness/alephium/alph_node.go)   *)
(* while the REAL Watcher.Run was talking to it are checked against the       *)
(* actions of AlphWatcher.tla (answers bound from the line) and AlphChain.tla *)
(* (environment lines).                                                       *)
(*                                                                            *)
(* The route alone does not say which goroutine made a request, and the       *)
(* channel hand-offs inside the watcher (F_Deliver, H_Start, F_SkipForeign)   *)
(* are not visible at all, so a line can have several explanations: TLC       *)
(* explores all of them (one initial state per recorded scenario; successor   *)
(* = a logged line explained by one of the actions it may stand for, or a     *)
(* silent step).  A scenario is ACCEPTED iff some path consumes all its lines.*)
(* Per scenario the high-water mark (index of the first line no explanation   *)
(* reaches) is kept in TLC register <scenario number>; the POSTCONDITION      *)
(* prints them.  A second run (Diag # {}) prints the specification states at  *)
(* the high-water mark of the rejected scenarios for attribution.             *)
EXTENDS AlphWatcher, Json, TLC

VARIABLES l,     \* index of the next line to explain
          k      \* number of the scenario (position of its Reset line among the Reset lines)

Trace == ndJsonDeserialize("trace.ndjson")
Diag  == ndJsonDeserialize("diag.ndjson")     \* [k, l] pairs to print the frontier for; one dummy entry in the first run
DiagOn == \E i \in 1..Len(Diag) : Diag[i].k > 0

tvars == <<cvars, wvars, clock, l, k>>

Resets == {i \in 1..Len(Trace) : Trace[i].ev = "Reset"}
NumberOf(i) == Cardinality({j \in Resets : j <= i})
NScen == Cardinality(Resets)

HD(x) == [height |-> x.height, ts |-> x.ts]

\* ---------------------------------------------------------------- a logged request and the actions it may stand for
Status(a) == R_Status(a.tx, [conf |-> (IF a.fail THEN FALSE ELSE a.conf), blk |-> (IF a.fail THEN -1 ELSE a.blk)])

Request(a) ==
    IF a.route = "status" THEN Status(a)
    ELSE IF a.route = "multicall" THEN F_Tok(a.id, a.ans) \/ R_Tok(a.id, a.ans)
    ELSE IF a.fail THEN Fail(a.route)
    ELSE CASE a.route = "version"    -> S_Version
           [] a.route = "clique"     -> S_Clique(a.synced)
           [] a.route = "count"      -> F_InitCount(a.c) \/ F_PollCount(a.c)
           [] a.route = "page"       -> a.addrok /\ F_Page(a.start, a.evs, a.next)
           [] a.route = "chain-info" -> P_Height(a.h) \/ R_Height(a.h)
           [] a.route = "is-main"    -> H_IsMain(a.b, a.r) \/ R_IsMain(a.b, a.r)
           [] a.route = "headers"    -> H_Header(a.b, HD(a.hd)) \/ R_Header(a.b, HD(a.hd))
           [] a.route = "events-tx"  -> R_Events(a.tx, a.evs)
           [] OTHER -> FALSE

EnvStep(a) ==
    CASE a.op = "block"   -> NewBlock(a.b, a.h, a.ts) /\ UNCHANGED wvars
      [] a.op = "emit"    -> Emit(a.e) /\ UNCHANGED wvars
      [] a.op = "foreign" -> EmitForeign(a.e) /\ UNCHANGED wvars
      [] a.op = "reorg"   -> Reorg(a.b) /\ UNCHANGED wvars
      [] a.op = "height"  -> SetHeight(a.h) /\ UNCHANGED wvars
      [] a.op = "lagheight" -> ReportHeight(a.h) /\ UNCHANGED wvars
      [] a.op = "tok"     -> SetTok(a.id, a.shape) /\ UNCHANGED wvars
      \* a request naming another chain, or whose tx hash is not 32 bytes, is not the Alephium watcher's: it is dropped
      \* without any node call
      [] a.op = "req"     -> IF a.chain = 255 /\ a.len = 32 /\ ~a.dropped THEN R_Req(a.tx) /\ UNCHANGED cvars
                             ELSE UNCHANGED <<cvars, wvars>>
      [] OTHER            -> UNCHANGED <<cvars, wvars>>        \* failnext: takes effect in a later answer

\* ---------------------------------------------------------------- end of a scenario: the bounded-liveness obligation
TokNow(id) == IF id \in DOMAIN tokans THEN tokans[id] ELSE "fail"
MustPendT(e) ==
    /\ e.ei = 0 /\ e.ok
    /\ e.kind = "attest" => IF e.tok = "alph" THEN e.claim = AlphInfo ELSE (e.tb /\ TokNow(e.tok) = e.claim)
FinalT(i) ==
    /\ aux.starts = 1 /\ ~aux.apifail /\ aux.initFrom # Nil /\ aux.initFrom < i
    /\ LET e == stream[i] IN
       /\ MustPendT(e) /\ e.tb
       /\ blocks[e.blk].main
       /\ blocks[e.blk].height + e.cl <= height
       /\ blocks[e.blk].ts + Dur(e) <= clock
\* the watcher was given >= 1000 x its polling interval after the last change: everything final must be out, and the
\* node API was not being hammered
EndStep(a) ==
    /\ ~a.spin
    /\ \A i \in 1..Len(stream) : FinalT(i) => stream[i].id \in PollOuts
    \* the re-observer is not stalled: whatever the transactions of the earlier requests contained (malformed or foreign
    \* events included), every request put on its channel has been taken (its tx-status call was made)
    /\ (aux.starts = 1 /\ ~aux.apifail /\ run = "up") => reqQ = <<>>
    /\ UNCHANGED <<cvars, wvars>>

Logged(ln) ==
    CASE ln.ev = "Req"      -> Request(ln.a) /\ UNCHANGED cvars
      [] ln.ev = "Out"      -> ln.a.exact /\ (H_Forward(ln.a.id) \/ R_Forward(ln.a.id)) /\ UNCHANGED cvars
      [] ln.ev = "Env"      -> EnvStep(ln.a)
      [] ln.ev = "RunStart" -> RunStart /\ UNCHANGED cvars
      [] ln.ev = "RunExit"  -> RunExit /\ UNCHANGED cvars
      [] ln.ev = "End"      -> EndStep(ln.a) /\ PrintT(<<"REOBS", k, Cardinality({o \in outs : o.path = "reobs"})>>)
      [] OTHER              -> FALSE          \* "Crash": the process died; nothing explains it

Silent == (F_Deliver \/ H_Start \/ F_SkipForeign) /\ UNCHANGED cvars

InScenario(i) == i <= Len(Trace) /\ Trace[i].ev # "Reset"
ClkAt(i) == IF InScenario(i) THEN Trace[i].clk ELSE clock

TraceInit ==
    \E i \in Resets :
        /\ DiagOn => \E d \in 1..Len(Diag) : Diag[d].k = NumberOf(i)
        /\ k = NumberOf(i) /\ l = i + 1
        /\ ChainInit /\ WInit /\ cfg = [mainnet |-> Trace[i].a.mainnet]
        /\ clock = IF InScenario(i + 1) THEN Trace[i + 1].clk ELSE 0

TraceNext ==
    /\ InScenario(l)
    /\ \/ Logged(Trace[l]) /\ l' = l + 1 /\ clock' = (IF InScenario(l + 1) THEN Trace[l + 1].clk ELSE clock)
       \/ Silent /\ UNCHANGED <<l, clock>>
    /\ UNCHANGED k

TraceSpec == TraceInit /\ [][TraceNext]_tvars

\* ---------------------------------------------------------------- bookkeeping
ASSUME \A i \in 1..(NScen + 1) : TLCSet(i, 0)

Mark == TLCSet(k, IF TLCGet(k) < l THEN l ELSE TLCGet(k))

Summary == [run |-> run, failed |-> failed,
            fet |-> [st |-> fet.st, from |-> fet.from, target |-> fet.target, q |-> Len(fet.q), batch |-> Len(fet.batch),
                     lastN |-> fet.lastN, rep |-> fet.rep],
            pol |-> pol.st,
            han |-> [st |-> han.st, todo |-> han.todo, pend |-> PendIds, fwd |-> Ids({c.e : c \in han.fwd}),
                     cur |-> (IF han.cur = Nil THEN -1 ELSE han.cur.b)],
            reo |-> [st |-> reo.st, evs |-> Ids(reo.evs), all |-> Ids(reo.all), mains |-> reo.mains,
                     hdr |-> DOMAIN reo.hdr, done |-> reo.done],
            outs |-> {<<o.path, o.e.id>> : o \in outs}, reqQ |-> Len(reqQ), starts |-> aux.starts, apifail |-> aux.apifail]

Frontier ==
    (DiagOn /\ \E d \in 1..Len(Diag) : Diag[d].k = k /\ Diag[d].l = l)
        => PrintT(<<"FRONTIER", ToJson([k |-> k, l |-> l, s |-> Summary])>>)

Report == (\A i \in 1..NScen : PrintT(<<"HWM", i, TLCGet(i)>>))
          /\ PrintT(<<"FINISHED", ToJson([lines |-> Len(Trace), scenarios |-> NScen])>>)
=============================================================================
