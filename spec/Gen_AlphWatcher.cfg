SPECIFICATION GenSpec
CONSTANTS
  Nil = Nil
  Floor = 1
  BlockSecs = 1
  MaxB = 3
  MaxEv = 4
  MaxPerBlock = 2
  MaxH = 4
  MaxClock = 0
  PageSize = 2
  MaxReorg = 1
  MaxFail = 0
  MaxReq = 1
  MaxLook = 1
  MaxLag = 0
  SharedTx = FALSE
  Boots = TRUE
  Profile = "poll"
  Mainnets = {TRUE, FALSE}
  GenDepth = 22
CONSTRAINT EmitScn
CHECK_DEADLOCK FALSE
