SPECIFICATION GenSpec
CONSTANTS
  Nil = Nil
  Self = "g1"
  RetryBudget = 2
  SettleT = 30
  RetryT = 300
  DoneT = 3600
  MaxUpd = 2
  MaxBad = 2
  MaxLocal = 3
  MaxInbound = 2
  MaxTime = 0
  Faults = TRUE
  MaxRestart = 1
  UseFourth = TRUE
  SetIdxs = {0, 1, 2, 3}
  TimeSteps = {30, 270, 300, 3600}
  GenDepth = 14
CHECK_DEADLOCK FALSE
