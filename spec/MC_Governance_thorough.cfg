SPECIFICATION MCSpec
CONSTANTS
  Pairs = TRUE
INVARIANTS
  SizeIsContractSize
  PiecewiseAgrees
  FunctionOfRequest
PROPERTIES
  Injective
CHECK_DEADLOCK FALSE
