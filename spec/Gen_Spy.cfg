SPECIFICATION GenSpec
CONSTANTS
  Nil = Nil
  Cap = 1
  NSubs = 3
  NVaas = 3
  MaxFaults = 4
  MaxStall = 2
  MaxResume = 1
  MaxFail = 1
  MaxCancel = 1
  Policies = {"skip", "put", "drop", "kick"}
  BadAt = 0
  AllowInvalid = FALSE
  GenDepth = 10
CONSTRAINT Emit
CHECK_DEADLOCK FALSE
