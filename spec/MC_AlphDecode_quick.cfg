SPECIFICATION MCSpec
CONSTANTS
  K = 1
INVARIANTS
  InvTotal
  InvRejectOutside
  InvInjective
  InvAttest
CHECK_DEADLOCK FALSE
