SPECIFICATION MCSpec
CONSTANTS
  Nil = Nil
  Locked = TRUE
  CheckUnderLock = TRUE
  MaxCallsR1 = 2
  MaxCallsR2 = 1
  KindsR1 = {"push"}
  KindsR2 = {"push"}
  MaxAppends = 1
  NUpdaters = 1
  VaaNames = {"A", "B", "D", "E", "F", "G", "H"}
INVARIANTS
  TypeOK
  RightSet
  NoTornRead
  ConsistentSnapshot
  ListIsChainPrefix
  OnlyVerifiedQueued
  QueueFromEnq
  FailedHandoffNotMarked
  QueueBounded
  PushVerdictsOK
PROPERTIES
  FullLeavesNoTrace
CHECK_DEADLOCK FALSE
