SPECIFICATION TLSpec
CONSTANTS
  Nil = Nil
  Cap = 15
  Self = "g1"
INVARIANTS
  CapHolds
PROPERTIES
  T_RouterInputVerified
  T_KindRouting
  T_RecvNeverPublishes
CONSTRAINT FinishedL
CHECK_DEADLOCK FALSE
