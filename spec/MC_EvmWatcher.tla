---------------------------- MODULE MC_EvmWatcher ----------------------------
(* Bounded instance of EvmChain + EvmWatcher for exhaustive checking (C10).   *)
EXTENDS EvmWatcher

CONSTANTS WScaled,     \* abandonment window, scaled down (60 in the code)
          Jumps,       \* head increments; must contain WScaled and WScaled + 1
          Lag,         \* distance latest - final kept by the environment
          Modes,       \* subset of BOOLEAN: values of cfg.fin
          CLs,         \* consistency levels of the plain message
          MineBack, ArmKinds, RemineStatus, MidScanHeads, HeldIntake, MaxHeads, MaxMine, MaxPush, MaxReorg, MaxRemine, MaxDrop, MaxFail, MaxArm, MaxReq, MaxRestart

VARIABLE cnt

mcvars == <<vars, cnt>>

Log(core, topic, sender, seq, cl) == [core |-> core, topic |-> topic, sender |-> sender, seq |-> seq, cl |-> cl]

\* t1: one message of the core contract.  t2: a look-alike of another contract, a core log with another
\* topic, then a genuine message.
TxUniverse ==
    {<<"t1", <<Log(TRUE, TRUE, "s1", 1, c)>>>> : c \in CLs}
    \cup {<<"t2", <<Log(FALSE, TRUE, "s1", 7, 0), Log(TRUE, FALSE, "s1", 8, 0), Log(TRUE, TRUE, "s2", 2, 1)>>>>}

Budget == [head |-> MaxHeads, mine |-> MaxMine, push |-> MaxPush, reorg |-> MaxReorg, remine |-> MaxRemine,
           drop |-> MaxDrop, fail |-> MaxFail, arm |-> MaxArm, req |-> MaxReq, restart |-> MaxRestart]

Bump(f) == cnt[f] < Budget[f] /\ cnt' = [cnt EXCEPT ![f] = @ + 1]

MCInit ==
    /\ ChainInit(1 + Lag, 1)
    /\ \E m \in Modes : WatcherInit([fin |-> m, W |-> WScaled], IF m THEN 1 ELSE 1 + Lag)
    /\ cnt = [k \in DOMAIN Budget |-> 0]

\* Interleaving discipline (the same one the harness enforces, so that every served call can be attributed
\* to one process): logs are pushed and re-observation requests are issued only when the watcher is quiet;
\* the environment changes the chain when the watcher is quiet, between two calls of a scan, and during a
\* re-observation between the head read and the receipt read (the interleaving the code comments on).
Quiet    == lq = Nil /\ hs = Nil /\ rs = Nil /\ Len(hq) = 0
MidScan  == lq = Nil /\ rs = Nil /\ (IF hs = Nil THEN FALSE ELSE hs.fwd = Nil)
MidReobs == lq = Nil /\ hs = Nil /\ Len(hq) = 0 /\ (IF rs = Nil THEN FALSE ELSE rs.st = "rcpt")

\* With HeldIntake the answer to the log's block lookup is held back: heads are published, polled and scanned
\* between LogReceived and PendingStored.
MidIntake == HeldIntake /\ rs = Nil /\ hs = Nil /\ (IF lq = Nil THEN FALSE ELSE lq.st = "time")
IntakeOK  == lq = Nil \/ (HeldIntake /\ (IF lq = Nil THEN FALSE ELSE lq.st = "time"))

Heights == {n \in 1..latest : n + MineBack >= latest}

ChainChange ==
    \/ \E n \in {m \in 1..latest : TxsIn(Canon(m)) # {} /\ (\A mo \in Modes : mo => m > final)} : E_Reorg(n) /\ Bump("reorg")
    \/ \E tx \in DOMAIN txs, n \in Heights, st \in RemineStatus : E_Remine(tx, n, st) /\ Bump("remine")
    \/ \E tx \in DOMAIN rcpt : E_Drop(tx) /\ Bump("drop")
    \/ \E tx \in DOMAIN rcpt : E_Fail(tx) /\ Bump("fail")

HeadChange == \E j \in Jumps : E_NewHead(latest + j, latest + j - Lag) /\ Bump("head")

EnvNext ==
    \/ Quiet /\ (HeadChange \/ ChainChange)
    \/ Quiet /\ \E k \in ArmKinds : E_Arm(k) /\ Bump("arm")
    \/ Quiet /\ \E t \in TxUniverse, n \in Heights : E_Mine(t[1], n, 1, t[2]) /\ Bump("mine")
    \/ MidScan /\ (ChainChange \/ (MidScanHeads /\ HeadChange))
    \/ MidReobs /\ (HeadChange \/ ChainChange)
    \/ MidIntake /\ (HeadChange \/ ChainChange)

WatcherNext ==
    \/ Quiet /\ \E tx \in DOMAIN rcpt : \E i \in 1..Len(txs[tx]) : PushLog(tx, i, IsMsg(txs[tx][i])) /\ Bump("push")
    \/ lq # Nil /\ (HeldIntake => hs = Nil /\ Len(hq) = 0) /\ L_BlockTime(lq.e.blk) /\ UNCHANGED cnt
    \/ lq # Nil /\ L_BlockTimeFail(lq.e.blk) /\ UNCHANGED cnt
    \/ Quiet /\ RunRestart(Tag) /\ Bump("restart")
    \/ L_Insert /\ UNCHANGED cnt
    \/ rs = Nil /\ IntakeOK /\ (HeadFor(Tag) > pl \/ Fails("poll")) /\ Len(hq) < 2 /\ B_Poll(Tag) /\ UNCHANGED cnt
    \/ rs = Nil /\ IntakeOK /\ Len(hq) > 0 /\ H_Head(Head(hq)) /\ UNCHANGED cnt
    \/ \E e \in pending : H_Receipt(e) /\ UNCHANGED cnt
    \/ hs # Nil /\ hs.fwd # Nil /\ H_Forward(hs.fwd.e) /\ UNCHANGED cnt
    \/ \E A \in SUBSET Abandonable : H_Done(A) /\ UNCHANGED cnt
    \/ Quiet /\ \E tx \in DOMAIN txs \cup {"t0"} : R_Req(tx) /\ Bump("req")
    \/ R_Head(Tag) /\ UNCHANGED cnt
    \/ rs # Nil /\ R_Receipt(rs.tx) /\ UNCHANGED cnt
    \/ rs # Nil /\ rs.st = "time" /\ R_BlockTime(rs.blk) /\ UNCHANGED cnt
    \/ rs # Nil /\ rs.st = "fwd" /\ R_Forward(Head(rs.msgs)) /\ UNCHANGED cnt

MCNext == EnvNext \/ WatcherNext
MCSpec == MCInit /\ [][MCNext]_mcvars

TypeOK ==
    /\ final <= latest /\ pl <= HeadFor(Tag)
    /\ \A e \in pending : Key(e) \in DOMAIN life
    /\ tried \subseteq Keys(pending)
    /\ hs # Nil => hs.seen \subseteq DOMAIN life
    /\ Cardinality(Keys(pending)) = Cardinality(pending)
    /\ (pon /\ hs = Nil) => pending # {}

\* Sanity (vacuity guards, expected to be VIOLATED when checked as invariants): see MC_EvmWatcher_reach.cfg
NeverForwardsAfterBigJump ==
    ~(\E f \in fwd : f.via = "scan" /\ hs # Nil /\ Expired(f.e, hs.h))
NeverAbandons == \A k \in DOMAIN life : ~(life[k].err /\ life[k].deep /\ life[k].fs = 0 /\ \A e \in pending : Key(e) # k)
=============================================================================
