---------------------------- MODULE Gen_Supervisor ----------------------------
(* Scenario generator for C18: MC_Supervisor with a history of the service-level *)
(* steps, run under `tlc -simulate`.  Every behaviour that reaches GenDepth      *)
(* steps is printed as JSON (tree shape + history); lib/fam_supervisor.py turns  *)
(* the history into one behaviour script per service and instance (signals,      *)
(* failure kind, relative failure time, exit latency, kill point) that the       *)
(* instrumented services of the harness replay on the real supervisor.           *)
EXTENDS MC_Supervisor, Json

CONSTANTS GenDepth,   \* behaviours are cut here
          KillFrom    \* Kill is offered only from this step on (the simulator picks successors uniformly)
VARIABLES hist, steps

gvars == <<mcvars, hist, steps>>

Pick(P(_)) == CHOOSE n \in Nodes : P(n)

EvOf ==
    LET entered(n) == pc[n] = "spawned" /\ pc'[n] = "run"
        exited(n)  == pc[n] \in {"run", "doneret"} /\ pc'[n] = "exited"
        healthy(n) == st[n] = "NEW" /\ st'[n] = "HEALTHY"
        done(n)    == st[n] = "HEALTHY" /\ st'[n] = "DONE"
        sawcan(n)  == ~sawc[n] /\ sawc'[n]
    IN IF \E n \in Nodes : entered(n) THEN <<[ev |-> "Enter", dn |-> Pick(entered), kind |-> ""]>>
       ELSE IF \E n \in Nodes : exited(n) THEN <<[ev |-> "Exit", dn |-> Pick(exited), kind |-> res'[Pick(exited)]]>>
       ELSE IF \E n \in Nodes : healthy(n) THEN <<[ev |-> "Healthy", dn |-> Pick(healthy), kind |-> ""]>>
       ELSE IF \E n \in Nodes : done(n) THEN <<[ev |-> "Done", dn |-> Pick(done), kind |-> ""]>>
       ELSE IF \E n \in Nodes : sawcan(n) THEN <<[ev |-> "SawCancel", dn |-> Pick(sawcan), kind |-> ""]>>
       ELSE IF supLive /\ ~supLive' THEN <<[ev |-> "Kill", dn |-> "", kind |-> ""]>>
       ELSE <<>>

GenInit == MCInit /\ hist = <<>> /\ steps = 0
GenNext == MCNext /\ (supLive' = supLive \/ steps >= KillFrom) /\ hist' = hist \o EvOf /\ steps' = steps + 1
GenSpec == GenInit /\ [][GenNext]_gvars

Emit == (steps = GenDepth \/ ~ENABLED GenNext) => PrintT(<<"SCN", ToJson([kids |-> shape.kids, hist |-> hist])>>)
=============================================================================
