----------------------------- MODULE Trace_Gossip -----------------------------
(* Trace validation of the real gossip verifiers (harness/p2p/gossip_harness.go) against Gossip.tla. *)
EXTENDS Gossip, Json

VARIABLES l, ph, rej
Trace == ndJsonDeserialize("trace.ndjson")
tgvars == <<gvars, l, ph, rej>>

ToSetG(s) == {s[i] : i \in 1..Len(s)}
LSetG(x) == IF Len(x) = 0 THEN Nil ELSE [idx |-> x[1].idx, keys |-> x[1].keys]
LEnv(e) == [kind |-> e.kind, claimed |-> e.claimed, signer |-> e.signer, dom |-> e.dom, same |-> e.same,
            plen |-> e.plen, parses |-> e.parses, peer |-> e.peer, req |-> [chain |-> e.req.chain, tx |-> e.req.tx]]

\* A request whose payload is too short to carry the whole content is forwarded with what it carries.
FwdMatches(s, e) ==
    /\ Len(fwd) = Len(s.fwd)
    /\ Len(fwd) = 1 => (s.fwd[1].chain = (IF e.plen = 0 THEN 0 ELSE fwd[1].chain)
                        /\ s.fwd[1].tx = (IF e.plen >= 5 THEN fwd[1].tx ELSE ""))

MatchesG(ln) ==
    /\ "panic" \notin DOMAIN ln.s
    /\ gs = LSetG(ln.s.gs)
    /\ DOMAIN hb = DOMAIN ln.s.hb
    /\ \A g \in DOMAIN hb : hb[g] = ToSetG(ln.s.hb[g])
    /\ IF ln.ev = "ObsReq" THEN FwdMatches(ln.s, ln.a.e) ELSE Len(ln.s.fwd) = 0

ApplyG(ln) ==
    CASE ln.ev = "Reset"      -> gs' = Nil /\ hb' = <<>> /\ fwd' = <<>>
      [] ln.ev = "GSetUpdate" -> GSetUpdate([idx |-> ln.a.set.idx, keys |-> ln.a.set.keys])
      [] ln.ev = "Heartbeat"  -> Heartbeat(LEnv(ln.a.e), ln.s.verdict = "ok")
      [] ln.ev = "ObsReq"     -> ObsReq(LEnv(ln.a.e))
      [] ln.ev = "HeartbeatBurst" ->
            LET after == IF ln.a.g \in DOMAIN ln.s.hb THEN ToSetG(ln.s.hb[ln.a.g]) ELSE {}
            IN HeartbeatBurst(ln.a.g, ToSetG(ln.a.peers), ToSetG(ln.a.peers) \cap after)
      [] OTHER                -> FALSE

NextResetG(i) ==
    LET later == {j \in (i + 1)..Len(Trace) : Trace[j].ev = "Reset"}
    IN IF later = {} THEN Len(Trace) + 1 ELSE CHOOSE j \in later : \A k \in later : j <= k

PStateG == [gs |-> gs, hb |-> hb, fwd |-> fwd]

RejectG(why) ==
    /\ PrintT(<<"REJECT", ToJson([t |-> Trace[l].t, n |-> Trace[l].n, ev |-> Trace[l].ev, why |-> why, spec |-> PStateG])>>)
    /\ rej' = Append(rej, <<Trace[l].t, Trace[l].n>>)
    /\ l' = NextResetG(l) /\ ph' = 0

DoApplyG   == ph = 0 /\ l <= Len(Trace) /\ ApplyG(Trace[l]) /\ ph' = 1 /\ UNCHANGED <<l, rej>>
NotEnabledG == ph = 0 /\ l <= Len(Trace) /\ ~ENABLED ApplyG(Trace[l]) /\ RejectG("step not allowed here") /\ UNCHANGED gvars
LineOKG    == IF Trace[l].ev = "Reset" THEN TRUE ELSE MatchesG(Trace[l])
DoMatchG   == ph = 1 /\ LineOKG /\ l' = l + 1 /\ ph' = 0 /\ UNCHANGED <<gvars, rej>>
MismatchG  == ph = 1 /\ ~LineOKG /\ RejectG("post-state differs") /\ UNCHANGED gvars

TGInit == GInit /\ l = 1 /\ ph = 0 /\ rej = <<>>
TGNext == DoApplyG \/ NotEnabledG \/ DoMatchG \/ MismatchG
TGSpec == TGInit /\ [][TGNext]_tgvars

FinishedG == (l = Len(Trace) + 1 /\ ph = 0) => PrintT(<<"FINISHED", ToJson([lines |-> Len(Trace), rejected |-> rej])>>)
=============================================================================
