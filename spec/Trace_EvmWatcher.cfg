SPECIFICATION TraceSpec
CONSTANTS
  Nil = Nil
INVARIANTS
  ForwardSound
  AtMostOnce
  ExactlyOnce
PROPERTIES
  T_AbandonOnlyAfterWindow
  T_DropOrphans
  T_NoForwardOfOrphan
CONSTRAINT Finished
CHECK_DEADLOCK FALSE
