------------------------------ MODULE Processor ------------------------------
(***************************************************************************)
(* The guardian node's signing pipeline (node/pkg/processor): one action   *)
(* per `select` case of Processor.Run, i.e. one per handler call.           *)
(*                                                                         *)
(* Properties decided here: C01, C02, C03 (aggregation part), C13, C14.    *)
(*                                                                         *)
(* Data arrives in the action parameters (guardian sets, message bodies,   *)
(* observations, inbound VAAs): MC_Processor quantifies them over small    *)
(* universes, Trace_Processor binds them from a recorded execution of the  *)
(* real handlers.                                                          *)
(*                                                                         *)
(* Abstractions.  A key is a name; a digest is a name; a message id is a   *)
(* name (two bodies may share an id).  A signature is [signer, over]; the  *)
(* recovered signer of a signature presented for digest d is `signer` when *)
(* over = d, else JUNK (an address outside every set); ERR = recovery      *)
(* fails.  Time is in whole seconds; every wall-clock comparison of the    *)
(* code is `elapsed + eps >= T` with 0 < eps < 1 (handlers run a little    *)
(* after the recorded instant), hence `>=` everywhere (DESIGN.md 3.8).     *)
(***************************************************************************)
EXTENDS Naturals, Sequences, FiniteSets, TLC, Quorum, SigVerify

CONSTANTS Nil,          \* model value: "absent"
          Self,         \* this node's guardian key
          RetryBudget,  \* 14400 in the code (120 h of 30-s ticks); scaled down in MC configs
          SettleT,      \* 30 s   settlement time
          RetryT,       \* 300 s  retry period / age at which retries start
          DoneT         \* 3600 s completed entries are kept this long

VARIABLES
  gs,        \* Nil | [idx, keys]            current guardian set (Processor.gs)
  agg,       \* [digest -> entry]            aggregation map, dynamic domain
  db,        \* [msgId -> stored VAA]        signed-VAA store, dynamic domain
  up,        \* BOOLEAN                     the store answers (FALSE after StoreDown: every lookup/write fails)
  loop,      \* [digest -> Nat]              own observations in flight back to obsvC
  now,       \* seconds
  out,       \* outputs of the last step: set of gossip messages / re-observation requests
  learned,   \* history: sets received through SetUpdate
  observed   \* history: digests this node observed on chain or was injected

core == <<gs, agg, db, up, loop, now, learned, observed>>
vars == <<gs, agg, db, up, loop, now, out, learned, observed>>

JUNK == "JUNK"
ERR  == "ERR"

KeySet(S) == {S.keys[i] : i \in 1..Len(S.keys)}

Put(f, k, v) == [x \in DOMAIN f \cup {k} |-> IF x = k THEN v ELSE f[x]]
Drop(f, K)   == [x \in DOMAIN f \ K |-> f[x]]
Count(f, k)  == IF k \in DOMAIN f THEN f[k] ELSE 0

Recover(o) == IF o.signer = ERR THEN ERR ELSE IF o.over = o.d THEN o.signer ELSE JUNK

NewEntry == [sigs |-> {}, our |-> Nil, snap |-> Nil, submitted |-> FALSE, settled |-> FALSE,
             retry |-> 0, tx |-> Nil, first |-> now, lastRetry |-> Nil]

EntryOf(d) == IF d \in DOMAIN agg THEN agg[d] ELSE NewEntry

\* Signatures of the recorded signers that belong to S, in S's key order.
Assemble(signers, S) ==
    LET idxs == {i \in 1..Len(S.keys) : S.keys[i] \in signers}
        F[k \in 0..Len(S.keys)] ==
            IF k = 0 THEN <<>>
            ELSE IF k \in idxs THEN Append(F[k - 1], [idx |-> k - 1, signer |-> S.keys[k]])
                 ELSE F[k - 1]
    IN F[Len(S.keys)]

Init ==
    /\ gs = Nil /\ agg = <<>> /\ db = <<>> /\ up = TRUE /\ loop = <<>> /\ now = 0
    /\ out = {} /\ learned = {} /\ observed = {}

---------------------------------------------------------------------------
\* case p.gs = <-p.setC
SetUpdate(S) ==
    /\ gs' = S
    /\ learned' = learned \cup {S}
    /\ out' = {}
    /\ UNCHANGED <<agg, db, up, loop, now, observed>>

\* broadcastSignature: sign, remember the unsigned VAA with the set in force, loop the signature back.
Sign(d, body, tx) ==
    /\ agg' = Put(agg, d, [EntryOf(d) EXCEPT !.our = body, !.snap = gs, !.tx = tx])
    /\ out' = {[kind |-> "obs", d |-> d, signer |-> Self, resend |-> FALSE, tx |-> tx]}
    /\ loop' = Put(loop, d, Count(loop, d) + 1)
    /\ observed' = observed \cup {d}
    /\ UNCHANGED <<gs, db, up, now, learned>>

Ignore == out' = {} /\ UNCHANGED core

\* case k := <-p.lockC.   m = [d, id, gov, chain, tx, empty]
\* The node must ignore the message when it has no guardian set yet or when the message names the
\* governance emitter (never signed); it may ignore it when the payload is empty (such a VAA could never be decoded
\* again); the "late observation" rule below is deterministic.
\* While the store does not answer (up = FALSE) the stored-VAA lookup fails, which is not evidence of a stored VAA.
MustIgnore(m) == gs = Nil \/ m.gov
\* message.go: "ignoring observation since we already have a quorum VAA for it" - only when the store answers, holds a
\* VAA of this id, and the observation's timestamp is more than the settlement time after the stored VAA's (`late`, a
\* fact about the two bodies' timestamps supplied by the environment).  The same message observed again (timestamps
\* equal) is never ignored: it is signed and broadcast again so that the other nodes do not count a miss.
Ignored(m, late) == MustIgnore(m) \/ (up /\ m.id \in DOMAIN db /\ late)

LocalMessageChoice(m, signs, late) ==
    /\ IF signs
       THEN ~Ignored(m, late) /\ Sign(m.d, [id |-> m.id, setIdx |-> gs.idx, chain |-> m.chain, src |-> "chain"], m.tx)
       ELSE (Ignored(m, late) \/ m.empty) /\ Ignore

LocalMessage(m) == \E signs, late \in BOOLEAN : LocalMessageChoice(m, signs, late)

\* case v := <-p.injectC.   v = [d, id, setIdx, chain]
Inject(v) == Sign(v.d, [id |-> v.id, setIdx |-> v.setIdx, chain |-> v.chain, src |-> "inject"], Nil)

\* case m := <-p.obsvC.   o = [d, claimed, signer, over]
ObsSet(d) == IF d \in DOMAIN agg /\ agg[d].snap # Nil THEN agg[d].snap ELSE gs

ObsValid(o) ==
    LET r == Recover(o)
        S == ObsSet(o.d)
    IN /\ r \notin {ERR, JUNK}
       /\ r = o.claimed
       /\ S # Nil
       /\ r \in KeySet(S)

ObsEffect(o) ==
    IF ~ObsValid(o) THEN out' = {} /\ UNCHANGED <<agg, db>>
    ELSE LET S    == ObsSet(o.d)
             e1   == [EntryOf(o.d) EXCEPT !.sigs = @ \cup {o.claimed}]
             sigs == Assemble(e1.sigs, S)
         IN IF e1.our # Nil /\ Len(sigs) >= Q(Len(S.keys)) /\ ~e1.submitted
            THEN LET v == [d |-> o.d, id |-> e1.our.id, setIdx |-> e1.our.setIdx, sigs |-> sigs,
                           by |-> S, via |-> e1.our.src]
                 IN /\ agg' = Put(agg, o.d, [e1 EXCEPT !.submitted = TRUE])
                    /\ db'  = IF up THEN Put(db, v.id, v) ELSE db     \* a failing store does not hold back the broadcast
                    /\ out' = {[kind |-> "vaa", vaa |-> v]}
            ELSE /\ agg' = Put(agg, o.d, e1)
                 /\ out' = {}
                 /\ UNCHANGED db

Observation(o) == ObsEffect(o) /\ UNCHANGED <<gs, up, loop, now, learned, observed>>

\* The node's own signature coming back through obsvC.
OwnObs(d) == [d |-> d, claimed |-> Self, signer |-> Self, over |-> d]

Loopback(d) ==
    /\ Count(loop, d) > 0
    /\ ObsEffect(OwnObs(d))
    /\ loop' = IF loop[d] = 1 THEN Drop(loop, {d}) ELSE [loop EXCEPT ![d] = @ - 1]
    /\ UNCHANGED <<gs, up, now, learned, observed>>

\* case m := <-p.signedInC.   w = [ok, d, id, setIdx, sigs]  (ok = decodable; sigs = seq of [idx, signer])
InboundAccept(w) ==
    /\ w.ok
    /\ gs # Nil
    /\ Len(gs.keys) > 0
    /\ Len(w.sigs) > 0
    /\ Len(w.sigs) >= Q(Len(gs.keys))
    /\ VerifyStrict(w.sigs, gs.keys)
    /\ w.id \notin DOMAIN db

\* The properties only forbid storing what fails the check; they do not oblige the node to keep
\* every valid copy it is shown, so `stores` is the implementation's choice when acceptance is allowed.
InboundVAAChoice(w, stores) ==
    /\ (stores => up)
    /\ out' = {}
    /\ UNCHANGED <<gs, agg, up, loop, now, learned, observed>>
    /\ IF stores
       THEN /\ InboundAccept(w)
            /\ db' = Put(db, w.id, [d |-> w.d, id |-> w.id, setIdx |-> w.setIdx, sigs |-> w.sigs,
                                    by |-> gs, via |-> "peer"])
       ELSE UNCHANGED db

InboundVAA(w) == \E stores \in BOOLEAN : InboundVAAChoice(w, stores)

\* Fault: the store stops answering (closed handle, I/O error): lookups fail (no evidence of a stored VAA), writes
\* fail (nothing is stored); signing, aggregation and broadcasting go on.
StoreDown ==
    /\ up /\ up' = FALSE /\ out' = {}
    /\ UNCHANGED <<gs, agg, db, loop, now, learned, observed>>

\* The guardian process dies and comes back (crash, upgrade, supervisor restart of the whole node): the aggregation
\* state, the current guardian set and the own observations in flight are gone, the store persists.
Restart ==
    /\ gs' = Nil /\ agg' = <<>> /\ loop' = <<>>
    /\ out' = {[kind |-> "restart"]}
    /\ UNCHANGED <<db, up, now, learned, observed>>

IsRestartStep == [kind |-> "restart"] \in out'

Advance(k) ==
    /\ now' = now + k
    /\ out' = {}
    /\ UNCHANGED <<gs, agg, db, up, loop, learned, observed>>

\* case <-p.cleanup.C.   One decision per entry, entries are independent.
Age(e)        == now - e.first
RetryDue(e)   == e.lastRetry = Nil \/ now - e.lastRetry >= RetryT
\* Entries for which the store *answers* that a quorum VAA exists (a failing lookup is not an answer).
LateSet       == {d \in DOMAIN agg : /\ up /\ ~agg[d].submitted /\ agg[d].our # Nil
                                     /\ Age(agg[d]) >= SettleT /\ agg[d].our.id \in DOMAIN db}

Decision(d, L) ==
    LET e == agg[d] IN
    IF d \in L THEN "delete"
    ELSE IF ~e.settled /\ Age(e) >= SettleT THEN "settle"
    ELSE IF e.submitted /\ Age(e) >= DoneT THEN "delete"
    ELSE IF ~e.submitted /\ e.our # Nil /\ e.retry >= RetryBudget THEN "delete"
    ELSE IF ~e.submitted /\ Age(e) >= RetryT /\ RetryDue(e)
         THEN IF e.our # Nil THEN "retry" ELSE "delete"
    ELSE "keep"

\* L: the late entries (a quorum VAA for the message is already stored) that this tick expires.
CleanupTick(L) ==
    /\ L \subseteq LateSet
    /\ LET kept == {d \in DOMAIN agg : Decision(d, L) # "delete"}
           rt   == {d \in DOMAIN agg : Decision(d, L) = "retry"}
       IN /\ agg' = [d \in kept |->
                       CASE Decision(d, L) = "settle" -> [agg[d] EXCEPT !.settled = TRUE]
                         [] Decision(d, L) = "retry"  -> [agg[d] EXCEPT !.retry = @ + 1, !.lastRetry = now]
                         [] OTHER -> agg[d]]
          /\ out' = {[kind |-> "obs", d |-> d, signer |-> Self, resend |-> TRUE, tx |-> agg[d].tx] : d \in rt}
                    \cup {[kind |-> "req", chain |-> agg[d].our.chain, tx |-> agg[d].tx, d |-> d] : d \in rt}
    /\ UNCHANGED <<gs, db, up, loop, now, learned, observed>>

---------------------------------------------------------------------------
(* Properties *)

\* C01.  Everything in the store and every VAA broadcast as complete is valid under a learned set.
VaaOK(v) ==
    /\ v.by \in learned
    /\ Verify(v.sigs, v.by.keys)
    /\ DistinctSigners(v.sigs)
    /\ Len(v.sigs) >= Q(Len(v.by.keys))
    /\ (v.via = "chain" => v.setIdx = v.by.idx)

StoredValid    == \A id \in DOMAIN db : VaaOK(db[id]) /\ db[id].id = id
BroadcastValidStep ==
    \A o \in out' : o.kind = "vaa" => VaaOK(o.vaa)' /\ (up => db'[o.vaa.id] = o.vaa)
BroadcastValid == [][BroadcastValidStep]_vars

\* A stored VAA changes only together with the node's own publication of that message.
NoPeerOverwriteStep ==
    \A id \in DOMAIN db : (id \in DOMAIN db' /\ db'[id] # db[id]) =>
           \E o \in out' : o.kind = "vaa" /\ o.vaa.id = id
NoPeerOverwrite == [][NoPeerOverwriteStep]_vars

StoreNeverShrinksStep ==
    DOMAIN db \subseteq DOMAIN db'
StoreNeverShrinks == [][StoreNeverShrinksStep]_vars

\* C02.
NoPublishWithoutObservationStep ==
    \A o \in out' : o.kind = "vaa" =>
          /\ o.vaa.d \in observed
          /\ o.vaa.d \in DOMAIN agg' /\ agg'[o.vaa.d].our # Nil
          /\ o.vaa.id = agg'[o.vaa.d].our.id /\ o.vaa.setIdx = agg'[o.vaa.d].our.setIdx
NoPublishWithoutObservation == [][NoPublishWithoutObservationStep]_vars

HaveQuorum(e) ==
    /\ e.our # Nil /\ e.snap # Nil
    /\ Self \in e.sigs /\ Self \in KeySet(e.snap)
    /\ Cardinality(e.sigs \cap KeySet(e.snap)) >= Q(Len(e.snap.keys))

PublishAsSoonAs ==
    \A d \in DOMAIN agg : (HaveQuorum(agg[d]) /\ Count(loop, d) = 0) => agg[d].submitted

SubmittedMeansStored ==
    \A d \in DOMAIN agg : agg[d].submitted => agg[d].our # Nil /\ (up => agg[d].our.id \in DOMAIN db)

AtMostOncePerLifetimeStep ==
    \A o \in out' : o.kind = "vaa" =>
          (o.vaa.d \notin DOMAIN agg \/ ~agg[o.vaa.d].submitted) /\ agg'[o.vaa.d].submitted
AtMostOncePerLifetime == [][AtMostOncePerLifetimeStep]_vars

SubmittedStickyStep ==
    \A d \in DOMAIN agg \cap DOMAIN agg' : agg[d].submitted => agg'[d].submitted
SubmittedSticky == [][SubmittedStickyStep]_vars

\* C03 (aggregation part): an observation that is not validly signed by a member changes nothing.
\* (Stated on the action itself in MC_Processor: InvalidObservationNoEffect.)

\* C14.
NoEarlyDiscardStep ==
    IsRestartStep \/ \A d \in DOMAIN agg \ DOMAIN agg' :
          (agg[d].our # Nil /\ ~agg[d].submitted) =>
              (agg[d].retry >= RetryBudget \/ (up /\ agg[d].our.id \in DOMAIN db))
NoEarlyDiscard == [][NoEarlyDiscardStep]_vars

RetryCadenceStep ==
    \A d \in DOMAIN agg \cap DOMAIN agg' :
          agg'[d].retry # agg[d].retry =>
              /\ agg'[d].retry = agg[d].retry + 1
              /\ agg[d].our # Nil /\ ~agg[d].submitted
              /\ Age(agg[d]) >= RetryT /\ RetryDue(agg[d])
              /\ [kind |-> "obs", d |-> d, signer |-> Self, resend |-> TRUE, tx |-> agg[d].tx] \in out'
              /\ [kind |-> "req", chain |-> agg[d].our.chain, tx |-> agg[d].tx, d |-> d] \in out'
RetryCadence == [][RetryCadenceStep]_vars

\* "Every other entry is removed after a bounded time ... so no aggregation entry lives forever", as what one cleanup
\* pass must leave behind (that passes keep coming is the fairness assumption, checked on the real tick source).  An
\* entry that was already settled before the pass and survives it is not overdue: not a completed entry of DoneT or
\* more, not an unobserved one that is RetryT old (nothing was ever retried for it), not an observed one whose retry
\* budget is spent, and not a "late" one the pass was told about.  With RetryCadence (each retry advances the counter)
\* and the budget this bounds every entry's life to SettleT + DoneT resp. RetryT * (RetryBudget + 1) of ticked time.
Overdue(e) ==
    \/ e.submitted /\ Age(e) >= DoneT
    \/ ~e.submitted /\ e.our = Nil /\ Age(e) >= RetryT /\ RetryDue(e)
    \/ ~e.submitted /\ e.our # Nil /\ e.retry >= RetryBudget
BoundedLifeStep ==
    \A L \in SUBSET LateSet : CleanupTick(L) =>
        \A d \in DOMAIN agg' : (d \in DOMAIN agg /\ agg[d].settled) => (~Overdue(agg[d]) /\ d \notin L)
BoundedLife == [][BoundedLifeStep]_vars

\* Nothing but a retry re-sends or requests anything.
RetryOnlyWhenDueStep ==
    \A o \in out' : (o.kind = "req" \/ (o.kind = "obs" /\ o.resend)) =>
          \E d \in DOMAIN agg \cap DOMAIN agg' : agg'[d].retry = agg[d].retry + 1
               /\ o.d = d
RetryOnlyWhenDue == [][RetryOnlyWhenDueStep]_vars

=============================================================================
