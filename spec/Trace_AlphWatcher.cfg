SPECIFICATION TraceSpec
CONSTANTS
  Nil = Nil
  Floor = 205
  BlockSecs = 16
CONSTRAINTS
  Mark
  Frontier
POSTCONDITION Report
CHECK_DEADLOCK FALSE
