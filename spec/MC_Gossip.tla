----------------------------- MODULE MC_Gossip -----------------------------
EXTENDS Gossip

CONSTANT MaxSteps
VARIABLES steps, msg      \* msg: the envelope handled by the last step (Nil for a set update)
mgvars == <<gvars, steps, msg>>

GA == [idx |-> 0, keys |-> <<"g1", "g2">>]
GB == [idx |-> 1, keys |-> <<"g2", "g3">>]
AllSets == {GA, GB}
Names == {"g1", "g2", "g3", "x1"}
PeerIds == {"p1", "p2", "p3"}
R1 == [chain |-> 2, tx |-> "t1"]

\* every single-mutation class of the quantifier, for both verifiers
Envelopes ==
    {[kind |-> k, claimed |-> c, signer |-> s, dom |-> d, same |-> sm, plen |-> pl, parses |-> pr, peer |-> p, req |-> R1] :
        k \in {"hb", "req"}, c \in {"g1", "g2", "x1"}, s \in {"g1", "g2", "x1", ERR},
        d \in {"hb", "req", "raw"}, sm \in BOOLEAN, pl \in {6, 7, 23, 24, 40}, pr \in BOOLEAN, p \in PeerIds}

MGInit == GInit /\ steps = 0 /\ msg = Nil
MGNext ==
    /\ steps < MaxSteps /\ steps' = steps + 1
    /\ \/ \E S \in AllSets : GSetUpdate(S) /\ msg' = Nil
       \/ \E e \in Envelopes : \E st \in BOOLEAN : Heartbeat(e, st) /\ msg' = e
       \/ \E e \in Envelopes : ObsReq(e) /\ msg' = e
MGSpec == MGInit /\ [][MGNext]_mgvars

\* a gossip step that changes the table or forwards a request was caused by an acceptable message
OnlyGuardiansChangeState == [][(msg' # Nil /\ (hb' # hb \/ fwd' # <<>>)) => Acceptable(msg')]_mgvars
View == <<gs, hb, steps>>
TableOnlyMembers == TableOnlyMembersEver(AllSets)
\* a signature made for one purpose is never accepted for another
DomainSeparation == \A e \in Envelopes : (e.dom # e.kind /\ gs # Nil) => ~Acceptable(e)
=============================================================================
