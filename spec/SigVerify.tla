------------------------------ MODULE SigVerify ------------------------------
(* Signature-list verification as property C06 states it.                     *)
(* A signature is abstracted as [idx, signer]: `signer` is the key that       *)
(* ecrecover yields over the digest of the VAA that carries the signature     *)
(* (Junk when it recovers to an address outside every universe, Err when      *)
(* recovery fails).  idx is 0-based, address lists are 1-based sequences.     *)
EXTENDS Naturals, Sequences, FiniteSets

StrictlyAscending(sigs) ==
    \A i \in 1..Len(sigs) : \A j \in 1..Len(sigs) : i < j => sigs[i].idx < sigs[j].idx

InRange(sigs, addrs) == \A i \in 1..Len(sigs) : sigs[i].idx < Len(addrs)

Positional(sigs, addrs) ==
    \A i \in 1..Len(sigs) : sigs[i].idx < Len(addrs) => sigs[i].signer = addrs[sigs[i].idx + 1]

\* The three conditions of the statement.
Verify(sigs, addrs) == InRange(sigs, addrs) /\ StrictlyAscending(sigs) /\ Positional(sigs, addrs)

DistinctSigners(sigs) ==
    \A i \in 1..Len(sigs) : \A j \in 1..Len(sigs) : i # j => sigs[i].signer # sigs[j].signer

RepeatFree(addrs) == \A i \in 1..Len(addrs) : \A j \in 1..Len(addrs) : i # j => addrs[i] # addrs[j]

\* The oracle.  The statement asks for strictly increasing indices "so that no guardian is counted twice" and
\* names the duplicate-signer check as part of the mechanism: a signer that appears twice is REJECTED, also in
\* lists with repeated addresses where one key sits at (and signs at) two positions.  For repeat-free lists this
\* is implied by Verify (lemma VerifyImpliesDistinct, checked in MC_SigVerify).  VerifyStrict is the single
\* expected verdict everywhere.
VerifyStrict(sigs, addrs) == Verify(sigs, addrs) /\ DistinctSigners(sigs)

\* (Documentation only, no longer used as the oracle: an earlier reading accepted either verdict when the only
\* objection was a repeated signer in a list with repeated addresses.)
AllowedVerdicts(sigs, addrs) ==
    IF Verify(sigs, addrs)
    THEN IF DistinctSigners(sigs) THEN {TRUE} ELSE {TRUE, FALSE}
    ELSE {FALSE}

\* Linear-time forms for long lists (trace validation of lists of up to 255 entries).  MC_SigVerify checks
\* (lemma C06_FastForms) that they coincide with the defining forms above.
AscAdj(sigs) == \A i \in 1..Len(sigs) : i < Len(sigs) => sigs[i].idx < sigs[i + 1].idx
DistinctFast(sigs) == Cardinality({sigs[i].signer : i \in 1..Len(sigs)}) = Len(sigs)
VerifyFast(sigs, addrs) == InRange(sigs, addrs) /\ AscAdj(sigs) /\ Positional(sigs, addrs)
AllowedFast(sigs, addrs) ==
    IF VerifyFast(sigs, addrs)
    THEN IF DistinctFast(sigs) THEN {TRUE} ELSE {TRUE, FALSE}
    ELSE {FALSE}
VerifyStrictFast(sigs, addrs) == VerifyFast(sigs, addrs) /\ DistinctFast(sigs)
=============================================================================
