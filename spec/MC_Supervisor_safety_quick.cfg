SPECIFICATION MCSpec
CONSTANTS
  Nil = Nil
  ShapeSel = {8}
  MaxFaults = 2
  MaxDone = 1
  AllowKill = TRUE
  BadSignals = {"healthy", "done"}
  FaultKinds = {"err", "nil", "canceled"}
INVARIANTS
  TypeOK
  AtMostOneInstance
  Coherent
  QuiescentOK
PROPERTIES
  DoneLeftAlone
  RestartOnlyDead
  NoStartAfterKill

CHECK_DEADLOCK FALSE
