SPECIFICATION MCSpec
CONSTANTS
  Nil = Nil
  W = 11
  P = 7
  Chains = {"2", "4"}
  Unknown = {"9"}
  Txs = {"aa", "bb"}
  Cap = 1
  OutCap = 1
  TimeSteps = {1, 4, 7, 11, 12}
  MaxFwd = 3
  WithPost = FALSE
VIEW View
INVARIANTS
  MCTypeOK
  OnlyNamedChain
  ImplAllowed
  CacheIsMemoryOfForwards
  NeverBlocks
PROPERTIES
  OnlyNamedChainP
  AtMostOncePerWindow
  ForwardAgain
  NotRememberedIfNotSent
  MemoryOnlyByRequests
CHECK_DEADLOCK FALSE
