------------------------------ MODULE Network ------------------------------
(***************************************************************************)
(* Growth beyond the listed properties (DESIGN.md section 6, "Beyond the   *)
(* list"): N guardian nodes, each running the aggregation logic of         *)
(* Processor.tla reduced to what matters between nodes, on a gossip medium *)
(* that may delay, duplicate and re-deliver, with byzantine guardians that *)
(* sign anything.  Design-level only: checked by TLC, bound to the code    *)
(* through the per-node traces of Trace_Processor (each honest node here   *)
(* takes exactly the Observation / LocalMessage steps validated there).    *)
(*                                                                         *)
(* One message id; its true on-chain body has digest Good, a forged body   *)
(* has digest Bad.                                                          *)
(***************************************************************************)
EXTENDS Naturals, FiniteSets, Quorum

CONSTANTS Honest, Byz, Nil    \* guardian keys; the guardian set is Honest \cup Byz
Good == "good"
Bad  == "bad"
Digests == {Good, Bad}
Guardians == Honest \cup Byz
N == Cardinality(Guardians)

VARIABLES
  observed,   \* honest nodes that observed the message on chain (and signed Good)
  net,        \* observations ever gossiped: [from, d]; gossip + periodic re-broadcast = stays deliverable
  sigs,       \* sigs[n][d]: signers node n has recorded for digest d
  vaa         \* vaa[n]: digest of the quorum VAA node n published, or Nil

nvars == <<observed, net, sigs, vaa>>

NInit ==
    /\ observed = {} /\ net = {}
    /\ sigs = [n \in Honest |-> [d \in Digests |-> {}]]
    /\ vaa = [n \in Honest |-> Nil]

\* LocalMessage + own loopback of Processor.tla: sign the observed body, record the own signature, gossip it.
Observe(n) ==
    /\ n \notin observed
    /\ observed' = observed \cup {n}
    /\ net' = net \cup {[from |-> n, d |-> Good]}
    /\ sigs' = [sigs EXCEPT ![n][Good] = @ \cup {n}]
    /\ vaa' = IF Cardinality(sigs'[n][Good]) >= Q(N) THEN [vaa EXCEPT ![n] = Good] ELSE vaa

\* Observation of Processor.tla: record a member's signature; publish when the node itself observed that
\* digest and a quorum signed it.
Receive(n, m) ==
    /\ m \in net /\ m.from \notin sigs[n][m.d]
    /\ sigs' = [sigs EXCEPT ![n][m.d] = @ \cup {m.from}]
    /\ vaa' = IF n \in observed /\ m.d = Good /\ vaa[n] = Nil /\ Cardinality(sigs'[n][Good]) >= Q(N)
              THEN [vaa EXCEPT ![n] = Good] ELSE vaa
    /\ UNCHANGED <<observed, net>>

\* A byzantine guardian signs whatever it likes.
ByzSign(b, d) ==
    /\ [from |-> b, d |-> d] \notin net
    /\ net' = net \cup {[from |-> b, d |-> d]}
    /\ UNCHANGED <<observed, sigs, vaa>>

NNext ==
    \/ \E n \in Honest : Observe(n)
    \/ \E n \in Honest : \E m \in net : Receive(n, m)
    \/ \E b \in Byz : \E d \in Digests : ByzSign(b, d)

NSpec == NInit /\ [][NNext]_nvars
NFairSpec == NSpec /\ \A n \in Honest : WF_nvars(Observe(n)) /\ \A d \in Digests : \A g \in Guardians :
                 WF_nvars(Receive(n, [from |-> g, d |-> d]))

SignersOf(d) == {m.from : m \in {x \in net : x.d = d}}

\* With at most N - Q(N) byzantine guardians no quorum of signatures exists for a body that is not on chain,
\* so no contract accepts a forged VAA and no two complete VAAs for the message id disagree.
NoForgedQuorum == Cardinality(Byz) <= N - Q(N) => Cardinality(SignersOf(Bad)) < Q(N)
OnlyTheChainBodyIsPublished == \A n \in Honest : vaa[n] \in {Nil, Good}
PublishedMeansQuorum == \A n \in Honest : vaa[n] = Good => Cardinality(sigs[n][Good]) >= Q(N)
\* any two quorums of signers share an honest guardian when fewer than a third are byzantine
QuorumsIntersectInHonest ==
    3 * Cardinality(Byz) < N =>
        \A A, B \in SUBSET Guardians : (Cardinality(A) >= Q(N) /\ Cardinality(B) >= Q(N)) => (A \cap B \cap Honest # {})

\* Gossip with re-broadcast delivers: when a quorum of honest guardians exists, every honest guardian ends up
\* with the VAA (the retry schedule of C14 is what makes `net` persistent in the implementation).
EventualVAA == Cardinality(Honest) >= Q(N) => <>(\A n \in Honest : vaa[n] = Good)
=============================================================================
