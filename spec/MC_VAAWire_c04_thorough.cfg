INIT InitC04
NEXT NoNext
CONSTANTS
  Big = TRUE
INVARIANTS
  C04_Offsets
  C04_LeftInverse
  C04_Injective
  C04_HeaderIndependent
  C04_Emit
CHECK_DEADLOCK FALSE
