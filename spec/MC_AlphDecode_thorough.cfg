SPECIFICATION MCSpec
CONSTANTS
  K = 2
INVARIANTS
  InvTotal
  InvRejectOutside
  InvInjective
  InvAttest
CHECK_DEADLOCK FALSE
