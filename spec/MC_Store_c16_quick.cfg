SPECIFICATION MCSpec
CONSTANTS
  Nil = Nil
  GovChain = 1
  GovEm = "g"
  Terminated = TRUE
  Chains = {2, 25}
  EmNames = {"a"}
  Seqs = {0, 1}
  Tags = {"v1", "v2"}
  QSets = {{0}}
  MaxIds = 3
  WithQueries = FALSE
  WithCrash = TRUE
VIEW View
INVARIANTS
  AckedSurvive
  NeverForeignBytes
  ReopenAlways
  GetExact
PROPERTIES
  ViewsAgree
  QueriesReadOnly
  NeverForeignRead
  AckedReadBack
CHECK_DEADLOCK FALSE
