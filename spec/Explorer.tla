------------------------------ MODULE Explorer ------------------------------
(***************************************************************************)
(* The explorer backend's VAA ingest (module explorer-backend): the        *)
(* guardian-set list indexed by set index with its append path             *)
(* (guardiansets/gst_data.go), and Push = lookup -> verify -> dedup ->     *)
(* non-blocking enqueue -> mark (processor/vaa_gossip_consumer.go,         *)
(* deduplicator/deduplicator.go).  Property C19.                           *)
(*                                                                         *)
(* Grain: one action per memory access / critical section of the code, so  *)
(* that lookups interleave with appends exactly where the goroutines can.  *)
(*   GetGuardianSet(i)        Lk_Acquire, Lk_ReadIdx, Lk_ReadList,         *)
(*                            Lk_Release, [Lk_Fetch, Ap_*, the reads again]*)
(*   GetCurrentGuardianSet    the same reads with i := the index read      *)
(*   updateGuardianSets(b)    Ap_Lock, Ap_SetIdx (the "what is new" check  *)
(*                            and the index), Ap_Append, Ap_Unlock         *)
(*   Push(v)                  the lookup, Push_Verify, Push_Dedup,         *)
(*                            Push_Enqueue, Push_Mark                      *)
(*                                                                         *)
(* The INTENDED synchronisation is modelled: with Locked = TRUE the two    *)
(* reads of a lookup happen inside the same critical section as the two    *)
(* writes of an append.  (Locked = FALSE gives the unsynchronised readers; *)
(* MC_Explorer_unlocked.cfg shows that TLC then finds the torn read.)      *)
(*                                                                         *)
(* `chain` is the sequence of all guardian sets governance will ever       *)
(* create, chain[i+1] having index i; `top` is the highest index that      *)
(* exists on chain now.  A lookup of an index that does not exist (yet)    *)
(* must fail and change nothing.                                           *)
(***************************************************************************)
EXTENDS Integers, Sequences, FiniteSets, TLC, Quorum, SigVerify

CONSTANTS Nil,            \* model value: "absent"
          Locked,         \* TRUE: lookups read under the lock (the design the property needs)
          CheckUnderLock  \* TRUE: updateGuardianSets decides what is new inside the critical section that appends
                          \* (the design the property needs); FALSE: check-then-act, the decision is taken from a
                          \* snapshot before the lock (MC_Explorer_checkthenact_control.cfg: two appenders with
                          \* overlapping batches then append the same sets twice and position # index)

VARIABLES
  chain,    \* Seq([idx, keys])   every set that will ever exist; chain[i+1].idx = i
  top,      \* highest set index that exists on chain now
  list,     \* GuardianSets.guardianSetLists
  cur,      \* GuardianSets.currentGuardianSetIndex
  lock,     \* Nil | process id     GuardianSets.lock
  qcap,     \* capacity of the persistence queue
  queue,    \* Seq(vaa)            messageQueue
  marked,   \* set of message ids  the deduplicator's cache
  enq,      \* history: VAAs that were ever enqueued
  proc      \* [process id -> record]   goroutines inside one of the calls

vars == <<chain, top, list, cur, lock, qcap, queue, marked, enq, proc>>

Put(f, k, v) == [x \in DOMAIN f \cup {k} |-> IF x = k THEN v ELSE f[x]]

NoRes == [tag |-> "none", set |-> Nil]
IdleProc == [pc |-> "idle", kind |-> "none", want |-> 0, c |-> 0, res |-> NoRes, second |-> FALSE, lo |-> 0, hi |-> 0,
             k |-> 0, vaa |-> Nil, out |-> "none", torn |-> FALSE, stale |-> FALSE]

Pr(p) == IF p \in DOMAIN proc THEN proc[p] ELSE IdleProc
Set(p, r) == proc' = Put(proc, p, r)

\* C19 acceptance of a VAA against the key list of the set it names (C06 + C07).
VaaOK(v, keys) == Len(v.sigs) > 0 /\ Len(v.sigs) >= Q(Len(keys)) /\ VerifyStrict(v.sigs, keys)

ChainSets(lo, hi) == [j \in 1..(hi - lo + 1) |-> chain[lo + j]]    \* the sets with indexes lo..hi

---------------------------------------------------------------------------
(* Calls *)

LookupCall(p, i) ==
    /\ Pr(p).pc = "idle"
    /\ Set(p, [IdleProc EXCEPT !.pc = "rd1", !.kind = "lookup", !.want = i])
    /\ UNCHANGED <<chain, top, list, cur, lock, qcap, queue, marked, enq>>

CurrentCall(p) ==
    /\ Pr(p).pc = "idle"
    /\ Set(p, [IdleProc EXCEPT !.pc = "rd1", !.kind = "current"])
    /\ UNCHANGED <<chain, top, list, cur, lock, qcap, queue, marked, enq>>

PushCall(p, v) ==
    /\ Pr(p).pc = "idle"
    /\ Set(p, [IdleProc EXCEPT !.pc = "rd1", !.kind = "push", !.want = v.setIdx, !.vaa = v])
    /\ UNCHANGED <<chain, top, list, cur, lock, qcap, queue, marked, enq>>

\* updateGuardianSets(the sets lo..hi); lo > hi is the empty batch
AppendCall(p, lo, hi) ==
    /\ Pr(p).pc = "idle"
    /\ lo >= 0 /\ hi <= top /\ hi + 1 >= lo
    /\ Set(p, [IdleProc EXCEPT !.pc = "ap1", !.kind = "append", !.lo = lo, !.hi = hi])
    /\ UNCHANGED <<chain, top, list, cur, lock, qcap, queue, marked, enq>>

\* governance creates the next set on chain
ChainGrow ==
    /\ top + 1 < Len(chain)
    /\ top' = top + 1
    /\ UNCHANGED <<chain, list, cur, lock, qcap, queue, marked, enq, proc>>

---------------------------------------------------------------------------
(* GetGuardianSet / GetCurrentGuardianSet: the reads *)

Lk_Acquire(p) ==
    /\ Pr(p).pc = "rd1"
    /\ IF Locked THEN lock = Nil /\ lock' = p ELSE UNCHANGED lock
    /\ Set(p, [proc[p] EXCEPT !.pc = "rd2"])
    /\ UNCHANGED <<chain, top, list, cur, qcap, queue, marked, enq>>

\* reads gs.currentGuardianSetIndex
Lk_ReadIdx(p) ==
    /\ Pr(p).pc = "rd2"
    /\ Set(p, [proc[p] EXCEPT !.pc = "rd3", !.c = cur, !.want = IF proc[p].kind = "current" THEN cur ELSE @])
    /\ UNCHANGED <<chain, top, list, cur, lock, qcap, queue, marked, enq>>

\* reads gs.guardianSetLists[index] when index <= the index just read
Lk_ReadList(p) ==
    /\ Pr(p).pc = "rd3"
    /\ LET pr == proc[p]
           r  == IF pr.want > pr.c THEN [tag |-> "miss", set |-> Nil]
                 ELSE IF pr.want + 1 > Len(list) \/ pr.want < 0 THEN [tag |-> "panic", set |-> Nil]   \* index out of range
                 ELSE [tag |-> "set", set |-> list[pr.want + 1]]
       IN Set(p, [pr EXCEPT !.pc = "rd4", !.res = r,
                            !.torn = @ \/ (pr.c + 1 > Len(list)),       \* the new index with the old list
                            !.stale = @ \/ (pr.c + 1 # Len(list))])
    /\ UNCHANGED <<chain, top, list, cur, lock, qcap, queue, marked, enq>>

Lk_Release(p) ==
    /\ Pr(p).pc = "rd4"
    /\ IF Locked THEN lock = p /\ lock' = Nil ELSE UNCHANGED lock
    /\ LET pr == proc[p] IN
       Set(p, CASE pr.res.tag # "miss" -> [pr EXCEPT !.pc = "ret"]
                [] pr.second          -> [pr EXCEPT !.pc = "ret", !.res = [tag |-> "err", set |-> Nil]]
                [] OTHER              -> [pr EXCEPT !.pc = "fetch"])
    /\ UNCHANGED <<chain, top, list, cur, qcap, queue, marked, enq>>

\* getGuardianSetsRange(cur+1 .. want) from the chain.  ok = the node answered; an index that does not exist on
\* chain is an error as well.  On success the sets go through the append path, then the reads are repeated.
Lk_Fetch(p, ok) ==
    /\ Pr(p).pc = "fetch"
    /\ LET pr == proc[p] IN
       IF ok /\ pr.want <= top
       THEN Set(p, [pr EXCEPT !.pc = "ap1", !.lo = cur + 1, !.hi = IF cur + 1 > pr.want THEN cur ELSE pr.want])
       ELSE Set(p, [pr EXCEPT !.pc = "ret", !.res = [tag |-> "err", set |-> Nil]])
    /\ UNCHANGED <<chain, top, list, cur, lock, qcap, queue, marked, enq>>

---------------------------------------------------------------------------
(* updateGuardianSets *)

\* (check-then-act variant only) reads the index and decides, outside the lock, which sets of the batch are new
Ap_Snapshot(p) ==
    /\ ~CheckUnderLock
    /\ Pr(p).pc = "ap1" /\ proc[p].lo <= proc[p].hi
    /\ Set(p, IF proc[p].hi <= cur THEN [proc[p] EXCEPT !.pc = "ap5"] ELSE [proc[p] EXCEPT !.pc = "ap1s", !.k = cur])
    /\ UNCHANGED <<chain, top, list, cur, lock, qcap, queue, marked, enq>>

Ap_Lock(p) ==
    /\ \/ Pr(p).pc = "ap1" /\ (CheckUnderLock \/ proc[p].lo > proc[p].hi)
       \/ Pr(p).pc = "ap1s"
    /\ LET pr == proc[p] IN
       IF pr.lo > pr.hi                                \* len(guardianSets) == 0: returns before locking
       THEN Set(p, [pr EXCEPT !.pc = "ap5"]) /\ UNCHANGED lock
       ELSE lock = Nil /\ lock' = p /\ Set(p, [pr EXCEPT !.pc = "ap2"])
    /\ UNCHANGED <<chain, top, list, cur, qcap, queue, marked, enq>>

\* gs.currentGuardianSetIndex = max index of the batch (nothing to do when the batch brings nothing new; a batch
\* that does not connect to the list is ignored -- it cannot arise from the callers, which fetch from cur+1)
Ap_SetIdx(p) ==
    /\ Pr(p).pc = "ap2"
    /\ LET pr == proc[p] IN
       IF CheckUnderLock /\ (pr.hi <= cur \/ pr.lo > cur + 1)
       THEN Set(p, [pr EXCEPT !.pc = "ap4"]) /\ UNCHANGED cur
       ELSE Set(p, [pr EXCEPT !.pc = "ap3", !.k = IF CheckUnderLock THEN cur ELSE @]) /\ cur' = pr.hi
    /\ UNCHANGED <<chain, top, list, lock, qcap, queue, marked, enq>>

\* gs.guardianSetLists = append(gs.guardianSetLists, the new ones...)
Ap_Append(p) ==
    /\ Pr(p).pc = "ap3"
    /\ list' = list \o ChainSets(proc[p].k + 1, proc[p].hi)
    /\ Set(p, [proc[p] EXCEPT !.pc = "ap4"])
    /\ UNCHANGED <<chain, top, cur, lock, qcap, queue, marked, enq>>

Ap_Unlock(p) ==
    /\ Pr(p).pc = "ap4"
    /\ lock = p /\ lock' = Nil
    /\ Set(p, [proc[p] EXCEPT !.pc = "ap5"])
    /\ UNCHANGED <<chain, top, list, cur, qcap, queue, marked, enq>>

\* back in the caller: updateGuardianSets returns / GetGuardianSet repeats its reads
Ap_Done(p) ==
    /\ Pr(p).pc = "ap5"
    /\ Set(p, IF proc[p].kind = "append" THEN [proc[p] EXCEPT !.pc = "ret"]
              ELSE [proc[p] EXCEPT !.pc = "rd1", !.second = TRUE])
    /\ UNCHANGED <<chain, top, list, cur, lock, qcap, queue, marked, enq>>

---------------------------------------------------------------------------
(* Push: after the lookup *)

Push_Verify(p) ==
    /\ Pr(p).pc = "ret" /\ proc[p].kind = "push"
    /\ LET pr == proc[p] IN
       Set(p, CASE pr.res.tag # "set"                     -> [pr EXCEPT !.pc = "pret", !.out = "lookup-failed"]
                [] ~VaaOK(pr.vaa, pr.res.set.keys)        -> [pr EXCEPT !.pc = "pret", !.out = "invalid"]
                [] OTHER                                  -> [pr EXCEPT !.pc = "dedup"])
    /\ UNCHANGED <<chain, top, list, cur, lock, qcap, queue, marked, enq>>

Push_Dedup(p) ==
    /\ Pr(p).pc = "dedup"
    /\ Set(p, IF proc[p].vaa.id \in marked THEN [proc[p] EXCEPT !.pc = "pret", !.out = "dup"]
              ELSE [proc[p] EXCEPT !.pc = "enq"])
    /\ UNCHANGED <<chain, top, list, cur, lock, qcap, queue, marked, enq>>

\* select { case queue <- m: ...; default: error }
Push_Enqueue(p) ==
    /\ Pr(p).pc = "enq"
    /\ IF Len(queue) < qcap
       THEN /\ queue' = Append(queue, proc[p].vaa) /\ enq' = enq \cup {proc[p].vaa}
            /\ Set(p, [proc[p] EXCEPT !.pc = "mark"])
       ELSE /\ Set(p, [proc[p] EXCEPT !.pc = "pret", !.out = "full"])
            /\ UNCHANGED <<queue, enq>>
    /\ UNCHANGED <<chain, top, list, cur, lock, qcap, marked>>

Push_Mark(p) ==
    /\ Pr(p).pc = "mark"
    /\ marked' = marked \cup {proc[p].vaa.id}
    /\ Set(p, [proc[p] EXCEPT !.pc = "pret", !.out = "queued"])
    /\ UNCHANGED <<chain, top, list, cur, lock, qcap, queue, enq>>

\* the queue consumer
Drain ==
    /\ queue # <<>>
    /\ queue' = Tail(queue)
    /\ UNCHANGED <<chain, top, list, cur, lock, qcap, marked, enq, proc>>

\* the deduplicator's cache forgets (30 s expiry, eviction)
Expire(id) ==
    /\ id \in marked
    /\ marked' = marked \ {id}
    /\ UNCHANGED <<chain, top, list, cur, lock, qcap, queue, enq, proc>>

---------------------------------------------------------------------------
(* Returns (the caller sees the result) *)

LookupRet(p) ==
    /\ Pr(p).pc = "ret" /\ proc[p].kind \in {"lookup", "current", "append"}
    /\ Set(p, IdleProc)
    /\ UNCHANGED <<chain, top, list, cur, lock, qcap, queue, marked, enq>>

PushRet(p) ==
    /\ Pr(p).pc = "pret"
    /\ Set(p, IdleProc)
    /\ UNCHANGED <<chain, top, list, cur, lock, qcap, queue, marked, enq>>

Internal(p) ==
    \/ Lk_Acquire(p) \/ Lk_ReadIdx(p) \/ Lk_ReadList(p) \/ Lk_Release(p) \/ (\E ok \in BOOLEAN : Lk_Fetch(p, ok))
    \/ Ap_Snapshot(p) \/ Ap_Lock(p) \/ Ap_SetIdx(p) \/ Ap_Append(p) \/ Ap_Unlock(p) \/ Ap_Done(p)
    \/ Push_Verify(p) \/ Push_Dedup(p) \/ Push_Enqueue(p) \/ Push_Mark(p)

---------------------------------------------------------------------------
(* Properties *)

Finished(pr) == pr.pc \in {"ret", "pret", "dedup", "enq", "mark"}

\* C19: the set a lookup of i returns is the set with index i -- in every interleaving with appends.
RightSet ==
    \A p \in DOMAIN proc :
        (proc[p].res.tag = "set") =>
            /\ proc[p].res.set.idx = proc[p].want
            /\ proc[p].res.set = chain[proc[p].want + 1]
            /\ proc[p].want <= top

\* no lookup observes the new index with the old list (and none indexes out of range)
NoTornRead == \A p \in DOMAIN proc : ~proc[p].torn /\ proc[p].res.tag # "panic"

\* with the intended synchronisation a lookup even sees index and list of the same moment
ConsistentSnapshot == \A p \in DOMAIN proc : ~proc[p].stale

\* outside the append's critical section the list is exactly the sets 0..cur of the chain
ListIsChainPrefix ==
    (lock = Nil \/ (lock \in DOMAIN proc /\ proc[lock].kind \in {"lookup", "current", "push"} /\ proc[lock].pc \in {"rd2", "rd3", "rd4"})) =>
        /\ Len(list) = cur + 1 /\ cur <= top
        /\ \A i \in 1..Len(list) : list[i] = chain[i]

\* C19: only VAAs with valid signatures of a quorum of the set they name are ever queued
OnlyVerifiedQueued ==
    \A v \in enq : v.setIdx >= 0 /\ v.setIdx + 1 <= Len(chain) /\ VaaOK(v, chain[v.setIdx + 1].keys)
QueueFromEnq == \A i \in 1..Len(queue) : queue[i] \in enq

\* C19: a key is marked as seen only after its hand-off succeeded ...
FailedHandoffNotMarked == \A id \in marked : \E v \in enq : v.id = id
\* ... and a failed hand-off changes neither the queue nor the marks
FullLeavesNoTraceStep ==
    \A p \in DOMAIN proc :
        (p \in DOMAIN proc' /\ proc'[p].out = "full" /\ proc[p].out # "full") => (marked' = marked /\ queue' = queue)
FullLeavesNoTrace == [][FullLeavesNoTraceStep]_vars

\* the queue never exceeds its capacity; marks and queue only change in the steps meant to change them
QueueBounded == Len(queue) <= qcap
=============================================================================
