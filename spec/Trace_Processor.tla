--------------------------- MODULE Trace_Processor ---------------------------
(* Trace validation: executions recorded from the real handlers of            *)
(* node/pkg/processor (harness/processor/proc_harness.go) are checked, line   *)
(* by line, against the actions of Processor.tla.  Each line names the        *)
(* handler that ran, its (abstract) arguments and the projected post-state;   *)
(* a line is accepted iff the named action, applied to the specification's    *)
(* current state, can produce exactly that post-state.  Traces are            *)
(* concatenated; a "Reset" line starts each; a rejected line skips to the     *)
(* next trace so that one run reports all rejections.                          *)
EXTENDS Processor, Json

VARIABLES l,     \* current line
          ph,    \* 0: about to apply line l; 1: applied, about to compare the post-state
          rej    \* rejected <<trace, line>> pairs

Trace == ndJsonDeserialize("trace.ndjson")

tvars == <<vars, l, ph, rej>>

Opt(x) == IF Len(x) = 0 THEN Nil ELSE x[1]
ToSet(s) == {s[i] : i \in 1..Len(s)}

\* ---- logged (JSON) values -> specification values
LMsg(m)  == [d |-> m.d, id |-> m.id, gov |-> m.gov, chain |-> m.chain, tx |-> m.tx, empty |-> m.empty]
LInj(v)  == [d |-> v.d, id |-> v.id, setIdx |-> v.setIdx, chain |-> v.chain]
\* an observation whose hash field is not the 32-byte digest itself (bytes in front of it): nothing can be recovered from it
BadHash(o) == "shape" \in DOMAIN o /\ o.shape \in {"prehash", "prehash2"}
LObs(o)  == [d |-> o.d, claimed |-> o.claimed, signer |-> IF BadHash(o) THEN "ERR" ELSE o.signer, over |-> o.over]
LSet(S)  == [idx |-> S.idx, keys |-> S.keys]
LSig(s)  == [idx |-> s.idx, signer |-> s.signer]
LSigs(q) == [i \in 1..Len(q) |-> LSig(q[i])]
LVaaIn(w) == [ok |-> w.ok, d |-> w.d, id |-> w.id, setIdx |-> w.setIdx, sigs |-> LSigs(w.sigs)]
LOptSet(x) == IF Len(x) = 0 THEN Nil ELSE LSet(x[1])

LBody(x) == IF Len(x) = 0 THEN Nil ELSE [id |-> x[1].id, setIdx |-> x[1].setIdx, chain |-> x[1].chain]
LEntry(x) == [sigs |-> ToSet(x.sigs), our |-> LBody(x.our), snap |-> LOptSet(x.snap),
              submitted |-> x.submitted, retry |-> x.retry, tx |-> Opt(x.tx)]
LVaa(v) == [d |-> v.d, id |-> v.id, setIdx |-> v.setIdx, sigs |-> LSigs(v.sigs)]
LOut(x) == CASE x.kind = "obs" -> [kind |-> "obs", d |-> x.d, signer |-> x.signer, resend |-> x.resend, tx |-> Opt(x.tx)]
             [] x.kind = "vaa" -> [kind |-> "vaa", vaa |-> LVaa(x.vaa)]
             [] x.kind = "req" -> [kind |-> "req", chain |-> x.chain, tx |-> Opt(x.tx)]
             [] OTHER -> [kind |-> x.kind]

\* ---- specification state -> the same projection
PBody(b) == IF b = Nil THEN Nil ELSE [id |-> b.id, setIdx |-> b.setIdx, chain |-> b.chain]
PEntry(e) == [sigs |-> e.sigs, our |-> PBody(e.our), snap |-> e.snap, submitted |-> e.submitted,
              retry |-> e.retry, tx |-> e.tx]
PVaa(v) == [d |-> v.d, id |-> v.id, setIdx |-> v.setIdx, sigs |-> v.sigs]
\* a request on the wire does not say which aggregation entry it was issued for
POut(o) == IF o.kind = "vaa" THEN [kind |-> "vaa", vaa |-> PVaa(o.vaa)]
           ELSE IF o.kind = "req" THEN [kind |-> "req", chain |-> o.chain, tx |-> o.tx]
           ELSE o

Matches(s) ==
    /\ "panic" \notin DOMAIN s
    /\ gs = LOptSet(s.gs)
    /\ gs = LOptSet(s.gst)          \* the set published to the gossip verifiers (GuardianSetState) is the processor's
    /\ DOMAIN agg = DOMAIN s.agg
    /\ \A d \in DOMAIN agg : PEntry(agg[d]) = LEntry(s.agg[d])
    /\ DOMAIN db = DOMAIN s.db
    /\ \A i \in DOMAIN db : PVaa(db[i]) = LVaa(s.db[i])
    /\ DOMAIN loop = DOMAIN s.loop
    /\ \A d \in DOMAIN loop : loop[d] = s.loop[d]
    \* everything but re-observation requests: exactly the specification's outputs
    /\ {POut(o) : o \in {x \in out : x.kind # "req"}} = {LOut(s.out[i]) : i \in {j \in 1..Len(s.out) : s.out[j].kind # "req"}}
    /\ Cardinality({x \in out : x.kind # "req"}) = Cardinality({j \in 1..Len(s.out) : s.out[j].kind # "req"})
    \* re-observation requests are posted without blocking: when the outbound queue had `reqfree` free slots, that
    \* many of the requests the specification issues got through (which ones is the code's iteration order); two
    \* entries may issue identical requests, so multiplicities are compared
    /\ LET specReq == {x \in out : x.kind = "req"}
           logReq  == {j \in 1..Len(s.out) : s.out[j].kind = "req"}
           free    == IF "reqfree" \in DOMAIN s THEN s.reqfree ELSE Cardinality(specReq)
       IN /\ Cardinality(logReq) = (IF Cardinality(specReq) <= free THEN Cardinality(specReq) ELSE free)
          /\ \A x \in {POut(o) : o \in specReq} \cup {LOut(s.out[j]) : j \in logReq} :
                Cardinality({j \in logReq : LOut(s.out[j]) = x}) <= Cardinality({o \in specReq : POut(o) = x})
    /\ \A i \in 1..Len(s.out) : s.out[i].kind = "obs" => s.out[i].midok

ResetState ==
    /\ gs' = Nil /\ agg' = <<>> /\ db' = <<>> /\ up' = TRUE /\ loop' = <<>> /\ now' = 0
    /\ out' = {} /\ learned' = {} /\ observed' = {}

\* ln.a.late[d]: the observation's timestamp is more than the settlement time after body d's (harness input arithmetic)
LateOf(ln) == LET id == ln.a.m.id
             IN /\ id \in DOMAIN db
                /\ db[id].d \in DOMAIN ln.a.late
                /\ ln.a.late[db[id].d]

Signed(ln) == \E i \in 1..Len(ln.s.out) : ln.s.out[i].kind = "obs"

Apply(ln) ==
    CASE ln.ev = "Reset"        -> ResetState
      [] ln.ev = "SetUpdate"    -> SetUpdate(LSet(ln.a.set))
      [] ln.ev = "LocalMessage" -> LocalMessageChoice(LMsg(ln.a.m), Signed(ln), LateOf(ln))
      [] ln.ev = "Inject"       -> Inject(LInj(ln.a.v))
      [] ln.ev = "Observation"  -> Observation(LObs(ln.a.o))
      [] ln.ev = "Loopback"     -> Loopback(ln.a.d)
      [] ln.ev = "InboundVAA"   -> InboundVAAChoice(LVaaIn(ln.a.w), DOMAIN ln.s.db # DOMAIN db)
      [] ln.ev = "Advance"      -> Advance(ln.a.k)
      [] ln.ev = "StoreDown"    -> StoreDown
      [] ln.ev = "Restart"      -> Restart
      [] ln.ev = "CleanupTick"  -> CleanupTick(LateSet \ DOMAIN ln.s.agg)
      [] OTHER                  -> FALSE       \* Panic / LoopbackMissing / Slow lines match nothing

NextReset(i) ==
    LET later == {j \in (i + 1)..Len(Trace) : Trace[j].ev = "Reset"}
    IN IF later = {} THEN Len(Trace) + 1 ELSE CHOOSE j \in later : \A k \in later : j <= k

PState == [gs |-> gs, agg |-> [d \in DOMAIN agg |-> PEntry(agg[d])], db |-> [i \in DOMAIN db |-> PVaa(db[i])],
           loop |-> loop, out |-> {POut(o) : o \in out}, now |-> now]

Reject(why) ==
    /\ PrintT(<<"REJECT", ToJson([t |-> Trace[l].t, n |-> Trace[l].n, ev |-> Trace[l].ev, why |-> why, spec |-> PState])>>)
    /\ rej' = Append(rej, <<Trace[l].t, Trace[l].n>>)
    /\ l' = NextReset(l)
    /\ ph' = 0

\* Phase 0: the handler named by the line runs in the specification (deterministic given the line).
DoApply ==
    /\ ph = 0 /\ l <= Len(Trace)
    /\ Apply(Trace[l])
    /\ ph' = 1 /\ UNCHANGED <<l, rej>>

NotEnabled ==
    /\ ph = 0 /\ l <= Len(Trace)
    /\ ~ENABLED Apply(Trace[l])
    /\ Reject("the specification does not allow this step here (spec = state before the step)")
    /\ UNCHANGED vars

\* "nocmp": the harness could not read the state at that point without racing the real event loop (run-loop mode:
\* between a signing handler and the arrival of its looped-back signature); the step is applied, the comparison
\* happens on the next line.
LineOK == IF Trace[l].ev = "Reset" \/ "nocmp" \in DOMAIN Trace[l].s THEN TRUE ELSE Matches(Trace[l].s)

\* Phase 1: the post-state the code reported must be the specification's.
DoMatch ==
    /\ ph = 1
    /\ LineOK
    /\ l' = l + 1 /\ ph' = 0
    /\ UNCHANGED <<vars, rej>>

Mismatch ==
    /\ ph = 1
    /\ ~LineOK
    /\ Reject("post-state differs (spec = state the specification requires after the step)")
    /\ UNCHANGED vars

TraceInit == Init /\ l = 1 /\ ph = 0 /\ rej = <<>>
TraceNext == DoApply \/ NotEnabled \/ DoMatch \/ Mismatch
TraceSpec == TraceInit /\ [][TraceNext]_tvars


\* The action properties of Processor, exempting the artificial steps of this module: the Reset between concatenated
\* traces, the compare-only phase, and a rejection (which leaves the specification's variables as they are).
IsReset == ph = 1 \/ (l <= Len(Trace) /\ Trace[l].ev = "Reset")   \* also exempts the compare-only phase
T_BroadcastValid == [][IsReset \/ UNCHANGED vars \/ BroadcastValidStep]_tvars
T_NoPeerOverwrite == [][IsReset \/ UNCHANGED vars \/ NoPeerOverwriteStep]_tvars
T_NoPublishWithoutObservation == [][IsReset \/ UNCHANGED vars \/ NoPublishWithoutObservationStep]_tvars
T_AtMostOncePerLifetime == [][IsReset \/ UNCHANGED vars \/ AtMostOncePerLifetimeStep]_tvars
T_SubmittedSticky == [][IsReset \/ UNCHANGED vars \/ SubmittedStickyStep]_tvars
T_NoEarlyDiscard == [][IsReset \/ UNCHANGED vars \/ NoEarlyDiscardStep]_tvars
T_RetryCadence == [][IsReset \/ UNCHANGED vars \/ RetryCadenceStep]_tvars
T_BoundedLife == [][IsReset \/ UNCHANGED vars \/ BoundedLifeStep]_tvars
T_RetryOnlyWhenDue == [][IsReset \/ UNCHANGED vars \/ RetryOnlyWhenDueStep]_tvars

Finished == (l = Len(Trace) + 1 /\ ph = 0) => PrintT(<<"FINISHED", ToJson([lines |-> Len(Trace), rejected |-> rej])>>)
=============================================================================
