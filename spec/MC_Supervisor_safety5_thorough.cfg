SPECIFICATION MCSpec
CONSTANTS
  Nil = Nil
  ShapeSel = {12, 13, 14, 15, 16, 17, 18, 19, 20, 21, 22, 23, 24, 25}
  MaxFaults = 1
  MaxDone = 1
  AllowKill = TRUE
  BadSignals = {"healthy", "done"}
  FaultKinds = {"err", "nil", "canceled"}
INVARIANTS
  TypeOK
  AtMostOneInstance
  Coherent
  QuiescentOK
PROPERTIES
  DoneLeftAlone
  RestartOnlyDead
  NoStartAfterKill

CHECK_DEADLOCK FALSE
