SPECIFICATION GGSpec
CONSTANTS
  Nil = Nil
  Cap = 2
  MaxSteps = 100
  GenDepth = 12
CHECK_DEADLOCK FALSE
