SPECIFICATION MCFairSpec
CONSTANTS
  Nil = Nil
  ShapeSel = {1, 2, 3, 4, 5}
  MaxFaults = 2
  MaxDone = 1
  AllowKill = TRUE
  BadSignals = {"healthy", "done"}
  FaultKinds = {"err", "nil", "canceled"}
INVARIANTS
  TypeOK
  AtMostOneInstance
  Coherent
  QuiescentOK
PROPERTIES
  DoneLeftAlone
  RestartOnlyDead
  NoStartAfterKill
  RestartAfterFailure
  KillStopsAll
CHECK_DEADLOCK FALSE
