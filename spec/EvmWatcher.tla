----------------------------- MODULE EvmWatcher -----------------------------
(***************************************************************************)
(* The EVM watcher of a guardian node (node/pkg/ethereum: watcher.go,       *)
(* by_transaction.go, poller.go) against the simulated node of EvmChain.    *)
(* One action per served JSON-RPC call, per message handed to the signing   *)
(* pipeline and per critical section of Watcher.Run; INTENDED behaviour     *)
(* (property C10), not the current code's.                                  *)
(*                                                                         *)
(* Processes of Watcher.Run:                                                *)
(*   L  log intake        PushLog -> L_BlockTime -> L_Insert (into pending) *)
(*   B  block poller      B_Poll: reads the head for the configured tag,    *)
(*                        emits it when it is newer than the last one       *)
(*   H  per-head scan     H_Head(n) .. {H_Receipt(e) [H_Forward]} .. H_Done *)
(*   R  re-observation    R_Req, R_Head THEN R_Receipt, R_BlockTime,        *)
(*                        {R_Forward}                                       *)
(*                                                                         *)
(* Configuration: cfg.fin = the chain is read at finalized height (tag      *)
(* "finalized", zero extra confirmations); otherwise tag "latest" and the   *)
(* message's consistency level is the number of confirmations.  cfg.W is    *)
(* the abandonment window (60 blocks in the code).                          *)
(***************************************************************************)
EXTENDS EvmChain

VARIABLES
  cfg,       \* [fin, W]
  pending,   \* set of entries [tx, blk, sender, seq, cl]   (Watcher.pending)
  tried,     \* keys of pending entries whose receipt lookup failed transiently at sufficient depth
  pl,        \* poller: last head number emitted / initially read
  hq,        \* heads emitted by the poller, not yet scanned (FIFO)
  hs,        \* Nil | [h, seen, fwd, start]  the scan in progress
  lq,        \* Nil | log in intake [e, st]  st \in {"time", "ins"}
  rs,        \* Nil | re-observation in progress [tx, st, h, blk, msgs]
  pon,       \* the block poller has been switched on (by a stored log) and not off again (by a scan that left
             \* nothing pending, or by a restart of Run, which builds a new, idle poller)
  fwd,       \* history: messages handed to the signing pipeline [e, via, sound]
  life       \* history per pending key: [fs, deep, stable, err]

wvars == <<cfg, pending, tried, pl, hq, hs, lq, rs, pon, fwd, life>>
vars  == <<chain, wvars>>

Tag       == IF cfg.fin THEN "finalized" ELSE "latest"
Conf(cl)  == IF cfg.fin THEN 0 ELSE cl
Key(e)    == <<e.tx, e.blk, e.sender, e.seq>>
Keys(S)   == {Key(e) : e \in S}
Deep(e,h) == e.blk[1] + Conf(e.cl) <= h
Expired(e,h) == e.blk[1] + Conf(e.cl) + cfg.W <= h

IsMsg(g)  == g.core /\ g.topic
EntryOf(tx, b, g) == [tx |-> tx, blk |-> b, sender |-> g.sender, seq |-> g.seq, cl |-> g.cl]

\* Ground truth about an entry at this moment.
IsMsgOf(e) ==
    e.tx \in DOMAIN txs /\ \E i \in 1..Len(txs[e.tx]) : IsMsg(txs[e.tx][i]) /\ EntryOf(e.tx, e.blk, txs[e.tx][i]) = e

InItsBlock(e) ==
    /\ Mined(e.tx) /\ rcpt[e.tx].status = 1 /\ rcpt[e.tx].blk = e.blk
    /\ IsMsgOf(e)

Sound(e, h) == InItsBlock(e) /\ Deep(e, h) /\ h <= HeadFor(Tag)

WatcherInit(c, p) ==
    /\ cfg = c /\ pending = {} /\ tried = {} /\ pl = p /\ hq = <<>>
    /\ hs = Nil /\ lq = Nil /\ rs = Nil /\ pon = FALSE /\ fwd = {} /\ life = <<>>

Touch(T) == life' = [k \in DOMAIN life |-> IF k[1] \in T THEN [life[k] EXCEPT !.stable = FALSE] ELSE life[k]]

WUnch == UNCHANGED <<cfg, pending, tried, pl, hq, hs, lq, rs, pon, fwd>>

---------------------------------------------------------------------------
\* Environment (EvmChain actions; the history notes which transactions were disturbed)
E_NewHead(l, f)         == NewHead(l, f) /\ UNCHANGED wvars
E_Mine(tx, n, st, logs) == Mine(tx, n, st, logs) /\ UNCHANGED wvars
E_Reorg(n)              == Reorg(n) /\ Touch(TxsIn(Canon(n))) /\ WUnch
E_Remine(tx, n, st)     == Remine(tx, n, st) /\ Touch({tx}) /\ WUnch
E_Drop(tx)              == DropReceipt(tx) /\ Touch({tx}) /\ WUnch
E_Fail(tx)              == FailTx(tx) /\ Touch({tx}) /\ WUnch
E_Arm(kind)             == Arm(kind) /\ UNCHANGED wvars
E_Disarm(kind)          == Disarm(kind) /\ UNCHANGED wvars

---------------------------------------------------------------------------
\* L: log intake.  The node delivers a log on the subscription iff it matches the filter the watcher
\* installed; the watcher must have asked for exactly the core contract's message-published logs.
PushLog(tx, i, delivered) ==
    /\ lq = Nil
    /\ Mined(tx) /\ i \in 1..Len(txs[tx])
    /\ delivered = IsMsg(txs[tx][i])
    /\ lq' = IF delivered THEN [e |-> EntryOf(tx, rcpt[tx].blk, txs[tx][i]), st |-> "time"] ELSE Nil
    /\ UNCHANGED <<chain, cfg, pending, tried, pl, hq, hs, rs, fwd, life, pon>>

L_BlockTime(b) ==
    /\ lq # Nil /\ lq.st = "time" /\ b = lq.e.blk
    /\ ~Fails("ltime")
    /\ lq' = [lq EXCEPT !.st = "ins"]
    /\ UNCHANGED <<chain, cfg, pending, tried, pl, hq, hs, rs, fwd, life, pon>>

\* The block lookup fails: the log is lost and Run returns with an error (the supervisor restarts it: RunRestart).
L_BlockTimeFail(b) ==
    /\ lq # Nil /\ lq.st = "time" /\ b = lq.e.blk
    /\ Fails("ltime") /\ Consume("ltime")
    /\ lq' = Nil
    /\ UNCHANGED <<latest, final, variant, txs, rcpt, cfg, pending, tried, pl, hq, hs, rs, pon, fwd, life>>

\* The insertion takes pendingMu, so it happens before or after a scan, never inside one.  (A scan that has
\* been announced but has not looked at anything yet has not necessarily taken the lock: inserting then is
\* the same as inserting just before it.)
L_Insert ==
    /\ lq # Nil /\ lq.st = "ins"
    /\ IF hs = Nil THEN TRUE ELSE hs.seen = {} /\ hs.fwd = Nil
    /\ lq' = Nil
    /\ hs' = IF hs = Nil THEN Nil ELSE [hs EXCEPT !.start = @ \cup {lq.e}]
    /\ IF Key(lq.e) \in Keys(pending)
       THEN UNCHANGED <<pending, life>>
       ELSE /\ pending' = pending \cup {lq.e}
            /\ life' = Put(life, Key(lq.e), [fs |-> 0, deep |-> FALSE, stable |-> InItsBlock(lq.e), err |-> FALSE])
    /\ pon' = TRUE          \* EnablePoller, in the same critical section as the insertion
    /\ UNCHANGED <<chain, cfg, tried, pl, hq, rs, fwd>>

\* The hand-over of a log is not atomic: between LogReceived (the log arrives on the subscription and the block
\* lookup is issued) and PendingStored (the entry is in `pending`) the chain may move and the poller / the scan
\* may run any number of heads - none of them sees the entry.  Whatever happens in between, once the entry is
\* stored it is subject to the scan rules above: it is forwarded by the first scan that sees it deep enough.
LogReceived(tx, i, delivered) == PushLog(tx, i, delivered)
PendingStored == L_Insert

---------------------------------------------------------------------------
\* B: the block poller
B_Poll(tag) ==
    /\ tag = Tag
    /\ IF Fails("poll")
       THEN Consume("poll") /\ UNCHANGED <<pl, hq>>
       ELSE /\ UNCHANGED armed
            /\ IF HeadFor(tag) > pl
               THEN pl' = HeadFor(tag) /\ hq' = Append(hq, HeadFor(tag))
               ELSE UNCHANGED <<pl, hq>>
    /\ UNCHANGED <<latest, final, variant, txs, rcpt, cfg, pending, tried, hs, lq, rs, fwd, life, pon>>

---------------------------------------------------------------------------
\* H: the per-head scan (one critical section under pendingMu, containing RPC calls)
\* The scan takes the oldest emitted head; scanning the last emitted head once more is harmless and allowed.
H_Head(n) ==
    /\ hs = Nil
    /\ IF Len(hq) > 0 THEN n = Head(hq) /\ hq' = Tail(hq) ELSE n = pl /\ hq' = hq
    /\ hs' = [h |-> n, seen |-> {}, fwd |-> Nil, start |-> pending]
    /\ UNCHANGED <<chain, cfg, pending, tried, pl, lq, rs, fwd, life, pon>>

Outcome(e, kind) ==
    IF Fails(kind) THEN "error"
    ELSE IF ~Mined(e.tx) THEN "notfound"
    ELSE IF rcpt[e.tx].status # 1 THEN "failed"
    ELSE IF rcpt[e.tx].blk # e.blk THEN "moved"
    ELSE "same"

\* eth_getTransactionReceipt for a pending entry that is deep enough under the head being scanned:
\*   transient error -> the entry stays (and has now failed to confirm once);
\*   not found / failed / mined in another block -> dropped;
\*   still in its block -> removed and handed to the signing pipeline (next step of this process).
H_Receipt(e) ==
    /\ hs # Nil /\ hs.fwd = Nil
    /\ e \in pending /\ Key(e) \notin hs.seen /\ Deep(e, hs.h)
    /\ LET o == Outcome(e, "hreceipt") IN
       /\ IF o = "error" THEN Consume("hreceipt") ELSE UNCHANGED armed
       /\ pending' = IF o = "error" THEN pending ELSE pending \ {e}
       /\ tried' = IF o = "error" THEN tried \cup {Key(e)} ELSE tried \ {Key(e)}
       /\ hs' = [hs EXCEPT !.seen = @ \cup {Key(e)},
                           !.fwd = IF o = "same" THEN [e |-> e, sound |-> Sound(e, hs.h)] ELSE Nil]
       /\ life' = IF o = "error" THEN [life EXCEPT ![Key(e)].err = TRUE] ELSE life
    /\ UNCHANGED <<latest, final, variant, txs, rcpt, cfg, pl, hq, lq, rs, fwd, pon>>

\* A lookup for an entry that is not yet deep enough decides nothing (the property does not forbid asking early).
H_ReceiptEarly(tx) ==
    /\ hs # Nil /\ hs.fwd = Nil
    /\ \E e \in pending : e.tx = tx /\ ~Deep(e, hs.h)
    /\ IF Fails("hreceipt") THEN Consume("hreceipt") ELSE UNCHANGED armed
    /\ UNCHANGED <<latest, final, variant, txs, rcpt, wvars>>

H_Forward(e) ==
    /\ hs # Nil /\ hs.fwd # Nil /\ hs.fwd.e = e
    /\ fwd' = fwd \cup {[e |-> e, via |-> "scan", sound |-> hs.fwd.sound]}
    /\ life' = [life EXCEPT ![Key(e)].fs = @ + 1]
    /\ hs' = [hs EXCEPT !.fwd = Nil]
    /\ UNCHANGED <<chain, cfg, pending, tried, pl, hq, lq, rs, pon>>

\* End of the scan.  Every entry that was deep enough has been looked up.  A is the set of entries the
\* watcher gives up on: only entries that could not be confirmed (transient errors) although the head
\* has passed the whole abandonment window.  Giving up is a permission, not an obligation.
Abandonable == {e \in pending : Key(e) \in tried /\ hs # Nil /\ Expired(e, hs.h)}

H_Done(A) ==
    /\ hs # Nil /\ hs.fwd = Nil
    /\ \A e \in pending : Deep(e, hs.h) => Key(e) \in hs.seen
    /\ A \subseteq Abandonable
    /\ pending' = pending \ A
    /\ tried' = tried \ Keys(A)
    /\ life' = [k \in DOMAIN life |->
                  IF \E e \in hs.start : Key(e) = k /\ Deep(e, hs.h) THEN [life[k] EXCEPT !.deep = TRUE] ELSE life[k]]
    /\ hs' = Nil
    /\ pon' = IF pending \ A = {} THEN FALSE ELSE pon      \* DisablePoller when nothing is left to wait for
    /\ UNCHANGED <<chain, cfg, pl, hq, lq, rs, fwd>>

---------------------------------------------------------------------------
\* R: re-observation of one transaction on request
R_Req(tx) ==
    /\ rs = Nil
    /\ rs' = [tx |-> tx, st |-> "head", h |-> 0, blk |-> Nil, msgs |-> <<>>]
    /\ UNCHANGED <<chain, cfg, pending, tried, pl, hq, hs, lq, fwd, life, pon>>

\* The head is read BEFORE the receipt.
R_Head(tag) ==
    /\ rs # Nil /\ rs.st = "head" /\ tag = Tag
    /\ IF Fails("rhead")
       THEN Consume("rhead") /\ rs' = Nil
       ELSE UNCHANGED armed /\ rs' = [rs EXCEPT !.st = "rcpt", !.h = HeadFor(tag)]
    /\ UNCHANGED <<latest, final, variant, txs, rcpt, cfg, pending, tried, pl, hq, hs, lq, fwd, life, pon>>

R_Receipt(tx) ==
    /\ rs # Nil /\ rs.st = "rcpt" /\ tx = rs.tx
    /\ IF Fails("rreceipt")
       THEN Consume("rreceipt") /\ rs' = Nil
       ELSE /\ UNCHANGED armed
            /\ rs' = IF Mined(tx) /\ rcpt[tx].status = 1
                     THEN [rs EXCEPT !.st = "time", !.blk = rcpt[tx].blk]
                     ELSE Nil
    /\ UNCHANGED <<latest, final, variant, txs, rcpt, cfg, pending, tried, pl, hq, hs, lq, fwd, life, pon>>

\* Messages of the transaction: logs of the core contract with the message-published topic, in receipt
\* order, each deep enough under the head read at the start.
RMsgs ==
    LET Good(g) == IsMsg(g) /\ Deep(EntryOf(rs.tx, rs.blk, g), rs.h)
        sel == SelectSeq(txs[rs.tx], Good)
    IN [i \in 1..Len(sel) |-> EntryOf(rs.tx, rs.blk, sel[i])]

R_BlockTime(b) ==
    /\ rs # Nil /\ rs.st = "time" /\ b = rs.blk
    /\ IF Fails("rtime")
       THEN Consume("rtime") /\ rs' = Nil
       ELSE /\ UNCHANGED armed
            /\ rs' = IF Len(RMsgs) = 0 THEN Nil ELSE [rs EXCEPT !.st = "fwd", !.msgs = RMsgs]
    /\ UNCHANGED <<latest, final, variant, txs, rcpt, cfg, pending, tried, pl, hq, hs, lq, fwd, life, pon>>

R_Forward(e) ==
    /\ rs # Nil /\ rs.st = "fwd" /\ Len(rs.msgs) > 0 /\ e = Head(rs.msgs)
    /\ fwd' = fwd \cup {[e |-> e, via |-> "reobs",
                         sound |-> IsMsgOf(e) /\ e.blk = rs.blk /\ Deep(e, rs.h) /\ rs.h <= HeadFor(Tag)]}
    /\ rs' = IF Len(rs.msgs) = 1 THEN Nil ELSE [rs EXCEPT !.msgs = Tail(@)]
    /\ UNCHANGED <<chain, cfg, pending, tried, pl, hq, hs, lq, life, pon>>

---------------------------------------------------------------------------
\* Run has returned (a fatal RPC error: the block lookup of a log, three failed polls in a row, a subscription or
\* guardian-set error) and the supervisor runs it again ON THE SAME Watcher.  Connections, subscriptions and the
\* block poller are built anew: the new poller starts from the head it reads now (heads in between are never
\* emitted) and is idle until the next log is stored.  What belongs to the Watcher survives: `pending` (and with
\* it every obligation of the scan rules: a message still waiting for its depth is forwarded by the first scan
\* that sees it deep enough, however many restarts lie in between).  The harness restarts the watcher only when
\* it is quiet; a scan, a log hand-over or a re-observation cut off by the restart is not modelled.
RunRestart(tag) ==
    /\ hs = Nil /\ rs = Nil /\ lq = Nil
    /\ tag = Tag
    /\ pl' = HeadFor(tag) /\ hq' = <<>> /\ pon' = FALSE
    /\ UNCHANGED <<chain, cfg, pending, tried, hs, lq, rs, fwd, life>>

\* The poller owes a head read: it is on, something is pending and the chain head is past the last head it emitted.
\* (Bounded liveness in the harness: a watcher that does not poll although PollDue holds has stalled.)
PollDue == pon /\ pending # {} /\ pl < HeadFor(Tag)

---------------------------------------------------------------------------
(* Properties (C10) *)

\* Only messages of the core contract with the right topic, from a successful transaction, with the head
\* the watcher has seen at least `confirmations` past the block, whose receipt pointed to that block at
\* the moment of the (last) receipt lookup.
ForwardSound == \A f \in fwd : f.sound

\* A message whose transaction stays in its block is forwarded exactly once by the scan that first sees
\* it deep enough - whatever the head increment was - and never more than once per stay in pending.
AtMostOnce  == \A k \in DOMAIN life : life[k].fs <= 1
ExactlyOnce == \A k \in DOMAIN life : (life[k].deep /\ life[k].stable /\ ~life[k].err) => life[k].fs = 1

\* Entries leave pending only through a receipt lookup of this scan, or by abandonment after the whole
\* window during which the node failed to confirm them.
AbandonOnlyAfterWindowStep ==
    \A e \in pending \ pending' :
        \/ (hs' # Nil /\ Key(e) \in hs'.seen /\ hs # Nil /\ Key(e) \notin hs.seen)
        \/ (hs # Nil /\ hs' = Nil /\ Key(e) \in tried /\ Expired(e, hs.h))
AbandonOnlyAfterWindow == [][AbandonOnlyAfterWindowStep]_vars

\* When a scan ends, no entry that was deep enough is left undecided, except after a transient error
\* (so orphaned, re-mined and failed transactions have been dropped).
DropOrphansStep ==
    (hs # Nil /\ hs' = Nil) => \A e \in pending' : Deep(e, hs.h) => Key(e) \in tried'
DropOrphans == [][DropOrphansStep]_vars

\* A forwarded entry is no longer pending; a dropped one was not in its block when looked up.
NoForwardOfOrphanStep ==
    \A f \in fwd' \ fwd : f.via = "scan" => (f.e \notin pending' /\ f.sound)
NoForwardOfOrphan == [][NoForwardOfOrphanStep]_vars
=============================================================================
