SPECIFICATION GenSpec
CONSTANTS
  Nil = Nil
  ShapeSel = {3, 4, 5, 6, 7, 8, 9, 10, 11, 12, 13, 14, 15, 16, 17, 18, 19, 20, 21, 22, 23, 24, 25}
  MaxFaults = 3
  MaxDone = 1
  AllowKill = TRUE
  BadSignals = {"healthy", "done"}
  FaultKinds = {"err", "nil", "panic", "canceled", "wrapcanceled", "deadline"}
  GenDepth = 60
  KillFrom = 25
CONSTRAINT Emit
CHECK_DEADLOCK FALSE
