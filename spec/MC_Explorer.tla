----------------------------- MODULE MC_Explorer -----------------------------
(* Bounded instance of Explorer (C19): 2 readers (lookups, current-set reads and pushes) x 1 appender (the     *)
(* periodic updater) x 3 guardian sets that governance creates while everything runs; queue capacity 1; the VAA *)
(* classes of the property's quantifier.                                                                        *)
EXTENDS Explorer

CONSTANTS MaxCallsR1, MaxCallsR2,  \* calls per reader
          KindsR1, KindsR2,        \* which calls each reader makes: subsets of {"lookup", "current", "push"}
          MaxAppends,              \* calls per updater
          NUpdaters,               \* 1 or 2 updaters (two: concurrent appenders with overlapping batches)
          VaaNames                 \* which VAA classes are pushed

VARIABLE cnt

mcvars == <<vars, cnt>>

S0 == [idx |-> 0, keys |-> <<"g1", "g2", "g3">>]          \* quorum 3
S1 == [idx |-> 1, keys |-> <<"g2", "g3", "g4", "g1">>]    \* quorum 3
S2 == [idx |-> 2, keys |-> <<"g4">>]                      \* quorum 1
Chain == <<S0, S1, S2>>

Sig(i, k) == [idx |-> i, signer |-> k]

AllVaas == {
    [id |-> "A", setIdx |-> 0, sigs |-> <<Sig(0, "g1"), Sig(1, "g2"), Sig(2, "g3")>>],   \* valid under the set it names
    [id |-> "B", setIdx |-> 0, sigs |-> <<Sig(0, "g1"), Sig(1, "g2")>>],                 \* quorum - 1
    [id |-> "C", setIdx |-> 0, sigs |-> <<Sig(0, "g1"), Sig(1, "g2"), Sig(2, "x1")>>],   \* wrong signer
    [id |-> "D", setIdx |-> 0, sigs |-> <<Sig(0, "g2"), Sig(1, "g3"), Sig(2, "g4")>>],   \* valid under set 1 only, names set 0
    [id |-> "E", setIdx |-> 1, sigs |-> <<Sig(0, "g2"), Sig(1, "g3"), Sig(2, "g4")>>],   \* a later set, valid
    [id |-> "F", setIdx |-> 2, sigs |-> <<Sig(0, "g4")>>],                               \* a later (future) set, valid
    [id |-> "G", setIdx |-> 1, sigs |-> <<Sig(0, "g1"), Sig(1, "g2"), Sig(2, "g3")>>],   \* valid under set 0 only, names set 1
    \* naming the newest index (unknown to the explorer until it is fetched, not even on chain at first), signed by ...
    [id |-> "H", setIdx |-> 2, sigs |-> <<Sig(0, "g1"), Sig(1, "g2"), Sig(2, "g3")>>],   \* ... all keys of set 0 (the current set at first)
    [id |-> "I", setIdx |-> 2, sigs |-> <<Sig(0, "g2"), Sig(1, "g3"), Sig(2, "g4")>>],   \* ... a quorum of set 1
    [id |-> "J", setIdx |-> 2, sigs |-> <<Sig(0, "x1")>>]                                \* ... an outsider
  }
Vaas == {v \in AllVaas : v.id \in VaaNames}

Readers == {"r1", "r2"}
Updaters == IF NUpdaters = 2 THEN {"a1", "a2"} ELSE {"a1"}

MCInit ==
    /\ chain = Chain /\ top = 0 /\ list = <<S0>> /\ cur = 0 /\ lock = Nil /\ qcap = 1 /\ queue = <<>>
    /\ marked = {} /\ enq = {} /\ proc = <<>>
    /\ cnt = [r1 |-> 0, r2 |-> 0, a1 |-> 0, a2 |-> 0]

MaxCalls(r) == IF r = "r1" THEN MaxCallsR1 ELSE MaxCallsR2
Kinds(r)    == IF r = "r1" THEN KindsR1 ELSE KindsR2

Bump(p) == cnt' = [cnt EXCEPT ![p] = @ + 1]

Calls ==
    \/ \E r \in Readers : cnt[r] < MaxCalls(r) /\ Bump(r) /\
          \/ "lookup" \in Kinds(r) /\ \E i \in 0..2 : LookupCall(r, i)
          \/ "current" \in Kinds(r) /\ CurrentCall(r)
          \/ "push" \in Kinds(r) /\ \E v \in Vaas : PushCall(r, v)
    \* the periodic updater: reads the index, fetches everything newer from the chain, then appends
    \* (its batch may overlap what is known by the time it is appended, and what another updater brings)
    \/ \E u \in Updaters : \E lo \in {1, cur + 1} :
          cnt[u] < MaxAppends /\ top > cur /\ Bump(u) /\ AppendCall(u, lo, top)

MCNext ==
    \/ Calls
    \/ ChainGrow /\ UNCHANGED cnt
    \/ \E p \in DOMAIN proc : (Internal(p) \/ LookupRet(p) \/ PushRet(p)) /\ UNCHANGED cnt
    \/ Drain /\ UNCHANGED cnt
    \/ \E id \in marked : Expire(id) /\ UNCHANGED cnt

MCSpec == MCInit /\ [][MCNext]_mcvars

TypeOK ==
    /\ lock \in {Nil} \cup Readers \cup Updaters
    /\ cur \in 0..2 /\ top \in 0..2 /\ Len(list) \in 1..3
    /\ DOMAIN proc \subseteq Readers \cup Updaters
    /\ \A p \in DOMAIN proc : proc[p].res.tag \in {"none", "set", "miss", "err", "panic"}

\* every VAA class is actually decided the way the property says (guards the model against vacuity)
PushVerdictsOK ==
    \A p \in DOMAIN proc :
        LET pr == proc[p] IN
        (pr.pc = "pret" /\ pr.out \in {"queued", "dup", "full"}) => pr.vaa.id \in {"A", "E", "F"}
=============================================================================
