SPECIFICATION MCSpec
CONSTANTS
  Nil = Nil
  Locked = TRUE
  CheckUnderLock = TRUE
  MaxCallsR1 = 2
  MaxCallsR2 = 2
  KindsR1 = {"lookup", "current"}
  KindsR2 = {"lookup", "current"}
  MaxAppends = 1
  NUpdaters = 2
  VaaNames = {}
INVARIANTS
  TypeOK
  RightSet
  NoTornRead
  ConsistentSnapshot
  ListIsChainPrefix
  OnlyVerifiedQueued
  QueueFromEnq
  FailedHandoffNotMarked
  QueueBounded
  PushVerdictsOK
PROPERTIES
  FullLeavesNoTrace
CHECK_DEADLOCK FALSE
