INIT InitC05B
NEXT NoNext
CONSTANTS
  Big = FALSE
INVARIANTS
  C05B_Canonical
  C05B_Total
  C05B_ShapeSound
  C05B_Emit
CHECK_DEADLOCK FALSE
