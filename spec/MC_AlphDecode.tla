---------------------------- MODULE MC_AlphDecode ----------------------------
(* Bounded instance of AlphDecode for TLC: every input with at most K         *)
(* non-nominal positions (K = 1 quick, 2 thorough) is a state; the lemmas are *)
(* invariants; injectivity is checked on all pairs of the K = 1 domain.  The  *)
(* enumerated classes with the specification's verdicts are EXPORTED (CASES,  *)
(* ATTEST, IDS, TS, LAYOUT) and become one implementation test each.          *)
EXTENDS AlphDecode, Json, TLC

CONSTANT K
VARIABLES x, y

D == Dom(K)

Verdicts(S) == {[n |-> c.n, f |-> c.f, accept |-> Accepted(c), free |-> (Tolerated(c) /\ ~Accepted(c))] : c \in S}

ASSUME RankInjective
ASSUME Boundaries
ASSUME LayoutContiguous
ASSUME PrintT(<<"CASES", ToJson(Verdicts(D))>>)
ASSUME PrintT(<<"ATTEST", ToJson({[a |-> a, accept |-> AttAccepted(a)] : a \in (IF K >= 2 THEN AttDom2 ELSE AttDom1)})>>)
ASSUME PrintT(<<"IDS", ToJson({[c |-> c, expect |-> RoundTrip(c)] : c \in IdClasses})>>)
ASSUME PrintT(<<"TS", ToJson({[t |-> t, pub |-> Pub(t)] : t \in TsClasses})>>)
ASSUME PrintT(<<"LAYOUT", ToJson([fields |-> AttestLayout, length |-> AttestLength])>>)

MCInit == x \in D /\ y \in Dom1
MCNext == UNCHANGED <<x, y>>
MCSpec == MCInit /\ [][MCNext]_<<x, y>>

InvTotal == DecodeTotal(x)
InvRejectOutside == RejectOutside(x)
InvInjective == Injective(x, y) /\ (x \in Dom1 => Injective(y, x))
InvAttest == \A a \in AttDom2 : (AttDecode(a) = Reject) <=> ~AttAccepted(a)
=============================================================================
