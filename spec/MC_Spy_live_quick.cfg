SPECIFICATION MCFairSpec
CONSTANTS
  Nil = Nil
  Cap = 1
  NSubs = 2
  NVaas = 3
  MaxFaults = 1
  MaxStall = 1
  MaxResume = 1
  MaxFail = 1
  MaxCancel = 1
  Policies = {"skip", "put", "drop", "kick"}
  BadAt = 0
  AllowInvalid = FALSE
PROPERTIES
  PublishTerminatesP
  SubscribeTerminates
  RemoveTerminates
  MatchingDelivered
CHECK_DEADLOCK FALSE
