SPECIFICATION GenSpec
CONSTANTS
  Nil = Nil
  GovChain = 1
  GovEm = "g"
  Terminated = TRUE
  Chains = {1, 2, 4, 10, 17, 25, 42, 255, 10001}
  EmNames = {"a", "b", "c", "d"}
  Seqs = {0, 1, 2, 5, 10, 12}
  Tags = {"v1", "v2"}
  QSets = {{0}, {1, 10}, {2, 5, 12}, {0, 1, 2, 5, 10, 12}}
  MaxIds = 8
  WithQueries = TRUE
  WithCrash = FALSE
  GenDepth = 24
CONSTRAINT Emit
CHECK_DEADLOCK FALSE
