----------------------------- MODULE MC_VAAWire -----------------------------
(* Bounded instances of VAAWire for TLC (C04, C05).  Each configuration       *)
(* enumerates one finite case domain as the set of initial states (there is   *)
(* no transition), checks the lemmas of the property as invariants on every   *)
(* case and EXPORTS the case together with the specification's value          *)
(* (PrintT/ToJson), so that every enumerated case becomes one implementation  *)
(* test whose expected outcome is the one TLC computed here.                  *)
EXTENDS VAAWire, TLC, Json, SequencesExt

CONSTANT Big        \* FALSE: quick-tier domain, TRUE: thorough-tier domain

VARIABLE c          \* the case under consideration

NoNext == FALSE /\ c' = c

Zeros(n)   == [i \in 1..n |-> 0]
Ones(n)    == [i \in 1..n |-> 255]
Ramp(n, a) == [i \in 1..n |-> (a + i) % 256]

-----------------------------------------------------------------------------
\* C04 domain: boundary byte patterns per body field x payloads (incl. one that looks like a body).

TSs  == {<<0, 0, 0, 0>>, <<0, 0, 0, 1>>, <<255, 255, 255, 255>>} \cup (IF Big THEN {<<127, 255, 255, 255>>, <<128, 0, 0, 0>>} ELSE {})
NOs  == {<<0, 0, 0, 0>>, <<128, 0, 0, 1>>} \cup (IF Big THEN {Ones(4)} ELSE {})
ECs  == {<<0, 1>>, <<255, 0>>}
TCs  == {<<0, 0>>, <<0, 255>>} \cup (IF Big THEN {<<255, 0>>} ELSE {})
EAs  == {Zeros(32), Ramp(32, 0)} \cup (IF Big THEN {Ones(32)} ELSE {})
SQs  == {Zeros(8), Ones(8), <<0, 0, 0, 0, 0, 0, 1, 0>>}
CLs  == {<<0>>, <<255>>}

\* a payload that is itself the fixed part of a body, shifted by one byte
LookAlike == <<0>> \o Pack(BodyLayout, [timestamp |-> <<0, 0, 0, 1>>, nonce |-> Zeros(4), emitterChain |-> <<0, 1>>,
                                         targetChain |-> <<0, 0>>, emitterAddress |-> Ramp(32, 0), sequence |-> Zeros(8),
                                         consistencyLevel |-> <<0>>])
PLs  == {<<>>, <<7>>, Ramp(32, 100), LookAlike}

BodyVals == [timestamp : TSs, nonce : NOs, emitterChain : ECs, targetChain : TCs, emitterAddress : EAs,
             sequence : SQs, consistencyLevel : CLs, payload : PLs]

MkSig(i, a) == [index |-> <<i>>, r |-> Ramp(32, a), s |-> Ramp(32, a + 50), v |-> <<a % 2>>]

\* Everything that is NOT an argument of the signing body: version, set index, signatures, sub-second time.
Headers == [version : {<<1>>, <<0>>, <<255>>}, guardianSetIndex : {Zeros(4), Ones(4)},
            sigs : {<<>>, <<MkSig(0, 1)>>, <<MkSig(0, 1), MkSig(255, 2)>>}, subsec : {0, 1, 999999999}]

Merge(bv, h) == [nm \in DOMAIN bv \cup DOMAIN h |-> IF nm \in DOMAIN h THEN h[nm] ELSE bv[nm]]

\* The case is an index into the enumerated domain (so that the pairwise lemma is cheap to evaluate).
BodySeq == SetToSeq(BodyVals)                                  \* evaluated once
BodyOf  == [i \in 1..Len(BodySeq) |-> Body(BodySeq[i])]        \* evaluated once
HeaderSeq == SetToSeq(Headers)

InitC04 == c \in 1..Len(BodySeq)

C04_Offsets == OffsetsAsStated
C04_LeftInverse == LET v == BodySeq[c] IN ParseBody(Body(v)) = v /\ Len(Body(v)) = PayloadOffset + Len(v.payload)
\* two messages that differ in any body field never share a signing body (nor, H2 being injective, a digest)
C04_Injective == \A j \in 1..Len(BodySeq) : (BodyOf[j] = BodyOf[c] \/ H2(BodyOf[j]) = H2(BodyOf[c])) => BodySeq[j] = BodySeq[c]
C04_HeaderIndependent ==
    LET v == BodySeq[c] IN \A k \in 1..Len(HeaderSeq) : Body(Merge(v, HeaderSeq[k])) = BodyOf[c] /\ Digest(Merge(v, HeaderSeq[k])) = H2(BodyOf[c])
C04_Emit == PrintT(<<"C04", ToJson([v |-> BodySeq[c], body |-> BodyOf[c]])>>)

-----------------------------------------------------------------------------
\* C05 value domain: payload lengths around the suspicious sizes, several signature counts.

PayloadLens == {1, 2, 999, 1000, 1001, 2000} \cup (IF Big THEN {3, 53, 1999, 2001, 4097} ELSE {})
SigCounts   == {0, 1, 3} \cup (IF Big THEN {13, 19, 255} ELSE {})

MkVAA(np, ns, a) ==
    [version |-> <<1>>, guardianSetIndex |-> <<a % 256, 0, 255, (a + 1) % 256>>,
     sigs |-> [k \in 1..ns |-> MkSig((k * 7 + a) % 256, k + a)],
     timestamp |-> <<(96 + a) % 256, 1, 2, 3>>, nonce |-> Ramp(4, a), emitterChain |-> <<0, (a + 2) % 256>>,
     targetChain |-> <<(a + 3) % 256, 0>>, emitterAddress |-> Ramp(32, a), sequence |-> Ramp(8, 200 + a),
     consistencyLevel |-> <<(a * 255) % 256>>, payload |-> Ramp(np, 11 + a)]

VaaVals == {MkVAA(np, ns, a) : np \in PayloadLens, ns \in SigCounts, a \in {0, 255}}

InitC05V == c \in VaaVals

C05V_WellFormed == IsVAA(c)
C05V_RoundTrip  == Decode(Encode(c)) = Ok(c)
C05V_SameDigest == LET d == Decode(Encode(c)) IN d.ok /\ Digest(d.vaa) = Digest(c)
C05V_Length     == /\ Len(Encode(c)) = BodyStart(Len(c.sigs)) + BodyFixed + Len(c.payload)
                   /\ Accept(Len(Encode(c)), c.version[1], Len(c.sigs))
                   /\ PayloadLen(Len(Encode(c)), Len(c.sigs)) = Len(c.payload)
\* Large values are exported through a file (one per case) instead of TLC's standard output.
C05V_File == "export_C05V_" \o ToString(Len(c.payload)) \o "_" \o ToString(Len(c.sigs)) \o "_" \o ToString(c.guardianSetIndex[1]) \o ".json"
C05V_Emit == /\ JsonSerialize(C05V_File, [v |-> c, enc |-> Encode(c)])
             /\ PrintT(<<"C05V", ToJson([file |-> C05V_File])>>)

-----------------------------------------------------------------------------
\* C05 byte-string domain: every truncation / extension / count rewrite / version rewrite of seed encodings.

Seeds == << Encode(MkVAA(1, 0, 5)), Encode(MkVAA(2, 1, 6)), Encode(MkVAA(3, 2, 7)) >>
SeedIdx == 1..Len(Seeds)

Rewrite(e, pos, x) == [e EXCEPT ![pos] = x]
CountPos   == Offset(HeaderLayout, Idx(HeaderLayout, "numSignatures")) + 1
VersionPos == Offset(HeaderLayout, Idx(HeaderLayout, "version")) + 1

ByteCases ==
    UNION { {[src |-> "trunc",   seed |-> k, p |-> n, bytes |-> SubSeq(Seeds[k], 1, n)] : n \in 0..Len(Seeds[k])}
            \cup {[src |-> "extend",  seed |-> k, p |-> x, bytes |-> Seeds[k] \o <<x>>] : x \in {0, 1, 255}}
            \cup {[src |-> "count",   seed |-> k, p |-> n, bytes |-> Rewrite(Seeds[k], CountPos, n)] : n \in 0..255}
            \cup {[src |-> "version", seed |-> k, p |-> x, bytes |-> Rewrite(Seeds[k], VersionPos, x)] : x \in 0..255}
            \cup UNION {{[src |-> "count+trunc", seed |-> k, p |-> 1000 * n + m,
                          bytes |-> SubSeq(Rewrite(Seeds[k], CountPos, n), 1, m)] : m \in CountPos..Len(Seeds[k])} :
                        n \in {0, 1, 2, 3, 255}}
          : k \in SeedIdx }

InitC05B == c \in ByteCases

ByteAt(b, pos) == IF Len(b) >= pos THEN b[pos] ELSE 0

C05B_Canonical == LET d == Decode(c.bytes) IN d.ok => Encode(d.vaa) = c.bytes
C05B_Total == LET d == Decode(c.bytes) IN d = Err \/ (d.ok /\ IsVAA(d.vaa) /\ Len(d.vaa.payload) >= 1)
C05B_ShapeSound ==
    LET b == c.bytes
        d == Decode(b)
        n == ByteAt(b, CountPos)
    IN /\ d.ok <=> Accept(Len(b), ByteAt(b, VersionPos), n)
       /\ d.ok => Len(d.vaa.sigs) = n /\ Len(d.vaa.payload) = PayloadLen(Len(b), n)
C05B_Emit == PrintT(<<"C05B", ToJson([src |-> c.src, seed |-> c.seed, p |-> c.p, bytes |-> c.bytes, dec |-> Decode(c.bytes)])>>)

-----------------------------------------------------------------------------
\* C05 shape lattice: (length, version byte, count byte) around every boundary of the acceptance predicate.

ShapeNs == {0, 1, 2, 13, 19, 254, 255}
Shapes ==
    {[L |-> L, ver |-> v, n |-> n] : L \in {0, 1, 5, 6, 7, 56, 57, 58, 59, 60, 61}, v \in {0, 1, 2, 255}, n \in ShapeNs}
    \cup UNION {{[L |-> BodyStart(n) + BodyFixed + d, ver |-> v, n |-> n] : d \in {0, 1, 2, 999, 1000, 1001, 1002, 2000, 2001},
                 v \in {1, 2}} : n \in ShapeNs}
    \cup {[L |-> BodyStart(n) + BodyFixed - 1, ver |-> 1, n |-> n] : n \in ShapeNs}
    \cup {[L |-> BodyStart(n) - d, ver |-> 1, n |-> n] : d \in {0, 1, 65, 66}, n \in ShapeNs \ {0}}

InitC05S == c \in Shapes

C05S_Boundary ==
    /\ Accept(BodyStart(c.n) + BodyFixed + 1, SupportedVersion, c.n)
    /\ ~Accept(BodyStart(c.n) + BodyFixed, SupportedVersion, c.n)
    /\ Accept(c.L, c.ver, c.n) => Accept(c.L + 1, c.ver, c.n) /\ PayloadLen(c.L + 1, c.n) = PayloadLen(c.L, c.n) + 1
    /\ Accept(c.L, c.ver, c.n) => PayloadLen(c.L, c.n) >= 1
    /\ c.ver # SupportedVersion => ~Accept(c.L, c.ver, c.n)
C05S_Emit == PrintT(<<"C05S", ToJson([L |-> c.L, ver |-> c.ver, n |-> c.n, accept |-> Accept(c.L, c.ver, c.n),
                                      plen |-> IF Accept(c.L, c.ver, c.n) THEN PayloadLen(c.L, c.n) ELSE 0])>>)

-----------------------------------------------------------------------------
\* Tables printed once (the contract extractor and the harness read them).
ASSUME PrintT(<<"LAYOUT", ToJson([header |-> Table(HeaderLayout), sig |-> Table(SigLayout), body |-> Table(BodyLayout),
                                  headerLen |-> HeaderLen, sigWidth |-> SigWidth, bodyFixed |-> BodyFixed,
                                  payloadOffset |-> PayloadOffset, version |-> SupportedVersion,
                                  hash |-> "keccak256(keccak256(body))"])>>)
ASSUME PrintT(<<"HEADERS", ToJson(HeaderSeq)>>)
=============================================================================
