\* Thorough tier, part 4: the log hand-over is not atomic - heads are published, polled and scanned between LogReceived and PendingStored.
SPECIFICATION MCSpec
CONSTANTS
  Nil = Nil
  WScaled = 3
  Jumps = {1, 2, 3, 4}
  Lag = 2
  Modes = {TRUE, FALSE}
  CLs = {0, 1}
  MineBack = 0
  ArmKinds = {"hreceipt"}
  RemineStatus = {1}
  MidScanHeads = FALSE
  HeldIntake = TRUE
  MaxHeads = 4
  MaxMine = 1
  MaxPush = 2
  MaxReorg = 1
  MaxRemine = 0
  MaxDrop = 0
  MaxFail = 0
  MaxArm = 1
  MaxReq = 0
  MaxRestart = 0
INVARIANTS
  TypeOK
  ForwardSound
  AtMostOnce
  ExactlyOnce
PROPERTIES
  AbandonOnlyAfterWindow
  DropOrphans
  NoForwardOfOrphan
CHECK_DEADLOCK FALSE
