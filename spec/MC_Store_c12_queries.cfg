SPECIFICATION MCSpec
CONSTANTS
  Nil = Nil
  GovChain = 1
  GovEm = "g"
  Terminated = TRUE
  Chains = {2, 4, 25, 255}
  EmNames = {"a", "c"}
  Seqs = {0, 1, 10}
  Tags = {"v1", "v2"}
  QSets = {{0}, {1, 10}, {0, 1, 10}}
  MaxIds = 2
  WithQueries = TRUE
  WithCrash = FALSE
VIEW View
INVARIANTS
  GetExact
  ScanSelectsStream
  GapIsolated
  BatchIsolated
  NeverForeignBytes
PROPERTIES
  ViewsAgree
  QueriesReadOnly
  NeverForeignRead
  AckedReadBack
  BackfillReportsPostGaps
CHECK_DEADLOCK FALSE
