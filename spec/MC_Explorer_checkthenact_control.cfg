SPECIFICATION MCSpec
CONSTANTS
  Nil = Nil
  Locked = TRUE
  CheckUnderLock = FALSE
  MaxCallsR1 = 0
  MaxCallsR2 = 0
  KindsR1 = {"lookup", "current"}
  KindsR2 = {"lookup", "current"}
  MaxAppends = 1
  NUpdaters = 2
  VaaNames = {}
INVARIANTS
  ListIsChainPrefix
CHECK_DEADLOCK FALSE
