---------------------------- MODULE Gen_EvmWatcher ----------------------------
(* Scenario generator: MC_EvmWatcher with a history variable, run under       *)
(* `tlc -simulate`.  Every behaviour that reaches GenDepth is printed as JSON; *)
(* lib/fam_evm.py keeps the environment actions, the pushed logs and the      *)
(* re-observation requests (with their position relative to the watcher's     *)
(* calls) and replays them against the real Watcher.Run.                      *)
EXTENDS MC_EvmWatcher, Json

CONSTANT GenDepth
VARIABLE hist

gvars == <<mcvars, hist>>

Rec(ev, a) == hist' = Append(hist, [ev |-> ev, a |-> a])
W(ev) == Rec(ev, [x |-> 0])

GenInit == MCInit /\ hist = <<>>

GChainChange ==
    \/ \E n \in {m \in 1..latest : TxsIn(Canon(m)) # {} /\ (cfg.fin => m > final)} : E_Reorg(n) /\ Bump("reorg") /\ Rec("Reorg", [n |-> n])
    \/ \E tx \in DOMAIN txs, n \in Heights, st \in RemineStatus : E_Remine(tx, n, st) /\ Bump("remine") /\ Rec("Remine", [tx |-> tx, n |-> n, status |-> st])
    \/ \E tx \in DOMAIN rcpt : E_Drop(tx) /\ Bump("drop") /\ Rec("DropReceipt", [tx |-> tx])
    \/ \E tx \in DOMAIN rcpt : E_Fail(tx) /\ Bump("fail") /\ Rec("FailTx", [tx |-> tx])

GHeadChange == \E j \in Jumps : E_NewHead(latest + j, latest + j - Lag) /\ Bump("head") /\ Rec("NewHead", [latest |-> latest + j, final |-> latest + j - Lag])

GenNext ==
    \/ Quiet /\ ((DOMAIN txs # {} /\ GHeadChange) \/ GChainChange)
    \/ Quiet /\ \E k \in ArmKinds : E_Arm(k) /\ Bump("arm") /\ Rec("Arm", [kind |-> k])
    \/ Quiet /\ \E t \in TxUniverse, n \in Heights : E_Mine(t[1], n, 1, t[2]) /\ Bump("mine") /\ Rec("Mine", [tx |-> t[1], n |-> n, status |-> 1, logs |-> t[2]])
    \/ MidScan /\ (GChainChange \/ (MidScanHeads /\ GHeadChange))
    \/ MidReobs /\ (GHeadChange \/ GChainChange)
    \/ MidIntake /\ (GHeadChange \/ GChainChange)
    \/ Quiet /\ \E tx \in DOMAIN rcpt : \E i \in 1..Len(txs[tx]) : PushLog(tx, i, IsMsg(txs[tx][i])) /\ Bump("push") /\ Rec("PushLog", [tx |-> tx, i |-> i])
    \/ lq # Nil /\ (HeldIntake => hs = Nil /\ Len(hq) = 0) /\ L_BlockTime(lq.e.blk) /\ UNCHANGED cnt /\ W("L_BlockTime")
    \/ Quiet /\ RunRestart(Tag) /\ Bump("restart") /\ Rec("Restart", [via |-> "any"])
    \/ L_Insert /\ UNCHANGED cnt /\ W("L_Insert")
    \/ rs = Nil /\ IntakeOK /\ (HeadFor(Tag) > pl \/ Fails("poll")) /\ Len(hq) < 2 /\ B_Poll(Tag) /\ UNCHANGED cnt /\ W("B_Poll")
    \/ rs = Nil /\ IntakeOK /\ Len(hq) > 0 /\ H_Head(Head(hq)) /\ UNCHANGED cnt /\ W("H_Head")
    \/ \E e \in pending : H_Receipt(e) /\ UNCHANGED cnt /\ W("H_Receipt")
    \/ hs # Nil /\ hs.fwd # Nil /\ H_Forward(hs.fwd.e) /\ UNCHANGED cnt /\ W("H_Forward")
    \/ \E A \in SUBSET Abandonable : H_Done(A) /\ UNCHANGED cnt /\ W("H_Done")
    \/ Quiet /\ \E tx \in DOMAIN txs \cup {"tz"} : R_Req(tx) /\ Bump("req") /\ Rec("Reobserve", [tx |-> tx])
    \/ R_Head(Tag) /\ UNCHANGED cnt /\ W("R_Head")
    \/ rs # Nil /\ R_Receipt(rs.tx) /\ UNCHANGED cnt /\ W("R_Receipt")
    \/ rs # Nil /\ rs.st = "time" /\ R_BlockTime(rs.blk) /\ UNCHANGED cnt /\ W("R_BlockTime")
    \/ rs # Nil /\ rs.st = "fwd" /\ R_Forward(Head(rs.msgs)) /\ UNCHANGED cnt /\ W("R_Forward")

GenSpec == GenInit /\ [][GenNext]_gvars

Emit == (Len(hist) = GenDepth) => PrintT(<<"SCN", ToJson([fin |-> cfg.fin, W |-> cfg.W, latest |-> 1 + Lag, hist |-> hist])>>)
=============================================================================
