SPECIFICATION TGSpec
CONSTANTS
  Nil = Nil
  Cap = 15
INVARIANTS
  CapHolds
CONSTRAINT FinishedG
CHECK_DEADLOCK FALSE
