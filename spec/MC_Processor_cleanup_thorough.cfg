SPECIFICATION MCSpec
CONSTANTS
  Nil = Nil
  Self = "g1"
  RetryBudget = 2
  SettleT = 1
  RetryT = 3
  DoneT = 7
  MaxUpd = 1
  MaxBad = 0
  MaxLocal = 2
  MaxInbound = 1
  MaxTime = 660
  Faults = TRUE
  MaxRestart = 1
  UseFourth = FALSE
  SetIdxs = {0}
  TimeSteps = {1, 2, 3, 7}
VIEW View
INVARIANTS
  TypeOK
  StoredValid
  PublishAsSoonAs
  SubmittedMeansStored
  SignersAreMembers
PROPERTIES
  BroadcastValid
  NoPeerOverwrite
  StoreNeverShrinks
  NoPublishWithoutObservation
  AtMostOncePerLifetime
  SubmittedSticky
  NoEarlyDiscard
  RetryCadence
  BoundedLife
  RetryOnlyWhenDue
  InvalidObservationNoEffect
CHECK_DEADLOCK FALSE
