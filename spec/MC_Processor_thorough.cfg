SPECIFICATION MCSpec
CONSTANTS
  Nil = Nil
  Self = "g1"
  RetryBudget = 2
  SettleT = 30
  RetryT = 300
  DoneT = 3600
  MaxUpd = 2
  MaxBad = 2
  MaxLocal = 2
  MaxInbound = 1
  MaxTime = 660
  Faults = TRUE
  MaxRestart = 1
  UseFourth = TRUE
  SetIdxs = {0, 1, 2, 3}
  TimeSteps = {}
VIEW View
INVARIANTS
  TypeOK
  StoredValid
  PublishAsSoonAs
  SubmittedMeansStored
  SignersAreMembers
PROPERTIES
  BroadcastValid
  NoPeerOverwrite
  StoreNeverShrinks
  NoPublishWithoutObservation
  AtMostOncePerLifetime
  SubmittedSticky
  NoEarlyDiscard
  RetryCadence
  BoundedLife
  RetryOnlyWhenDue
  InvalidObservationNoEffect
CHECK_DEADLOCK FALSE
