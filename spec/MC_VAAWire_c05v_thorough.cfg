INIT InitC05V
NEXT NoNext
CONSTANTS
  Big = TRUE
INVARIANTS
  C05V_WellFormed
  C05V_RoundTrip
  C05V_SameDigest
  C05V_Length
  C05V_Emit
CHECK_DEADLOCK FALSE
