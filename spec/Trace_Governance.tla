--------------------------- MODULE Trace_Governance ---------------------------
(* Trace validation for C15.  Each line records one governance request (in    *)
(* the abstract form of Governance.tla, as the harness built it) and what the *)
(* real code did with it: InjectGovernanceVAA on two independent service      *)
(* instances and the conversion function called directly.  For every call the *)
(* harness logs the outcome class (vaa | reject | panic) and, for a VAA, the  *)
(* emitter, target chain, sequence, nonce, timestamp, guardian set index,     *)
(* payload bytes, the digest the node returned and the digest the harness     *)
(* computed itself from those fields.  A line is accepted iff every call's    *)
(* outcome is one the specification allows for that request and all calls     *)
(* agree (the construction is a function of the request only).                *)
EXTENDS Governance, Json

VARIABLES l, rej

Trace == ndJsonDeserialize("trace.ndjson")
tvars == <<l, rej>>

IsVaa(c) == c.class = "vaa"
CallTags(r, cfg, c) ==
    IF c.class = "reject" THEN {}
    ELSE IF c.class = "panic" THEN {"panic"}
    ELSE IF ~IsVaa(c) THEN {"outcome-" \o c.class}
    ELSE IF ~Representable(r) THEN {"accepted-unrepresentable"}
    ELSE (IF HeaderOK(r, cfg, c.vaa) THEN {} ELSE {"header"})
         \cup (IF PayloadOK(r, c.vaa.payload) THEN {} ELSE {"payload"})
         \cup (IF c.vaa.digest = c.vaa.own THEN {} ELSE {"digest"})

Same(c1, c2) == c1.class = c2.class /\ (IsVaa(c1) => c1.vaa = c2.vaa)
Pure(calls) == \A i, j \in 1..Len(calls) : Same(calls[i], calls[j])

Tags(ln) ==
    UNION {CallTags(ln.a.req, ln.a.cfg, ln.s.calls[i]) : i \in 1..Len(ln.s.calls)}
    \cup (IF Pure(ln.s.calls) THEN {} ELSE {"impure"})

Step ==
    /\ l <= Len(Trace)
    /\ LET ln == Trace[l]  tags == Tags(ln) IN
        IF tags = {}
        THEN rej' = rej
        ELSE /\ PrintT(<<"REJECT", ToJson([t |-> ln.t, n |-> ln.n, ev |-> ln.ev, kind |-> ln.a.req.kind, tags |-> tags,
                                            unfit |-> Unfit(ln.a.req),
                                            expect |-> IF Representable(ln.a.req) THEN "vaa of " \o ToString(Size(ln.a.req)) \o " payload bytes, or reject" ELSE "reject"])>>)
             /\ rej' = Append(rej, <<ln.t, ln.n>>)
    /\ l' = l + 1

TraceInit == l = 1 /\ rej = <<>>
TraceSpec == TraceInit /\ [][Step]_tvars

Finished == (l = Len(Trace) + 1) => PrintT(<<"FINISHED", ToJson([lines |-> Len(Trace), rejected |-> rej])>>)
=============================================================================
