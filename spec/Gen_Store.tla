------------------------------ MODULE Gen_Store ------------------------------
(* Scenario generator for C12: MC_Store with a history variable, run under    *)
(* `tlc -simulate`; every behaviour that reaches depth GenDepth is printed as *)
(* JSON and replayed on a real Badger store through db.Database, the public   *)
(* RPC server and the admin service.  TLC's simulator picks uniformly among   *)
(* successor states, so each kind of call offers only a few randomly drawn    *)
(* parameter values per step (queries near the stored identifiers: same       *)
(* emitter, other target chains / sequences).                                 *)
EXTENDS MC_Store, Json, Randomization

CONSTANT GenDepth
VARIABLE hist

gvars == <<vars, hist>>

Rec(ev, a) == hist' = Append(hist, [ev |-> ev, a |-> a])

Min(a, b) == IF a < b THEN a ELSE b
Pick(k, S) == IF S = {} THEN {} ELSE RandomSubset(Min(k, Cardinality(S)), S)

\* identifiers / streams that could be confused with a stored one
NearIds == {[ec |-> p[1], em |-> p[2], tc |-> c, seq |-> j.seq] : j \in DOMAIN vaas, p \in EmPairs, c \in Chains}
           \cup {[j EXCEPT !.seq = q] : j \in DOMAIN vaas, q \in Seqs}
NearStreams == {[ec |-> p[1], em |-> p[2], tc |-> c] : p \in {<<j.ec, j.em>> : j \in DOMAIN vaas}, c \in Chains}
\* new identifiers preferably land near the stored ones (same emitter), so streams fill up and collide
StoreChoices == Pick(3, VaaUniverse) \cup Pick(3, {[id |-> i, tag |-> t] : i \in NearIds, t \in Tags})

GenInit == Init /\ hist = <<>>

GenNext ==
    \/ \E v \in StoreChoices :
          /\ (v.id \in DOMAIN written \/ Cardinality(DOMAIN written) < MaxIds)
          /\ Store(v) /\ Rec("Store", [v |-> v])
    \/ \E i \in Pick(2, NearIds) \cup Pick(1, IdUniverse) : Get(i) /\ Rec("Get", [id |-> i])
    \/ \E st \in Pick(3, NearStreams) \cup Pick(1, StreamUniverse) : Gap(st) /\ Rec("Gap", [st |-> st])
    \/ \E q \in Pick(1, QSets) : GovBatch(q) /\ Rec("GovBatch", [seqs |-> q])
    \/ \E st \in Pick(2, NearStreams), q \in Pick(1, QSets) : NonGovBatch(st, q) /\ Rec("NonGovBatch", [st |-> st, seqs |-> q])

GenSpec == GenInit /\ [][GenNext]_gvars

Emit == (Len(hist) = GenDepth) => PrintT(<<"SCN", ToJson(hist)>>)
=============================================================================
