---------------------------- MODULE MC_Reobserve ----------------------------
(* Bounded instance of Reobserve.tla for exhaustive TLC runs, composed with   *)
(* the router ALGORITHM at the code's grain:                                  *)
(*                                                                            *)
(*   cache    the router's map (chain, tx) -> time of the forward             *)
(*   ticker   created by the router at time 0 with period P on the mock       *)
(*            clock: the mock's Add(d) walks through every multiple of P in   *)
(*            (now, now+d], sets its clock to that instant, offers the tick   *)
(*            to a 1-slot channel WITHOUT blocking (a tick offered while the  *)
(*            slot is taken is lost) and finally sets the clock to now+d.     *)
(*   purge    the router takes the tick from the slot and reads the clock     *)
(*            (whatever it shows at that moment: the tick instant or any      *)
(*            later instant the concurrent Add has reached), deleting every   *)
(*            entry whose age at that reading is > W.                         *)
(*   request  lookup in cache -> duplicate; unknown chain -> drop; queue      *)
(*            full -> drop; else enqueue and remember.                        *)
(*                                                                            *)
(* The steps of Add (ClockStep) and the router's purge (PurgeStep) interleave *)
(* freely, which yields every phase between ticker and requests and every     *)
(* coalescing of ticks a long Add can produce.  Requests are issued when the  *)
(* Add has returned and the tick slot is empty (the harness's rendezvous).    *)
(*                                                                            *)
(* TLC checks that every outcome the algorithm can produce is one the         *)
(* specification allows (ImplAllowed) and the five properties of C17 on the   *)
(* composed behaviour.                                                        *)
EXTENDS Reobserve

CONSTANTS Nil, Chains, Unknown, Txs, Cap, OutCap, TimeSteps, MaxFwd, WithPost

VARIABLES cache,    \* the router's map
          buf,      \* the ticker channel's slot: Nil or the instant of the buffered tick
          target,   \* Nil, or the instant the Add in progress will end at
          nfwd      \* forwards so far (bounds the histories: at most MaxFwd forwards, any number of dropped requests)

mcvars == <<vars, cache, buf, target, nfwd>>

ReqChains == Chains \cup Unknown
Caps == [c \in Chains |-> Cap]
Empty == [c \in Chains |-> <<>>]

Quiescent == target = Nil /\ buf = Nil

ImplFwd(c, tx) ==
    /\ <<c, tx>> \notin DOMAIN cache
    /\ c \in DOMAIN cap
    /\ Len(q[c]) < cap[c]

MCInit ==
    /\ now = 0 /\ cap = Caps /\ q = Empty /\ last = <<>> /\ outcap = OutCap /\ outq = <<>>
    /\ ev = [n |-> 0, kind |-> "Setup", c |-> "", tx |-> "", fwd |-> FALSE, ok |-> FALSE]
    /\ cache = <<>> /\ buf = Nil /\ target = Nil /\ nfwd = 0

MCRequest(c, tx) ==
    /\ Quiescent
    /\ ImplFwd(c, tx) => nfwd < MaxFwd
    /\ nfwd' = IF ImplFwd(c, tx) THEN nfwd + 1 ELSE nfwd
    /\ LET f == ImplFwd(c, tx) IN
        /\ Request(c, tx, f)
        /\ cache' = IF f THEN (<<c, tx>> :> now) @@ cache ELSE cache
    /\ UNCHANGED <<buf, target>>

MCDrain(c) == Quiescent /\ Drain(c) /\ UNCHANGED <<cache, buf, target, nfwd>>

MCPost == WithPost /\ Quiescent /\ Post("r", Len(outq) < outcap) /\ UNCHANGED <<cache, buf, target, nfwd>>
MCDrainOut == WithPost /\ Quiescent /\ DrainOut /\ UNCHANGED <<cache, buf, target, nfwd>>

StartAdd(dt) ==
    /\ Quiescent
    /\ target' = now + dt
    /\ UNCHANGED <<vars, cache, buf, nfwd>>

NextTick == ((now \div P) + 1) * P

\* one iteration of the loop inside the mock clock's Add
ClockStep ==
    /\ target # Nil
    /\ IF NextTick <= target
         THEN /\ Advance(NextTick - now)
              /\ buf' = IF buf = Nil THEN NextTick ELSE buf
              /\ UNCHANGED target
         ELSE /\ Advance(target - now)
              /\ target' = Nil
              /\ UNCHANGED buf
    /\ UNCHANGED <<cache, nfwd>>

\* the router's `case <-ticker.C` branch
PurgeStep ==
    /\ buf # Nil
    /\ cache' = [p \in {x \in DOMAIN cache : ~(now - cache[x] > W)} |-> cache[p]]
    /\ buf' = Nil
    /\ UNCHANGED <<vars, target, nfwd>>

MCNext ==
    \/ \E c \in ReqChains, tx \in Txs : MCRequest(c, tx)
    \/ \E c \in Chains : MCDrain(c)
    \/ MCPost \/ MCDrainOut
    \/ \E dt \in TimeSteps : StartAdd(dt)
    \/ ClockStep
    \/ PurgeStep

MCSpec == MCInit /\ [][MCNext]_mcvars

----------------------------------------------------------------------------
\* Refinement: whatever the algorithm would do with any request now, the specification allows it.
ImplAllowed ==
    Quiescent => \A c \in ReqChains, tx \in Txs :
        IF ImplFwd(c, tx) THEN CanForward(c, tx) ELSE CanDrop(c, tx)

\* The router's cache never remembers something that was not forwarded at that instant.
CacheIsMemoryOfForwards == \A p \in DOMAIN cache : p \in DOMAIN last /\ cache[p] = last[p]

NeverBlocks == (\A c \in ReqChains, tx \in Txs : NeverBlocksFor(c, tx)) /\ PostTotal

MCTypeOK == TypeOK /\ (buf = Nil \/ buf \in Nat) /\ (target = Nil \/ target \in Nat)

\* Time is unbounded.  States are identified up to what the future can depend on: the phase of the ticker
\* (now mod P), ages capped just beyond W + P (older entries behave alike), the remaining length of the Add in
\* progress and whether a tick is buffered.  ev is history only (action properties are evaluated on every
\* generated transition, before states are identified by the view).
CapAge(a) == IF a > W + P THEN W + P + 1 ELSE a
View == <<now % P, q, outq, [p \in DOMAIN last |-> CapAge(now - last[p])],
          [p \in DOMAIN cache |-> CapAge(now - cache[p])], buf # Nil,
          IF target = Nil THEN -1 ELSE target - now, nfwd>>
=============================================================================
