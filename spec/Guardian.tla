------------------------------ MODULE Guardian ------------------------------
(***************************************************************************)
(* Composition inside one guardian node (growth beyond the listed          *)
(* properties, DESIGN.md section 6): the path of a re-observation request  *)
(* from gossip to a chain watcher.                                         *)
(*                                                                         *)
(*   pubsub message --P2PLoop!NetRecv--> (decodes, not the node's own,     *)
(*                    a request, Gossip!ObsReq accepts) verified request   *)
(*                  --Reobserve!Request--> queue of the watcher of the     *)
(*                                         chain it names                  *)
(*   own request (cleanup retry) --P2PLoop!LocalReq--> the same router,    *)
(*                    once, plus a signed publication                      *)
(*                                                                         *)
(* Both components are the modules that are bound to the code by their own *)
(* trace specifications (Trace_Gossip, Trace_Reobserve); this module only  *)
(* composes their actions and states the end-to-end property.  TLC only.   *)
(***************************************************************************)
EXTENDS Integers, Sequences, FiniteSets, TLC

CONSTANTS Nil, Cap, Self,   \* Gossip / P2PLoop
          W, P              \* Reobserve

VARIABLES gs, hb, fwd, obsQ, vaaQ, pub,             \* Gossip / P2PLoop
          now, cap, q, last, outcap, outq, ev,      \* Reobserve
          accepted                                  \* history: requests the verifier accepted

G == INSTANCE P2PLoop
R == INSTANCE Reobserve

gvars == <<gs, hb, fwd, obsQ, vaaQ, pub>>
rvars == <<now, cap, q, last, outcap, outq, ev>>
allvars == <<gvars, rvars, accepted>>

GuardianInit(caps) ==
    /\ G!LInit
    /\ now = 0 /\ cap = caps /\ q = [c \in DOMAIN caps |-> <<>>] /\ last = <<>> /\ outcap = 1 /\ outq = <<>>
    /\ ev = [n |-> 0, kind |-> "Setup", c |-> "", tx |-> "", fwd |-> FALSE, ok |-> FALSE]
    /\ accepted = {}

SetUpdate(S) == G!LSetUpdate(S) /\ UNCHANGED <<rvars, accepted>>

\* A gossiped re-observation request: verified, and only then handed to the router (p2p.Run sends the verified
\* request on obsvReqC; handleReobservationRequests takes it from there).
GossipRequest(e) ==
    /\ G!ObsReq(e) /\ G!Quiet
    /\ IF G!Acceptable(e)
       THEN /\ accepted' = accepted \cup {e.req}
            /\ \E f \in BOOLEAN : R!Request(e.req.chain, e.req.tx, f)
       ELSE UNCHANGED <<rvars, accepted>>

\* The same through the receive loop: any pubsub message; only what the loop puts on the router's channel goes on.
NetMessage(m) ==
    /\ G!NetRecv(m, FALSE)
    /\ IF fwd' # <<>>
       THEN /\ accepted' = accepted \cup {fwd'[1]}
            /\ \E f \in BOOLEAN : R!Request(fwd'[1].chain, fwd'[1].tx, f)
       ELSE UNCHANGED <<rvars, accepted>>

\* The node's own request (a cleanup retry of the processor): looped back to its own router once, published signed.
own == "own"
OwnRequest(r, plen) ==
    /\ G!LocalReq(r, plen)
    /\ accepted' = accepted \cup {r}
    /\ \E f \in BOOLEAN : R!Request(r.chain, r.tx, f)

Heartbeat(e, st) == G!Heartbeat(e, st) /\ G!Quiet /\ UNCHANGED <<rvars, accepted>>
Tick(dt) == R!Advance(dt) /\ UNCHANGED <<gvars, accepted>>
WatcherTakes(c) == R!Drain(c) /\ UNCHANGED <<gvars, accepted>>

\* End to end: whatever waits in (or was just put into) a watcher's queue was accepted by the gossip verifier, i.e.
\* signed by a guardian of the set current at that time under the request prefix, and sits in the queue of the
\* chain it names.
OnlyVerifiedRequestsReachWatchers ==
    \A c \in DOMAIN q : \A i \in 1..Len(q[c]) :
        /\ q[c][i].chain = c
        /\ [chain |-> q[c][i].chain, tx |-> q[c][i].tx] \in accepted
=============================================================================
