SPECIFICATION MCSpec
CONSTANTS
  Nil = Nil
  GovChain = 1
  GovEm = "g"
  Terminated = TRUE
  Chains = {1, 2, 4, 10, 17, 25, 42, 255, 10001}
  EmNames = {"a", "b"}
  Seqs = {0, 1, 2, 5, 10, 12}
  Tags = {"v1"}
  QSets = {{0}, {1, 10}, {2, 5, 12}, {0, 1, 2, 5, 10, 12}}
  MaxIds = 3
  WithQueries = FALSE
  WithCrash = FALSE
VIEW View
INVARIANTS
  GetExact
  ScanSelectsStream
  GapIsolated
  BatchIsolated
  NeverForeignBytes
PROPERTIES
  ViewsAgree
  QueriesReadOnly
  NeverForeignRead
  AckedReadBack
CHECK_DEADLOCK FALSE
