INIT InitC06
NEXT NextC06
CONSTANTS
  Big = FALSE
  MaxAddrs = 4
INVARIANTS
  C06_VerifyImpliesDistinct
  C06_VerifyBoundsLength
  C06_Valid
  C06_Order
  C06_CorruptionFails
  C06_NoDoubleCount
  C06_Oracle
  C06_FastForms
  C06_Emit
CHECK_DEADLOCK FALSE
