--------------------------- MODULE Trace_Explorer ---------------------------
(* Trace validation for C19: executions recorded from the real GuardianSets / vaaGossipConsumer.Push            *)
(* (harness/explorer/*.go) are checked against Explorer.tla with the intended synchronisation (Locked = TRUE).   *)
(* The harness logs calls and returns; the memory accesses and critical sections inside a call are silent steps  *)
(* that TLC infers, so a concurrent log (the hammer) is accepted iff it is linearizable in the sense of the       *)
(* specification, and a sequential log iff every call has exactly the specified result and effect.               *)
(* Traces are concatenated ("Reset" + "Init" lines start each one) and explored from separate initial states;     *)
(* the furthest line explained per trace is kept in a TLC register (one worker) and reported at the end.          *)
EXTENDS Explorer, Json

CONSTANT Level   \* 1, 2 or 3: how much of the schedule of the silent steps is explored (see TraceNext)

VARIABLE l

Trace == ndJsonDeserialize("trace.ndjson")
N     == Len(Trace)
tvars == <<vars, l>>

Starts == {i \in 1..N : Trace[i].ev = "Reset"}
AtEnd  == l > N \/ Trace[l].ev = "Reset"
Tr     == Trace[l - 1].t

ToSet(sq) == {sq[i] : i \in 1..Len(sq)}
LSet(x)  == [idx |-> x.idx, keys |-> x.keys]
LVaa(v)  == [id |-> v.id, setIdx |-> v.setIdx,
             sigs |-> [i \in 1..Len(v.sigs) |-> [idx |-> v.sigs[i].idx, signer |-> v.sigs[i].signer]]]

ResMatches(pr, res) ==
    CASE res.tag = "set" -> pr.res.tag = "set" /\ pr.res.set = LSet(res.set)
      [] res.tag = "err" -> pr.res.tag = "err"
      [] OTHER           -> FALSE                       \* a panic inside the call is explained by nothing

\* projected state logged with the line (absent in concurrent phases): index and list read under the structure's lock
ListMatches(s) ==
    ("cur" \in DOMAIN s) =>
        /\ cur = s.cur /\ Len(list) = s.n
        /\ \A i \in 1..Len(list) : list[i].idx = s.idxs[i] /\ Len(list[i].keys) = s.nkeys[i]
QueueMatches(s) ==
    /\ ("queue" \in DOMAIN s) =>
           /\ [i \in 1..Len(queue) |-> queue[i].id] = s.queue
           /\ marked = ToSet(s.marked)
    /\ ("curIdx" \in DOMAIN s) =>                 \* what GetCurrentGuardianSet returns at that moment
           /\ cur = s.curIdx /\ cur + 1 <= Len(list) /\ list[cur + 1].idx = cur /\ Len(list[cur + 1].keys) = s.curKeys

OutClass(o) == IF o \in {"invalid", "lookup-failed", "full"} THEN "error" ELSE o

AllIdle == \A p \in DOMAIN proc : proc[p].pc = "idle"

InitLine(a) ==
    /\ chain' = [i \in 1..Len(a.chain) |-> LSet(a.chain[i])]
    /\ top' = a.top
    /\ list' = [i \in 1..a.n0 |-> LSet(a.chain[i])]
    /\ cur' = a.n0 - 1
    /\ lock' = Nil /\ qcap' = a.qcap /\ queue' = <<>> /\ marked' = {} /\ enq' = {} /\ proc' = <<>>

Same == UNCHANGED vars

Logged(ln) ==
    CASE ln.ev = "Init"        -> InitLine(ln.a)
      [] ln.ev = "ChainGrow"   -> ChainGrow /\ top' = ln.a.top
      [] ln.ev = "LookupCall"  -> LookupCall(ln.a.p, ln.a.i)
      [] ln.ev = "CurrentCall" -> CurrentCall(ln.a.p)
      [] ln.ev = "AppendCall"  -> AppendCall(ln.a.p, ln.a.lo, ln.a.hi)
      [] ln.ev = "PushCall"    -> PushCall(ln.a.p, LVaa(ln.a.v))
      [] ln.ev = "LookupRet"   -> /\ Pr(ln.a.p).pc = "ret" /\ Pr(ln.a.p).kind = "lookup"
                                  /\ ResMatches(proc[ln.a.p], ln.a.res) /\ ListMatches(ln.s) /\ QueueMatches(ln.s)
                                  /\ LookupRet(ln.a.p)
      [] ln.ev = "CurrentRet"  -> /\ Pr(ln.a.p).pc = "ret" /\ Pr(ln.a.p).kind = "current"
                                  /\ ResMatches(proc[ln.a.p], ln.a.res) /\ ListMatches(ln.s)
                                  /\ LookupRet(ln.a.p)
      [] ln.ev = "AppendRet"   -> /\ Pr(ln.a.p).pc = "ret" /\ Pr(ln.a.p).kind = "append" /\ "panic" \notin DOMAIN ln.a
                                  /\ ListMatches(ln.s)
                                  /\ LookupRet(ln.a.p)
      [] ln.ev = "PushRet"     -> /\ Pr(ln.a.p).pc = "pret" /\ OutClass(proc[ln.a.p].out) = ln.a.out
                                  /\ QueueMatches(ln.s)
                                  /\ PushRet(ln.a.p)
      [] ln.ev = "Drain"       -> queue # <<>> /\ Head(queue).id = ln.a.id /\ Drain
      [] ln.ev = "State"       -> AllIdle /\ ListMatches(ln.s) /\ Same
      \* a tick of the periodic updater whose fetch failed: only if the node really failed a call, and nothing changes
      [] ln.ev = "TickFailed"  -> ln.a.node_failures > 0 /\ AllIdle /\ ListMatches(ln.s) /\ Same
      \* results of the free-running hammer phase: only what holds regardless of the interleaving (RightSet)
      [] ln.ev = "FreeRet"     ->
            /\ \/ ln.a.res.tag = "err"
               \/ /\ ln.a.res.tag = "set"
                  /\ ln.a.res.set.idx >= 0 /\ ln.a.res.set.idx <= ln.a.top /\ ln.a.res.set.idx + 1 <= Len(chain)
                  /\ LSet(ln.a.res.set) = chain[ln.a.res.set.idx + 1]
                  /\ (ln.a.kind = "lookup" => ln.a.res.set.idx = ln.a.i)
            /\ Same
      [] OTHER                 -> FALSE

Silent == \E p \in DOMAIN proc : Internal(p)

TraceInit ==
    /\ chain = <<>> /\ top = -1 /\ list = <<>> /\ cur = -1 /\ lock = Nil /\ qcap = 0 /\ queue = <<>> /\ marked = {}
    /\ enq = {} /\ proc = <<>>
    /\ \E i \in Starts : l = i + 1 /\ TLCSet(Trace[i].t, i + 1)

\* How much of the schedule of the silent steps is explored (constant Level):
\*   3  everything: the internal steps of concurrent calls interleave freely;
\*   2  every call takes effect atomically at some moment between its Call and its Ret line (the usual
\*      linearizability search): once a process has taken the first internal step of a call, only that process moves
\*      until the call's result is determined;
\*   1  in addition a call takes effect only immediately before its own Ret line.
\* Every explanation found at a lower level is one of the unrestricted specification.  lib/fam_explorer.py validates at
\* level 1 first and repeats the traces that stay unexplained at level 2, then (histories at most 3 calls wide) 3.
\* Level 2 loses nothing for the specification with Locked and CheckUnderLock: the list is append-only and only the
\* append's critical section changes shared state, so a call that misses, fetches, appends and reads again has the
\* result and effect of the same call done atomically at its append (at its first read if the fetch fails).
RetEvs == {"LookupRet", "CurrentRet", "AppendRet", "PushRet"}
Done(pr)       == pr.pc = "idle" \/ pr.pc = "pret" \/ (pr.pc = "ret" /\ pr.kind # "push")
NotStarted(pr) == (pr.pc = "rd1" /\ ~pr.second) \/ (pr.pc = "ap1" /\ pr.kind = "append")
Mid(p)         == ~Done(proc[p]) /\ ~NotStarted(proc[p])
MayStart(p)    == Level > 1 \/ (Trace[l].ev \in RetEvs /\ Trace[l].a.p = p)

TraceNext ==
    /\ ~AtEnd
    /\ IF Level < 3 /\ \E p \in DOMAIN proc : Mid(p)
       THEN (\E p \in DOMAIN proc : Mid(p) /\ Internal(p)) /\ UNCHANGED l
       ELSE \/ Logged(Trace[l]) /\ l' = l + 1
            \/ (\E p \in DOMAIN proc : (Level = 3 \/ ~NotStarted(proc[p]) \/ MayStart(p)) /\ Internal(p)) /\ UNCHANGED l

TraceSpec == TraceInit /\ [][TraceNext]_tvars

Mark == (TLCGet(Tr) < l) => TLCSet(Tr, l)

Post ==
    /\ \A i \in Starts : PrintT(<<"HW", Trace[i].t, i, TLCGet(Trace[i].t)>>)
    /\ PrintT(<<"FINISHED", ToJson([lines |-> N, traces |-> Cardinality(Starts)])>>)
=============================================================================
