------------------------------ MODULE EvmChain ------------------------------
(***************************************************************************)
(* A simulated EVM JSON-RPC node, as seen by a guardian's EVM watcher       *)
(* (node/pkg/ethereum).  These are the ASSUMPTIONS about the chain API; the  *)
(* fake node of harness/ethereum implements exactly this module and logs    *)
(* every environment action it applies.                                     *)
(*                                                                         *)
(*  - two head numbers, `latest` and `final` (final <= latest); both only   *)
(*    move forward, by any amount at once (finality catching up, a stalled  *)
(*    poller);                                                              *)
(*  - a block hash is the pair <<number, variant>>; a reorg replaces the     *)
(*    block at one height by a new variant and un-mines its transactions;   *)
(*  - a transaction has a fixed list of logs; its receipt [status, blk]     *)
(*    exists while it is mined, can disappear (orphaned), re-appear in      *)
(*    another block (re-mined) and can report failure;                      *)
(*  - any call can fail once with a transient error (`armed`).              *)
(***************************************************************************)
EXTENDS Naturals, Sequences, FiniteSets, TLC

CONSTANT Nil

VARIABLES
  latest,    \* number of the newest block
  final,     \* number of the newest finalized block
  variant,   \* [height -> current variant], only for heights that were replaced
  txs,       \* [tx -> sequence of logs]; log = [core, topic, sender, seq, cl]
  rcpt,      \* [tx -> [status, blk]] for transactions that are currently mined
  armed      \* set of call kinds whose next invocation fails with a transient error

chain == <<latest, final, variant, txs, rcpt, armed>>

Put(f, k, v) == [x \in DOMAIN f \cup {k} |-> IF x = k THEN v ELSE f[x]]
Drop(f, K)   == [x \in DOMAIN f \ K |-> f[x]]

Canon(n) == <<n, IF n \in DOMAIN variant THEN variant[n] ELSE 0>>

\* "ltime" is the block lookup of the log hand-over: the watcher does not survive its failure (Run returns)
CallKinds == {"poll", "rhead", "hreceipt", "rreceipt", "rtime", "ltime"}

ChainInit(l, f) ==
    /\ latest = l /\ final = f
    /\ variant = <<>> /\ txs = <<>> /\ rcpt = <<>> /\ armed = {}

---------------------------------------------------------------------------
\* Environment actions

NewHead(l, f) ==
    /\ l >= latest /\ f >= final /\ f <= l
    /\ latest' = l /\ final' = f
    /\ UNCHANGED <<variant, txs, rcpt, armed>>

\* A new transaction with the given logs is included in the canonical block at height n.
Mine(tx, n, status, logs) ==
    /\ tx \notin DOMAIN txs
    /\ n >= 1 /\ n <= latest
    /\ txs' = Put(txs, tx, logs)
    /\ rcpt' = Put(rcpt, tx, [status |-> status, blk |-> Canon(n)])
    /\ UNCHANGED <<latest, final, variant, armed>>

TxsIn(b) == {t \in DOMAIN rcpt : rcpt[t].blk = b}

\* The block at height n is replaced; its transactions go back to the pool.
Reorg(n) ==
    /\ n >= 1 /\ n <= latest
    /\ variant' = Put(variant, n, Canon(n)[2] + 1)
    /\ rcpt' = Drop(rcpt, TxsIn(Canon(n)))
    /\ UNCHANGED <<latest, final, txs, armed>>

\* An un-mined transaction is included again (same hash, same logs), possibly failing this time.
Remine(tx, n, status) ==
    /\ tx \in DOMAIN txs /\ tx \notin DOMAIN rcpt
    /\ n >= 1 /\ n <= latest
    /\ rcpt' = Put(rcpt, tx, [status |-> status, blk |-> Canon(n)])
    /\ UNCHANGED <<latest, final, variant, txs, armed>>

\* The node no longer knows the receipt.
DropReceipt(tx) ==
    /\ tx \in DOMAIN rcpt
    /\ rcpt' = Drop(rcpt, {tx})
    /\ UNCHANGED <<latest, final, variant, txs, armed>>

\* The node reports the transaction as failed.
FailTx(tx) ==
    /\ tx \in DOMAIN rcpt
    /\ rcpt' = [rcpt EXCEPT ![tx].status = 0]
    /\ UNCHANGED <<latest, final, variant, txs, armed>>

Arm(kind) ==
    /\ kind \in CallKinds
    /\ armed' = armed \cup {kind}
    /\ UNCHANGED <<latest, final, variant, txs, rcpt>>

\* An armed failure goes away without having hit a call (the backend recovered).
Disarm(kind) ==
    /\ kind \in armed
    /\ armed' = armed \ {kind}
    /\ UNCHANGED <<latest, final, variant, txs, rcpt>>

---------------------------------------------------------------------------
\* What a call answers

\* "safe" is answered like "finalized" (a safe head is at least the finalized one; the fake node answers the finalized head)
HeadFor(tag) == IF tag \in {"finalized", "safe"} THEN final ELSE latest

Fails(kind) == kind \in armed
Consume(kind) == armed' = armed \ {kind}

Mined(tx) == tx \in DOMAIN rcpt
=============================================================================
