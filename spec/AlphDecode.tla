----------------------------- MODULE AlphDecode -----------------------------
(* C11 - Alephium event fields map faithfully to the attested message.       *)
(*                                                                           *)
(* Transcription of what node/pkg/alephium/utils.go must do (not of what it  *)
(* does): ToWormholeMessage (field-by-field conversion with the narrowing    *)
(* rules), toMessagePublication, parseAttestToken and the contract-id /      *)
(* address / hex helpers, over a boundary-value domain of CLASSES.           *)
(*                                                                           *)
(* TLC integers are 32 bit, so a class is a name; the decimal string / byte  *)
(* string a class stands for lives in the harness mapping                    *)
(* (harness/alephium/alph_decode.go, adNum / adBytes) and is part of the     *)
(* oracle description.  What this module fixes is the ORDER of the numeric   *)
(* classes (Rank) and, per field, which classes fit.                         *)
EXTENDS Naturals, Sequences, FiniteSets

\* ---------------------------------------------------------------- numeric (U256 decimal string) classes
\* ascending numeric order; r8/r16/r64/r256 are seeded random values strictly inside the gaps
NumOrder == << "0", "1", "r8", "254", "255", "256", "r16", "65534", "65535", "65536",
               "r64", "u64max", "p64", "r256", "u256max" >>
NumValues == {NumOrder[i] : i \in 1..Len(NumOrder)}
Rank(c) == CHOOSE i \in 1..Len(NumOrder) : NumOrder[i] = c

\* strings that are not the decimal rendering of a U256
\*   neg1 "-1", us "1_0", empty "", abc "abc"       -> never a value
\*   plus1 "+1"  -> not something a node reports; reading it as 1 or rejecting it are both faithful
NumJunk == {"neg1", "us", "empty", "abc"}
NumFree == {"plus1"}
\* a Val of another variant, no variant at all, or the U256 variant carrying another type tag
NumWrong == {"vBool", "vByteVec", "vI256", "vAddress", "vArray", "vNone", "tag"}
NumClasses == NumValues \cup NumJunk \cup NumFree \cup NumWrong

Fits8(c)  == c \in NumValues /\ Rank(c) <= Rank("255")
Fits16(c) == c \in NumValues /\ Rank(c) <= Rank("65535")
Fits64(c) == c \in NumValues /\ Rank(c) <= Rank("u64max")
CanonNum(c) == IF c = "plus1" THEN "1" ELSE c

\* ---------------------------------------------------------------- ByteVec classes
BytesWrong == {"odd", "nonhex", "vU256", "vBool", "vNone", "tag"}
SenderOK == {"b32", "b32z", "b32f"}                  \* 32 bytes: random, 00.., ff..
SenderClasses == SenderOK \cup {"b31", "b33", "b0"} \cup BytesWrong
NonceOK == {"n4", "n4z", "n4f"}
NonceClasses == NonceOK \cup {"n3", "n5", "n0"} \cup BytesWrong
PayloadOK == {"p0", "p1", "pT", "pA", "pBig"}        \* empty, 1 byte, transfer (133 B), attest (100 B), 2000 B
PayloadClasses == PayloadOK \cup BytesWrong

\* ---------------------------------------------------------------- the event
\* fields in the order of `event WormholeMessage(sender, targetChainId, sequence, nonce, payload, consistencyLevel)`
FieldClasses == << SenderClasses, NumClasses, NumClasses, NonceClasses, PayloadClasses, NumClasses >>
Nominal == << "b32", "r8", "r64", "n4", "pT", "1" >>
Counts == {5, 6, 7}     \* 5: consistencyLevel missing; 7: one extra U256 field appended

FieldIn(i, c) ==
    CASE i = 1 -> c \in SenderOK
      [] i = 2 -> Fits16(c)
      [] i = 3 -> Fits64(c)
      [] i = 4 -> c \in NonceOK
      [] i = 5 -> c \in PayloadOK
      [] i = 6 -> Fits8(c)

FieldFree(i, c) == i \in {2, 3, 6} /\ c \in NumFree

Reject == [rejected |-> TRUE]     \* a record, so that it can share a set with Rec(..)
Rec(f) == [sender |-> f[1], chain |-> CanonNum(f[2]), seq |-> CanonNum(f[3]), nonce |-> f[4],
           payload |-> f[5], cl |-> CanonNum(f[6])]

Accepted(x) == x.n = 6 /\ \A i \in 1..6 : FieldIn(i, x.f[i])
Tolerated(x) == x.n = 6 /\ \A i \in 1..6 : FieldIn(i, x.f[i]) \/ FieldFree(i, x.f[i])

\* The set of faithful outcomes.
Decode(x) ==
    IF Accepted(x) THEN {Rec(x.f)}
    ELSE IF Tolerated(x) THEN {Reject, Rec(x.f)}
    ELSE {Reject}

\* ---------------------------------------------------------------- bounded domain: at most K non-nominal positions
NonNominal(x) == Cardinality({i \in 1..6 : x.f[i] # Nominal[i]}) + (IF x.n = 6 THEN 0 ELSE 1)

Subst(f, i, c) == [f EXCEPT ![i] = c]
Dom0 == {[n |-> 6, f |-> Nominal]}
Dom1 == Dom0
        \cup {[n |-> k, f |-> Nominal] : k \in Counts}
        \cup UNION {{[n |-> 6, f |-> Subst(Nominal, i, c)] : c \in FieldClasses[i]} : i \in 1..6}
Dom2 == Dom1
        \cup UNION {{[n |-> k, f |-> Subst(Nominal, i, c)] : c \in FieldClasses[i], k \in Counts} : i \in 1..6}
        \cup UNION {UNION {{[n |-> 6, f |-> Subst(Subst(Nominal, i, c), j, d)] : c \in FieldClasses[i], d \in FieldClasses[j]}
                           : j \in (i + 1)..6} : i \in 1..5}
Dom(K) == IF K >= 2 THEN Dom2 ELSE Dom1

\* ---------------------------------------------------------------- lemmas TLC checks on the domain
RankInjective == \A i, j \in 1..Len(NumOrder) : NumOrder[i] = NumOrder[j] => i = j
\* iff-characterisation: accepted exactly when every field is inside its VAA range
DecodeTotal(x) == Decode(x) # {} /\ (Reject \notin Decode(x) <=> Accepted(x))
RejectOutside(x) == (\E i \in 1..6 : ~FieldIn(i, x.f[i]) /\ ~FieldFree(i, x.f[i])) \/ x.n # 6 => Decode(x) = {Reject}
\* injectivity of the accepted part: two accepted inputs with the same record are the same input
Injective(x, y) == Accepted(x) /\ Accepted(y) /\ Rec(x.f) = Rec(y.f) => x = y
\* boundary facts the narrowing rules are about
Boundaries ==
    /\ Fits8("255") /\ ~Fits8("256") /\ Fits8("0") /\ Fits8("254")
    /\ Fits16("65535") /\ ~Fits16("65536") /\ Fits16("256")
    /\ Fits64("u64max") /\ ~Fits64("p64") /\ ~Fits64("u256max")
    /\ \A c \in NumJunk \cup NumWrong : ~Fits8(c) /\ ~Fits16(c) /\ ~Fits64(c)

\* ---------------------------------------------------------------- toMessagePublication
\* header timestamp classes (milliseconds) and the (seconds, nanoseconds) they must become; decimal strings
TsClasses == {"t0", "t999", "t1000", "t1001", "tnow"}
TsSec  == [t0 |-> "0", t999 |-> "0", t1000 |-> "1", t1001 |-> "1", tnow |-> "1700000000"]
TsNsec == [t0 |-> "0", t999 |-> "999000000", t1000 |-> "0", t1001 |-> "1000000", tnow |-> "123000000"]
AlephiumChainId == 255
Pub(t) == [echain |-> AlephiumChainId, sec |-> TsSec[t], nsec |-> TsNsec[t]]

\* ---------------------------------------------------------------- attestation payload layout (token_bridge.ral attestToken)
AttestLayout == << [name |-> "payloadId", off |-> 0, len |-> 1], [name |-> "tokenId", off |-> 1, len |-> 32],
                   [name |-> "tokenChain", off |-> 33, len |-> 2], [name |-> "decimals", off |-> 35, len |-> 1],
                   [name |-> "symbol", off |-> 36, len |-> 32], [name |-> "name", off |-> 68, len |-> 32] >>
AttestLength == 100
LayoutContiguous ==
    /\ AttestLayout[1].off = 0
    /\ \A i \in 1..(Len(AttestLayout) - 1) : AttestLayout[i + 1].off = AttestLayout[i].off + AttestLayout[i].len
    /\ AttestLayout[Len(AttestLayout)].off + AttestLayout[Len(AttestLayout)].len = AttestLength

AttLen == {"99", "100", "101", "0"}
AttChain == {"alph", "zero", "swapped", "eth"}     \* 00ff, 0000, ff00, 0002
AttDec == {"0", "18", "255"}
AttText == {"lead", "trail", "zeros", "full", "inner"}   \* 32 bytes: NUL-padded left / right, all NUL, no padding, NUL inside text
AttDom == [len : AttLen, chain : AttChain, dec : AttDec, sym : AttText, name : AttText]
AttNominal == [len |-> "100", chain |-> "alph", dec |-> "18", sym |-> "lead", name |-> "trail"]
AttDom1 == {a \in AttDom : Cardinality({k \in DOMAIN a : a[k] # AttNominal[k]}) <= 1}
AttDom2 == {a \in AttDom : Cardinality({k \in DOMAIN a : a[k] # AttNominal[k]}) <= 2}
AttAccepted(a) == a.len = "100" /\ a.chain = "alph"
\* accepted: token id = bytes 1..32, decimals = byte 35, symbol / name = the 32-byte fields without NUL padding
AttDecode(a) == IF AttAccepted(a) THEN [dec |-> a.dec, sym |-> a.sym, name |-> a.name] ELSE Reject

\* ---------------------------------------------------------------- contract id <-> address <-> hex
IdClasses == {"rnd", "zero", "ff", "len31", "len33", "nonhex", "empty"}
IdValid(c) == c \in {"rnd", "zero", "ff"}
\* ToContractId(ToContractAddress(x)) = x, HexToByte32(x).ToHex() = x for valid ids; everything else is rejected
RoundTrip(c) == IF IdValid(c) THEN "same" ELSE "reject"
=============================================================================
