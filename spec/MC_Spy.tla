------------------------------- MODULE MC_Spy -------------------------------
(* Bounded instance of Spy for exhaustive checking (C20): up to 3 subscribers (no filter / one emitter /  *)
(* the other emitter or both), 2 emitters, up to 3 VAAs published in a fixed order, and a budget of client *)
(* faults (stall, resume, disconnect, cancel) that may strike at any point of any interleaving.            *)
EXTENDS Spy

CONSTANTS NSubs, NVaas, MaxFaults, MaxStall, MaxResume, MaxFail, MaxCancel, Policies,
          BadAt,         \* position in the publish order of a message that does not decode as a VAA (0: none)
          AllowInvalid   \* TRUE: the third subscriber's request may carry a filter entry of an unknown kind

VARIABLE cnt   \* fault budgets used so far (bounding only)

mcvars == <<vars, cnt>>

E1 == [c |-> 2, a |-> "a1"]
E2 == [c |-> 2, a |-> "a2"]          \* same chain, other address
Emitters == {E1, E2}

AllSubs == <<"s1", "s2", "s3">>
Subs == {AllSubs[i] : i \in 1..NSubs}

VaaSeq == [i \in 1..3 |-> [id |-> <<"v1", "v2", "v3">>[i], em |-> <<E1, E2, E1>>[i], ok |-> (i # BadAt)]]
Vaas == {VaaSeq[i] : i \in 1..NVaas}

FilterChoices(s) ==
    CASE s = "s1" -> {{}}
      [] s = "s2" -> {{E1}}
      [] s = "s3" -> {{E2}, {E1, E2}}

Validity(s) == IF AllowInvalid /\ s = "s3" THEN BOOLEAN ELSE {TRUE}

MCInit == Init /\ cnt = [stall |-> 0, resume |-> 0, fail |-> 0, cancel |-> 0]

Total == cnt.stall + cnt.resume + cnt.fail + cnt.cancel
Bump(f) == Total < MaxFaults /\ cnt' = [cnt EXCEPT ![f] = @ + 1]

Env ==
    \/ \E s \in Subs : \E F \in FilterChoices(s) : \E valid \in Validity(s) : SubscribeCalled(s, F, valid) /\ UNCHANGED cnt
    \/ Len(published) < NVaas /\ PublishCalled(VaaSeq[Len(published) + 1]) /\ UNCHANGED cnt
    \/ \E s \in Subs : cnt.stall < MaxStall /\ Stall(s) /\ Bump("stall")
    \/ \E s \in Subs : cnt.resume < MaxResume /\ Resume(s) /\ Bump("resume")
    \/ \E s \in Subs : cnt.fail < MaxFail /\ Fail(s) /\ Bump("fail")
    \/ \E s \in Subs : cnt.cancel < MaxCancel /\ Cancel(s) /\ Bump("cancel")

Server ==
    \/ \E s \in Subs : SubscribeRefused(s) \/ SubRegister(s) \/ SubTake(s) \/ SubCtxDone(s) \/ SubKicked(s) \/ StreamSend(s)
                       \/ StreamFail(s) \/ Remove(s)
    \/ PubLock \/ (\E s \in Subs : \E c \in Policies : PublishToChoice(s, c)) \/ PubUnlock \/ PublishReturned

MCNext == Env \/ (Server /\ UNCHANGED cnt)

MCSpec     == MCInit /\ [][MCNext]_mcvars
MCFairSpec == MCSpec /\ Fairness(Subs, Policies)

TypeOK ==
    /\ mu \in {Nil, "pub"}
    /\ subs \subseteq DOMAIN pc /\ DOMAIN pc \subseteq Subs
    /\ \A s \in DOMAIN pc :
          /\ pc[s] \in {"start", "invalid", "loop", "send", "exit", "done", "refused"}
          /\ filt[s] \subseteq Emitters
          /\ Len(q[s]) <= Cap
          /\ cur[s] \in Vaas \cup {Nil} /\ (cur[s] # Nil <=> pc[s] = "send")
          /\ mode[s] \in {"ok", "stall", "fail"}
          /\ cancelled[s] \in BOOLEAN /\ lag[s] \in BOOLEAN /\ kicked[s] \in BOOLEAN
          /\ (s \in subs => pc[s] \in {"loop", "send", "exit"})
          /\ (pc[s] \in {"loop", "send"} => (s \in subs \/ kicked[s]))
    /\ pub.pc \in {"idle", "start", "locked", "fin"} /\ pub.todo \subseteq subs

\* The independence claim, as a state predicate: while the publisher iterates there is always a subscription it
\* can serve at once, unless every remaining one is a reading, caught-up subscriber whose queue is full.
NeverStuckOnSlow ==
    (pub.pc = "locked" /\ pub.todo # {}) =>
        \/ \E s \in pub.todo : ~Match(s, pub.v) \/ Len(q[s]) < Cap \/ CanDrop(s)
        \/ \A s \in pub.todo : Reading(s) /\ ~lag[s]

\* a subscriber whose request was invalid is never registered and never receives anything
RefusedGetNothing ==
    \A s \in DOMAIN pc : pc[s] \in {"invalid", "refused"} => (s \notin subs /\ q[s] = <<>> /\ cur[s] = Nil /\ recv[s] = <<>>)

PublishTerminatesP  == PublishTerminates
SubscribeTerminates == \A s \in Subs : SubscribeTerminatesFor(s)
RemoveTerminates    == \A s \in Subs : RemoveTerminatesFor(s)
MatchingDelivered   == \A s \in Subs : MatchingDeliveredFor(s)
=============================================================================
