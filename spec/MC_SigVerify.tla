---------------------------- MODULE MC_SigVerify ----------------------------
(* Bounded instance of SigVerify for TLC (C06): the iff-table of Verify over  *)
(* every address list of length <= MaxAddrs (with and without repeated        *)
(* addresses), every signer subset in every order, and every single-step      *)
(* corruption of a valid signature list.  Each case is an initial state;      *)
(* the lemmas are invariants; every case is exported with the verdict(s) the  *)
(* specification allows, and becomes one test of the real VerifySignatures.   *)
EXTENDS SigVerify, Quorum, Integers, TLC, Json, SequencesExt

CONSTANTS Big,       \* FALSE: address lists up to renaming of keys (canonical first-occurrence order); TRUE: all lists
          MaxAddrs

VARIABLE c

KeySeq   == [i \in 1..MaxAddrs |-> "k" \o ToString(i)]
Keys     == {KeySeq[i] : i \in 1..Len(KeySeq)}
Outsider == "x"        \* a real key that is in no list
Junk     == "JUNK"     \* signature recovers to an address that is no key at all (e.g. it was made over another body)
ErrSig   == "ERR"      \* malformed r/s/v: recovery fails

KeyNo(k) == CHOOSE i \in 1..Len(KeySeq) : KeySeq[i] = k

\* first occurrences appear in the order k1, k2, ... (one representative per renaming class)
Canonical(a) == \A i \in 1..Len(a) : \A j \in 1..(KeyNo(a[i]) - 1) : \E h \in 1..(i - 1) : a[h] = KeySeq[j]

AddrLists == {a \in UNION {[1..m -> Keys] : m \in 0..MaxAddrs} : Big \/ Canonical(a)}

\* ---- signature lists
SortedSeq(S) == SortSeq(SetToSeq(S), LAMBDA x, y : x < y)
ValidFor(a, S) == LET s == SortedSeq(S) IN [i \in 1..Len(s) |-> [idx |-> s[i], signer |-> a[s[i] + 1]]]

InjSeqs(S) == {p \in [1..Cardinality(S) -> S] : \A i, j \in 1..Cardinality(S) : i # j => p[i] # p[j]}

InsertAfter(s, i) == SubSeq(s, 1, i) \o <<s[i]>> \o SubSeq(s, i + 1, Len(s))
SwapAt(s, i, j) == [s EXCEPT ![i] = s[j], ![j] = s[i]]

CasesFor(a) ==
    LET m == Len(a)
        Pos == 0..(m - 1)
        K(kind, sigs) == [addrs |-> a, sigs |-> sigs, kind |-> kind]
    IN UNION {
        LET s == ValidFor(a, S)
            k == Len(s)
        IN {K("valid", s)}
           \cup {K("order", [i \in 1..k |-> [idx |-> p[i], signer |-> a[p[i] + 1]]]) : p \in InjSeqs(S)}
           \cup (IF k >= 1 THEN {K("body", [i \in 1..k |-> [idx |-> s[i].idx, signer |-> Junk]])} ELSE {})
           \cup ({K("swap", SwapAt(s, i, j)) : i \in 1..k, j \in 1..k} \ {K("swap", s)})
           \cup {K("duplicate", InsertAfter(s, i)) : i \in 1..k}
           \cup UNION {{K("reindex", [s EXCEPT ![i].idx = x]) : x \in (0..m \cup {255}) \ {s[i].idx}} : i \in 1..k}
           \cup {K("outsider", [s EXCEPT ![i].signer = Outsider]) : i \in 1..k}
           \cup UNION {{K("othermember", [s EXCEPT ![i].signer = o]) : o \in Keys \ {s[i].signer}} : i \in 1..k}
           \cup {K("malformed", [s EXCEPT ![i].signer = ErrSig]) : i \in 1..k}
           \cup {K("otherbody", [s EXCEPT ![i].signer = Junk]) : i \in 1..k}
        : S \in SUBSET Pos }

\* One initial ("root") state per address list; its successors are the cases of that list, so that the
\* enumeration is spread over TLC's workers.  A root carries the empty signature list.
InitC06 == c \in {[addrs |-> a, sigs |-> <<>>, kind |-> "root"] : a \in AddrLists}
NextC06 == c.kind = "root" /\ c' \in CasesFor(c.addrs)

A == c.addrs
S == c.sigs
Kind == c.kind

\* ---- lemmas
C06_VerifyImpliesDistinct == (RepeatFree(A) /\ Verify(S, A)) => DistinctSigners(S)
C06_VerifyBoundsLength    == Verify(S, A) => Len(S) <= Len(A)
C06_Valid     == Kind = "valid" => Verify(S, A)
C06_Order     == Kind = "order" => (Verify(S, A) <=> StrictlyAscending(S))
\* every single-step corruption of a valid list is rejected; re-indexing onto another position of the
\* same key exists only in lists with repeated addresses
\* the same guardian signing at two of its positions (lists with repeated addresses) is counted twice: rejected
C06_NoDoubleCount == (\E i, j \in 1..Len(S) : i # j /\ S[i].signer = S[j].signer) => ~VerifyStrict(S, A)
C06_CorruptionFails ==
    /\ Kind \in {"body", "swap", "duplicate", "outsider", "othermember", "malformed", "otherbody"} => ~Verify(S, A)
    /\ (Kind = "reindex" /\ RepeatFree(A)) => ~Verify(S, A)
\* the oracle VerifyStrict is sound for the three conditions of the statement, equals them on repeat-free
\* lists, and never counts a guardian twice
C06_Oracle ==
    /\ VerifyStrict(S, A) => Verify(S, A)
    /\ RepeatFree(A) => (VerifyStrict(S, A) <=> Verify(S, A))
    /\ VerifyStrict(S, A) => DistinctSigners(S)
C06_FastForms == /\ AscAdj(S) <=> StrictlyAscending(S)
                 /\ DistinctFast(S) <=> DistinctSigners(S)
                 /\ VerifyFast(S, A) <=> Verify(S, A)
                 /\ AllowedFast(S, A) = AllowedVerdicts(S, A)
                 /\ VerifyStrictFast(S, A) <=> VerifyStrict(S, A)

\* the explorer's gate (vaa_gossip_consumer.go verifyVAA): at least one signature, a quorum of the list, Verify
ExplorerExpected(sigs, addrs) == Len(sigs) > 0 /\ Len(sigs) >= Q(Len(addrs)) /\ VerifyStrict(sigs, addrs)

C06_Emit == PrintT(<<"C06", ToJson([addrs |-> A, sigs |-> S, kind |-> Kind, verify |-> Verify(S, A),
                                    allowed |-> {VerifyStrict(S, A)}, explorer |-> {ExplorerExpected(S, A)}])>>)
=============================================================================
