--------------------------- MODULE MC_AlphWatcher ---------------------------
(* Bounded composition of the simulated node (AlphChain) and the watcher     *)
(* (AlphWatcher) for exhaustive TLC runs: the environment mines blocks with  *)
(* events drawn from a catalogue of templates, orphans / re-includes blocks, *)
(* advances the clock, adds a look-alike event of another contract, injects  *)
(* API errors and sends re-observation requests; every watcher request is    *)
(* answered from the chain state of that moment.  All bounds are GUARDS (no  *)
(* state constraint), so the liveness properties are checked soundly.        *)
EXTENDS AlphWatcher, TLC

CONSTANTS MaxB, MaxEv, MaxH, MaxClock, PageSize, MaxReorg, MaxFail, MaxReq, MaxLook, MaxPerBlock,
          MaxLag,       \* how often the reported height may fall back by one (lagging node / stale height)
          SharedTx,     \* TRUE: the events mined into one block belong to ONE transaction (several messages per tx)
          Boots,        \* FALSE: the polling path is never started (re-observation-only instance)
          Profile,      \* which template catalogue
          Mainnets      \* subset of BOOLEAN

VARIABLES cnt,     \* budgets [reorg, fail, req, look, nid, reinc]
          snapH, snapR   \* blocks that were already orphaned when the current handler round / re-observation began

mcvars == <<cvars, wvars, clock, cnt, snapH, snapR>>

\* ---- template catalogue: [ei, ok, tb, cl, kind, tok, claim]
Tpl(ei, ok, tb, cl, kind, tok, claim) == [ei |-> ei, ok |-> ok, tb |-> tb, cl |-> cl, kind |-> kind, tok |-> tok, claim |-> claim]
GoodT(cl)  == Tpl(0, TRUE, TRUE, cl, "transfer", "none", "none")
ForeignT   == Tpl(0, TRUE, FALSE, 0, "transfer", "none", "none")
Malformed  == Tpl(0, FALSE, TRUE, 0, "other", "none", "none")
WrongIndex == Tpl(1, TRUE, TRUE, 0, "transfer", "none", "none")
AttGood    == Tpl(0, TRUE, TRUE, 0, "attest", "t1", "m1")
AttBad     == Tpl(0, TRUE, TRUE, 0, "attest", "t1", "m2")
AttFail    == Tpl(0, TRUE, TRUE, 0, "attest", "t2", "m1")
AttForeign == Tpl(0, TRUE, FALSE, 0, "attest", "t2", "m1")
AttAlph    == Tpl(0, TRUE, TRUE, 1, "attest", "alph", "malph")
AttAlphBad == Tpl(0, TRUE, TRUE, 0, "attest", "alph", "m1")

Templates ==
    CASE Profile = "poll"   -> {GoodT(0), GoodT(1), GoodT(2), ForeignT}
      [] Profile = "attest" -> {GoodT(1), AttGood, AttBad, AttFail, AttAlph, AttAlphBad}
      [] Profile = "junk"   -> {GoodT(0), GoodT(1), Malformed, WrongIndex, AttForeign, AttFail}
      [] Profile = "reobs"  -> {GoodT(0), GoodT(1), ForeignT, AttGood, AttBad}
      [] Profile = "live"   -> {GoodT(0), GoodT(1), Malformed, AttFail, ForeignT}
TokTable == [t1 |-> "m1", t2 |-> "failed1"]

Mk(t, id, b, tx) == [id |-> id, blk |-> b, tx |-> tx, gov |-> TRUE, ei |-> t.ei, ok |-> t.ok, tb |-> t.tb, cl |-> t.cl,
                     kind |-> t.kind, tok |-> t.tok, claim |-> t.claim]

RECURSIVE SetToSeq(_)
SetToSeq(S) == IF S = {} THEN <<>> ELSE LET x == CHOOSE y \in S : TRUE IN <<x>> \o SetToSeq(S \ {x})

MCInit ==
    /\ ChainInit /\ WInit /\ cfg.mainnet \in Mainnets /\ clock = 0
    /\ cnt = [reorg |-> 0, fail |-> 0, req |-> 0, look |-> 0, nid |-> 0, reinc |-> 0, lag |-> 0]
    /\ snapH = {} /\ snapR = {}

Orphans == {b \in DOMAIN blocks : ~blocks[b].main}
NB == Cardinality(DOMAIN blocks)

\* ---------------------------------------------------------------- environment
EnvKeep == UNCHANGED <<wvars, snapH, snapR>>

MineEmpty ==
    /\ height < MaxH
    /\ height' = height + 1
    /\ UNCHANGED <<blocks, stream, foreign, tokans, clock, cnt>> /\ EnvKeep

Lag ==
    /\ cnt.lag < MaxLag /\ height > 0
    /\ height' = height - 1
    /\ cnt' = [cnt EXCEPT !.lag = @ + 1]
    /\ UNCHANGED <<blocks, stream, foreign, tokans, clock>> /\ EnvKeep

MineBlock(ts) ==
    /\ NB < MaxB /\ Len(stream) + Len(ts) <= MaxEv /\ height < MaxH
    /\ LET b == NB + 1 IN
       /\ blocks' = Put(blocks, b, [height |-> height + 1, ts |-> clock, main |-> TRUE])
       /\ stream' = stream \o [i \in 1..Len(ts) |-> Mk(ts[i], cnt.nid + i, b, IF SharedTx THEN cnt.nid + 1 ELSE cnt.nid + i)]
    /\ height' = height + 1
    /\ cnt' = [cnt EXCEPT !.nid = @ + Len(ts)]
    /\ UNCHANGED <<foreign, tokans, clock>> /\ EnvKeep

DoReorg(b) ==
    /\ cnt.reorg < MaxReorg
    /\ Reorg(b)
    /\ cnt' = [cnt EXCEPT !.reorg = @ + 1]
    /\ UNCHANGED clock /\ EnvKeep

\* the transactions of an orphaned block are mined again in a new block of the same height: new events, same tx
Reinclude(b) ==
    /\ b \in Orphans /\ cnt.reinc < cnt.reorg /\ NB < MaxB
    /\ LET old == SelectSeq(stream, LAMBDA e : e.blk = b)
           nb == NB + 1
       IN /\ old # <<>> /\ Len(stream) + Len(old) <= MaxEv
          /\ blocks' = Put(blocks, nb, [height |-> blocks[b].height, ts |-> clock, main |-> TRUE])
          /\ stream' = stream \o [i \in 1..Len(old) |-> [old[i] EXCEPT !.id = cnt.nid + i, !.blk = nb]]
          /\ cnt' = [cnt EXCEPT !.nid = @ + Len(old), !.reinc = @ + 1]
    /\ UNCHANGED <<height, foreign, tokans, clock>> /\ EnvKeep

\* another contract emits, in the same transaction, an event that looks like a token-bridge message
Lookalike(e) ==
    /\ cnt.look < MaxLook
    /\ foreign' = foreign \cup {[e EXCEPT !.id = cnt.nid + 1, !.gov = FALSE, !.ok = TRUE, !.tb = TRUE, !.ei = 0,
                                          !.kind = "transfer", !.cl = 0]}
    /\ cnt' = [cnt EXCEPT !.look = @ + 1, !.nid = @ + 1]
    /\ UNCHANGED <<blocks, height, stream, tokans, clock>> /\ EnvKeep

Tick ==
    /\ clock < MaxClock /\ clock' = clock + 1
    /\ UNCHANGED <<cvars, cnt>> /\ EnvKeep

Request(tx) ==
    /\ cnt.req < MaxReq
    /\ R_Req(tx)
    /\ cnt' = [cnt EXCEPT !.req = @ + 1]
    /\ UNCHANGED <<cvars, clock, snapH, snapR>>

TplSeqs == {<<t>> : t \in Templates} \cup (IF MaxPerBlock >= 2 THEN {<<s, t>> : s \in Templates, t \in Templates} ELSE {})

\* the environment does not move during start-up (events before the first count request are not the watcher's) and,
\* as a sound reduction, not while the handler empties its forward queue (those steps read nothing of the environment)
Env ==
  /\ run \notin {"ver", "clique"} /\ fet.st # "init" /\ han.st # "fwd" /\ (Boots => aux.starts > 0)
  /\
    \/ MineEmpty
    \/ Lag
    \/ \E ts \in TplSeqs : MineBlock(ts)
    \/ \E b \in DOMAIN blocks : DoReorg(b) \/ Reinclude(b)
    \/ \E e \in StreamSet : Lookalike(e)
    \/ Tick
    \/ \E e \in StreamSet : Request(e.tx)

\* ---------------------------------------------------------------- watcher steps, answered by the chain
Keep == UNCHANGED <<cvars, clock, cnt, snapH, snapR>>
KeepC == UNCHANGED <<cvars, clock, cnt>>

Fetcher ==
    \/ F_InitCount(CountAns) /\ Keep
    \/ F_PollCount(CountAns) /\ Keep
    \/ LET p == PageAns(fet.from, PageSize) IN F_Page(fet.from, p.evs, p.next) /\ Keep
    \/ fet.q # <<>> /\ F_Tok(Head(fet.q).tok, IF Head(fet.q).tok \in DOMAIN TokTable THEN TokTable[Head(fet.q).tok] ELSE "fail") /\ Keep
    \/ F_SkipForeign /\ Keep
Deliver == F_Deliver /\ Keep
Poller == DOMAIN han.pend # {} /\ P_Height(HeightAns) /\ Keep
Start == H_Start /\ snapH' = Orphans /\ UNCHANGED snapR /\ KeepC
Handler ==
    \/ \E b \in han.todo : H_IsMain(b, IsMainAns(b)) /\ Keep
    \/ han.cur # Nil /\ H_Header(han.cur.b, HeaderAns(han.cur.b)) /\ Keep
    \/ \E c \in han.fwd : H_Forward(c.e.id) /\ Keep
TokOf(id) == IF id \in DOMAIN TokTable THEN TokTable[id] ELSE "fail"
Reobserver ==
    \/ reqQ # <<>> /\ R_Status(Head(reqQ), StatusAns(Head(reqQ))) /\ snapR' = Orphans /\ UNCHANGED snapH /\ KeepC
    \/ reo.st = "ev" /\ R_Events(reo.tx, SetToSeq(TxEvents(reo.tx))) /\ Keep
    \/ \E b \in {e.blk : e \in reo.all} : R_Header(b, HeaderAns(b)) /\ Keep
    \/ \E id \in {e.tok : e \in {x \in reo.all : x.kind = "attest"}} : R_Tok(id, TokOf(id)) /\ Keep
    \/ \E b \in ({e.blk : e \in reo.all} \cup (IF reo.sb = Nil THEN {} ELSE {reo.sb})) : R_IsMain(b, IsMainAns(b)) /\ Keep
    \/ R_Height(HeightAns) /\ Keep
    \/ \E e \in reo.evs : R_Forward(e.id) /\ Keep
Boot ==
  /\ Boots
  /\
    \/ RunStart /\ Keep
    \/ S_Version /\ Keep
    \/ S_Clique(TRUE) /\ Keep
    \/ RunExit /\ Keep
Routes == {"version", "clique", "count", "page", "chain-info", "is-main", "headers", "events-tx"}
ApiError == \E r \in Routes : cnt.fail < MaxFail /\ Fail(r) /\ cnt' = [cnt EXCEPT !.fail = @ + 1]
                              /\ UNCHANGED <<cvars, clock, snapH, snapR>>

Watcher == Boot \/ Fetcher \/ Deliver \/ Poller \/ Start \/ Handler \/ Reobserver \/ ApiError

MCNext == Env \/ Watcher

\* ---------------------------------------------------------------- properties that need the chain's ground truth
\* C08 "events in orphaned blocks are never forwarded": a block that was already orphaned when the round began
NoOrphanForwardStep ==
    \A o \in outs' \ outs : o.e.blk \notin (IF o.path = "poll" THEN snapH ELSE snapR)
NoOrphanForward == [][NoOrphanForwardStep]_mcvars

\* an event that must reach `pending` once the fetcher has examined its index
MustPend(e) ==
    /\ e.ei = 0 /\ e.ok
    /\ e.kind = "attest" => IF e.tok = "alph" THEN e.claim = AlphInfo ELSE (e.tb /\ TokOf(e.tok) = e.claim)
\* C09 NoCollateralLoss, fetch side: whatever else is on the stream, every such event of the examined range was accepted
FetchedComplete ==
    (aux.starts = 1 /\ aux.initFrom # Nil /\ fet.st \notin {"dead", "off", "init"}) =>
        \A i \in (aux.initFrom + 1)..(fet.from - Len(fet.q)) :
            (i <= Len(stream) /\ MustPend(stream[i])) => stream[i].id \in aux.seen

\* C09 EventuallyForwarded: a well-formed token-bridge message whose block stays on the main chain and has reached its
\* confirmations is eventually forwarded by the polling path (environment: no API errors, the watcher is running)
Final(i) ==
    /\ aux.initFrom # Nil /\ aux.initFrom < i /\ i <= Len(stream)
    /\ LET e == stream[i] IN
       /\ MustPend(e) /\ e.tb
       /\ blocks[e.blk].main
       /\ blocks[e.blk].height + e.cl <= height
       /\ blocks[e.blk].ts + Dur(e) <= clock
Forwarded(i) == i <= Len(stream) /\ stream[i].id \in PollOuts
EventuallyForwarded == \A i \in 1..MaxEv : (Final(i) ~> (Forwarded(i) \/ ~Final(i)))

Fairness ==
    /\ WF_mcvars(Boot) /\ WF_mcvars(Fetcher) /\ WF_mcvars(Poller) /\ WF_mcvars(Handler)
    /\ SF_mcvars(Deliver) /\ SF_mcvars(Start)

MCSpec == MCInit /\ [][MCNext]_mcvars
MCLive == MCInit /\ [][MCNext]_mcvars /\ Fairness
=============================================================================
