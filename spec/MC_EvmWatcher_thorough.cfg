\* Thorough tier, part 1: two transactions, two pending entries, every scan order.
SPECIFICATION MCSpec
CONSTANTS
  Nil = Nil
  WScaled = 3
  Jumps = {1, 2, 3, 4}
  Lag = 2
  Modes = {TRUE, FALSE}
  CLs = {0, 1}
  MineBack = 0
  ArmKinds = {"hreceipt"}
  RemineStatus = {1}
  MidScanHeads = FALSE
  HeldIntake = FALSE
  MaxHeads = 3
  MaxMine = 2
  MaxPush = 2
  MaxReorg = 1
  MaxRemine = 1
  MaxDrop = 0
  MaxFail = 0
  MaxArm = 1
  MaxReq = 0
  MaxRestart = 0
INVARIANTS
  TypeOK
  ForwardSound
  AtMostOnce
  ExactlyOnce
PROPERTIES
  AbandonOnlyAfterWindow
  DropOrphans
  NoForwardOfOrphan
CHECK_DEADLOCK FALSE
