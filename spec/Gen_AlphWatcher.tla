--------------------------- MODULE Gen_AlphWatcher ---------------------------
(* Scenario generator: MC_AlphWatcher with a history variable, run under     *)
(* `tlc -simulate`.  The history keeps the environment steps (what the node  *)
(* does) and, as anchors, the watcher requests they happened after; the tool *)
(* turns it into a script for the fake node ("after the n-th <route> request *)
(* apply ...") and the real watcher is run against it.                        *)
EXTENDS MC_AlphWatcher, Json

CONSTANT GenDepth
VARIABLE hist

gvars == <<mcvars, hist>>

Rec(x) == hist' = Append(hist, x)
W(route) == Rec([k |-> "w", route |-> route])
NewEvs == SubSeq(stream', Len(stream) + 1, Len(stream'))

GenInit == MCInit /\ hist = <<>>

GenEnv ==
  /\ run \notin {"ver", "clique"} /\ fet.st # "init" /\ han.st # "fwd" /\ (Boots => aux.starts > 0)
  /\
    \/ MineEmpty /\ Rec([k |-> "env", op |-> "height", h |-> height'])
    \/ \E ts \in TplSeqs : MineBlock(ts) /\ Rec([k |-> "env", op |-> "mine", b |-> NB + 1, h |-> height', evs |-> NewEvs])
    \/ \E b \in DOMAIN blocks : DoReorg(b) /\ Rec([k |-> "env", op |-> "reorg", b |-> b])
    \/ \E b \in DOMAIN blocks : Reinclude(b) /\ Rec([k |-> "env", op |-> "mine", b |-> NB + 1, h |-> blocks[b].height, evs |-> NewEvs])
    \/ \E e \in StreamSet : Lookalike(e) /\ Rec([k |-> "env", op |-> "foreign", evs |-> SetToSeq(foreign' \ foreign)])
    \/ \E e \in StreamSet : Request(e.tx) /\ Rec([k |-> "env", op |-> "req", tx |-> e.tx])

GenWatcher ==
    \/ Boot /\ UNCHANGED hist
    \/ F_InitCount(CountAns) /\ Keep /\ W("count")
    \/ F_PollCount(CountAns) /\ CountAns # fet.from /\ Keep /\ W("count")
    \/ (LET p == PageAns(fet.from, PageSize) IN F_Page(fet.from, p.evs, p.next)) /\ Keep /\ W("page")
    \/ fet.q # <<>> /\ F_Tok(Head(fet.q).tok, TokOf(Head(fet.q).tok)) /\ Keep /\ W("multicall")
    \/ F_SkipForeign /\ Keep /\ UNCHANGED hist
    \/ Deliver /\ UNCHANGED hist
    \/ Poller /\ W("chain-info")
    \/ Start /\ UNCHANGED hist
    \/ (\E b \in han.todo : H_IsMain(b, IsMainAns(b))) /\ Keep /\ W("is-main")
    \/ han.cur # Nil /\ H_Header(han.cur.b, HeaderAns(han.cur.b)) /\ Keep /\ W("headers")
    \/ (\E c \in han.fwd : H_Forward(c.e.id)) /\ Keep /\ UNCHANGED hist
    \/ reqQ # <<>> /\ R_Status(Head(reqQ), StatusAns(Head(reqQ))) /\ snapR' = Orphans /\ UNCHANGED snapH /\ KeepC /\ W("status")
    \/ reo.st = "ev" /\ R_Events(reo.tx, SetToSeq(TxEvents(reo.tx))) /\ Keep /\ W("events-tx")
    \/ (\E b \in {e.blk : e \in reo.evs} : b \notin DOMAIN reo.hdr /\ R_Header(b, HeaderAns(b))) /\ Keep /\ W("headers")
    \/ reo.sb # Nil /\ R_IsMain(reo.sb, IsMainAns(reo.sb)) /\ Keep /\ W("is-main")
    \/ R_Height(HeightAns) /\ Keep /\ W("chain-info")
    \/ (\E e \in reo.evs : R_Forward(e.id)) /\ Keep /\ UNCHANGED hist

GenNext == GenEnv \/ GenWatcher
GenSpec == GenInit /\ [][GenNext]_gvars

EmitScn == (Len(hist) = GenDepth) => PrintT(<<"SCN", ToJson([mainnet |-> cfg.mainnet, page |-> PageSize, hist |-> hist])>>)
=============================================================================
