---------------------------- MODULE MC_Supervisor ----------------------------
(* Bounded instance of Supervisor for exhaustive checking (C18).             *)
(*                                                                           *)
(* Initial states: every tree shape of the family ShapeSel (indices into     *)
(* MC_SupervisorShapes).  Services behave as the scripted services of the    *)
(* harness do, nondeterministically: start their groups, then optionally     *)
(* signal Healthy, then at any time fail (error, nil return, panic), signal  *)
(* Done and return, or notice a cancelled context and return its error any   *)
(* number of steps later (the exit latency is the interleaving; weak         *)
(* fairness on the exit makes it finite = "services honour their context").  *)
(* Failures are bounded by MaxFaults so that the liveness properties speak   *)
(* about recovery after finitely many failures.                              *)
EXTENDS Supervisor, MC_SupervisorShapes

CONSTANTS ShapeSel,     \* set of shape indices explored
          MaxFaults,    \* total number of spontaneous failures (err / nil / panic)
          MaxDone,      \* total number of Done signals
          AllowKill,    \* the supervisor's context may be cancelled at any time
          BadSignals,   \* subset of {"healthy", "done"}: refused signals a runnable may send (SvcBadSignal)
          FaultKinds    \* failure kinds explored, a subset of SpontaneousKinds.  ProcessDied distinguishes only "nil" (fine
                        \* for a DONE node), the kinds that look like a cancellation (CANCELED iff the context really is
                        \* cancelled) and the rest, so {"err", "nil", "canceled"} covers every case of DiedOutcome; "panic" and
                        \* "deadline" behave as "err", "wrapcanceled" as "canceled"

VARIABLES faults, dones

mcvars == <<vars, faults, dones>>

MCInit == /\ \E i \in ShapeSel : Init0(AllShapes(Nil)[i])
          /\ faults = 0 /\ dones = 0

SetupDone(n) == todo[n] > Len(shape.kids[n])

Sup ==
    \/ \E n \in Nodes : Schedule(n) \/ BackoffElapsed(n) \/ ProcessDied(n)
    \/ GC
    \/ ProcessKill
    \/ AllowKill /\ Kill

Svc ==
    \E n \in Nodes :
        \/ SvcEnter(n)
        \/ \E G \in SUBSET Kids(n) : SvcRunGroup(n, G)
        \/ SetupDone(n) /\ ~sawc[n] /\ SvcHealthy(n)
        \/ SetupDone(n) /\ SvcSawCancel(n)
        \/ SvcExit(n, "ctxErr")
        \/ pc[n] = "doneret" /\ SvcExit(n, "nil")

Fault ==
    \/ \E n \in Nodes, k \in FaultKinds :
        /\ faults < MaxFaults /\ pc[n] = "run" /\ SetupDone(n)
        /\ SvcExit(n, k)
    \/ \E n \in Nodes, sg \in BadSignals :          \* lifecycle mistakes: Done before Healthy, Healthy twice, Done twice, ..
        /\ faults < MaxFaults /\ SetupDone(n)
        /\ SvcBadSignal(n, sg)

DoneSig == \E n \in Nodes : dones < MaxDone /\ SetupDone(n) /\ ~sawc[n] /\ SvcDone(n)

MCNext ==
    \/ (Sup \/ Svc) /\ UNCHANGED <<faults, dones>>
    \/ Fault /\ faults' = faults + 1 /\ UNCHANGED dones
    \/ DoneSig /\ dones' = dones + 1 /\ UNCHANGED faults

MCSpec == MCInit /\ [][MCNext]_mcvars

\* Fairness.  With finitely many failures every behaviour of this model is eventually stuttering (each failure
\* causes a finite cascade of cancellations and restarts), so one weak-fairness condition on "some enabled step
\* of the processor goroutine or of a service is eventually taken" is equivalent to per-action weak fairness:
\* the processor handles every request and GC tick (Go's select is fair), back-off sleeps end, services run their
\* setup, notice a cancelled context and then return ("services honour their context").  Spontaneous failures,
\* Done signals and Kill are never forced.
Progress ==
    \/ \E n \in Nodes : Schedule(n) \/ BackoffElapsed(n) \/ ProcessDied(n)
    \/ GC
    \/ ProcessKill
    \/ \E n \in Nodes :
        \/ SvcEnter(n)
        \/ \E G \in SUBSET Kids(n) : SvcRunGroup(n, G)
        \/ SetupDone(n) /\ SvcSawCancel(n)
        \/ SvcExit(n, "ctxErr")
        \/ pc[n] = "doneret" /\ SvcExit(n, "nil")
Fairness == WF_mcvars(Progress /\ UNCHANGED <<faults, dones>>)

AllNodes == UNION {AllShapes(Nil)[i].nodes : i \in ShapeSel}

MCFairSpec == MCSpec /\ Fairness

\* The same recovery claims as an invariant of quiescent states (no processor or service step enabled): whatever
\* has not completed is running with a live context; after Kill nothing runs.  (Equivalent to the temporal
\* formulas when the state graph has no cycles; checked on every shape, the temporal formulas on the smaller ones.)
Quiet == ~ENABLED (Progress /\ UNCHANGED <<faults, dones>>)
Settled == \A n \in Nodes : Exists(n) /\ (st[n] = "DONE" \/ (Live(n) /\ pc[n] = "run"))
QuiescentOK ==
    Quiet => /\ supLive => Settled
             /\ ~supLive => ~procUp /\ \A n \in Nodes : running[n] = 0

RestartAfterFailure == \A n \in AllNodes : RestartAfterFailureAt(n)
DeadRestarts == \A n \in AllNodes : DeadRestartsAt(n)

\* every tree of the family really is an initial state (vacuity guard evaluated by TLC)
ASSUME ShapeSel \subseteq 1..NumShapes
ASSUME FaultKinds \subseteq SpontaneousKinds
ASSUME BadSignals \subseteq {"healthy", "done"}
=============================================================================
