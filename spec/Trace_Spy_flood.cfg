SPECIFICATION TraceSpec
CONSTANTS
  Nil = Nil
  Cap = 1000000
  Canon = TRUE
INVARIANTS
  MutexDiscipline
PROPERTIES
  ServeReaders
  QueueFifo
CONSTRAINT Mark
POSTCONDITION Post
CHECK_DEADLOCK FALSE
