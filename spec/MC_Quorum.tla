------------------------------ MODULE MC_Quorum ------------------------------
(* Bounded instance of Quorum for TLC (C07): one initial state per guardian-  *)
(* set size n of the one-byte wire range; the BFT lemmas are invariants, and  *)
(* the table n |-> Q(n) is exported for comparison with the Go function (node *)
(* and explorer link) and with the formulas extracted from the contracts.     *)
EXTENDS Quorum, Integers, TLC, Json

CONSTANT MaxN        \* 255 = the wire range; the thorough tier also checks the arithmetic beyond it

VARIABLE n
NoNext == FALSE /\ n' = n
InitC07 == n \in 0..MaxN

\* pointwise forms of the lemmas of Quorum.tla (the quantified forms are checked as well, below)
C07_ExceedsTwoThirds == n >= 1 => 3 * Q(n) > 2 * n
C07_AtMostAll        == n >= 1 => Q(n) <= n
C07_Intersect        == n >= 1 => 3 * (2 * Q(n) - n) > n          \* two quorums share more than n/3
C07_Minimal          == n >= 1 => ~(3 * (Q(n) - 1) > 2 * n)       \* Q(n) is the least count exceeding 2n/3
C07_IsFloorForm      == 3 * (Q(n) - 1) <= 2 * n /\ 2 * n < 3 * Q(n) \* Q(n) - 1 = floor(2n/3)
C07_GoFormula        == Q(n) = QGo(n)
C07_Quantified       == ExceedsTwoThirds /\ AtMostAll /\ Intersect /\ FormulasAgree
C07_Emit == PrintT(<<"C07", ToJson([n |-> n, q |-> Q(n)])>>)
=============================================================================
