SPECIFICATION TraceSpec
CONSTANTS
  Nil = Nil
  DbgT = 0
  DbgL = 0
CONSTRAINT HighWater
CONSTRAINT Debug
CHECK_DEADLOCK FALSE
