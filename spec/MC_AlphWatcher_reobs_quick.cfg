SPECIFICATION MCSpec
CONSTANTS
  Nil = Nil
  Floor = 1
  BlockSecs = 1
  MaxB = 2
  MaxEv = 2
  MaxPerBlock = 2
  MaxH = 2
  MaxClock = 1
  PageSize = 2
  MaxReorg = 1
  MaxFail = 0
  MaxReq = 1
  MaxLook = 1
  MaxLag = 1
  SharedTx = TRUE
  Boots = FALSE
  Profile = "reobs"
  Mainnets = {TRUE, FALSE}
INVARIANTS
  ForwardSound
  PollOnce
  NoSpin
  NoKill
  Conserved
  FetchedComplete
PROPERTIES
  NoOrphanForward

CHECK_DEADLOCK FALSE
