------------------------------- MODULE Gossip -------------------------------
(***************************************************************************)
(* The gossip verifiers of node/pkg/p2p (property C03, heartbeat and       *)
(* re-observation-request part): processSignedHeartbeat and                *)
(* processSignedObservationRequest, one action per call, with the shared   *)
(* guardian-set state (common.GuardianSetState).                           *)
(*                                                                         *)
(* An envelope is                                                          *)
(*   [kind    "hb" | "req"      which verifier receives it                 *)
(*    claimed key name          the guardian address in the envelope       *)
(*    signer  key name | ERR    who made the signature (ERR: unrecoverable)*)
(*    dom     "hb"|"req"|"raw"  domain prefix under which it was signed    *)
(*                              ("raw": no prefix, e.g. a VAA-digest sig)  *)
(*    same    BOOLEAN           the signature covers exactly the payload   *)
(*                              carried by the envelope                    *)
(*    plen    Nat               payload length in bytes                    *)
(*    parses  BOOLEAN           the payload is a well-formed message       *)
(*    peer    name              p2p identity the message came from         *)
(*    req     [chain, tx]       content of a request payload]              *)
(***************************************************************************)
EXTENDS Naturals, Sequences, FiniteSets, TLC

CONSTANTS Nil, Cap     \* Cap = MaxNodesPerGuardian (15)

VARIABLES gs,      \* Nil | [idx, keys]   the set the verifiers read from GuardianSetState
          hb,      \* [guardian -> set of peers]  heartbeat table, dynamic domain
          fwd      \* requests handed to the re-observation router by the last step (sequence)

gvars == <<gs, hb, fwd>>

JUNK == "JUNK"
ERR  == "ERR"

PrefixLen(kind) == IF kind = "hb" THEN 10 ELSE 27     \* len("heartbeat|"), len("signed_observation_request|")
Floor == 34

KeySetG(S) == {S.keys[i] : i \in 1..Len(S.keys)}

\* What ecrecover yields when the verifier of `kind` hashes prefix(kind) \o payload.
RecoverG(e) == IF e.signer = ERR THEN ERR
               ELSE IF e.dom = e.kind /\ e.same THEN e.signer ELSE JUNK

Acceptable(e) ==
    /\ gs # Nil
    /\ e.claimed \in KeySetG(gs)
    /\ PrefixLen(e.kind) + e.plen >= Floor
    /\ RecoverG(e) = e.claimed
    /\ e.parses

PutG(f, k, v) == [x \in DOMAIN f \cup {k} |-> IF x = k THEN v ELSE f[x]]
Peers(g) == IF g \in DOMAIN hb THEN hb[g] ELSE {}

GInit == gs = Nil /\ hb = <<>> /\ fwd = <<>>

GSetUpdate(S) == gs' = S /\ fwd' = <<>> /\ UNCHANGED hb

\* stores: whether the table took the entry.  A new peer for a guardian that already has Cap peers
\* must be refused; an update from a peer already in the table may be refused at the cap (the code does).
Heartbeat(e, stores) ==
    /\ e.kind = "hb"
    /\ fwd' = <<>> /\ UNCHANGED gs
    /\ IF stores
       THEN /\ Acceptable(e)
            /\ (e.peer \in Peers(e.claimed) \/ Cardinality(Peers(e.claimed)) < Cap)
            /\ hb' = PutG(hb, e.claimed, Peers(e.claimed) \cup {e.peer})
       ELSE /\ (~Acceptable(e) \/ Cardinality(Peers(e.claimed)) >= Cap)
            /\ UNCHANGED hb

\* Several verifier calls for one guardian at once (the receive loop and the node's own heartbeat goroutine both call
\* SetHeartbeat): the table behaves as if the calls were made one after the other in some order.  ps: the peers of the
\* (valid) heartbeats, stored: those of them the table holds afterwards.
HeartbeatBurst(g, ps, stored) ==
    /\ gs # Nil /\ g \in KeySetG(gs)
    /\ fwd' = <<>> /\ UNCHANGED gs
    /\ stored \subseteq ps
    /\ ps \cap Peers(g) \subseteq stored
    /\ LET new == Peers(g) \cup stored
       IN /\ (new # Peers(g)) => Cardinality(new) <= Cap
          /\ (ps \ stored # {}) => Cardinality(new) >= Cap          \* a new peer is refused only at the cap
          /\ hb' = PutG(hb, g, new)

ObsReq(e) ==
    /\ e.kind = "req"
    /\ UNCHANGED <<gs, hb>>
    /\ fwd' = IF Acceptable(e) THEN <<e.req>> ELSE <<>>

---------------------------------------------------------------------------
\* C03: only a message that recovers to the address it claims, claimed by a member of the current
\* set, signed under the verifier's own domain and long enough, changes anything.
OnlyGuardiansChangeStateStep(E) ==
    \A e \in E : ((Heartbeat(e, TRUE) \/ Heartbeat(e, FALSE) \/ ObsReq(e)) /\ (hb' # hb \/ fwd' # <<>>))
                    => Acceptable(e)

CapHolds == \A g \in DOMAIN hb : Cardinality(hb[g]) <= Cap

TableOnlyMembersEver(allSets) == \A g \in DOMAIN hb : \E S \in allSets : g \in KeySetG(S)

\* With the floor, the bytes that are hashed under a prefix are at least 34 long, so they can never be
\* the 32-byte pre-image of a VAA digest (the first Keccak of the body).
FloorSeparatesFromVAADigest ==
    \A k \in {"hb", "req"} : \A n \in 0..64 : PrefixLen(k) + n >= Floor => PrefixLen(k) + n # 32
=============================================================================
