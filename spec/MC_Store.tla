------------------------------ MODULE MC_Store ------------------------------
(* Bounded instance of Store for exhaustive checking.                         *)
(*   C12 configs: every store of at most MaxIds identifiers over              *)
(*     EmPairs x Chains x Seqs (x Tags for overwrites), every query;          *)
(*     refinement lemmas as invariants, agreement of the views on every call. *)
(*   C16 configs: WithCrash = TRUE: Store / Ack / Crash / Reopen / Get.       *)
(*   MC_Store_neg.cfg: Terminated = FALSE, the documented negative config:    *)
(*     TLC refutes ScanSelectsStream / GapIsolated (target 2 selects 25, 255).*)
EXTENDS Store

CONSTANTS Chains,      \* target chain ids
          EmNames,     \* which emitters of EmTable take part
          Seqs, Tags,
          QSets,       \* sequence sets used by batch queries
          MaxIds,      \* at most this many distinct identifiers are ever stored
          WithQueries, WithCrash

\* emitters <<emitter chain, address>>: the governance emitter, the same address on a chain whose rendering extends
\* the governance chain's, another address on the governance chain, and that address on the other chain
EmTable == [a |-> <<1, "g">>, b |-> <<10, "g">>, c |-> <<1, "h">>, d |-> <<10, "h">>]
EmPairs == {EmTable[n] : n \in EmNames}

IdUniverse == {[ec |-> p[1], em |-> p[2], tc |-> c, seq |-> q] : p \in EmPairs, c \in Chains, q \in Seqs}
StreamUniverse == {[ec |-> p[1], em |-> p[2], tc |-> c] : p \in EmPairs, c \in Chains}
VaaUniverse == {[id |-> i, tag |-> t] : i \in IdUniverse, t \in Tags}

ASSUME KeyInjectiveOn(IdUniverse)
ASSUME <<GovChain, GovEm>> \in EmPairs

Strip(g) == [i \in {j \in DOMAIN g : g[j] # Nil} |-> g[i]]
CrashChoices == {Strip(g) : g \in {h \in [DOMAIN written -> Tags \cup {Nil}] : \A i \in DOMAIN written : h[i] \in AllowedAfterCrash(i)}}

MCNext ==
    \/ \E v \in VaaUniverse : (v.id \in DOMAIN written \/ Cardinality(DOMAIN written) < MaxIds) /\ Store(v)
    \/ /\ WithQueries
       /\ \/ \E i \in IdUniverse : Get(i)
          \/ \E st \in StreamUniverse, q \in QSets, t \in Tags :
                /\ Cardinality(DOMAIN written \cup {IdOf(st, x) : x \in q}) <= MaxIds
                /\ StoreRun(st, q, t)
          \/ \E st \in StreamUniverse : Gap(st)
          \/ \E st \in StreamUniverse, failed \in BOOLEAN :
                \E fills \in {{}} \cup {{v} : v \in {x \in VaaUniverse : Stream(x.id) = st}} :
                    /\ \A v \in fills : v.id \in DOMAIN written \/ Cardinality(DOMAIN written) < MaxIds
                    /\ GapBackfill(st, fills, fills, failed)
          \/ \E q \in QSets : GovBatch(q)
          \/ \E st \in StreamUniverse, q \in QSets : NonGovBatch(st, q)
    \/ /\ WithCrash
       /\ \/ \E i \in DOMAIN vaas : vaas[i] \in SetAt(pending, i) /\ Ack(i)
          \/ \E f \in CrashChoices : CrashTo(f)
          \/ Reopen
          \/ OpenBegin
          \/ OpenEnd
          \/ Close
          \/ \E v \in VaaUniverse, a \in BOOLEAN :
                (v.id \in DOMAIN written \/ Cardinality(DOMAIN written) < MaxIds) /\ StoreWhileClosed(v, a)
          \/ \E i \in DOMAIN written : Get(i)

MCSpec == Init /\ [][MCNext]_vars

View == <<vaas, up, opening, acked, pending, written>>

\* ---- C12: the refinement lemmas over the whole universe, in every reachable store
GetExact == GetExactOn(IdUniverse)
ScanSelectsStream == ScanSelectsStreamOn(StreamUniverse) /\ GovScanSelects
GapIsolated == GapIsolatedOn(StreamUniverse)
BatchIsolated == BatchIsolatedOn(StreamUniverse, QSets)
=============================================================================
