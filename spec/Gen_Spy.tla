------------------------------- MODULE Gen_Spy -------------------------------
(* Scenario generator (C20): MC_Spy with a history of the environment's commands, run under `tlc -simulate`. *)
(* The commands (subscribe, publish, stall, resume, disconnect, cancel) are what the harness can script; the  *)
(* interleaving of the server's goroutines is the real scheduler's choice and is validated, not replayed.    *)
EXTENDS MC_Spy, Json

CONSTANT GenDepth
VARIABLES hist, fresh

gvars == <<mcvars, hist, fresh>>

Rec(ev, a) == hist' = Append(hist, [ev |-> ev, a |-> a])

GenInit == MCInit /\ hist = <<>> /\ fresh = FALSE

GenEnv ==
    \/ \E s \in Subs : \E F \in FilterChoices(s) : \E valid \in Validity(s) :
          SubscribeCalled(s, F, valid) /\ UNCHANGED cnt /\ Rec("Subscribe", [s |-> s, f |-> F, valid |-> valid])
    \/ /\ Len(published) < NVaas /\ PublishCalled(VaaSeq[Len(published) + 1]) /\ UNCHANGED cnt
       /\ Rec("Publish", [v |-> VaaSeq[Len(published) + 1]])
    \/ \E s \in Subs : cnt.stall < MaxStall /\ Stall(s) /\ Bump("stall") /\ Rec("Stall", [s |-> s])
    \/ \E s \in Subs : cnt.resume < MaxResume /\ Resume(s) /\ Bump("resume") /\ Rec("Resume", [s |-> s])
    \/ \E s \in Subs : cnt.fail < MaxFail /\ Fail(s) /\ Bump("fail") /\ Rec("Fail", [s |-> s])
    \/ \E s \in Subs : cnt.cancel < MaxCancel /\ Cancel(s) /\ Bump("cancel") /\ Rec("Cancel", [s |-> s])

GenNext == \/ GenEnv /\ fresh' = TRUE
           \/ Server /\ fresh' = FALSE /\ UNCHANGED <<cnt, hist>>

GenSpec == GenInit /\ [][GenNext]_gvars

\* a behaviour is exported when GenDepth commands have been issued (NSubs + NVaas + MaxFaults = all of them)
Emit == (fresh /\ Len(hist) = GenDepth) => PrintT(<<"SCN", ToJson(hist)>>)
=============================================================================
