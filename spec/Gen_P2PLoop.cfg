SPECIFICATION GLSpec
CONSTANTS
  Nil = Nil
  Cap = 2
  MaxSteps = 100
  Self = "g1"
  GenDepth = 12
CHECK_DEADLOCK FALSE
